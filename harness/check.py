#!/venv/bin/python
"""Entry point:  check <ID> --tier quick|thorough [--replay <file>]

For one property: regenerate the tables from /repo, rebuild the Lean library (theorems = proof obligations) and
the model driver, audit the axioms, run the property's correspondence + spec-judged streams against the
implementation in /repo, write evidence/<ID>.json, and report per the interface:
  exit 0                      property held on everything explored (KNOWN-FINDING lines for listed findings)
  exit 1 + VIOLATION line     a violation not listed in known_findings.json (with a replay file), or a broken
                              proof/correspondence with no failing input found (line ends no-failing-input-found)
  exit 2                      infrastructure failure / timeout (never a verdict)
"""
import argparse, importlib, json, os, random, sys, time, traceback

sys.path.insert(0, os.path.dirname(os.path.abspath(__file__)))
import common as C


class Ctx:
    def __init__(self, prop, tier, seed):
        self.prop = prop
        self.tier = tier
        self.seed = seed
        self.rng = random.Random(seed)
        self.driver = None
        self.proof_ok = False
        self.notes = []
        self.t0 = time.time()

    @property
    def quick(self):
        return self.tier == 'quick'

    def log(self, msg):
        print(f'[{self.prop} {time.time() - self.t0:6.1f}s] {msg}', flush=True)


def main():
    ap = argparse.ArgumentParser()
    ap.add_argument('prop')
    ap.add_argument('--tier', default=os.environ.get('VERIF_TIER', 'quick'), choices=['quick', 'thorough'])
    ap.add_argument('--replay', default=None)
    args = ap.parse_args()
    prop = args.prop.upper()
    seed = int(os.environ.get('VERIF_SEED', '20260929'))
    ctx = Ctx(prop, args.tier, seed)
    try:
        mod = importlib.import_module(f'streams.{prop.lower()}')
    except ModuleNotFoundError:
        print(f'no check for property {prop}', file=sys.stderr)
        return 2
    sys.path.insert(0, os.path.join(C.REPO, 'src'))

    # ---- 1. translator + proofs ------------------------------------------------------------------------
    broken = []          # names of obligations / streams that no longer check
    with C.Lock():
        ok, out = C.extract_tables()
        if not ok:
            ctx.log('table extraction failed:\n' + out[-3000:])
            broken.append({'what': 'table extraction (harness/extract_tables.py) failed on the current tree', 'log': out[-3000:]})
        ok_drv, out_drv = C.lake_build(['hplmodel'])
        if not ok_drv:
            ctx.log('driver build failed:\n' + out_drv[-3000:])
            broken.append({'what': 'model driver no longer builds against the generated tables', 'log': out_drv[-3000:]})
        targets = [C.module_name(m) for m in mod.PROPS_MODULES]
        ok_props, out_props = C.lake_build(targets)
        names, okn, bad, audit_log = [], [], {}, ''
        if ok_props:
            names, okn, bad, audit_log = C.audit(prop, mod.PROPS_MODULES)
        else:
            import re
            failing = sorted(set(re.findall(r'error: (Hpl/[^:]+:\d+:\d+: [^\n]*)', out_props)))
            ctx.log('proof build failed:\n' + '\n'.join(failing[:20]))
            broken.append({'what': 'proof obligations no longer check: lake build ' + ' '.join(targets), 'errors': failing[:40]})
            for m in mod.PROPS_MODULES:
                names += C.theorem_names(C.module_path(m))
        forb = C.forbidden_scan()
        rechecked = None
        if ok_props and args.tier == 'thorough':
            ok_lc, out_lc = C.leanchecker(targets)
            rechecked = ok_lc
            if not ok_lc:
                broken.append({'what': 'leanchecker rejects the compiled proof modules ' + ' '.join(targets), 'log': out_lc[-2000:]})
    if bad:
        broken.append({'what': 'axiom audit failed', 'theorems': bad})
    if forb:
        broken.append({'what': 'forbidden construct in Lean sources', 'hits': forb[:20]})
    ctx.proof_ok = ok_props and not bad and not forb
    ctx.log(f'obligations={len(names)} discharged={len(okn)} proof_ok={ctx.proof_ok} driver_ok={ok_drv}')
    if ok_drv:
        ctx.driver = C.Driver()

    # ---- 2. replay mode --------------------------------------------------------------------------------
    if args.replay:
        with open(args.replay, encoding='utf8') as f:
            payload = json.load(f)
        still = mod.replay(ctx, payload)
        if still is None:
            # generic replay: regenerate the run the file came from (same seed and tier; every random choice of a stream
            # derives from that one PRNG) and look for the recorded input / signature among what it reports now
            rctx = Ctx(prop, payload.get('tier', args.tier), int(payload.get('seed', seed)))
            rctx.driver, rctx.proof_ok = ctx.driver, ctx.proof_ok
            res = mod.run(rctx)
            if payload.get('kind') == 'unproved':
                if res.get('disagreements') or broken:
                    still = {'no_longer_checks': broken, 'first_disagreements': res.get('disagreements', [])[:3]}
                elif res.get('violations'):
                    still = res['violations'][0]
            else:
                same = [v for v in res.get('violations', []) if v.get('input') == payload.get('input')]
                if not same:
                    same = [v for v in res.get('violations', []) if v.get('signature') == payload.get('signature')]
                if same:
                    still = same[0]
        if still:
            print(f'VIOLATION property={prop} replay={args.replay}')
            print(json.dumps(still, default=str)[:2000])
            return 1
        print(f'replay {args.replay}: property holds on this input now')
        return 0

    # ---- 3. streams ------------------------------------------------------------------------------------
    res = mod.run(ctx)
    violations = res.get('violations', [])
    disagreements = res.get('disagreements', [])
    known = C.load_known_findings(prop)
    new_violations, known_hits = [], {}
    for v in violations:
        hit = None
        for k in known:
            if mod.matches_known(v, k):
                hit = k
                break
        if hit is None:
            new_violations.append(v)
        else:
            known_hits.setdefault(hit['id'], (hit, []))[1].append(v)

    # ---- 4. verdict ------------------------------------------------------------------------------------
    rc = 0
    lines = []
    for kid, (k, vs) in sorted(known_hits.items()):
        lines.append(f"KNOWN-FINDING: property={prop} {kid}: {k['what']} (e.g. {json.dumps(vs[0].get('input'), default=str)[:160]}; {len(vs)} hit(s) this run)")
    if new_violations:
        v = new_violations[0]
        path = C.write_replay(prop, {'property': prop, 'kind': 'violation', 'seed': seed, 'tier': args.tier, **v,
                                     'replay_cmd': f'./check {prop} --replay <this file>'})
        lines.append(f'VIOLATION property={prop} replay={path}')
        rc = 1
    elif disagreements or broken:
        payload = {'property': prop, 'kind': 'unproved', 'seed': seed, 'tier': args.tier,
                   'no_longer_checks': broken + ([{'what': f'correspondence stream {prop} (implementation vs Lean model)',
                                                    'first_disagreements': disagreements[:5]}] if disagreements else []),
                   'searched': res.get('rule', ''), 'evaluations': res.get('evaluations', 0)}
        path = C.write_replay(prop, payload)
        lines.append(f'VIOLATION property={prop} replay={path} no-failing-input-found')
        rc = 1

    # ---- 5. evidence -----------------------------------------------------------------------------------
    cov = {
        'obligations': max(1, len(names)),
        'discharged': len(okn),
        'checker_cmd': f"cd lean && lake build {' '.join(targets)} hplmodel && lake env lean .lake/audit/{prop}.lean  (via ./check {prop} --tier {args.tier})",
        'trusted_base': C.TRUSTED_BASE + list(getattr(mod, 'TRUSTED_EXTRA', [])),
        'theorems': okn,
        'theorems_not_checked': bad,
        'leanchecker_recheck': rechecked,
        'evaluations': int(res.get('evaluations', 0)),
        'distinct_nontrivial': int(res.get('distinct_nontrivial', 0)),
        'rule': res.get('rule', ''),
        'samples': res.get('samples', [])[:12],
        'exhaustive': bool(res.get('exhaustive', False)),
        'disagreements_impl_vs_model': len(disagreements),
        'violations_impl_vs_spec': len(violations),
        'known_finding_hits': {k: len(v[1]) for k, v in known_hits.items()},
        'broken': broken,
    }
    for k, v in res.get('coverage_extra', {}).items():
        cov[k] = v
    C.write_evidence(prop, args.tier, seed, cov, time.time() - ctx.t0, len(new_violations),
                     assumptions=list(getattr(mod, 'ASSUMPTIONS', [])))
    for l in lines:
        print(l)
    ctx.log(f'done rc={rc} evaluations={cov["evaluations"]} distinct={cov["distinct_nontrivial"]} '
            f'disagreements={len(disagreements)} violations={len(violations)} known={sum(len(v[1]) for v in known_hits.values())}')
    return rc


if __name__ == '__main__':
    try:
        sys.exit(main())
    except SystemExit:
        raise
    except BaseException:
        traceback.print_exc()
        sys.exit(2)
