"""Injector of definite type clashes (C05; also feeds C03): Raw predicates that must be rejected with a TypeError.
  (1) one reference demanded at two disjoint types, optionally with wide (PRIMITIVE) occurrences before / between /
      after the two narrow ones;
  (2) a literal or operator/function result of the wrong type in an argument position of an operator, function, range
      bound, set element, quantifier domain/condition, field access or index;
  (3) a non-boolean root where a predicate is expected."""
from gen import Gen, BOOL, NUM, STR, int_lit, str_lit, TRUE

LIT = {'num': int_lit(3), 'bool': TRUE, 'str': str_lit('s')}


def _ref(rng, name):
    r = rng.random()
    if r < 0.6:
        return ('field', ('this',), name)
    if r < 0.8:
        return ('field', ('var', 'A'), name)
    return ('field', ('field', ('this',), 'm'), name)


def narrow_ctx(rng, t, u):
    """a boolean Raw in which reference `u` is demanded at type t"""
    if t == 'num':
        return rng.choice([
            lambda: ('bin', '>', u, int_lit(0)),
            lambda: ('bin', '=', ('bin', '+', u, int_lit(1)), int_lit(2)),
            lambda: ('bin', '=', ('call', 'abs', [u]), int_lit(1)),
            lambda: ('bin', '=', ('index', ('field', ('this',), 'xs'), u), int_lit(1)),
            lambda: ('bin', 'in', int_lit(1), ('range', u, int_lit(5), False, False)),
            lambda: ('bin', '<=', ('un', '-', u), int_lit(2)),
            # every single-overload numeric function narrows its argument to a number
            lambda: ('bin', '<', ('call', rng.choice(['sqrt', 'ceil', 'floor', 'sin', 'cos', 'tan', 'asin', 'acos', 'atan', 'deg', 'rad']), [u]), int_lit(2)),
        ])()
    if t == 'bool':
        return rng.choice([
            lambda: u,
            lambda: ('un', 'not', u),
            lambda: ('bin', 'or', u, ('field', ('this',), 'b')),
            lambda: ('bin', 'implies', ('field', ('this',), 'c'), u),
        ])()
    if t == 'str':
        return rng.choice([
            lambda: ('bin', '=', u, str_lit('s')),
            lambda: ('bin', '!=', str_lit('a'), u),
        ])()
    if t == 'arr':
        return rng.choice([
            lambda: ('bin', '=', ('call', 'len', [u]), int_lit(1)),
            lambda: ('bin', 'in', int_lit(1), u),
            lambda: ('bin', '=', ('index', u, int_lit(0)), int_lit(1)),
            lambda: ('quant', 'all', 'kk', u, ('bin', '>', ('var', 'kk'), int_lit(0))),
            # aggregates, including the overloaded ones (collection | two or more numbers): a reference can only be an array
            lambda: ('bin', '>', ('call', rng.choice(['sum', 'prod', 'max', 'min', 'gcd']), [u]), int_lit(1)),
        ])()
    if t == 'msg':
        return rng.choice([
            lambda: ('bin', '=', ('field', u, 'f'), int_lit(1)),
            # the overloaded quaternion projections (message | four numbers)
            lambda: ('bin', '>', ('call', rng.choice(['roll', 'pitch', 'yaw']), [u]), int_lit(1)),
        ])()
    raise ValueError(t)


def wide_ctx(rng, u, n):
    """a boolean Raw in which `u` is only demanded to be primitive"""
    other = ('field', ('this',), f'w{n}')
    return rng.choice([
        lambda: ('bin', '=', u, other),
        lambda: ('bin', '!=', other, u),
        lambda: ('bin', 'in', u, ('field', ('this',), f'ws{n}')),
        lambda: ('call', 'bool', [u]),
        lambda: ('bin', 'in', other, ('set', [u, other])),
    ])()


def join_all(rng, parts):
    e = parts[0]
    for p in parts[1:]:
        op = rng.choice(['and', 'and', 'or', 'implies', 'iff'])
        e = ('bin', op, e, p) if rng.random() < 0.7 else ('bin', op, p, e)
    return e


def ref_clash(rng):
    """(raw, tag): one reference at two disjoint types"""
    name = rng.choice(['u', 'v', 'q'])
    u = _ref(rng, name)
    t1, t2 = rng.sample(['num', 'bool', 'str', 'arr', 'msg'], 2)
    prim = {'num', 'bool', 'str'}
    parts = []
    n_before = rng.choice([0, 0, 1])
    n_between = rng.choice([0, 1, 1, 2]) if (t1 in prim and t2 in prim) else 0
    n_after = rng.choice([0, 0, 1])
    k = 0
    for _ in range(n_before if t1 in prim and t2 in prim else 0):
        parts.append(wide_ctx(rng, u, k)); k += 1
    parts.append(narrow_ctx(rng, t1, u))
    for _ in range(n_between):
        parts.append(wide_ctx(rng, u, k)); k += 1
    parts.append(narrow_ctx(rng, t2, u))
    for _ in range(n_after if t1 in prim and t2 in prim else 0):
        parts.append(wide_ctx(rng, u, k)); k += 1
    # keep the order (the interesting shape is narrow, wide.., narrow in iteration order): left-nested conjunction
    e = parts[0]
    for p in parts[1:]:
        e = ('bin', rng.choice(['and', 'and', 'or']), e, p)
    if rng.random() < 0.3:
        e = ('bin', 'and', Gen(rng, max_depth=2, var_pool=['n1', 'n2', 'n3']).expr(BOOL), e)
    return e, f'ref-clash:{t1}/{t2}:wide={n_between}'


def position_clash(rng):
    """(raw, tag): a literal or operator/function result of the wrong type in an argument position"""
    g = Gen(rng, max_depth=2, var_pool=['n1', 'n2', 'n3'])
    wrong_for_num = [TRUE, str_lit('s'), ('bin', '>', int_lit(1), int_lit(0)), ('call', 'str', [int_lit(1)]), ('set', [int_lit(1)])]
    wrong_for_bool = [int_lit(1), str_lit('s'), ('bin', '+', int_lit(1), int_lit(2)), ('call', 'len', [('field', ('this',), 'xs')]), ('range', int_lit(0), int_lit(1), False, False)]
    wrong_for_compound = [int_lit(1), TRUE, str_lit('abc'), ('bin', '+', int_lit(1), int_lit(2))]
    wrong_for_prim = [('set', [int_lit(1)]), ('range', int_lit(0), int_lit(1), False, False)]
    x = ('field', ('this',), 'x')
    b = ('field', ('this',), 'b')
    choices = [
        ('arith-operand', lambda w: ('bin', '>', ('bin', rng.choice(['+', '-', '*', '/', '**']), x, w), int_lit(0)), wrong_for_num),
        ('arith-operand-left', lambda w: ('bin', '>', ('bin', rng.choice(['+', '-', '*', '/', '**']), w, x), int_lit(0)), wrong_for_num),
        ('relational-operand', lambda w: ('bin', rng.choice(['<', '<=', '>', '>=']), x, w), wrong_for_num),
        ('minus-operand', lambda w: ('bin', '=', ('un', '-', w), int_lit(1)), wrong_for_num),
        ('logic-operand', lambda w: ('bin', rng.choice(['and', 'or', 'implies', 'iff']), b, w), wrong_for_bool),
        ('logic-operand-left', lambda w: ('bin', rng.choice(['and', 'or', 'implies', 'iff']), w, b), wrong_for_bool),
        ('not-operand', lambda w: ('un', 'not', w), wrong_for_bool),
        ('function-argument', lambda w: ('bin', '=', ('call', rng.choice(['abs', 'sqrt', 'ceil', 'floor', 'sin']), [w]), int_lit(1)), wrong_for_num),
        ('aggregate-argument', lambda w: ('bin', '=', ('call', rng.choice(['len', 'sum', 'prod', 'max', 'min']), [w]), int_lit(1)), wrong_for_compound),
        ('conversion-argument', lambda w: ('bin', '=', ('call', rng.choice(['int', 'float']), [w]), int_lit(1)), wrong_for_prim),
        ('range-bound', lambda w: ('bin', 'in', x, ('range', w, int_lit(9), False, False)), wrong_for_num),
        ('range-bound-hi', lambda w: ('bin', 'in', x, ('range', int_lit(0), w, False, True)), wrong_for_num),
        ('set-element', lambda w: ('bin', 'in', x, ('set', [int_lit(1), w])), wrong_for_prim),
        ('in-right', lambda w: ('bin', 'in', x, w), [int_lit(1), TRUE, str_lit('abc')]),
        ('in-left', lambda w: ('bin', 'in', w, ('field', ('this',), 'xs')), wrong_for_prim),
        ('quantifier-domain', lambda w: ('quant', rng.choice(['all', 'some']), 'kk', w, ('bin', '>', ('var', 'kk'), int_lit(0))), [int_lit(1), TRUE, str_lit('abc')]),
        ('quantifier-condition', lambda w: ('quant', 'all', 'kk', ('field', ('this',), 'xs'), ('bin', '+', ('var', 'kk'), w)), [int_lit(1)]),
        ('quantifier-variable', lambda w: ('quant', 'all', 'kk', ('set', [int_lit(1), int_lit(2)]), ('bin', 'and', ('var', 'kk'), b)), [None]),
        ('quantifier-variable-range', lambda w: ('quant', 'some', 'kk', ('range', int_lit(0), int_lit(3), False, False), ('bin', '=', ('var', 'kk'), str_lit('a'))), [None]),
        ('field-of-non-message', lambda w: ('bin', '=', ('field', w, 'f'), int_lit(1)), [('index', ('field', ('this',), 'xs'), int_lit(0))] if False else [None]),
        ('index-not-number', lambda w: ('bin', '=', ('index', ('field', ('this',), 'xs'), w), int_lit(1)), [TRUE, str_lit('s'), ('bin', '>', int_lit(1), int_lit(0))]),
        ('equality-literals', lambda w: ('bin', rng.choice(['=', '!=']), int_lit(1), w), [TRUE, str_lit('1')]),
        ('equality-results', lambda w: ('bin', rng.choice(['=', '!=']), ('bin', '+', x, int_lit(1)), w), [('bin', '>', x, int_lit(0)), ('call', 'str', [x]), ('un', 'not', b)]),
        ('root-not-bool', lambda w: w, [int_lit(1), str_lit('s'), ('bin', '+', x, int_lit(1)), ('call', 'len', [('field', ('this',), 'xs')]), ('set', [x]), ('un', '-', x)]),
    ]
    while True:
        tag, mk, wrongs = rng.choice(choices)
        w = rng.choice(wrongs)
        if tag == 'field-of-non-message':
            # a field of an operator result cannot be written in the grammar; use an index result narrowed to number
            e = ('bin', 'and', ('bin', '>', ('index', ('field', ('this',), 'xs'), int_lit(0)), int_lit(1)),
                 ('bin', '=', ('field', ('index', ('field', ('this',), 'xs'), int_lit(0)), 'f'), int_lit(1)))
            return e, 'ref-clash:index-num/msg'
        e = mk(w)
        if tag != 'root-not-bool' and rng.random() < 0.4:
            e = ('bin', rng.choice(['and', 'or']), g.expr(BOOL), e) if rng.random() < 0.5 else ('bin', 'and', e, g.expr(BOOL))
        return e, 'position:' + tag


def inject(rng):
    return ref_clash(rng) if rng.random() < 0.5 else position_clash(rng)


def bool_positions(r, path=()):
    """paths to the boolean argument positions of a Raw boolean term (root, operands of connectives, quantifier conditions)"""
    out = [path]
    k = r[0]
    if k == 'bin' and r[1] in ('and', 'or', 'implies', 'iff'):
        out += bool_positions(r[2], path + (2,)) + bool_positions(r[3], path + (3,))
    elif k == 'un' and r[1] == 'not':
        out += bool_positions(r[2], path + (2,))
    elif k == 'quant':
        out += bool_positions(r[4], path + (4,))
    return out


def _replace(r, path, f):
    if not path:
        return f(r)
    i = path[0]
    return r[:i] + (_replace(r[i], path[1:], f),) + r[i + 1:]


def embed(rng, host, clash):
    """the well-typed boolean `host` with `clash` joined to the sub-term at one of its boolean positions (at any depth)"""
    path = rng.choice(bool_positions(host))
    op = rng.choice(['and', 'and', 'or', 'implies', 'iff'])
    return _replace(host, path, lambda t: ('bin', op, t, clash) if rng.random() < 0.5 else ('bin', op, clash, t)), len(path)
