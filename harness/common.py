"""Shared machinery of the checks: paths, Lean build (under a file lock), axiom audit, the model driver pipe,
evidence / replay writers, known findings."""
import fcntl, hashlib, json, os, random, re, subprocess, sys, time

VERIF = os.path.dirname(os.path.dirname(os.path.abspath(__file__)))
REPO = os.environ.get('HPL_REPO', '/repo')
LEAN_DIR = os.path.join(VERIF, 'lean')
DRIVER = os.path.join(LEAN_DIR, '.lake', 'build', 'bin', 'hplmodel')
EVIDENCE_DIR = os.path.join(VERIF, 'evidence')
REPLAY_DIR = os.path.join(VERIF, 'replays')
CORPUS_DIR = os.path.join(VERIF, 'corpus')
KNOWN_FINDINGS = os.path.join(VERIF, 'known_findings.json')
PY = '/venv/bin/python'
ALLOWED_AXIOMS = {'propext', 'Classical.choice', 'Quot.sound'}
FORBIDDEN = re.compile(r'\bsorry\b|\badmit\b|^\s*axiom\s|native_decide|bv_decide|implemented_by|\bunsafe\s|maxHeartbeats\s+0')

TRUSTED_BASE = [
    'Lean 4.33.0 kernel (lake build of lean/Hpl; thorough tier re-checks the .olean files with leanchecker)',
    'axioms: property theorems may depend only on propext, Classical.choice, Quot.sound (audited with #print axioms on every run); no native_decide/bv_decide/sorry/user axioms',
    'translator: harness/extract_tables.py (imports /repo/src/hpl and prints its data objects as Lean tables)',
    'correspondence: harness/streams/*.py + the S-expression codec on both sides + the canonicaliser (differential testing; generator quality bounds what it sees)',
    'spec definitions under lean/Hpl/Spec and the property statements in lean/Hpl/Props (the meaning given to the English properties)',
    'modelled, not verified: Lark engine, attrs construction protocol, typeguard, CPython int/float/str/math, argparse, file IO, process exit',
]


def _clean(s: str) -> str:
    return '\n'.join(l for l in s.splitlines() if 'conda.cli.condarc' not in l)


def sh(cmd, cwd=None, timeout=None, env=None):
    p = subprocess.run(cmd, cwd=cwd, stdout=subprocess.PIPE, stderr=subprocess.STDOUT, text=True, timeout=timeout, env=env)
    return p.returncode, _clean(p.stdout)


class Lock:
    def __init__(self):
        os.makedirs(os.path.join(LEAN_DIR, '.lake'), exist_ok=True)
        self.path = os.path.join(LEAN_DIR, '.lake', 'verif.lock')

    def __enter__(self):
        self.f = open(self.path, 'w')
        fcntl.flock(self.f, fcntl.LOCK_EX)
        return self

    def __exit__(self, *a):
        fcntl.flock(self.f, fcntl.LOCK_UN)
        self.f.close()


def extract_tables():
    """regenerate lean/Hpl/Generated/*.lean from /repo's working tree (in a fresh interpreter)"""
    dest = os.path.join(LEAN_DIR, 'Hpl', 'Generated', 'Tables.lean')
    rc, out = sh([PY, os.path.join(VERIF, 'harness', 'extract_tables.py'), dest])
    return rc == 0, out


def lake_build(targets):
    rc, out = sh(['lake', 'build'] + list(targets), cwd=LEAN_DIR, timeout=3000)
    return rc == 0, out


def leanchecker(modules):
    """independent re-check of the compiled .olean files of the given modules (thorough tier)"""
    rc, out = sh(['lake', 'env', 'leanchecker'] + list(modules), cwd=LEAN_DIR, timeout=3000)
    return rc == 0, out


def strip_comments(text: str) -> str:
    # remove /- ... -/ (nested not needed) and -- comments
    text = re.sub(r'/-.*?-/', '', text, flags=re.S)
    text = re.sub(r'--.*', '', text)
    return text


def forbidden_scan():
    """grep the Lean sources for constructs the trusted base excludes"""
    hits = []
    for root, _dirs, files in os.walk(os.path.join(LEAN_DIR, 'Hpl')):
        for fn in files:
            if fn.endswith('.lean'):
                p = os.path.join(root, fn)
                with open(p, encoding='utf8') as f:
                    body = strip_comments(f.read())
                for i, line in enumerate(body.splitlines(), 1):
                    if FORBIDDEN.search(line):
                        hits.append(f'{os.path.relpath(p, LEAN_DIR)}:{i}: {line.strip()}')
    return hits


def theorem_names(props_file: str):
    """fully qualified names of the theorems declared in a Props file (namespace tracking by indentation-free scan)"""
    with open(props_file, encoding='utf8') as f:
        body = strip_comments(f.read())
    ns = []
    names = []
    for line in body.splitlines():
        m = re.match(r'\s*namespace\s+(\S+)', line)
        if m:
            ns.append(m.group(1))
            continue
        m = re.match(r'\s*end\s+(\S+)\s*$', line)
        if m and ns and ns[-1] == m.group(1):
            ns.pop()
            continue
        m = re.match(r'\s*(?:private\s+|protected\s+)?theorem\s+(\S+)', line)
        if m:
            names.append('.'.join(ns + [m.group(1)]))
    return names


def module_name(m: str) -> str:
    return m if m.startswith('Hpl.') else f'Hpl.Props.{m}'


def module_path(m: str) -> str:
    return os.path.join(LEAN_DIR, *module_name(m).split('.')) + '.lean'


def audit(prop_id: str, modules=None):
    """#print axioms on every theorem of Hpl/Props/<id>.lean; returns (obligations, discharged, report)"""
    modules = [module_name(m) for m in (modules or [prop_id])]
    names = []
    for m in modules:
        names += theorem_names(module_path(m))
    os.makedirs(os.path.join(LEAN_DIR, '.lake', 'audit'), exist_ok=True)
    path = os.path.join(LEAN_DIR, '.lake', 'audit', f'{prop_id}.lean')
    with open(path, 'w', encoding='utf8') as f:
        for m in modules:
            f.write(f'import {m}\n')
        for n in names:
            f.write(f'#print axioms {n}\n')
    rc, out = sh(['lake', 'env', 'lean', path], cwd=LEAN_DIR, timeout=1200)
    report = {}
    flat = out.replace('\n ', ' ')
    for line in flat.splitlines():
        line = line.strip()
        m = re.match(r"^'(.+)' depends on axioms: \[([^\]]*)\]", line)
        if m:
            report[m.group(1)] = [a.strip() for a in m.group(2).split(',') if a.strip()]
            continue
        m = re.match(r"^'(.+)' does not depend on any axioms", line)
        if m:
            report[m.group(1)] = []
    bad = {}
    ok = []
    for n in names:
        if n not in report:
            bad[n] = 'not checked (missing from audit output)'
        elif not set(report[n]) <= ALLOWED_AXIOMS:
            bad[n] = 'forbidden axioms: ' + ', '.join(sorted(set(report[n]) - ALLOWED_AXIOMS))
        else:
            ok.append(n)
    return names, ok, bad, out if rc != 0 else ''


class Driver:
    """batch pipe to the compiled model driver: many request lines in, the same number of answer lines out"""

    def __init__(self):
        if not os.path.exists(DRIVER):
            raise RuntimeError('model driver not built: ' + DRIVER)

    def run(self, lines, timeout=3000):
        if not lines:
            return []
        data = '\n'.join(lines) + '\n'
        p = subprocess.run([DRIVER], input=data, stdout=subprocess.PIPE, stderr=subprocess.PIPE, text=True, timeout=timeout)
        out = [l for l in p.stdout.split('\n')]
        if out and out[-1] == '':
            out.pop()
        if p.returncode != 0 or len(out) != len(lines):
            raise RuntimeError(f'driver failed rc={p.returncode} answered {len(out)}/{len(lines)}: {p.stderr[-2000:]}')
        return out

    def run_parallel(self, lines, jobs=16, timeout=3000):
        from concurrent.futures import ThreadPoolExecutor
        if len(lines) < 2000:
            return self.run(lines, timeout)
        n = (len(lines) + jobs - 1) // jobs
        chunks = [lines[i:i + n] for i in range(0, len(lines), n)]
        with ThreadPoolExecutor(max_workers=jobs) as ex:
            res = list(ex.map(lambda c: self.run(c, timeout), chunks))
        return [l for r in res for l in r]


def load_known_findings(prop_id):
    if not os.path.exists(KNOWN_FINDINGS):
        return []
    with open(KNOWN_FINDINGS, encoding='utf8') as f:
        data = json.load(f)
    return [e for e in data.get('findings', []) if e.get('property') == prop_id and e.get('status') == 'finding']


def write_replay(prop_id, payload):
    os.makedirs(REPLAY_DIR, exist_ok=True)
    blob = json.dumps(payload, sort_keys=True, default=str)
    h = hashlib.sha1(blob.encode()).hexdigest()[:12]
    path = os.path.join(REPLAY_DIR, f'{prop_id}-{h}.json')
    with open(path, 'w', encoding='utf8') as f:
        json.dump(payload, f, indent=1, sort_keys=True, default=str)
    return os.path.relpath(path, VERIF)


def write_evidence(prop_id, tier, seed, coverage, wall_s, violations, assumptions=None, extra=None):
    os.makedirs(EVIDENCE_DIR, exist_ok=True)
    ev = {
        'property_id': prop_id,
        'tier': tier,
        'seed': int(seed),
        'level': 'proof',
        'coverage': coverage,
        'assumptions': assumptions or [],
        'wall_s': round(wall_s, 2),
        'violations': int(violations),
    }
    if extra:
        ev.update(extra)
    path = os.path.join(EVIDENCE_DIR, f'{prop_id}.json')
    tmp = path + '.tmp'
    with open(tmp, 'w', encoding='utf8') as f:
        json.dump(ev, f, indent=1, default=str)
    os.replace(tmp, path)
    return path
