"""AST dumper: hpl.ast objects -> wire S-expressions (python lists; see DESIGN Appendix D), and canonicalisation
of wire values before comparison (float literals are compared by value, not by token)."""
import math
from fractions import Fraction
from sexp import Sym, dumps

S = Sym


def dump_value(v):
    if v is True or v is False:
        return [S('b'), 1 if v else 0]
    if isinstance(v, int):
        return [S('i'), int(v)]
    if isinstance(v, float):
        if math.isnan(v):
            return [S('nan')]
        if math.isinf(v):
            return [S('inf')] if v > 0 else [S('ninf')]
        # the decimal value of the shortest round-trip representation (what the token says), not the binary expansion:
        # the model computes in exact rationals and Python prints shortest representations
        f = Fraction(repr(v))
        return [S('f'), f.numerator, f.denominator]
    if isinstance(v, str):
        return [S('s'), str(v)]
    if isinstance(v, complex):
        return [S('complex')]
    raise TypeError(f'unexpected literal value {v!r}')


def ty(e):
    return int(e.data_type.value)


def dump_expr(e):
    from hpl.ast import expressions as X
    if isinstance(e, X.HplLiteral):
        return [S('lit'), ty(e), str(e.token), dump_value(e.value)]
    if isinstance(e, X.HplThisMessage):
        return [S('this'), ty(e)]
    if isinstance(e, X.HplVarReference):
        tok = str(e.token)
        return [S('var'), ty(e), tok[1:]]
    if isinstance(e, X.HplSet):
        return [S('set'), ty(e)] + [dump_expr(v) for v in e.values]
    if isinstance(e, X.HplRange):
        return [S('range'), ty(e), dump_expr(e.min_value), dump_expr(e.max_value), bool(e.exclude_min), bool(e.exclude_max)]
    if isinstance(e, X.HplQuantifier):
        q = 'all' if e.quantifier is X.QuantifierType.ALL else 'some'
        return [S('quant'), ty(e), S(q), str(e.variable), dump_expr(e.domain), dump_expr(e.condition)]
    if isinstance(e, X.HplUnaryOperator):
        return [S('un'), ty(e), str(e.operator.token), dump_expr(e.operand)]
    if isinstance(e, X.HplBinaryOperator):
        return [S('bin'), ty(e), str(e.operator.token), dump_expr(e.operand1), dump_expr(e.operand2)]
    if isinstance(e, X.HplFunctionCall):
        return [S('call'), ty(e), str(e.function.name)] + [dump_expr(a) for a in e.arguments]
    if isinstance(e, X.HplFieldAccess):
        return [S('field'), ty(e), dump_expr(e.message), str(e.field)]
    if isinstance(e, X.HplArrayAccess):
        return [S('index'), ty(e), dump_expr(e.array), dump_expr(e.index)]
    raise TypeError(f'unexpected expression {type(e).__name__}')


def dump_pred(p):
    from hpl.ast import predicates as P
    if isinstance(p, P.HplVacuousTruth):
        return [S('vtrue')]
    if isinstance(p, P.HplContradiction):
        return [S('vfalse')]
    if isinstance(p, P.HplPredicateExpression):
        return [S('pred'), dump_expr(p.expression)]
    raise TypeError(f'unexpected predicate {type(p).__name__}')


def dump_event(e):
    from hpl.ast import events as E
    if isinstance(e, E.HplSimpleEvent):
        return [S('ev'), str(e.name), (str(e.alias) if e.alias is not None else S('_')), dump_pred(e.predicate)]
    if isinstance(e, E.HplEventDisjunction):
        return [S('or'), dump_event(e.event1), dump_event(e.event2)]
    raise TypeError(f'unexpected event {type(e).__name__}')


def dump_opt_event(e):
    return S('_') if e is None else dump_event(e)


def dump_time(t):
    t = float(t)
    if math.isinf(t) and t > 0:
        return S('inf')
    f = Fraction(repr(t))      # decimal value of the shortest round-trip representation
    return [S('q'), f.numerator, f.denominator]


SCOPE_NAMES = {'GLOBAL': 'global', 'AFTER_UNTIL': 'after_until', 'AFTER': 'after', 'UNTIL': 'until'}


def dump_scope(s):
    return [S('scope'), S(SCOPE_NAMES[s.scope_type.name]), dump_opt_event(s.activator), dump_opt_event(s.terminator)]


def dump_pattern(p):
    return [S('pat'), S(p.pattern_type.name.lower()), dump_event(p.behaviour), dump_opt_event(p.trigger),
            dump_time(p.min_time), dump_time(p.max_time)]


def dump_meta(md):
    return [S('meta')] + [[str(k), str(v)] for k, v in md.items()]


def dump_property(p):
    return [S('prop'), dump_scope(p.scope), dump_pattern(p.pattern), dump_meta(p.metadata)]


def dump_spec(s):
    return [S('spec')] + [dump_property(p) for p in s.properties]


def dump_any(x):
    from hpl.ast.base import HplAstObject
    if x.is_expression:
        return dump_expr(x)
    if x.is_predicate:
        return dump_pred(x)
    if x.is_event:
        return dump_event(x)
    if x.is_property:
        return dump_property(x)
    if x.is_scope:
        return dump_scope(x)
    if x.is_pattern:
        return dump_pattern(x)
    if x.is_specification:
        return dump_spec(x)
    raise TypeError(type(x).__name__)


ERR_CLASSES = None


def classify_exception(e):
    """exceptions -> the small enum of the wire protocol"""
    from hpl.errors import HplSanityError, HplSyntaxError
    if isinstance(e, HplSyntaxError):
        return 'syntax'
    if isinstance(e, HplSanityError):
        return 'sanity'
    if isinstance(e, ZeroDivisionError):
        return 'zerodiv'
    name = type(e).__name__
    if name == 'TypeCheckError':          # typeguard
        return 'internal:TypeCheckError'
    if isinstance(e, TypeError):
        return 'type'
    if isinstance(e, IndexError):
        return 'index'
    if isinstance(e, KeyError):
        return 'key'
    if isinstance(e, ValueError):
        return 'value'
    return 'internal:' + name


def canon(x):
    """canonical form of a wire value for comparison: float literals by value (12 significant digits), token ignored"""
    if isinstance(x, list):
        if len(x) == 4 and x[0] == 'lit' and isinstance(x[3], list) and x[3] and x[3][0] == 'f':
            n, d = int(x[3][1]), int(x[3][2])
            return [S('lit'), x[1], '<float>', [S('f'), '%.11e' % (n / d)]]
        if len(x) == 3 and x[0] == 'lit' and isinstance(x[2], list) and x[2] and x[2][0] == 'f':
            n, d = int(x[2][1]), int(x[2][2])
            return [S('lit'), '<float>', [S('f'), '%.11e' % (n / d)]]
        if len(x) in (3, 4) and x[0] == 'lit' and isinstance(x[-1], list) and len(x[-1]) == 2 and x[-1][0] == 's' \
                and x[-1][1] == '-0.0':
            # `str()` of an IEEE negative zero (`str(-0.0)`, `str(0.0 * -1)`): the model's numbers are rationals and have
            # one zero (DESIGN 4, "modelled, not verified": floating point); compared as the string of zero
            return list(x[:-2]) + ['0.0', [S('s'), '0.0']]
        if len(x) == 3 and x[0] == 'q':
            # time bounds: exact when the decimal is short (an amount of s, or of ms that Python's correctly rounded
            # division by 1000.0 represents by the same shortest decimal); a value that needs 16-17 digits (one ulp off)
            # then shows as a different, approximate form
            n, d = int(x[1]), int(x[2])
            digits = len(str(abs(n)).rstrip('0')) if d != 0 else 99
            if d != 0 and (10 ** 15) % d == 0 and digits <= 15:
                return [S('q'), f'{n}/{d}']
            return [S('q'), '%.11e' % (n / d)]
        return [canon(y) for y in x]
    return x


def canon_str(x):
    return dumps(canon(x))
