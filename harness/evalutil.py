"""Valuations for the spec evaluator (Lean `eval` through the driver): random message values over the generator's
schema, from a grid of small values including 0, 1, -1, equal/unequal pairs and empty collections."""
from fractions import Fraction
from sexp import Sym, dumps, loads
from gen import DEFAULT_SCHEMA, BOOL, NUM, STR

S = Sym
NUMS = [0, 1, -1, 2, Fraction(1, 2), 3, 0, 1]
STRS = ['"a"', '"b"', '""', '"abc"', '"a b"']


def vnum(q):
    q = Fraction(q)
    return [S('vn'), q.numerator, q.denominator]


def gen_value(rng, t, depth=0):
    if t == BOOL:
        return [S('vb'), rng.random() < 0.5]
    if t == NUM:
        return vnum(rng.choice(NUMS))
    if t == STR:
        return [S('vs'), rng.choice(STRS)]
    if t[0] == 'arr':
        n = rng.choice([0, 1, 2, 3, 4])
        return [S('varr')] + [gen_value(rng, t[1], depth + 1) for _ in range(n)]
    if t[0] == 'msg':
        return [S('vmsg')] + [[k, gen_value(rng, ft, depth + 1)] for k, ft in t[1].items()]
    raise ValueError(t)


def gen_env(rng, aliases=('A', 'B', 'Z'), schema=None, extra_vars=None):
    schema = schema or DEFAULT_SCHEMA
    msg_t = ('msg', schema)
    env = [S('env'), gen_value(rng, msg_t)]
    for a in aliases:
        env.append([a, gen_value(rng, msg_t)])
    for k, v in (extra_vars or {}).items():
        env.append([k, v])
    return env


def eval_jobs(driver, jobs):
    """jobs: list of (env wire, [item wires]); returns list of lists of results ('ok', value-wire-string) | ('err', kind)"""
    lines = [dumps([S('eval'), env] + items) for env, items in jobs]
    out = []
    for ans in driver.run_parallel(lines):
        x = loads(ans)
        if x[0] != 'ok':
            out.append(None)
            continue
        res = []
        for r in x[1:]:
            if r[0] == 'ok':
                res.append(('ok', dumps(r[1])))
            else:
                res.append(('err', str(r[1])))
        out.append(res)
    return out


def as_bool(r):
    """('ok', '(vb 1)') -> True"""
    if r is None or r[0] != 'ok':
        return None
    if r[1] == '(vb 1)':
        return True
    if r[1] == '(vb 0)':
        return False
    return None


def same_value(r0, r1, rel=1e-9):
    """results of the Lean evaluator agree: identical, or both numbers within a relative tolerance (the implementation folds with IEEE
    floats, the reference semantics is exact)"""
    if r0 == r1:
        return True
    if r0 is None or r1 is None or r0[0] != 'ok' or r1[0] != 'ok':
        return False
    a, b = loads(r0[1]), loads(r1[1])
    if isinstance(a, list) and isinstance(b, list) and a and b and a[0] == 'vn' and b[0] == 'vn':
        x = int(a[1]) / int(a[2])
        y = int(b[1]) / int(b[2])
        return abs(x - y) <= rel * max(1.0, abs(x), abs(y))
    return False
