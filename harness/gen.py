"""Type-directed generator of Raw expressions / predicates / events / properties over a message schema.
Every random choice comes from the one `random.Random` passed in, so a case replays from the seed."""
import math

BOOL, NUM, STR = 'bool', 'num', 'str'

DEFAULT_SCHEMA = {
    'b': BOOL, 'c': BOOL, 'x': NUM, 'y': NUM, 'z': NUM, 's': STR, 't': STR,
    'xs': ('arr', NUM), 'ys': ('arr', NUM), 'bs': ('arr', BOOL), 'ss': ('arr', STR),
    'm': ('msg', {'x': NUM, 'b': BOOL, 's': STR, 'xs': ('arr', NUM), 'n': ('msg', {'y': NUM, 'c': BOOL})}),
    'ms': ('arr', ('msg', {'x': NUM, 'b': BOOL})),
}

NUM_FUNS_1 = ['abs', 'sqrt', 'ceil', 'floor', 'sin', 'cos', 'tan', 'asin', 'acos', 'atan', 'deg', 'rad']
AGG_FUNS = ['len', 'sum', 'prod', 'max', 'min']
REL = ['<', '<=', '>', '>=']
ARITH = ['+', '-', '*', '/', '**']


def int_lit(n):
    return ('lit', str(n), n)


def float_lit(v):
    return ('lit', repr(v), v)


def str_lit(s):
    tok = '"' + s + '"'
    return ('lit', tok, tok)


TRUE = ('lit', 'True', True)
FALSE = ('lit', 'False', False)


class Gen:
    def __init__(self, rng, schema=None, aliases=(), max_depth=4, funs=True, quants=True, consts=True,
                 floats=True, opaque=True, small=False, unique_vars=False, var_pool=None, alias_schemas=None):
        self.rng = rng
        self.schema = schema or DEFAULT_SCHEMA
        self.aliases = list(aliases)
        self.max_depth = max_depth
        self.funs = funs
        self.quants = quants
        self.consts = consts
        self.floats = floats
        self.opaque = opaque
        self.small = small
        self._fresh = 0
        self.unique_vars = unique_vars      # never reuse a quantified variable name, not even in sibling quantifiers
        self._used = set()
        self.alias_schemas = alias_schemas or {}     # alias -> schema of the aliased event's message (default: the own schema)
        self.var_pool = var_pool or ['i', 'j', 'k', 'v', 'w']

    # ---- references ------------------------------------------------------------------------------------
    def paths(self, want, bound):
        """all reference Raws of type `want` reachable in the schema (own message and aliases) plus bound variables"""
        out = []
        self._paths(('this',), self.schema, want, out, 0)
        for a in self.aliases:
            self._paths(('var', a), self.alias_schemas.get(a, self.schema), want, out, 0)
        for name, t in bound.items():
            if t == want:
                out.append(('var', name))
            elif isinstance(t, tuple) and t[0] == 'msg':
                self._paths(('var', name), t[1], want, out, 1)
        return out

    def _paths(self, base, fields, want, out, depth):
        for name, t in fields.items():
            ref = ('field', base, name)
            if t == want:
                out.append(ref)
            if isinstance(t, tuple) and t[0] == 'msg' and depth < 3:
                if want == t:
                    out.append(ref)
                self._paths(ref, t[1], want, out, depth + 1)
            if isinstance(t, tuple) and t[0] == 'arr':
                if want == t:
                    out.append(ref)
                # indexed access gives the element type
                et = t[1]
                idx = self._index()
                iref = ('index', ref, idx)
                if et == want:
                    out.append(iref)
                elif isinstance(et, tuple) and et[0] == 'msg' and depth < 2:
                    self._paths(iref, et[1], want, out, depth + 1)

    def _index(self):
        r = self.rng.random()
        if r < 0.5:
            return int_lit(self.rng.randrange(0, 4))
        nums = [n for n, t in self.schema.items() if t == NUM]
        if r < 0.62 and self.aliases:
            # a number field of an aliased earlier message
            a = self.rng.choice(self.aliases)
            anums = [n for n, t in self.alias_schemas.get(a, self.schema).items() if t == NUM]
            if anums:
                ref = ('field', ('var', a), self.rng.choice(anums))
                return ref if self.rng.random() < 0.6 else ('bin', '+', ref, int_lit(1))
        if r < 0.68:
            arrs = [n for n, t in self.schema.items() if t == ('arr', NUM)]
            if arrs:
                return ('index', ('field', ('this',), self.rng.choice(arrs)), int_lit(self.rng.randrange(0, 4)))
        if not nums:
            return int_lit(self.rng.randrange(0, 4))
        if r < 0.85:
            return ('field', ('this',), 'x' if 'x' in nums else self.rng.choice(nums))
        return ('bin', '+', ('field', ('this',), 'y' if 'y' in nums else self.rng.choice(nums)), int_lit(1))

    def ref(self, want, bound):
        ps = self.paths(want, bound)
        if not ps:
            return None
        return self.rng.choice(ps)

    # ---- literals --------------------------------------------------------------------------------------
    def num_lit(self):
        r = self.rng.random()
        if r < 0.55:
            return int_lit(self.rng.choice([0, 1, 2, 3, 1, 0, 2, 5, 10, 7]))
        if r < 0.75 and self.floats:
            return float_lit(self.rng.choice([0.5, 1.5, 2.0, 0.25, 1.0, 0.0, 2.5]))
        if r < 0.82 and self.consts:
            c = self.rng.choice(['PI', 'E', 'INF', 'NAN'])
            return ('lit', c, {'PI': math.pi, 'E': math.e, 'INF': math.inf, 'NAN': math.nan}[c])
        return int_lit(self.rng.randrange(0, 4))

    def str_lit(self):
        return str_lit(self.rng.choice(['a', 'b', 'abc', '', 'a b']))

    # ---- expressions -----------------------------------------------------------------------------------
    def expr(self, want, depth=None, bound=None):
        depth = self.max_depth if depth is None else depth
        bound = bound or {}
        if want == BOOL:
            return self.bool_(depth, bound)
        if want == NUM:
            return self.num(depth, bound)
        if want == STR:
            return self.str_(depth, bound)
        if isinstance(want, tuple) and want[0] == 'arr':
            return self.ref(want, bound) or self.compound(depth, bound, want[1])[0]
        if isinstance(want, tuple) and want[0] == 'msg':
            return self.ref(want, bound)
        raise ValueError(want)

    def leaf(self, want, bound):
        r = self.ref(want, bound) if self.rng.random() < 0.75 else None
        if r is not None:
            return r
        if want == BOOL:
            return self.rng.choice([TRUE, FALSE]) if self.rng.random() < 0.5 else (self.ref(BOOL, bound) or TRUE)
        if want == NUM:
            return self.num_lit()
        return self.str_lit()

    def prim(self, depth, bound):
        t = self.rng.choice([NUM, NUM, BOOL, STR])
        return self.expr(t, depth, bound), t

    def compound(self, depth, bound, elem=None):
        """(raw, element type) for a set literal, range literal or array field"""
        r = self.rng.random()
        elem = elem or self.rng.choice([NUM, NUM, NUM, STR, BOOL])
        if r < 0.35 or depth <= 0:
            ref = self.ref(('arr', elem), bound)
            if ref is not None:
                return ref, elem
        if elem == NUM and r < 0.6:
            return ('range', self.num(depth - 1, bound), self.num(depth - 1, bound), self.rng.random() < 0.3, self.rng.random() < 0.3), NUM
        n = self.rng.choice([1, 2, 2, 3])
        return ('set', [self.expr(elem, max(0, depth - 1), bound) for _ in range(n)]), elem

    def num(self, depth, bound):
        if depth <= 0 or self.rng.random() < 0.25:
            return self.leaf(NUM, bound)
        r = self.rng.random()
        if r < 0.55:
            return ('bin', self.rng.choice(ARITH), self.num(depth - 1, bound), self.num(depth - 1, bound))
        if r < 0.65:
            return ('un', '-', self.num(depth - 1, bound))
        if r < 0.9 and self.funs:
            k = self.rng.random()
            if k < 0.35:
                f = self.rng.choice(NUM_FUNS_1 if self.opaque else ['abs', 'ceil', 'floor'])
                return ('call', f, [self.num(depth - 1, bound)])
            if k < 0.8:
                c, et = self.compound(depth - 1, bound, NUM)
                return ('call', self.rng.choice(AGG_FUNS), [c])
            if k < 0.9:
                return ('call', self.rng.choice(['int', 'float']), [self.prim(depth - 1, bound)[0]])
            c, et = self.compound(depth - 1, bound)
            return ('call', 'len', [c])
        return self.leaf(NUM, bound)

    def str_(self, depth, bound):
        if depth <= 0 or self.rng.random() < 0.7 or not self.funs:
            return self.leaf(STR, bound)
        return ('call', 'str', [self.prim(depth - 1, bound)[0]])

    def fresh_var(self, bound):
        for v in self.var_pool:
            if v not in bound and v not in self.aliases and not (self.unique_vars and v in self._used):
                self._used.add(v)
                return v
        self._fresh += 1
        return f'q{self._fresh}'

    def bool_(self, depth, bound):
        if depth <= 0 or self.rng.random() < 0.12:
            return self.leaf(BOOL, bound)
        r = self.rng.random()
        if r < 0.30:
            return ('bin', self.rng.choice(['and', 'or', 'and', 'or', 'implies', 'iff']), self.bool_(depth - 1, bound), self.bool_(depth - 1, bound))
        if r < 0.40:
            return ('un', 'not', self.bool_(depth - 1, bound))
        if r < 0.58:
            return ('bin', self.rng.choice(REL), self.num(depth - 1, bound), self.num(depth - 1, bound))
        if r < 0.74:
            a, t = self.prim(depth - 1, bound)
            b = self.expr(t, depth - 1, bound)
            return ('bin', self.rng.choice(['=', '!=']), a, b)
        if r < 0.82:
            c, et = self.compound(depth - 1, bound)
            return ('bin', 'in', self.expr(et, depth - 1, bound), c)
        if r < 0.95 and self.quants:
            return self.quant(depth, bound)
        if self.funs:
            return ('call', 'bool', [self.prim(depth - 1, bound)[0]])
        return self.leaf(BOOL, bound)

    def quant(self, depth, bound):
        dom, et = self.compound(min(depth - 1, 1), bound)
        # the grammar wants an atomic value as domain: sets, ranges, references
        x = self.fresh_var(bound)
        nb = dict(bound)
        nb[x] = et
        use = self.use_of(x, et, depth - 1, nb)
        if self.rng.random() < 0.5 and depth > 1:
            other = self.bool_(depth - 2, nb)
            body = ('bin', self.rng.choice(['and', 'or', 'implies']), use, other) if self.rng.random() < 0.7 else ('bin', 'and', other, use)
        else:
            body = use
        return ('quant', self.rng.choice(['all', 'some']), x, dom, body)

    def use_of(self, x, et, depth, bound):
        v = ('var', x)
        if et == NUM:
            if self.rng.random() < 0.15:
                # the variable used as an index: the body (or a conjunct of it) is a bare accessor, no operator around it
                arr = self.ref(('arr', BOOL), {k: t for k, t in bound.items() if k != x})
                if arr is not None:
                    return ('index', arr, v)
            return ('bin', self.rng.choice(REL + ['=', '!=']), v, self.num(max(0, depth - 1), bound))
        if et == BOOL:
            return v if self.rng.random() < 0.5 else ('un', 'not', v)
        if et == STR:
            return ('bin', self.rng.choice(['=', '!=']), v, self.str_lit())
        if isinstance(et, tuple) and et[0] == 'msg':
            fs = [(n, t) for n, t in et[1].items() if t in (NUM, BOOL)]
            n, t = self.rng.choice(fs)
            f = ('field', v, n)
            return f if t == BOOL else ('bin', '>', f, int_lit(0))
        return ('bin', '=', v, v)


def contains_this(r):
    k = r[0]
    if k == 'this':
        return True
    if k in ('lit', 'var'):
        return False
    for c in r[1:]:
        if isinstance(c, tuple) and c and isinstance(c[0], str) and contains_this(c):
            return True
        if isinstance(c, list) and any(contains_this(x) for x in c):
            return True
    return False
