#!/bin/sh
# Apply every archived behaviour-preserving refactoring (harmless/*/patch.diff) to a scratch worktree of /repo and run all
# 20 quick checks there: any non-zero exit is a false alarm of the machinery.  Writes harmless/REGRESSION.txt.
# CHECKS="08 14" restricts the checks, OUT=<file> redirects the record.
cd "$(dirname "$0")/.." || exit 2
wt=$(mktemp -d /tmp/harmreg.XXXXXX)
git -C /repo worktree add --detach "$wt" HEAD -q || exit 2
out=${OUT:-harmless/REGRESSION.txt}
: > $out
for d in harmless/h*/; do
  name=$(basename $d)
  if git -C "$wt" apply "$(pwd)/$d/patch.diff" 2>/dev/null; then
    for c in ${CHECKS:-01 02 03 04 05 06 07 08 09 10 11 12 13 14 15 16 17 18 19 20}; do
      res=$(HPL_REPO="$wt" ./check C$c --tier quick 2>&1 | grep -E "VIOLATION|done rc=" | tr '\n' ' ' | cut -c1-200)
      case "$res" in *"rc=0"*) verdict=QUIET;; *) verdict=ALARM;; esac
      echo "$verdict $name C$c :: $res" | tee -a $out
    done
    git -C "$wt" checkout -- . ; rm -rf "$wt/.hypothesis"
  else
    echo "PATCH-DOES-NOT-APPLY $name" | tee -a $out
  fi
done
git -C /repo worktree remove --force "$wt"
/venv/bin/python harness/extract_tables.py lean/Hpl/Generated/Tables.lean >/dev/null
