"""Layout randomisation and token-level mutation of HPL texts (independent Python tokenizer; used only to *produce*
inputs, never to judge them)."""
import re

TOKEN_RE = re.compile(r'''
    "(?:\\.|[^"\\\n])*"                 # string
  | @[A-Za-z_][A-Za-z0-9_]*            # variable
  | (?:\d+\.\d*|\.\d+|\d+)(?:[eE][+-]?\d+)?   # number
  | [/~]?[A-Za-z_][A-Za-z0-9_]*(?:/[A-Za-z][A-Za-z0-9_]*)*   # word / channel
  | \*\* | <= | >= | != | !\[ | \]!
  | [(){}\[\],:.\#=<>+\-*/!]
''', re.X)

WS = [' ', '  ', '\n', '\t', ' \n ', '\r\n', ' \t ', '\x0c']


def tokens(text):
    out, pos = [], 0
    while pos < len(text):
        if text[pos].isspace():
            pos += 1
            continue
        m = TOKEN_RE.match(text, pos)
        if not m:
            out.append(text[pos])
            pos += 1
            continue
        out.append(m.group(0))
        pos = m.end()
    return out


def _wordy(c):
    return c.isalnum() or c == '_'


def needs_space(a, b):
    """must tokens a and b be separated by whitespace to stay two tokens with the same meaning?"""
    if _wordy(a[-1]) and (_wordy(b[0]) or b[0] in '/~@.'):
        return True
    if a[-1] == '.' and (b[0].isdigit()):
        return True
    if a[-1].isdigit() and b[0] == '.':
        return True
    pair = a[-1] + b[0]
    if pair in ('**', '<=', '>=', '!=', '![', ']!', '==', '/~'):
        return True
    if a in ('/',) and b[0].isalpha():      # a / b at property level would become a channel name; inside braces harmless but keep it
        return True
    if a[-1] in '/~' and (b[0].isalpha()):
        return True
    return False


def relayout(text, rng, squeeze=0.35):
    ts = tokens(text)
    out = []
    for i, t in enumerate(ts):
        if i > 0:
            if needs_space(ts[i - 1], t) or rng.random() > squeeze:
                out.append(rng.choice(WS))
        out.append(t)
    lead = rng.choice(['', '', ' ', '\n', '\t '])
    trail = rng.choice(['', '', ' ', '\n', ' \n'])
    return lead + ''.join(out) + trail


VOCAB = ['and', 'or', 'not', 'implies', 'iff', 'forall', 'exists', 'in', 'to', 'as', 'within', 'no', 'some', 'causes', 'requires', 'forbids',
         'after', 'until', 'globally', 'True', 'False', 'PI', 'E', 'x', 'y', 'xs', '@A', '@i', '1', '0.5', '"s"', '(', ')', '{', '}', '[', ']', '![', ']!',
         ',', ':', '.', '#', '=', '!=', '<', '<=', '>', '>=', '+', '-', '*', '/', '**', 's', 'ms', 'id', 'abs', 'len', 'a', 'b', '/ns/t', '~p', '!', '@']


def mutate(text, rng, n=1):
    """n token-level edits (insert / delete / substitute), re-joined with single spaces"""
    ts = tokens(text)
    for _ in range(n):
        k = rng.random()
        if k < 0.34 and ts:
            del ts[rng.randrange(len(ts))]
        elif k < 0.67:
            ts.insert(rng.randrange(len(ts) + 1), rng.choice(VOCAB))
        elif ts:
            ts[rng.randrange(len(ts))] = rng.choice(VOCAB)
    return ' '.join(ts)
