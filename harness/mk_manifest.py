#!/venv/bin/python
"""Writes MANIFEST.json from the table below (kept in one place so the manifest is always valid)."""
import json, os

VERIF = os.path.dirname(os.path.dirname(os.path.abspath(__file__)))

CLAIMED = {
    'C20': dict(
        text='Lean 4 theorems (cast_ok_iff, cast_err_iff, idempotence, commutativity, associativity in the error monad, monotonicity, '
             'canBe_iff, union least upper bound) about a three-line model of DataType.cast/can_be/union, proved for every bit mask; the '
             'member values are regenerated from the imported hpl.types on every run (decide obligations), and the model is tied to the '
             'code by an exhaustive 128x128 (thorough: 128^3) differential run. The domain is finite, so the tie is complete.',
        design_ref='DESIGN.md §6 C20',
        note='Trusted: Lean kernel; propext/Classical.choice/Quot.sound; extract_tables.py; the exhaustive correspondence; '
             'Python Flag & and | are bitwise on member values.',
        technique='Lean 4 proof (Nat.land/lor lemmas, width-independent) + exhaustive model/implementation correspondence'),
}

CLAIMED['C15'] = dict(
    text='Lean 4 theorems over the mutual AST: iterate() (explicit stack, fuel = size) equals the recursive pre-order listing (each node once, '
         'parents first, left to right); external_references = free variables under the constructor invariant (the set.remove KeyError site is '
         'unreachable); contains_reference / contains_self_reference / contains_definition characterised over the pre-order listing; event-level '
         'external references exclude the own alias; aliases() in source order; the own-field check characterised. The per-class query overrides '
         'are modelled as written and tied to the code by small-scope enumeration (every node kind x child slot x filler, depth 2) plus random trees.'
         ' iterate() on properties, scopes, patterns, events and predicates (Props/C15b Node.iterate_eq_preorder), judged on every generated property by an independent walk (identity per position) and compared with the model.',
    design_ref='DESIGN.md §6 C15',
    note='Trusted: Lean kernel and the three standard axioms; dumper and S-expression codec; correspondence sampling. iterate() on non-expression '
         'nodes (property/scope/pattern/event) is checked by correspondence only.',
    technique='Lean 4 proof by structural recursion on the mutual AST + differential correspondence with small-scope enumeration')
CLAIMED['C03'] = dict(
    text='Lean 4 theorems: the smart constructors that model the attrs constructors preserve the well-typedness invariant WT (non-empty type set '
         'within the kind default, operands inside parameter types, declared result types, =/!= operands unified, quantifier variable uses '
         'compatible with the element type, call arguments inside the parameter types of an arity-matching overload), hence build_WT, '
         'parse_predicate_WT (root exactly BOOL, same-printed references share a type); table obligations (results are single base types, '
         'overloads unambiguous) are re-proved by decide on the tables regenerated from /repo. The executable decider wtB is proved equivalent to '
         'WT and judges every AST the implementation returns from parsers and from rewriting functions (compositions of depth <= 2).'
         ' Property level (Props/C03e): parseProperty_WT, parseSpecification_WT, canonical_WT - every property the parser returns and every output of canonical_form has well-typed event predicates.',
    design_ref='DESIGN.md §6 C03',
    note='Trusted: Lean kernel and standard axioms; extract_tables.py; dumper; the attrs construction protocol is modelled by hand and tied by '
         'typed-AST correspondence (parser route and API route). Preservation theorems for the rewriting functions are proved for the functions '
         'whose model exists (see evidence theorems list); the others are covered by judging the implementation outputs with the proved decider.',
    technique='Lean 4 proof (invariant preserved by every constructor) + proved decider run on implementation outputs + typed-AST correspondence')

CLAIMED['C05'] = dict(
    text='Lean 4 theorems over the constructor model `build`: the intrinsic type of a literal / operator result / function result / set / range / '
         'quantifier is what build returns for it (build_intrinsic); HasClash (an argument position of an operator, function - against every '
         'overload, by monotonicity of overload acceptance -, range bound, set member, quantifier domain or condition, field access or index '
         'whose demanded type is disjoint from the intrinsic type found there, or two atomic operands of =/!=, at any depth) implies build never '
         'yields an AST (clash_rejected); the executable detector hasClashB is proved sound for HasClash and is run on every generated input, so '
         'the evidence counts how many inputs the theorem covers directly; quantified-variable clashes follow from C03 build_WT '
         '(quant_var_clash_rejected); a non-boolean root and a reference at two disjoint types are rejected by predFromExpr with a type error '
         '(nonbool_root_rejected, ref_clash_rejected). The implementation is exercised at five entry points on one injected clash per input.',
    design_ref='DESIGN.md §6 C05',
    note='Trusted: Lean kernel and standard axioms; extract_tables.py (operator/function signatures regenerated from /repo); the constructor '
         'model is tied to the code by the C03/C05 correspondence streams (both must reject with the same error class); the clash injector '
         '(harness/clash.py) is cross-checked against the proved-sound detector.',
    technique='Lean 4 proof (rejection theorem over the constructor model, sound executable clash detector) + clash-injection correspondence at 5 entry points')

CLAIMED['C17'] = dict(
    text='Lean 4 theorems over the model of hpl.types tokens and of type_check_references: checkRefs succeeds iff every accessor node of the '
         'tree, at any position (index expressions, range bounds, set members, call arguments, quantifiers), resolves by pure navigation of '
         'the declared field tree, meets its declared type and keeps literal indices of fixed-length arrays in bounds (checkRefs_ok_iff, by '
         'mutual induction; resolveAcc_ok_iff for accessor chains); lifted to predicates, events, disjunctions and properties with the alias -> '
         'message type map (refsCheckProperty_ok_iff); failures are type / index / sanity errors (checkRefs_err); leaf_fields lists exactly the '
         'non-message leaves of the declared tree (mem_leafFields_iff), contains_name / get_type_of agree with field-or-constant lookup; the '
         'predefined integer tokens carry the two\'s-complement bounds (G6_int_tokens, decide on the table regenerated from hpl.types); the '
         'RangedType / ArrayType validators accept exactly the well-formed declarations. The implementation is compared with the model, with an '
         'independent Python oracle of RefsOK on its own ASTs, and with the construction (valid / invalid in exactly one way).',
    design_ref='DESIGN.md §6 C17',
    note='Trusted: Lean kernel and standard axioms; extract_tables.py (G6); schema generator and token/AST dumpers; the model of the accessor '
         'walk is hand-written and tied by the correspondence stream; EnumeratedType and TypeToken.type validators are checked by '
         'construction only (no model); a Python bool offered as NUMBER enumeration value is not judged.',
    technique='Lean 4 proof (exactness iff by mutual induction, leaf-listing characterisation, table obligations) + schema/property correspondence with single-defect mutants')

CLAIMED['C04'] = dict(
    text='Lean 4 theorems: build_complete - a term that is well typed under a concrete typing of its references (WellTyped: every operator, '
         'function overload, range, set, quantifier with its hygiene conditions, field access and index used according to its signature) is '
         'accepted by the constructor model, and the tree returned is the term decorated with type sets containing the concrete types (Rel), so '
         'every reference node\'s type set contains the declared type; predicate_complete - with a boolean root the predicate constructor '
         'accepts it (every reference group shares its concrete type, refsOk_of_rel); schema_check_complete - under the typing a schema '
         'induces, the C17 schema check of the result succeeds. wellTypedB is a proved-sound executable check of the hypothesis, evaluated by '
         'the driver on every generated input under the typing induced by its random schema (evidence: theorem_applies). Partial: one concrete '
         'type per printed reference, so sibling quantifiers reusing a variable name at two element types are outside the theorem; they are '
         'covered by the stream only (and were a defect, now fixed).',
    design_ref='DESIGN.md §6 C04',
    note='Trusted: Lean kernel and standard axioms; extract_tables.py; the constructor model is tied to the code by the C03/C04/C05 '
         'correspondence streams; the type-directed generator and the schema generator (cross-checked by wellTypedB); property-level acceptance '
         '(scoping) is C02\'s subject and is exercised here by generated properties only.',
    technique='Lean 4 proof (completeness of the constructor model w.r.t. a declarative typing, sound executable hypothesis check) + type-directed generation from random schemas')

CLAIMED['C19'] = dict(
    text='Lean 4 theorems over the model of hpl.cli.main (cliMain: parser model + serialiser model): exit status 0 iff the argument parses '
         '(cli_exit_zero_iff), 0 or 1 otherwise (cli_exit_01); a JSON document is written iff -o json was given and the status is 0 '
         '(cli_json_iff) and it is the image of the AST the parser returns (cli_json_is_ast); every object carries exactly the attrs fields of '
         'its class in declaration order (expr_fields ... sig_fields against table G9, regenerated from attrs.fields of the classes), enums are '
         'printed as their current values (G8_enum_values), non-finite literal values and the unbounded max_time are null (nonfinite_null, '
         'unbounded_null); the JSON value type of the model has no non-finite numbers. The implementation is run in process and as a real '
         'process; its output is parsed by a strict JSON parser (no NaN/Infinity, no duplicate keys) and compared with the model and with an '
         'independent attrs.fields walk of the AST.',
    design_ref='DESIGN.md §6 C19',
    note='Trusted: Lean kernel and standard axioms; extract_tables.py (G8, G9); the parser model (tied by C01/C07/C18 streams); json.dumps, '
         'attrs.asdict, argparse, file reading and process exit are modelled, not verified (file content / unreadable file is a parameter of '
         'the model); argparse usage errors (exit status 2) are outside the statement.',
    technique='Lean 4 proof (exit/JSON decision logic, field-for-field table obligations) + CLI correspondence with strict JSON parsing and an independent serialisation')

CLAIMED['C16'] = dict(
    text='Lean 4 theorems over the constructor model, where the validators\' in-place narrowing of a child object is `castE child param` and '
         '"the existing child was altered" is "the node returned for that position differs from the child passed in": narrowing an operand '
         'whose type set lies inside the parameter type returns the operand itself (castE_stable); every constructor returns a node around the '
         'very children it was given when they satisfy its signature (mkUn_stable, mkBin_stable incl. the =/!= unification, mkField/mkIndex/'
         'mkRange/mkSet_stable, mkQuant_children, castArgs_stable); re-entering the constructor of a well-typed node with its own children - '
         'what but()/evolve and cast do - returns the node itself (rebuild_stable_*, from the C03 invariant WT); cast returns the node or a '
         'copy differing in the stored type only (cast_result); negate and join wrap boolean predicates untouched (mkNot_stable, '
         'mkAnd_stable). Partial: that simplify, split_and, refactor_reference, the this/var replacements and canonical_form only wrap '
         'existing sub-trees at positions whose parameter contains their type set is not proved per function; the stream snapshots every '
         'watched node (deep repr with data_type and metadata, hash, structural dump) around every call of sequences of up to 3 API calls, and '
         'checks the but() contracts (identity when unchanged, equal to fresh construction, metadata copied not shared, eq/hash ignore metadata).',
    design_ref='DESIGN.md §6 C16',
    note='Trusted: Lean kernel and standard axioms; the functional constructor model stands for the heap behaviour of attrs validators '
         '(object identity and aliasing are not modelled: "altered" is read off as "returned child differs"); Python object identity, attrs '
         'evolve and dict copying are exercised by the stream only.',
    technique='Lean 4 proof (narrowing is the identity on well-typed operands; constructor re-entry is the identity) + snapshot exploration of API call sequences')

CLAIMED['C02'] = dict(
    text='Lean 4 theorems: sanityCheck (the model of HplProperty.sanity_check, threading the tuple of available aliases exactly as the four '
         '_check_* helpers do) accepts exactly the WellScoped scope/pattern pairs (declarative judgement over free references and aliases per '
         'binding position); mkProperty/butProp run it on every route, so no Property value bypasses it; mkDisj accepts iff channels are '
         'distinct; mkQuant enforces the three hygiene conditions; failures are sanity errors. The constructor guarantees the iff assumes '
         '(quantifier invariant, non-empty aliases) are proved for everything the parser builds (build_quantOK, buildSimple_EvOK). The grid of '
         '77k shapes over {X,Y} is run exhaustively in the thorough tier.'
         ' The capture defect (an event alias equal to a quantified variable of its predicate was rejected) was found, fixed in /repo (0392d7a) and is generated by the grid and as written texts; the model replacement is capture-avoiding (substV).',
    design_ref='DESIGN.md §6 C02',
    note='Trusted: Lean kernel and standard axioms; dumper/codec; correspondence sampling. Reading of (ii): the same alias on two alternatives '
         'of one disjunction is not a second binding along the chain (stated in Props/C02.lean).',
    technique='Lean 4 proof (iff between the checker model and a declarative scoping judgement) + proved decider on implementation verdicts + grid enumeration')
CLAIMED['C11'] = dict(
    text='Lean 4 theorems about the model of canonical_form: canonical_self, canonical_eq_spec (a successful result is exactly the product of the '
         'activator alternatives with the split-event alternatives, activator-major, source order, all other fields and metadata copied), '
         'canonicalSpec_fields / canonicalSpec_unsplit (never-split positions per pattern), canonical_idempotent, and the characterisation of '
         'the failing case; pattern/scope predicate tables regenerated from the enums and re-proved by decide. Tied to the code by an exhaustive '
         'shape enumeration (scope x pattern x width 1..4 per position, both nestings). One known finding: canonical_form raises when a split '
         'unbinds an alias (recorded, narrow signature).',
    design_ref='DESIGN.md §6 C11',
    note='Trusted: Lean kernel and standard axioms; extract_tables.py; dumper/codec; the enumeration instantiates each shape with random '
         'predicates/aliases/times/metadata (sampled).',
    technique='Lean 4 proof (model = product specification, idempotence) + exhaustive shape correspondence')
CLAIMED['C12'] = dict(
    text='Lean 4 theorem canonical_sat_iff: for every property with a simple activator, every finite timed trace (no length bound), every '
         'interpretation of predicates and both readings of after-until re-activation, the trace satisfies the property iff it satisfies every '
         'property of canonical p; plus kernel-checked counterexamples showing that splitting existence or response behaviours is not '
         'meaning-preserving (the code does not split them). The theorem is about the model canonical, tied to the code by the C11 stream '
         'restricted to the hypothesis; implementation outputs are judged against canonicalSpec, to which canonicalSpec_sat_iff applies.',
    design_ref='DESIGN.md §6 C12',
    note='Trusted: the trace semantics in Hpl/Spec/Trace.lean is this project\'s formal reading of docs/lang.md (the repository has no semantics '
         'document); predicate satisfaction is a parameter. No bounded model checking is used to decide the property.',
    technique='Lean 4 proof over all finite traces (distribution of matching over alternatives) + C11 correspondence under the hypothesis')

CLAIMED['C09'] = dict(
    text='Lean 4 theorems about the model of split_and (work list, _and_presplit_transform, _split_and_not, _split_and_quantifier, empty_test, '
         'built only through the smart constructors): splitAnd_equiv — on every valuation under which all returned expressions have a truth '
         'value, the input has the truth value of their conjunction (refinement through double negation, De Morgan, negated implication, negated '
         'existential, and the universal-quantifier split with its empty-domain guard, by induction on the fuel and over the work list); '
         'splitAnd_indivisible — no returned expression is a conjunction, negated disjunction/implication, double negation, negated '
         'existential or universal quantifier over a conjunction. Semantics: the reference evaluator Hpl/Spec/Eval.lean (errors collapsed to '
         'undefined). Tied to the code by list-equality correspondence on an enumerated grammar and random formulas; every implementation '
         'output is also judged by the Lean evaluator on a complete valuation grid.'
         ' ValueError only at a literally false conjunct (Props/C09b splitAnd_value_only_false, presplit_err); the model never exhausts its fuel (Props/C09c splitAnd_fuel_ok).',
    design_ref='DESIGN.md §6 C09',
    note='Trusted: the reference semantics (the repository has no evaluator); equivalence is refinement (defined conjuncts => defined input), '
         'because the hoisted conjunct len(d)=0 or p is evaluated on an empty domain where the original is not. Fuel sufficiency of the model '
         'is checked by correspondence (the model never returned the fuel error), not proved.',
    technique='Lean 4 proof (refinement by induction on fuel and work list, Option-level strict semantics) + correspondence + spec evaluation of outputs')
CLAIMED['C10'] = dict(
    text='Lean 4 theorems about the model of refactor_reference: refactor_equiv (wherever both returned parts have a truth value the input has '
         'the value f1 and f2, for every valuation including empty quantifier domains), refactor_noRef (the first part never mentions the alias), '
         'refactor_unchanged (input, True) when the alias is absent. Tied to the code by correspondence on an enumerated alias grammar and random '
         'formulas; outputs are judged by the Lean evaluator, and the no-escaping-variables clause by the Lean freeVars spec on the outputs.'
         ' The model never exhausts its fuel (Props/C10b refactorExpr_fuel_ok).',
    design_ref='DESIGN.md §6 C10',
    note='Trusted: reference semantics as C09. The clause "no bound variable occurs free in f1 or f2" is decided on implementation outputs '
         'with the Lean freeVars function (not yet a theorem about the model).',
    technique='Lean 4 proof (Conjoins relation by induction on fuel) + correspondence + spec evaluation / freeVars of outputs')
CLAIMED['C13'] = dict(
    text='Lean 4 theorems: negate_sem (logical negation, including the double-negation shortcut and the vacuous predicates), join_sem with '
         'identity/annihilator laws, substE_sem — replacing nodes by an expression that evaluates like them under an invariant preserved by '
         'binders preserves the value — instantiated as replaceThisWithVar_sem and replaceVarWithThis_sem for aliases not captured by a '
         'quantifier under valuations binding the variable to the current message, substE_removes / event_alias_normalised (the stored predicate '
         'of `t as A {f}` never mentions A, A is not an external reference) and event_alias_sem. Tied to the code by correspondence of all five '
         'operations; laws also judged with the Lean evaluator; the inverse law is checked on implementation outputs.'
         ' The two replacements undo each other (Props/C13b-e): subst_fwd, subst_back, build_rebuildable, replace_roundtrip_parsed (both succeed and compose to the identity on every tree built from a printable syntax tree, for an alias not otherwise used); event_alias_noop.',
    design_ref='DESIGN.md §6 C13',
    note='Trusted: reference semantics as C09. subst_inverse (the two replacements undo each other for a fresh alias) is decided by '
         'correspondence/structural comparison on implementation outputs, not proved.',
    technique='Lean 4 proof (mutual structural induction over the AST with an environment invariant) + correspondence + spec evaluation')

CLAIMED['C08'] = dict(
    text='Lean 4 model of every rule function of simplify (constant folding with Python int/float semantics over exact rationals, flip by '
         'commutativity / INVERSE_OPERATORS, re-association, iff/implies expansion, and/or unit-idempotence-complement-deduplication, comparison '
         'folding, arithmetic identities, built-in function folding) tied to the code by output correspondence (0 disagreements on ~5k terms per '
         'run, modulo Python set order). Proved (Props/C08, C08a, C08b, C08c): value-level soundness of every rule function, the table '
         'obligations the flip and re-association steps need, the re-association step for every operator flagged associative (reassoc_sound), '
         'set-literal de-duplication (eval_set_dedupe), and THE RECURSION OVER THE WHOLE TERM: soundAt / simplify_sound_of_calls, by induction '
         'on the fuel of the seven mutually recursive model functions - every result of simplify preserves the value of its input under every '
         'valuation on which the input evaluates, for terms of any size; the folding of abs/bool/int/float/ceil/floor is proved against the '
         'evaluator for every oracle that does not extend the interpreted functions (callFold_sound, Props/C08d), the folding of '
         'len/sum/prod/max/min over literal sets, integer ranges and several arguments is proved (Props/C08e, C08f: len/sum/prod/max/min_fold_sound, '
         'foldMinMax_sound); gcd_fold_sound holds for every oracle whose gcd is the greatest common divisor (GcdOracleOk); str_fold_sound for every oracle whose str agrees with Python on literals (StrOracleOk): simplify_sound_of_oracle assumes nothing about the '
         'rewriter, only three conditions on the oracle (met by the silent oracle and by a sample oracle that answers str: simplify_sound_sample). Also proved: the result is well-typed (simplify_WT) and has '
         'exactly the type of the input (simplify_ty). Function folding and whole-term meaning are also judged by the Lean '
         'evaluator on a valuation grid on every implementation output (which found the seven defects now fixed in /repo).',
    design_ref='DESIGN.md §0.1, §6 C08',
    note='PARTIAL: SimplifySound is proved for every oracle meeting OracleClosed, GcdOracleOk and StrOracleOk (conditions on the uninterpreted functions only); '
         'fuel sufficiency of simpFuel is not proved. Exact rational arithmetic; NaN and arithmetic on infinities are errors of the original and '
         'constrain nothing; math functions are uninterpreted.',
    technique='Lean 4 proof by induction over the simplifier recursion (conditional on function-call folding) + full model correspondence + spec evaluation of every output')
CLAIMED['C14'] = dict(
    text='Lean 4 theorems on result kinds (simplifyPred_kind: predicate in, predicate out, vacuous exactly for literal conditions; '
         'canonical_nonempty; vacuous-predicate cases of refactor) over models in which every assert / unchecked index of rewrite.py is an '
         'explicit internal-error outcome; totality itself (no internal outcome, fuel never exhausted) is tied by exception-class correspondence '
         'on every built-in function x admissible argument shape x {expression, predicate, nested} and random inputs, with allowed exceptions '
         'judged by the statement (simplify only on inputs undefined under every valuation, split_and ValueError, TypeError of replacements on '
         'predicates). One known finding (canonical_form raising HplSanityError when a split unbinds an alias). TOTALITY PROPER IS A THEOREM FOR '
         'refactor_reference on expressions (Props/C14b): refactorExpr_total / refactorExpr_total_parsed - on every tree the parser builds '
         '(well-typed, quantifier and call nodes accepted by their constructors) and for every alias, no constructor call inside the rewrite fails, '
         'no assertion fires and the fuel suffices; the core is mkForall_part (the quantifier constructor accepts every part of an accepted '
         'condition that still mentions the variable) and emptyTest_ok; FOR split_and on expressions (Props/C14c): splitAnd_total / splitAnd_total_parsed - '
         'a list of conjuncts or the ValueError class, nothing else (presplit_total by a mutual induction over the three transform functions with a '
         'node-by-node invariant); WT + Rebuildable is an invariant of both functions (splitAnd_good, refactorExpr_good), so they compose without '
         'failing (refactor_after_split); FOR canonical_form (Props/C14d): canonical_total - on an accepted property whose split positions bind no alias '
         'every copy passes the sanity check and the result is a non-empty list, canonical_total_noRef - the same whenever no event references an '
         'alias bound in a split position (the known finding, negated); canonical_ok_iff - canonical_form succeeds exactly when nothing is '
         'split or every copy is WellScoped by itself (the known finding is the only way it fails); and for the two replacements (replace_roundtrip_parsed, Props/C13d). Props/C14e states one theorem per '
         'function on parser output combining totality, result kind and meaning (refactor_parsed, splitAnd_parsed, canonical_exists_and_means).',
    design_ref='DESIGN.md §6 C14',
    note='PARTIAL: totality is a theorem for refactor_reference, split_and, canonical_form (no alias in a split position) and the this/var '
         'replacements; for simplify it is established by correspondence and by the four crash defects found and fixed (AssertionError, UnboundLocalError, '
         'IndexError, TypeError of re-association).',
    technique='Lean 4 totality proofs for refactor_reference, split_and, canonical_form and the replacements, result-kind theorems + exception-class correspondence over the enumerated function/argument-shape table')

CLAIMED['C01'] = dict(
    text='Lean 4 theorem parse_complete (Props/C01b): for every token sequence that the declarative grammar Renders (Spec/Grammar.lean: the '
         'rules of predicates.lark over tokens - left-recursive binary levels, non-associative comparisons, prefix not / minus, quantifiers, '
         'accessor chains, calls, sets, ranges, optional and redundant parentheses) reads as a condition with tree e, the recursive-descent '
         'parser model returns exactly e and consumes all tokens, with the fuel the model gives itself; by induction on derivations with a '
         'continuation invariant for the loops. The model (maximal-munch scanner with word-boundary flags + parser, one function per grammar '
         'rule, then the proved constructors build_WT / build_quantOK) is tied to the implementation by correspondence: the implementation '
         'is judged against the tree each text was rendered from (through the model build, independent of the model parser) and compared '
         'with the model parser on the text itself, over random layouts, minimal/full/redundant parentheses, keyword-like names, '
         'non-canonical numbers and token-level mutations; 0 disagreements with Lark on ~2k texts per run including the LALR-merged-lookahead '
         'corner (`xs[0]!= 3`). Also proved: keyword recognition is exact-word and boundary-sensitive (isKw_exact).'
         ' Property and file level (Spec/GrammarProp, Props/C01g): parseProperty_iff - parsePropertyToks ts = ok p <-> RProperty p ts for a declarative grammar of properties (annotations, scopes, patterns, events with aliases and predicates, alternatives in source order, time amount and unit); parseFile_iff_grammar. Scanner on arbitrary text (Props/C01f, C06n, C18e): lex_spaced - a scanned text is its tokens written out in order with white space in between, flags included; lex_tokOk; scan_append (locality at white space). Exactness (Props/C01e): parse_iff_renders - parseExpressionToks ts = ok e <-> Renders 0 e ts (soundness parse_sound by induction on fuel over the 19 parser functions + completeness), parse_rejects_iff, parse_predicate_iff; the grammar states the contextual lexer: not/forall/exists are keywords only at the start of a logic operand. Layout independence at token level (Props/C01d, C18b): parse_key_invariant - every parser function returns the same result on token sequences that agree on kind, text and word adjacency, at every entry point; scanner lemmas (longest-match words, maximal-munch symbols, local number and string scanning, Props/C06d, C06g).',
    design_ref='DESIGN.md §0.1, §6 C01',
    note='PARTIAL: completeness (grammar tree => parser result) is proved at token level; soundness / unambiguity (parser result => grammar '
         'tree), the scanner and the agreement of the Lean grammar relation with the .lark file are tied by correspondence. Lark itself is '
         'modelled, not verified.',
    technique='Lean 4 proof of parser completeness against a declarative grammar (induction on derivations, continuation invariant) + correspondence on rendered trees and mutated texts')
CLAIMED['C06'] = dict(
    text='Lean 4 theorem parse_toks_roundtrip (Props/C06b): for every expression tree the parser can produce (Raw.printable, decidable; every '
         'node kind, any depth) the recursive-descent parser model applied to the token sequence of the printed form (Raw.toks) returns exactly '
         'that tree and consumes every token, with the fuel the model gives itself (need_le); same inside braces for predicates; and at property '
         'and file level (Props/C06c: parse_property_toks_roundtrip, parse_file_toks_roundtrip - annotations, scopes, patterns, event '
         'disjunctions, time bounds; k printed properties are read back as exactly those k). Proved by mutual '
         'structural induction with one lemma per grammar level. Text level (Props/C06d-h), scanner included: print_parse_roundtrip_dec - '
         'parseExpression (e.print) = ok e on strings for every e built from a printable tree whose literal tokens and variable names are '
         'complete tokens (Raw.lexOkB, decidable); pred_print_parse_roundtrip for predicates; via lexR (scanner model reads Raw.chars as '
         'Raw.toks), scanNumber_local/scanString_local, build_erase, print_chars. On every generated text the driver evaluates the '
         'hypotheses; on strings for every input parse_print_parse_text / _pred (Props/C06n): parseExpression s = ok e with good names implies parseExpression (e.print) = ok e (lex_tokOk: scanned literal tokens are complete tokens of their own text; renders_lexOk); for every parser output parse_print_parse (Props/C06m, with parse_sound of C01e): parseExpressionToks ts = ok e and Raw.goodNames e imply printable e and parseExpressionToks e.toks = ok e (renders_printable by induction on derivations); (printable, lexOkB) and that lexing the printed form gives Raw.toks (rtcheck); at property level parse_printed_property (Props/C06j-k, C18b): the printed text of a printable property tree scans and parses back to that tree (scanner at depth 0, channel names, glued units; parser key-invariance parsePropertyToks_sim). Lean model of every __str__ '
         '(expressions, predicates, events with flat disjunctions, scopes, patterns with ms/s time bounds, properties, specifications) compared '
         'with the implementation; the round trip (str -> parse -> equal AST, equal hash, stable second print, injectivity of printing) is also '
         'decided on the implementation for every node kind, widths up to 4 and 27 time bounds over 18 orders of magnitude. Two defects found '
         'and fixed in /repo (function-call and n-ary disjunction printing).',
    design_ref='DESIGN.md §0.1, §6 C06',
    note='PARTIAL: the theorems are at token level; the scanner (text to tokens) and the float formatting of time bounds are tied by '
         'correspondence and direct checks, not proved.',
    technique='Lean 4 proof of the token-level print/parse round trip by structural induction + printer/lexer correspondence + direct round-trip checks on the implementation')
CLAIMED['C07'] = dict(
    text='Lean 4 theorems over the model in which every assert / unchecked lookup of hpl.ast is an explicit internal outcome: '
         'build_err_documented (building from ANY untyped tree fails only with TypeError, sanity error or ValueError), '
         'predFromExpr_err_documented (the isinstance assertion is unreachable on built trees), parseExpression_documented / '
         'parsePredicate_documented (the model entry points only fail with documented classes; they are total by construction, with fuel '
         'linear in the token count). Lark, recursion limits and hidden parser state are outside the model: arbitrary Unicode, token soups, '
         'edited texts and per-object call histories are run against the implementation and compared with the model accept/reject.'
         ' Every implementation call runs under a 10 s wall-clock budget: a call that does not return is reported as a violation (does-not-terminate) instead of hanging the check.',
    design_ref='DESIGN.md §6 C07',
    note='PARTIAL by nature: termination and statelessness of the Lark engine are observed, not proved; the property-level entry points\' '
         'no-internal theorem (needs well-formedness of the parser\'s raw properties) is not yet proved.',
    technique='Lean 4 proof (error-class analysis of every constructor) + robustness and history correspondence')
CLAIMED['C18'] = dict(
    text='Lean 4 model of hpl_file / metadata / hpl_property (buildSpec = mapM buildProperty, duplicate annotation key = syntax error, empty '
         'file rejected: theorems empty_file_rejected, duplicate_key_rejected, buildSpec_members) tied by correspondence on files of 1..6 '
         'members with every annotation subset/order and random separators; the statement itself (file = sequence of its members parsed alone, '
         'same error class as the offending member) is decided on the implementation.'
         ' On texts (Props/C18e, C18f): parseSpecification_of_texts - k >= 1 texts each read by parse_property on its own, written one per line, are read by parse_specification as exactly their k properties in order (scan_append: the scanner is local at white space; property_balanced: a text that parses closes its braces). Exact at token level (Props/C18d): parseFileToks_iff - a token text parses as a file to rs iff it is the concatenation of k >= 1 texts each parsing as a property on its own with results rs (truncation lemmas pProperty_trunc etc. through parse_sound; pFile_split). General statement (Props/C18c): parseFileToks_concat - for any k >= 1 token texts each parsing as a property on its own, the file parser on their concatenation returns exactly the k results in order (parser locality parse_ext/ExtP, property_starts); parseSpecification_concat, parseProperty_of_toks at the entry points. Text level (Props/C06k, C18b): parse_printed_file - the text of k printed properties, one per line, is scanned and parsed back to exactly those k property trees; parseFileToks_sim.',
    design_ref='DESIGN.md §6 C18',
    note='PARTIAL: the segmentation lemma (a rendered property is followed only by tokens that cannot extend it) is not yet a theorem.',
    technique='Lean 4 model + theorems on file assembly (partial) + member-wise correspondence')

NOT_YET = {}


def main():
    props = [json.loads(l) for l in open(os.path.join(VERIF, 'properties.jsonl'))]
    checks, na = [], []
    for p in props:
        pid = p['id']
        if pid in CLAIMED:
            c = CLAIMED[pid]
            checks.append({
                'property_id': pid,
                'quick_cmd': f'./check {pid} --tier quick',
                'thorough_cmd': f'./check {pid} --tier thorough',
                'evidence_file': f'evidence/{pid}.json',
                'replay_cmd_template': f'./check {pid} --replay {{path}}',
                'engine': 'lean4-hpl',
                'level_claimed': {'category': 'proof', 'text': c['text'], 'design_ref': c['design_ref']},
                'level_note': c['note'],
                'technique': c['technique'],
            })
        else:
            na.append({'property_id': pid, 'reason': NOT_YET.get(pid, 'model, theorems and correspondence stream for this property are not built yet in this revision of /verif (see DESIGN.md §10 build order); no claim is made')})
    manifest = {
        'version': 1,
        'setup_cmd': '/venv/bin/python harness/extract_tables.py lean/Hpl/Generated/Tables.lean && cd lean && lake build Hpl hplmodel',
        'hooks': {
            'guard': 'HPL_SPECS_VERIF',
            'enable': 'no hooks are needed: every observation point is a public function or attribute of hpl; the variable is reserved',
            'baseline_off_cmd': 'cd /repo && /venv/bin/python -m pytest -ra -q -p no:cacheprovider --timeout=900 --continue-on-collection-errors',
            'source_commits': [],
            'add_only': True,
        },
        'engines': [{
            'name': 'lean4-hpl', 'path': 'lean/',
            'serves_properties': sorted(CLAIMED),
            'kind_free_text': 'Lean 4.33 library Hpl (generated tables + hand-written executable model + declarative spec + property theorems) '
                              'and the compiled line-protocol driver hplmodel; Python harness under harness/ runs the implementation and diffs',
        }],
        'checks': checks,
        'notes': 'Technique: machine-checked proof in Lean 4 about an executable model, tied to /repo on every run by a translator for data '
                 '(harness/extract_tables.py) and a correspondence check for behaviour (harness/streams). See DESIGN.md.',
        'not_applicable': na,
    }
    with open(os.path.join(VERIF, 'MANIFEST.json'), 'w') as f:
        json.dump(manifest, f, indent=1)
    print(f'claimed={len(checks)} not_applicable={len(na)}')


if __name__ == '__main__':
    main()
