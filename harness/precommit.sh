#!/bin/sh
# run before committing: the setup command of MANIFEST.json must succeed (full library + driver); exit status says so
cd "$(dirname "$0")/.." || exit 2
/venv/bin/python harness/extract_tables.py lean/Hpl/Generated/Tables.lean >/dev/null || exit 2
cd lean || exit 2
out=$(lake build Hpl hplmodel 2>&1)
echo "$out" | grep -E "^error|build failed|Build completed" | head -5
echo "$out" | grep -q "Build completed successfully" || exit 1
