#!/bin/sh
# run before committing: the setup command of MANIFEST.json must succeed (full library + driver)
cd "$(dirname "$0")/.." || exit 2
/venv/bin/python harness/extract_tables.py lean/Hpl/Generated/Tables.lean >/dev/null && cd lean && lake build Hpl hplmodel 2>&1 | grep -E "^error|build failed|Build completed" | head -5
