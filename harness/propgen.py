"""Generator / renderer of properties.
  event raw   : ('ev', topic, alias|None, pred_raw|None)  |  ('or', [ev, ev, ...])   (n-ary, as written in the text)
  property raw: {'scope': (kind, act|None, term|None), 'pattern': (kind, behaviour, trigger|None, max_time_text|None),
                 'meta': [(key, text)...]}
"""
from gen import Gen, BOOL
from raw import render, to_wire
from sexp import Sym

S = Sym
SCOPES = ['global', 'after', 'until', 'after_until']
PATTERNS = ['absence', 'existence', 'response', 'requirement', 'prevention']
TOPICS = ['a', 'b', 'c', 'd', '/ns/topic', '~private', 'e1', 'cmd_vel', 'odom', 'scan']
TIMES = [None, None, '100 ms', '1 s', '0.5 s', '2.5 s', '10 ms', '3 s', '1000 ms', '0 s', '9 ms', '13 ms', '143 ms', '1009 ms', '51 ms', '0.5 ms', '7 ms', '86 ms']


def render_event(ev, rng=None, style='min'):
    if ev[0] == 'ev':
        _, topic, alias, pred = ev
        s = topic
        if alias is not None:
            s += ' as ' + alias
        if pred is not None:
            s += ' {' + render(pred, rng, style) + '}'
        return s
    return '(' + ' or '.join(render_event(e, rng, style) for e in ev[1]) + ')'


def render_property(p, rng=None, style='min'):
    kind, act, term = p['scope']
    if kind == 'global':
        s = 'globally'
    elif kind == 'after':
        s = 'after ' + render_event(act, rng, style)
    elif kind == 'until':
        s = 'until ' + render_event(term, rng, style)
    else:
        s = 'after ' + render_event(act, rng, style) + ' until ' + render_event(term, rng, style)
    pk, beh, trig, t = p['pattern']
    b = render_event(beh, rng, style)
    if pk == 'absence':
        q = 'no ' + b
    elif pk == 'existence':
        q = 'some ' + b
    elif pk == 'response':
        q = render_event(trig, rng, style) + ' causes ' + b
    elif pk == 'requirement':
        q = b + ' requires ' + render_event(trig, rng, style)
    else:
        q = render_event(trig, rng, style) + ' forbids ' + b
    if t is not None:
        q += ' within ' + t
    meta = ''.join(f'# {k}: {v}\n' for k, v in p.get('meta', []))
    return meta + s + ': ' + q


class PropGen:
    def __init__(self, rng, max_depth=3, max_width=3, topic_schemas=None, **genkw):
        self.rng = rng
        self.topic_schemas = topic_schemas      # channel -> generator schema (None: the default schema everywhere)
        self.alias_topic = {}
        self.max_depth = max_depth
        self.max_width = max_width
        self.genkw = genkw

    def simple(self, topic, alias, avail, pred_prob=0.8):
        rng = self.rng
        pred = None
        if rng.random() < pred_prob:
            als = list(avail) + ([alias] if alias and rng.random() < 0.3 else [])
            kw = dict(self.genkw)
            if self.topic_schemas is not None:
                kw['schema'] = self.topic_schemas[topic]
                kw['alias_schemas'] = {a: self.topic_schemas[self.alias_topic[a]] for a in als if a in self.alias_topic}
            g = Gen(rng, aliases=als, max_depth=rng.randrange(1, self.max_depth + 1), **kw)
            pred = g.expr(BOOL)
        return ('ev', topic, alias, pred)

    def event(self, avail, topics, alias_pool, width=None):
        """returns (event raw, aliases it binds)"""
        rng = self.rng
        width = width or rng.choice([1, 1, 1, 2, 2, 3, self.max_width])
        width = min(width, len(topics))
        names = rng.sample(topics, width)
        evs, bound = [], []
        for n in names:
            alias = None
            if alias_pool and rng.random() < 0.5:
                alias = alias_pool.pop(0)
                bound.append(alias)
                self.alias_topic[alias] = n
            evs.append(self.simple(n, alias, avail))
        if width == 1:
            return evs[0], bound
        return ('or', evs), bound

    def prop(self, scope=None, pattern=None, widths=None):
        rng = self.rng
        scope = scope or rng.choice(SCOPES)
        pattern = pattern or rng.choice(PATTERNS)
        widths = widths or {}
        pool = ['A', 'B', 'C', 'D', 'M1', 'M2']
        rng.shuffle(pool)
        self.alias_topic = {}
        TOPICS = list(self.topic_schemas) if self.topic_schemas is not None else globals()['TOPICS']
        act = term = trig = None
        initial = []
        if scope in ('after', 'after_until'):
            act, initial = self.event([], list(TOPICS), pool, widths.get('activator'))
        if pattern in ('absence', 'existence'):
            beh, _ = self.event(initial, list(TOPICS), pool, widths.get('behaviour'))
        elif pattern == 'requirement':
            beh, al = self.event(initial, list(TOPICS), pool, widths.get('behaviour'))
            trig, _ = self.event(al + initial, list(TOPICS), pool, widths.get('trigger'))
        else:
            trig, al = self.event(initial, list(TOPICS), pool, widths.get('trigger'))
            beh, _ = self.event(al + initial, list(TOPICS), pool, widths.get('behaviour'))
        if scope in ('until', 'after_until'):
            term, _ = self.event(initial, list(TOPICS), pool, widths.get('terminator'))
        t = rng.choice(TIMES)
        meta = []
        if rng.random() < 0.4:
            keys = rng.sample(['id', 'title', 'description'], rng.randrange(1, 4))
            for k in keys:
                meta.append((k, f'p{rng.randrange(100)}' if k == 'id' else '"' + rng.choice(['some text', 'x', 'a: b # c']) + '"'))
        return {'scope': (scope, act, term), 'pattern': (pattern, beh, trig, t), 'meta': meta}


# ---- wire form ------------------------------------------------------------------------------------------
from fractions import Fraction


def simple_to_wire(ev):
    _, topic, alias, pred = ev
    return [S('ev'), topic, (alias if alias is not None else S('_')), (to_wire(pred) if pred is not None else S('_'))]


def event_to_wire(ev):
    if ev is None:
        return S('_')
    if ev[0] == 'ev':
        return simple_to_wire(ev)
    return [S('or')] + [simple_to_wire(e) for e in ev[1]]


def time_to_wire(t):
    if t is None:
        return S('inf')
    num, unit = t.split()
    f = Fraction(num)
    return [S('q'), f.numerator, f.denominator, S(unit)]


def property_to_wire(p):
    kind, act, term = p['scope']
    pk, beh, trig, t = p['pattern']
    return [S('rprop'), [S('scope'), S(kind), event_to_wire(act), event_to_wire(term)],
            [S('pat'), S(pk), event_to_wire(beh), event_to_wire(trig), time_to_wire(t)],
            [S('meta')] + [[k, v] for k, v in p.get('meta', [])]]
