"""Untyped syntax trees ("Raw") as nested tuples, their wire form, their rendering to HPL text with arbitrary
layout / parenthesisation, and their construction through the public API of hpl.ast (bottom-up, fresh nodes).

  ('lit', tok, val) ('this',) ('var', name) ('set', [e..]) ('range', lo, hi, exlo, exhi)
  ('quant', 'all'|'some', x, dom, body) ('un', op, a) ('bin', op, a, b) ('call', f, [args]) ('field', e, name)
  ('index', e, i)
"""
import math
from sexp import Sym
from dump import dump_value

S = Sym


def to_wire(r):
    k = r[0]
    if k == 'lit':
        return [S('lit'), r[1], dump_value(r[2])]
    if k == 'this':
        return [S('this')]
    if k == 'var':
        return [S('var'), r[1]]
    if k == 'set':
        return [S('set')] + [to_wire(v) for v in r[1]]
    if k == 'range':
        return [S('range'), to_wire(r[1]), to_wire(r[2]), bool(r[3]), bool(r[4])]
    if k == 'quant':
        return [S('quant'), S(r[1]), r[2], to_wire(r[3]), to_wire(r[4])]
    if k == 'un':
        return [S('un'), r[1], to_wire(r[2])]
    if k == 'bin':
        return [S('bin'), r[1], to_wire(r[2]), to_wire(r[3])]
    if k == 'call':
        return [S('call'), r[1]] + [to_wire(a) for a in r[2]]
    if k == 'field':
        return [S('field'), to_wire(r[1]), r[2]]
    if k == 'index':
        return [S('index'), to_wire(r[1]), to_wire(r[2])]
    raise ValueError(k)


# precedence levels of the grammar (higher binds tighter)
LEVEL = {'implies': 1, 'iff': 1, 'or': 2, 'and': 3,
         '=': 5, '!=': 5, '<': 5, '<=': 5, '>': 5, '>=': 5, 'in': 5,
         '+': 6, '-': 6, '*': 7, '/': 7, '**': 8}
L_NOT = 4       # negation / quantification: operand is a _logic_expr
L_EXPONENT = 9  # _exponent: atomic value, negative number, parenthesised condition
L_ATOM = 10


def level_of(r):
    k = r[0]
    if k == 'bin':
        return LEVEL[r[1]]
    if k == 'un':
        return L_NOT if r[1] == 'not' else L_EXPONENT
    if k == 'quant':
        return L_NOT
    return L_ATOM


def render(r, rng=None, style='min', ctx=0):
    """text of a Raw tree. style: 'min' minimal parentheses, 'full' every operator wrapped, 'rand' random redundant
    parentheses. ctx = minimal level required by the context."""
    k = r[0]
    lvl = level_of(r)
    if k == 'lit':
        s = r[1]
    elif k == 'this':
        raise ValueError('bare this cannot be rendered')
    elif k == 'var':
        s = '@' + r[1]
    elif k == 'set':
        s = '{' + ', '.join(render(v, rng, style, 6) for v in r[1]) + '}'
    elif k == 'range':
        s = ('![' if r[3] else '[') + render(r[1], rng, style, 6) + ' to ' + render(r[2], rng, style, 6) + (']!' if r[4] else ']')
    elif k == 'quant':
        q = 'forall' if r[1] == 'all' else 'exists'
        s = f'{q} {r[2]} in {render(r[3], rng, style, L_ATOM)}: {render(r[4], rng, style, L_NOT)}'
    elif k == 'un':
        if r[1] == 'not':
            s = 'not ' + render(r[2], rng, style, L_NOT)
        else:
            s = '-' + render(r[2], rng, style, L_EXPONENT)
    elif k == 'bin':
        op = r[1]
        if lvl == 5:     # non-associative: both sides are expr (level 6)
            s = render(r[2], rng, style, 6) + ' ' + op + ' ' + render(r[3], rng, style, 6)
        else:            # left-associative
            s = render(r[2], rng, style, lvl) + ' ' + op + ' ' + render(r[3], rng, style, lvl + 1)
    elif k == 'call':
        assert len(r[2]) == 1, 'the grammar has unary calls only'
        s = r[1] + '(' + render(r[2][0], rng, style, 6) + ')'
    elif k == 'field':
        if r[1][0] == 'this':
            s = r[2]
        else:
            s = render(r[1], rng, style, L_ATOM) + '.' + r[2]
    elif k == 'index':
        s = render(r[1], rng, style, L_ATOM) + '[' + render(r[2], rng, style, 6) + ']'
    else:
        raise ValueError(k)
    need = lvl < ctx
    if style == 'full' and k in ('bin', 'un', 'quant'):
        need = True
    if style == 'rand' and rng is not None and not need and ctx <= L_EXPONENT and rng.random() < 0.2:
        need = True
    if need:
        if ctx > L_EXPONENT:
            raise ValueError('parenthesised phrase is not an atomic value')
        s = '(' + s + ')'
        if style == 'rand' and rng is not None and rng.random() < 0.1:
            s = '(' + s + ')'
    return s


def build_api(r):
    """construct through the public constructors, bottom-up, fresh nodes (no parser)"""
    from hpl.ast import expressions as X
    k = r[0]
    if k == 'lit':
        return X.HplLiteral(r[1], r[2])
    if k == 'this':
        return X.HplThisMessage()
    if k == 'var':
        return X.HplVarReference('@' + r[1])
    if k == 'set':
        return X.HplSet(tuple(build_api(v) for v in r[1]))
    if k == 'range':
        return X.HplRange(build_api(r[1]), build_api(r[2]), exclude_min=r[3], exclude_max=r[4])
    if k == 'quant':
        return X.HplQuantifier('forall' if r[1] == 'all' else 'exists', r[2], build_api(r[3]), build_api(r[4]))
    if k == 'un':
        return X.HplUnaryOperator(r[1], build_api(r[2]))
    if k == 'bin':
        return X.HplBinaryOperator(r[1], build_api(r[2]), build_api(r[3]))
    if k == 'call':
        return X.HplFunctionCall(r[1], tuple(build_api(a) for a in r[2]))
    if k == 'field':
        return X.HplFieldAccess(build_api(r[1]), r[2])
    if k == 'index':
        return X.HplArrayAccess(build_api(r[1]), build_api(r[2]))
    raise ValueError(k)


def size(r):
    k = r[0]
    if k in ('lit', 'this', 'var'):
        return 1
    if k == 'set':
        return 1 + sum(size(v) for v in r[1])
    if k == 'call':
        return 1 + sum(size(v) for v in r[2])
    if k == 'range':
        return 1 + size(r[1]) + size(r[2])
    if k == 'quant':
        return 1 + size(r[3]) + size(r[4])
    if k == 'un':
        return 1 + size(r[2])
    if k == 'bin':
        return 1 + size(r[2]) + size(r[3])
    if k == 'field':
        return 1 + size(r[1])
    if k == 'index':
        return 1 + size(r[1]) + size(r[2])
    raise ValueError(k)
