"""Rule-directed inputs for the rewriting functions (shared by the C03 and C16 streams): every builtin function on every
admissible argument shape (C14's catalogue), aggregates over set literals that mix several literals with one to four bare
references of wide type, shapes that make simplify / split_and / refactor_reference build new parents around existing
sub-trees, and a sample of the small-scope grammar of the C08 stream."""
from gen import int_lit, float_lit, str_lit


def rule_directed(rng, quick):
    from streams.c14 import function_cases, wrap_bool
    from streams.c08 import small_grammar
    wide = [('var', 'v'), ('field', ('this',), 'a'), ('index', ('field', ('this',), 'xs'), int_lit(1)), ('field', ('var', 'A'), 'x'),
            ('field', ('field', ('this',), 'm'), 'w'), ('field', ('this',), 'u'), ('var', 'B')]
    fam = [wrap_bool(c) for c, _ in function_cases()]
    for f in ('sum', 'prod', 'max', 'min', 'len'):
        for i, r1 in enumerate(wide[:5]):
            for lits in ([int_lit(1), int_lit(2)], [int_lit(3)], [float_lit(0.5), int_lit(2), int_lit(7)], []):
                for nrefs in (1, 2, 3, 4):
                    refs = [wide[(i + k) % len(wide)] for k in range(nrefs)]
                    members = refs[:1] + lits[:1] + refs[1:] + lits[1:]
                    fam.append(('bin', '>', ('call', f, [('set', members)]), int_lit(0)))
                    if nrefs <= 2:
                        fam.append(('bin', '=', ('bin', '+', ('call', f, [('set', members)]), r1), int_lit(2)))
                    if nrefs >= 3:
                        # the reference used again elsewhere at a type the aggregate does not allow would be a clash; at a
                        # compatible one it must keep the narrowed type
                        fam.append(('bin', 'and', ('bin', '>', ('call', f, [('set', members)]), int_lit(0)), ('bin', '<', refs[-1], int_lit(9))))
    for r1 in wide[:5]:
        fam += [('bin', 'in', r1, ('set', [int_lit(1), int_lit(1), r1])), ('bin', '=', r1, ('bin', '+', int_lit(1), int_lit(2))),
                ('un', 'not', ('bin', '=', r1, wide[0])), ('bin', 'and', ('bin', '=', r1, wide[1]), ('bin', 'and', ('lit', 'True', True), ('bin', '!=', r1, wide[2]))),
                ('quant', 'all', 'i', ('set', [r1, int_lit(1)]), ('bin', 'and', ('bin', '=', ('var', 'i'), r1), ('bin', '=', r1, wide[3]))),
                ('bin', 'implies', ('bin', '=', r1, wide[3]), ('bin', 'and', ('bin', '=', r1, wide[4]), ('lit', 'True', True)))]
    # a wide-typed reference where an operator leaves its type wide (`in`, `=`, `!=`), under every connective the rewriters descend
    # through: a rewrite that builds a narrower parent around that very node would narrow the caller's object
    for r1 in wide:
        for rng_lit in (('range', int_lit(0), int_lit(10), False, False), ('range', int_lit(1), ('field', ('this',), 'c'), True, True),
                        ('set', [int_lit(1), int_lit(2)]), ('field', ('this',), 'xs')):
            m = ('bin', 'in', r1, rng_lit)
            fam += [m, ('un', 'not', m), ('bin', 'and', m, ('field', ('this',), 'b')), ('bin', 'or', ('field', ('this',), 'b'), m),
                    ('bin', 'implies', m, ('field', ('this',), 'b')), ('bin', 'iff', ('field', ('this',), 'b'), m),
                    ('un', 'not', ('bin', 'or', m, ('field', ('this',), 'b')))]
    g1, g2, g3 = small_grammar(rng, 40 if quick else 400)
    fam += rng.sample(g1, min(len(g1), 150 if quick else 2000)) + rng.sample(g2, min(len(g2), 150 if quick else 3000)) + g3
    return fam
