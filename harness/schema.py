"""Random message schemas (C17, C04): one description, three views —
  * hpl.types tokens (what the implementation is given),
  * the wire form of the Lean model's TyTok,
  * the schema format of the type-directed generator (gen.py).
A description is ('prim', token_name, kind) | ('arr', name, elem, length) | ('msg', name, {field: desc}, {const: (desc, value)}).
Valid-by-construction generation uses literal indices 0..3, so fixed-length arrays have length >= 4 (or -1)."""
from sexp import Sym
from gen import BOOL, NUM, STR

S = Sym
NUM_TOKENS = ['uint8', 'uint16', 'uint32', 'uint64', 'int8', 'int16', 'int32', 'int64', 'float32', 'float64']
FIELD_NAMES = ['x', 'y', 'z', 'b', 'c', 's', 't', 'w', 'k', 'q', 'v', 'u', 'p', 'f', 'g', 'h', 'val', 'data', 'flag', 'name', 'pos', 'vel',
               'id_', 'count', 'frame', 'seq', 'stamp', 'ok', 'err', 'total']
ARR_NAMES = ['xs', 'ys', 'zs', 'bs', 'ss', 'ws', 'items', 'values', 'ranges', 'names']
MSG_NAMES = ['m', 'n', 'hdr', 'pose', 'twist', 'info', 'child']
MSGARR_NAMES = ['ms', 'ns', 'poses', 'points']
CONST_NAMES = ['K', 'MAXV', 'MODE_A', 'MODE_B', 'LIMIT']
class _LiveTypes(dict):
    """kind -> numeric value of the live `DataType` member (the numbering is an implementation detail of /repo)"""
    def __missing__(self, k):
        from hpl.types import DataType
        v = {BOOL: DataType.BOOL, NUM: DataType.NUMBER, STR: DataType.STRING}[k].value
        self[k] = int(v)
        return self[k]


TY = _LiveTypes()


def gen_prim(rng, kind=None):
    kind = kind or rng.choice([NUM, NUM, NUM, BOOL, BOOL, STR])
    if kind == NUM:
        return ('prim', rng.choice(NUM_TOKENS), NUM)
    if kind == BOOL:
        return ('prim', 'bool', BOOL)
    return ('prim', 'string', STR)


def gen_msg(rng, name='T', depth=0, max_depth=2):
    fields, consts = {}, {}
    names = rng.sample(FIELD_NAMES, rng.randrange(2, 7))
    for n in names:
        fields[n] = gen_prim(rng)
    # make sure the basic kinds exist at the top level so that the generator always finds references
    if depth == 0:
        fields.setdefault('x', ('prim', 'int32', NUM))
        fields.setdefault('b', ('prim', 'bool', BOOL))
    for n in rng.sample(ARR_NAMES, rng.randrange(0, 4)):
        length = rng.choice([-1, -1, 4, 5, 8])
        fields[n] = ('arr', n + '[]', gen_prim(rng), length)
    if depth < max_depth:
        for n in rng.sample(MSG_NAMES, rng.randrange(0, 3)):
            fields[n] = gen_msg(rng, name + '_' + n, depth + 1, max_depth)
        for n in rng.sample(MSGARR_NAMES, rng.randrange(0, 2)):
            fields[n] = ('arr', n + '[]', gen_msg(rng, name + '_' + n, depth + 1, max_depth), rng.choice([-1, 4, 6]))
    for n in rng.sample(CONST_NAMES, rng.randrange(0, 3)):
        p = gen_prim(rng)
        consts[n] = (p, {NUM: 3, BOOL: True, STR: 'k'}[p[2]])
    # declaration order is part of leaf_fields(): shuffle
    items = list(fields.items())
    rng.shuffle(items)
    return ('msg', name, dict(items), consts)


def to_token(d):
    import hpl.types as T
    if d[0] == 'prim':
        if d[2] == BOOL:
            return T.BOOLEANS
        if d[2] == STR:
            return T.STRINGS
        return getattr(T, d[1].upper())
    if d[0] == 'arr':
        return T.ArrayType(d[1], to_token(d[2]), d[3])
    return T.MessageType(d[1], fields={k: to_token(v) for k, v in d[2].items()}, constants={k: (to_token(v[0]), v[1]) for k, v in d[3].items()})


def to_wire(d):
    if d[0] == 'prim':
        return [S('prim'), d[1], TY[d[2]]]
    if d[0] == 'arr':
        return [S('arr'), d[1], to_wire(d[2]), d[3]]
    return [S('msg'), d[1], [[k, to_wire(v)] for k, v in d[2].items()], [[k, to_wire(v[0])] for k, v in d[3].items()]]


def token_to_wire(t):
    """an hpl.types token -> wire (the dumper for what the implementation returns, e.g. leaf_fields values)"""
    import hpl.types as T
    if isinstance(t, T.MessageType):
        return [S('msg'), t.name, [[k, token_to_wire(v)] for k, v in t.fields.items()], [[k, token_to_wire(v[0])] for k, v in t.constants.items()]]
    if isinstance(t, T.ArrayType):
        return [S('arr'), t.name, token_to_wire(t.subtype), t.length]
    return [S('prim'), t.name, int(t.type.value) if hasattr(t.type, 'value') else int(t.type)]


def to_gen_schema(d):
    """the generator's view of a message description (constants are readable like fields)"""
    assert d[0] == 'msg'
    out = {}
    for k, v in list(d[2].items()) + [(k, c[0]) for k, c in d[3].items()]:
        out[k] = _gen_type(v)
    return out


def _gen_type(v):
    if v[0] == 'prim':
        return v[2]
    if v[0] == 'arr':
        return ('arr', _gen_type(v[2]))
    return ('msg', to_gen_schema(v))


def walk(d, path):
    """declared description at the end of a path of field names / '[]' steps, or None"""
    for step in path:
        if step == '[]':
            if d[0] != 'arr':
                return None
            d = d[2]
        else:
            if d[0] != 'msg':
                return None
            if step in d[2]:
                d = d[2][step]
            elif step in d[3]:
                d = d[3][step][0]
            else:
                return None
    return d


def leaf_paths(d, prefix=''):
    """independent listing of the leaves of a message description (declaration order)"""
    out = []
    for k, v in d[2].items():
        if v[0] == 'msg':
            out += leaf_paths(v, prefix + k + '.')
        else:
            out.append(prefix + k)
    return out


def from_gen_schema(g, name='D'):
    """a message description for a generator schema (gen.DEFAULT_SCHEMA-style): numbers are float64, arrays of variable length"""
    fields = {}
    for k, t in g.items():
        fields[k] = _desc_of(t, name + '_' + k)
    return ('msg', name, fields, {})


def _desc_of(t, name):
    if t == NUM:
        return ('prim', 'float64', NUM)
    if t == BOOL:
        return ('prim', 'bool', BOOL)
    if t == STR:
        return ('prim', 'string', STR)
    if t[0] == 'arr':
        return ('arr', name + '[]', _desc_of(t[1], name), -1)
    return from_gen_schema(t[1], name)
