#!/bin/sh
# Re-run every archived seeded change against its property's check: apply to /repo, run, restore.  Usage: harness/seed_regression.sh [tier]
# Writes seeded/REGRESSION.txt (one line per seeded change).  /repo must be clean when this starts.
cd "$(dirname "$0")/.." || exit 2
tier=${1:-quick}
if [ -n "$(git -C /repo status --short -- src)" ]; then echo "/repo has local changes" >&2; exit 2; fi
out=seeded/REGRESSION.txt
: > $out
for d in seeded/C*/; do
  name=$(basename $d); prop=${name%%-*}
  if git -C /repo apply "$(pwd)/$d/patch.diff" 2>/dev/null; then
    res=$(./check $prop --tier $tier 2>&1 | grep -E "VIOLATION|done rc=" | tr '\n' ' ')
    git -C /repo checkout -- . ; rm -rf /repo/.hypothesis
    case "$res" in *"rc=1"*) verdict=CAUGHT;; *"rc=0"*) verdict=MISSED;; *) verdict=ERROR;; esac
  else
    verdict=PATCH-DOES-NOT-APPLY; res=""
  fi
  echo "$verdict $name :: $res" | tee -a $out
done
