#!/bin/sh
# Re-run every archived seeded change against its property's check, on a scratch worktree of /repo (HPL_REPO), never on
# /repo itself.  Usage: harness/seed_regression.sh [tier]   -> seeded/REGRESSION.txt (one line per seeded change)
cd "$(dirname "$0")/.." || exit 2
tier=${1:-quick}
wt=$(mktemp -d /tmp/seedreg.XXXXXX)
git -C /repo worktree add --detach "$wt" HEAD -q || exit 2
out=seeded/REGRESSION.txt
: > $out
for d in seeded/C*/; do
  name=$(basename $d); prop=${name%%-*}
  if git -C "$wt" apply "$(pwd)/$d/patch.diff" 2>/dev/null; then
    res=$(HPL_REPO="$wt" ./check $prop --tier $tier 2>&1 | grep -E "VIOLATION|done rc=" | tr '\n' ' ')
    git -C "$wt" checkout -- . ; rm -rf "$wt/.hypothesis"
    case "$res" in *"rc=1"*) verdict=CAUGHT;; *"rc=0"*) verdict=MISSED;; *) verdict=ERROR;; esac
  else
    verdict=PATCH-DOES-NOT-APPLY; res=""
  fi
  echo "$verdict $name :: $res" | tee -a $out
done
git -C /repo worktree remove --force "$wt"
# leave the generated tables as the real tree has them
/venv/bin/python harness/extract_tables.py lean/Hpl/Generated/Tables.lean >/dev/null
