"""S-expression codec of the line protocol (Python side). Strings are JSON-escaped ASCII; atoms are bare."""
import json


class Sym(str):
    """bare atom"""
    __slots__ = ()

    def __repr__(self):
        return f'Sym({str.__repr__(self)})'


def dumps(x) -> str:
    if isinstance(x, Sym):
        return str(x)
    if isinstance(x, bool):
        return '1' if x else '0'
    if isinstance(x, int):
        return str(x)
    if isinstance(x, str):
        return json.dumps(x, ensure_ascii=True)
    if isinstance(x, (list, tuple)):
        return '(' + ' '.join(dumps(y) for y in x) + ')'
    raise TypeError(f'cannot encode {x!r}')


_WS = ' \t\r\n'
_DELIM = _WS + '()"'


def loads(s: str):
    x, i = _parse(s, 0)
    while i < len(s) and s[i] in _WS:
        i += 1
    if i != len(s):
        raise ValueError(f'trailing input at {i}: {s[i:i+20]!r}')
    return x


def _parse(s, i):
    n = len(s)
    while i < n and s[i] in _WS:
        i += 1
    if i >= n:
        raise ValueError('unexpected end')
    c = s[i]
    if c == '(':
        i += 1
        out = []
        while True:
            while i < n and s[i] in _WS:
                i += 1
            if i >= n:
                raise ValueError('unclosed list')
            if s[i] == ')':
                return out, i + 1
            x, i = _parse(s, i)
            out.append(x)
    if c == '"':
        j = i + 1
        while True:
            if j >= n:
                raise ValueError('unclosed string')
            if s[j] == '\\':
                j += 2
                continue
            if s[j] == '"':
                break
            j += 1
        return json.loads(s[i:j + 1]), j + 1
    if c == ')':
        raise ValueError('unexpected )')
    j = i
    while j < n and s[j] not in _DELIM:
        j += 1
    return Sym(s[i:j]), j
