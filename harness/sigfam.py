"""Signature-coverage family (C04, C16): for every builtin function overload, binary and unary operator, one well-typed
application per combination of base kinds its parameter types admit, over the generator's default schema; each wrapped into a
boolean term. Deterministic: every (function/operator, parameter kind) pair is exercised on every run."""
import itertools
from gen import int_lit, str_lit, TRUE

X, Y = ('field', ('this',), 'x'), ('field', ('this',), 'y')
ARGS = {
    1: [('field', ('this',), 'b'), TRUE, ('bin', '>', X, int_lit(0)), ('field', ('field', ('this',), 'm'), 'b'), ('field', ('var', 'A'), 'c')],
    2: [X, int_lit(2), ('bin', '+', Y, int_lit(1)), ('field', ('var', 'A'), 'y'), ('index', ('field', ('this',), 'xs'), int_lit(0))],
    4: [('field', ('this',), 's'), str_lit('a'), ('field', ('var', 'A'), 't')],
    8: [('field', ('this',), 'xs'), ('field', ('this',), 'ss'), ('field', ('this',), 'bs'), ('field', ('var', 'A'), 'ys')],
    16: [('range', int_lit(0), X, False, False), ('range', int_lit(1), int_lit(4), True, False)],
    32: [('set', [X, int_lit(1)]), ('set', [('field', ('this',), 's')]), ('set', [('field', ('this',), 'b'), TRUE])],
    64: [('field', ('this',), 'm'), ('var', 'A')],
}
BITS = [1, 2, 4, 8, 16, 32, 64]


def wrap(term, result_bits):
    if result_bits & 1:
        return term
    if result_bits & 2:
        return ('bin', '>', term, int_lit(0))
    if result_bits & 4:
        return ('bin', '=', term, str_lit('a'))
    return None


def signature_family():
    """from the signature table pinned in harness/baseline_signatures.json (the documented signatures at the pinned commit) —
    deliberately NOT from the live tables, so that a narrowed or widened live signature shows as a rejected / accepted case"""
    import json, os
    base = json.load(open(os.path.join(os.path.dirname(os.path.abspath(__file__)), 'baseline_signatures.json')))
    out = []
    for name, overloads in base['functions'].items():
        for sig in overloads:
            kinds = [[b for b in BITS if p & b] for p in sig['parameters']]
            for combo in itertools.product(*kinds):
                for variant in range(2):
                    args = [ARGS[k][(variant * 2 + i) % len(ARGS[k])] for i, k in enumerate(combo)]
                    w = wrap(('call', name, args), sig['result'])
                    if w is not None:
                        out.append((w, f'{name}({",".join(map(str, combo))})'))
    for token, d in base['binary'].items():
        p1, p2 = d['p1'], d['p2']
        for k1 in [b for b in BITS if p1 & b]:
            for k2 in [b for b in BITS if p2 & b]:
                if p1 & p2 and k1 != k2:
                    continue        # operands of =/!= (and of every operator with overlapping parameters) share one type
                for variant in range(3):
                    a = ARGS[k1][variant % len(ARGS[k1])]
                    b = ARGS[k2][(variant + 1) % len(ARGS[k2])]
                    w = wrap(('bin', token, a, b), d['result'])
                    if w is not None:
                        out.append((w, f'{token}({k1},{k2})'))
    for token, d in base['unary'].items():
        for k in [b for b in BITS if d['p'] & b]:
            for a in ARGS[k][:3]:
                w = wrap(('un', token, a), d['result'])
                if w is not None:
                    out.append((w, f'{token}({k})'))
    return out


def sibling_family():
    """sibling (not nested) quantifiers that reuse one variable name over domains of every kind and element type - own and aliased
    arrays, set literals, ranges - each body narrowing its variable to the element type: two unrelated variables of one name never
    constrain each other (C04), whatever the kinds of the two domains"""
    from gen import TRUE
    V = ('var', 'v')
    T = lambda *p: ('field', ('this',), p[0]) if len(p) == 1 else ('field', T(*p[:-1]), p[-1])
    A = lambda n: ('field', ('var', 'A'), n)
    num_body = [('bin', '>', V, int_lit(0)), ('bin', '=', ('bin', '+', V, int_lit(1)), X)]
    bool_body = [V, ('bin', 'implies', V, ('field', ('this',), 'b'))]
    str_body = [('bin', '=', V, str_lit('a'))]
    doms = [('num', T('xs'), num_body), ('num', A('ys'), num_body), ('num', T('m', 'xs'), num_body), ('bool', T('bs'), bool_body), ('bool', A('bs'), bool_body),
            ('str', T('ss'), str_body), ('str', A('ss'), str_body), ('num', ('set', [X, int_lit(1)]), num_body),
            ('str', ('set', [('field', ('this',), 's'), str_lit('b')]), str_body), ('bool', ('set', [('field', ('this',), 'b'), TRUE]), bool_body),
            ('num', ('range', int_lit(0), X, False, False), num_body)]
    out = []
    for i, (k1, d1, b1) in enumerate(doms):
        for j, (k2, d2, b2) in enumerate(doms):
            if i == j:
                continue
            q1 = ('quant', 'all' if (i + j) % 2 else 'some', 'v', d1, b1[(i + j) % len(b1)])
            q2 = ('quant', 'some' if j % 2 else 'all', 'v', d2, b2[i % len(b2)])
            conn = ('and', 'or', 'implies')[(i + 2 * j) % 3]
            out.append((('bin', conn, q1, q2), f'siblings({k1}:{d1[0]},{k2}:{d2[0]})'))
    return out
