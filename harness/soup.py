"""Token soups: short random sequences over the reserved words of the three grammars, a few atoms and the punctuation.
About one in twenty is accepted; the accepted ones are the texts in which a reserved word is read as a field, alias or channel name
because of where it stands (the contextual lexer), or as a constant - the cases a tree-directed generator never writes."""

KW = ['and', 'or', 'not', 'implies', 'iff', 'in', 'to', 'forall', 'exists', 'True', 'False', 'INF', 'NAN', 'PI', 'E', 'as', 'within', 's', 'ms',
      'id', 'globally', 'no', 'some', 'after', 'until', 'causes', 'requires', 'forbids', 'title', 'description']
ATOM = ['a', 'b', '1', '2.5', '"s"', '@x', '@in', 'x', 'len', 'xs']
SYM = ['(', ')', '{', '}', '[', ']', '![', ']!', '.', ',', ':', '=', '<', '+', '-', '*', '**', '/', '!=', '#']

CONSTANT_TEXTS = [t.replace('%', c) for c in ('NAN', 'INF', 'PI', 'E') for t in
                  ('%', 'x < %', '- %', '% + 1 > x', 'x in [% to %]', 'x in {%, 1}', 'x in ![0 to %]!', 'abs(%) > 0', 'not x = %', 'b and % != y',
                   'forall i in xs: @i < %', 'xs[0] < % or b', '(%) = (%)')]


def soup(rng, max_len=8):
    k = rng.randrange(1, max_len + 1)
    return ' '.join(rng.choice(KW if rng.random() < 0.5 else (ATOM if rng.random() < 0.5 else SYM)) for _ in range(k))


def soups(rng, n):
    """(entry, text) pairs"""
    out = []
    for _ in range(n):
        body = soup(rng)
        mode = rng.randrange(4)
        if mode == 0:
            out.append(('expression', body))
        elif mode == 1:
            out.append(('predicate', '{ ' + body + ' }'))
        elif mode == 2:
            out.append(('property', 'globally: ' + body))
        else:
            out.append(('property', body))
    return out
