"""C01 — parsing builds exactly the tree the grammar assigns to the text.
Random and small-scope-enumerated abstract trees (Raw) are rendered with minimal / full / redundant parenthesisation and
arbitrary layout; every parser entry point must return the AST the grammar assigns (judged against `build` of the
generator's tree through the Lean model — independent of the model parser), and must agree with the model parser on the
text itself; names beginning with keywords, non-canonical number spellings, time bounds in ms/s; token-level mutations
for the accept / reject side."""
from sexp import Sym, dumps, loads
from gen import Gen, BOOL, NUM, int_lit, str_lit
from raw import render, to_wire
from propgen import PropGen, render_property, property_to_wire
from dump import dump_expr, dump_pred, dump_property, dump_spec, canon_str, classify_exception
from layout import relayout, mutate, tokens

S = Sym
PROPERTY = 'C01'
PROPS_MODULES = ['C01', 'C01b', 'C01c', 'C01d', 'C06d', 'C06g', 'C18b', 'C18c', 'C01e', 'C18e', 'C01f', 'C01g']
ASSUMPTIONS = ['float literal values are compared as the decimal their token denotes (12 significant digits)',
               'for mutated texts with several defects the error *class* may differ between Lark (first defect in LALR reduce order) and the '
               'model (syntax first); accept/reject must agree']

KEYWORDISH = ['notify', 'Error', 'PIN', 'INFO', 'NANO', 'Exy', 'inx', 'order', 'android', 'total', 'asset', 'nothing', 'somebody', 'untilx',
              'afterwards', 'globallyx', 'forallx', 'exists_x', 'impliesx', 'iffy', 'Truex', 'False1', 'tox', 'withinx', 'causesx', 'requiresx',
              'forbidsx', 'not_', '_not', 'in_', 'PI2', 'E1', 'sx', 'msx', 'idx', 'title', 'description', 'id', 's', 'ms']
NUMBERS = ['0', '1', '01', '007', '1.', '1.0', '.5', '0.5', '1e3', '1E3', '1e+3', '2e-2', '1.5e1', '.5e1', '10.', '12', '3.25', '100']


class KwGen(Gen):
    """field / alias / variable names that merely begin with (or are) keywords, and non-canonical number spellings"""

    def leaf(self, want, bound):
        r = self.rng.random()
        if want == NUM and r < 0.25:
            tok = self.rng.choice(NUMBERS)
            try:
                v = int(tok)
            except ValueError:
                v = float(tok)
            return ('lit', tok, v)
        if r < 0.5:
            name = self.rng.choice(KEYWORDISH)
            k = self.rng.random()
            if k < 0.5:
                return ('field', ('this',), name)
            if k < 0.7:
                return ('field', ('field', ('field', ('this',), 'm'), self.rng.choice(['n', 'not', 'in', 'True', 'PI', 'to', 'and', 'E', 'forall'])), name)
            if k < 0.85:
                return ('field', ('var', self.rng.choice(['A', 'in', 'not', 'to', 'E'])), name)
            return ('index', ('field', ('this',), name), int_lit(self.rng.randrange(3)))
        return super().leaf(want, bound)


def outcome(f, dumper):
    try:
        return ('ok', canon_str(dumper(f())))
    except Exception as e:
        return ('err', classify_exception(e))


def decode(a, multi=False):
    x = loads(a)
    if x[0] == 'ok':
        if multi:
            return ('ok', canon_str([S('spec')] + x[1:]))
        return ('ok', canon_str(x[1]))
    return ('err', str(x[1]) if str(x[1]) != 'internal' else 'internal:' + str(x[2]))


def run(ctx):
    rng = ctx.rng
    from hpl.parser import expression_parser, predicate_parser, condition_parser, property_parser, specification_parser
    ep, prp, cp, pp, sp = expression_parser(), predicate_parser(), condition_parser(), property_parser(), specification_parser()
    cases = []    # (input, impl outcome, model-parse request, spec request or None, kind)
    n = 900 if ctx.quick else 12000
    rejects = 0
    g1 = Gen(rng, aliases=['A', 'B'], max_depth=4)
    g2 = KwGen(rng, aliases=['A', 'in', 'not'], max_depth=3)
    for i in range(n):
        g = g2 if i % 2 else g1
        want = rng.choice([BOOL, BOOL, NUM])
        r = g.expr(want, depth=rng.randrange(1, 5))
        try:
            txt = relayout(render(r, rng, rng.choice(['min', 'full', 'rand'])), rng)
        except ValueError:
            rejects += 1
            continue
        entry = rng.choice(['expression', 'predicate', 'condition']) if want == BOOL else 'expression'
        if entry == 'expression':
            out = outcome(lambda: ep.parse(txt), dump_expr)
            cases.append(({'entry': entry, 'text': txt}, out, dumps([S('parse'), S('expression'), txt]), dumps([S('build'), to_wire(r)]), 'valid'))
        elif entry == 'predicate':
            t2 = rng.choice(['{', ' {', '{ ', '\n{\n']) + txt + rng.choice(['}', ' }', '} ', '\n}'])
            out = outcome(lambda: prp.parse(t2), dump_pred)
            cases.append(({'entry': entry, 'text': t2}, out, dumps([S('parse'), S('predicate'), t2]), dumps([S('mkpred'), to_wire(r)]), 'valid'))
        else:
            out = outcome(lambda: cp.parse(txt), dump_pred)
            cases.append(({'entry': entry, 'text': txt}, out, None, dumps([S('mkpred'), to_wire(r)]), 'valid'))
    # associativity / precedence chains: every binary operator in unparenthesised chains of 3..4 operands, nested to the
    # left and to the right, and every adjacent pair of precedence levels mixed (minimal parentheses only)
    NUMOPS, BOOLOPS, RELOPS = ['+', '-', '*', '/', '**'], ['and', 'or', 'implies', 'iff'], ['=', '!=', '<', '<=', '>', '>=', 'in']
    natoms = [('field', ('this',), 'x'), ('field', ('this',), 'y'), int_lit(2), ('field', ('var', 'A'), 'z'), ('index', ('field', ('this',), 'xs'), int_lit(0))]
    batoms = [('field', ('this',), 'b'), ('field', ('this',), 'c'), ('lit', 'True', True), ('field', ('field', ('this',), 'm'), 'b')]
    chains = []
    for ops, atoms, want in ((NUMOPS, natoms, NUM), (BOOLOPS, batoms, BOOL)):
        for o1 in ops:
            for o2 in ops:
                a, b, c, d = rng.sample(atoms, 4)
                chains.append((('bin', o2, ('bin', o1, a, b), c), want))
                chains.append((('bin', o1, a, ('bin', o2, b, c)), want))
                chains.append((('bin', o2, ('bin', o1, ('bin', o2, a, b), c), d), want))
                chains.append((('bin', o1, a, ('bin', o2, b, ('bin', o1, c, d))), want))
                if want == NUM:
                    chains.append((('bin', o2, ('un', '-', ('bin', o1, a, b)), c), want))
                    chains.append((('bin', o1, ('un', '-', a), ('bin', o2, ('un', '-', b), c)), want))
                else:
                    chains.append((('bin', o2, ('un', 'not', ('bin', o1, a, b)), c), want))
                    chains.append((('bin', o1, ('un', 'not', a), ('bin', o2, ('un', 'not', b), c)), want))
    for rel in RELOPS:
        for o in NUMOPS:
            a, b, c = rng.sample(natoms, 3)
            rhs = ('bin', o, b, c) if rel != 'in' else ('set', [('bin', o, b, c)])
            chains.append((('bin', rel, ('bin', o, a, b), c if rel != 'in' else ('set', [c])), BOOL))
            chains.append((('bin', rel, a, rhs), BOOL))
        for o in BOOLOPS:
            a, b = rng.sample(natoms, 2)
            p_, q_ = rng.sample(batoms, 2)
            r1 = ('bin', rel, a, b if rel != 'in' else ('set', [b]))
            chains.append((('bin', o, r1, p_), BOOL))
            chains.append((('bin', o, p_, r1), BOOL))
            chains.append((('bin', o, ('un', 'not', r1), q_), BOOL))
            chains.append((('un', 'not', ('bin', o, r1, q_)), BOOL))
    for r, want in chains:
        try:
            txt = render(r, rng, 'min')
        except ValueError:
            rejects += 1
            continue
        if rng.random() < 0.3:
            txt = relayout(txt, rng)
        out = outcome(lambda: ep.parse(txt), dump_expr)
        cases.append(({'entry': 'expression', 'text': txt, 'family': 'chain'}, out, dumps([S('parse'), S('expression'), txt]), dumps([S('build'), to_wire(r)]), 'valid'))
    # a keyword glued to the end of a number (`\\b` of the keyword terminals): `10.in xs` is `10. in xs`, `10in xs` is a syntax error
    for tok in NUMBERS + ['10.', '2.e1', '3e2', '7.5']:
        for txt in (f'x in [{tok}to 9]', f'y = {tok}and b', f'{tok}in xs', f'b or x > {tok}or c', f'x < {tok}implies b', f'x = {tok}iff b',
                    f'xs[{tok}] > 0', f'x = {tok}.y', f'{tok}x > 0', f'forall i in [0 to {tok}]: @i > 0'):
            out = outcome(lambda: ep.parse(txt), dump_expr)
            cases.append(({'entry': 'expression', 'text': txt, 'family': 'number-keyword'}, out, dumps([S('parse'), S('expression'), txt]), None, 'mutated'))
    pg = PropGen(rng, max_depth=2)
    props = []
    for _ in range(n // 3):
        p = pg.prop()
        txt = relayout(render_property(p, rng, rng.choice(['min', 'rand'])), rng)
        out = outcome(lambda: pp.parse(txt), dump_property)
        cases.append(({'entry': 'property', 'text': txt}, out, dumps([S('parse'), S('property'), txt]), dumps([S('mkprop'), property_to_wire(p)]), 'valid'))
        props.append((p, txt))
    # token-level mutations (accept / reject side)
    base = [c for c in cases if c[1][0] == 'ok']
    muts = []
    for _ in range(n // 2):
        c = rng.choice(base)
        entry = c[0]['entry']
        if entry == 'condition':
            continue
        t = mutate(c[0]['text'], rng, rng.choice([1, 1, 2]))
        parser = {'expression': ep, 'predicate': prp, 'property': pp}[entry]
        dumper = {'expression': dump_expr, 'predicate': dump_pred, 'property': dump_property}[entry]
        out = outcome(lambda: parser.parse(t), dumper)
        muts.append(({'entry': entry, 'text': t, 'mutated': True}, out, dumps([S('parse'), S(entry), t]), None, 'mutated'))
    cases += muts
    # channel-name spellings, well- and ill-formed, in every event position
    nchan = 0
    for name in ['/a/b_c1', '~x', 'a/b', 'a1', 'a_b', 'a/', 'a//b', '/', '~', '~/x', '/1a', 'a/1', 'A', '_a', 'a.b', 'a-b', '/a/b/c/d', 'x/y_/z9', '~a/b', '/A_/b',
                 'a/b/', '//a', '~~a', 'a~b', 'some', 'no', 'as', 'within', 'or', 'globally', 's', 'ms', 'a/some', '/no']:
        for tpl in ('globally: no %s', 'globally: %s as A causes b {@A.x > 0}', 'after %s: some (%s or b)', 'until %s {x > 0}: c requires %s within 1 s',
                    'globally: (b or %s) forbids d'):
            t = tpl.replace('%s', name)
            out = outcome(lambda: pp.parse(t), dump_property)
            nchan += out[0] == 'ok'
            cases.append(({'entry': 'property', 'text': t, 'family': 'channel-names'}, out, dumps([S('parse'), S('property'), t]), None, 'mutated'))
    # token soups over the reserved words: where a reserved word is a name and where it is not (the contextual lexer), accept / reject side
    from soup import soups
    nsoup = 0
    for entry, t in soups(rng, 3000 if ctx.quick else 40000):
        parser = {'expression': ep, 'predicate': prp, 'property': pp}[entry]
        dumper = {'expression': dump_expr, 'predicate': dump_pred, 'property': dump_property}[entry]
        out = outcome(lambda: parser.parse(t), dumper)
        nsoup += out[0] == 'ok'
        cases.append(({'entry': entry, 'text': t, 'family': 'reserved-word-soup'}, out, dumps([S('parse'), S(entry), t]), None, 'mutated'))

    disagreements, violations = [], []
    distinct = set()
    stats = {'valid_ok': 0, 'valid_rejected': 0, 'mutated_accepted': 0, 'mutated_rejected': 0}
    if ctx.driver is not None:
        lines = [c[2] for c in cases if c[2] is not None] + [c[3] for c in cases if c[3] is not None]
        answers = dict(zip(lines, ctx.driver.run_parallel(lines)))
        for inp, out, req_m, req_s, kind in cases:
            distinct.add(inp['text'])
            if kind == 'valid':
                stats['valid_ok' if out[0] == 'ok' else 'valid_rejected'] += 1
            else:
                stats['mutated_accepted' if out[0] == 'ok' else 'mutated_rejected'] += 1
            if req_m is not None:
                m = decode(answers[req_m])
                same = (out == m)
                if (not same and kind == 'mutated' and out[0] == 'err' and m[0] == 'err' and out[1] in ('syntax', 'sanity', 'type', 'value')
                        and m[1] in ('syntax', 'sanity', 'type', 'value')):
                    same = True      # several defects: class may differ by detection order
                if not same:
                    disagreements.append({'input': inp, 'impl': _short(out), 'model': _short(m)})
            if req_s is not None:
                sp_ = decode(answers[req_s])
                if out != sp_:
                    violations.append({'input': inp, 'impl': _short(out), 'spec': _short(sp_),
                                       'what': 'the parser did not return the AST the grammar assigns to this text (the tree it was rendered from)',
                                       'signature': 'wrong-tree' if out[0] == 'ok' and sp_[0] == 'ok' else ('rejected-wellformed' if out[0] == 'err' else 'accepted-illtyped')})
            if out[0] == 'err' and out[1].startswith('internal'):
                violations.append({'input': inp, 'impl': out, 'what': 'the parser leaked an internal failure', 'signature': 'internal'})
    samples = [c[0] for c in cases[:3]] + [c[0] for c in muts[:3]]
    return {
        'evaluations': len(cases),
        'distinct_nontrivial': len(distinct),
        'rule': 'type-directed random trees (depth <= 4), half of them with names that begin with / equal keywords and non-canonical number '
                'spellings, rendered with minimal, full or random redundant parentheses and random layout (spaces, tabs, form feeds, CR/LF, no '
                'space where tokens allow), through the expression, predicate, condition and property entry points; one or two token-level '
                'insertions / deletions / substitutions of accepted texts for the reject side.',
        'samples': samples,
        'violations': violations,
        'disagreements': disagreements,
        'coverage_extra': dict(stats, generator_rejects=rejects, reserved_word_soups_accepted=nsoup, channel_name_texts_accepted=nchan),
    }


def _short(o):
    return [o[0], o[1][:400]]


def matches_known(v, k):
    return v.get('signature') == k.get('signature')


def replay(ctx, payload):
    return None
