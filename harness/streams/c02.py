"""C02 — accepted iff every alias reference is bound earlier, once.
A. grid (exhaustive in the thorough tier, sampled in quick): 4 scopes x 5 patterns x simple events with alias in
   {-, X, Y} and references ⊆ {X, Y} in every present position, built through the API from pre-parsed predicates;
   implementation verdict vs model `sanity` vs spec decider `wellscoped` (= WellScoped, theorem wellScopedB_iff).
B. random properties with perturbed aliases / references / duplicated channels / quantifier hygiene violations, built
   through three routes (text, API, but()); verdicts must coincide with each other, the model and the spec."""
import itertools
from sexp import Sym, dumps, loads
from dump import dump_scope, dump_pattern, dump_event, dump_property, classify_exception, canon_str
from propgen import PropGen, render_property, property_to_wire, render_event
from raw import to_wire, render
from gen import int_lit

S = Sym
PROPERTY = 'C02'
PROPS_MODULES = ['C02', 'Hpl.Lemmas.QuantOK']
ASSUMPTIONS = ['the constructor guarantees assumed by sanityCheck_ok_iff (EvOK: quantifier invariant, non-empty aliases) are '
               'proved for parser-built events in Hpl/Lemmas/QuantOK.lean (build_quantOK, buildSimple_EvOK)']

SCOPES = ['global', 'after', 'until', 'after_until']
PATTERNS = ['absence', 'existence', 'response', 'requirement', 'prevention']
ALIASES = [None, 'X', 'Y']
REFSETS = [(), ('X',), ('Y',), ('X', 'Y')]


def positions(scope, pattern):
    pos = []
    if scope in ('after', 'after_until'):
        pos.append('activator')
    if pattern in ('response', 'prevention'):
        pos += ['trigger', 'behaviour']
    elif pattern == 'requirement':
        pos += ['behaviour', 'trigger']
    else:
        pos.append('behaviour')
    if scope in ('until', 'after_until'):
        pos.append('terminator')
    return pos


def verdict(f):
    try:
        f()
        return 'ok'
    except Exception as e:
        return classify_exception(e)


def run(ctx):
    from hpl.parser import predicate_parser, property_parser
    from hpl.ast import HplSimpleEvent, HplEventDisjunction, HplScope, HplPattern, HplProperty
    from hpl.ast.properties import ScopeType, PatternType
    rng = ctx.rng
    prp = predicate_parser()
    preds = {}
    for rs in REFSETS:
        txt = '{x > 0' + ''.join(f' and @{r}.v > 0' for r in rs) + '}'
        preds[rs] = prp.parse(txt)
    # the same reference sets, with a quantifier elsewhere in the predicate that binds one of the referenced names (`@X.v` outside the
    # quantifier stays a reference to the aliased message X; the quantified X is only visible inside the quantifier)
    preds_q = {}
    for rs in REFSETS:
        names = rs if rs else ('X',)
        q = names[0]
        txt = '{x > 0 and (forall ' + q + ' in xs: @' + q + ' > 0)' + ''.join(f' and @{r}.v > 0' for r in rs) + '}'
        preds_q[rs] = prp.parse(txt)
    topics = {'activator': 'a', 'trigger': 'b', 'behaviour': 'c', 'terminator': 'd'}
    ST = {'global': ScopeType.GLOBAL, 'after': ScopeType.AFTER, 'until': ScopeType.UNTIL, 'after_until': ScopeType.AFTER_UNTIL}
    PT = {'absence': PatternType.ABSENCE, 'existence': PatternType.EXISTENCE, 'response': PatternType.RESPONSE,
          'requirement': PatternType.REQUIREMENT, 'prevention': PatternType.PREVENTION}

    # ---- A: the grid ---------------------------------------------------------------------------------------
    grid = []
    for sc in SCOPES:
        for pk in PATTERNS:
            pos = positions(sc, pk)
            for combo in itertools.product(*[[(a, r) for a in ALIASES for r in REFSETS] for _ in pos]):
                grid.append((sc, pk, dict(zip(pos, combo))))
    total_grid = len(grid)
    exhaustive = not ctx.quick
    if ctx.quick:
        grid = rng.sample(grid, 12000)
    cases = []   # (input, scope obj, pattern obj, impl verdict)
    pre_violations = []
    for sc, pk, ev in grid:
        shadow = rng.random() < 0.15
        # (also on an event whose own alias is the quantified name: the alias normalisation must not capture the bound variable)
        try:
            objs = {p: HplSimpleEvent.publish(topics[p], (preds_q if shadow else preds)[r], alias=a) for p, (a, r) in ev.items()}
        except Exception as e:
            # every predicate of the grid is valid on its own: an event constructor that rejects one breaks clause (i)
            pre_violations.append({'input': {'route': 'api-grid', 'scope': sc, 'pattern': pk, 'quantifier_binds_a_referenced_name': shadow,
                                             'events': {p: {'alias': a, 'refs': list(r)} for p, (a, r) in ev.items()}},
                                   'impl': classify_exception(e), 'message': str(e)[:200],
                                   'what': 'an event with a valid predicate was rejected at construction (a quantified variable named like the '
                                           "event's own alias is not a reference to the event)", 'signature': 'event-rejected:own-alias-captures-quantified-variable'})
            continue
        scope = HplScope(ST[sc], activator=objs.get('activator'), terminator=objs.get('terminator'))
        pattern = HplPattern(PT[pk], objs['behaviour'], objs.get('trigger'))
        v = verdict(lambda: HplProperty(scope, pattern))
        inp = {'route': 'api-grid', 'scope': sc, 'pattern': pk, 'quantifier_binds_a_referenced_name': shadow, 'events': {p: {'alias': a, 'refs': list(r)} for p, (a, r) in ev.items()}}
        cases.append((inp, scope, pattern, [v]))
    n_grid = len(cases)

    # ---- B: random properties, perturbed, three routes -----------------------------------------------------
    pp = property_parser()
    pg = PropGen(rng, max_depth=2)
    n_rand = 300 if ctx.quick else 4000
    built = 0
    for _ in range(n_rand):
        p = pg.prop()
        p = perturb(rng, p)
        txt = render_property(p, rng, 'min')
        # components: predicates through the parser, events through the API (right-nested like the parser does)
        def event_api(ev):
            if ev[0] == 'ev':
                pred = prp.parse('{' + render(ev[3], rng, 'min') + '}') if ev[3] is not None else None
                return HplSimpleEvent.publish(ev[1], pred, alias=ev[2])
            objs = [event_api(e) for e in ev[1]]
            e = HplEventDisjunction(objs[-2], objs[-1])
            for o in reversed(objs[:-2]):
                e = HplEventDisjunction(o, e)
            return e
        try:
            comps = {}
            for name, ev in (('activator', p['scope'][1]), ('terminator', p['scope'][2]), ('behaviour', p['pattern'][1]), ('trigger', p['pattern'][2])):
                if ev is not None:
                    comps[name] = event_api(ev)
        except Exception:
            # an event that is rejected on its own (duplicate channel, quantifier hygiene, type error): the whole text must be rejected alike
            v_text = verdict(lambda: pp.parse(txt))
            cases.append(({'route': 'text-only', 'text': txt}, None, None, [v_text]))
            continue
        sc, pk = p['scope'][0], p['pattern'][0]
        scope = HplScope(ST[sc], activator=comps.get('activator'), terminator=comps.get('terminator'))
        tsec = None
        pattern = HplPattern(PT[pk], comps['behaviour'], comps.get('trigger'))
        v_api = verdict(lambda: HplProperty(scope, pattern))
        v_text = verdict(lambda: pp.parse(txt))
        # but(): start from a valid property of the same shape and swap scope and pattern in
        base = HplProperty(HplScope.globally(), HplPattern.existence(HplSimpleEvent.publish('zz')))
        v_but = verdict(lambda: base.but(scope=scope, pattern=pattern))
        built += 1
        cases.append(({'route': 'text/api/but', 'text': txt}, scope, pattern, [v_api, v_text, v_but]))

    # ---- B': the event's own alias is also the name of a variable quantified in its predicate (written texts) -------------
    for txt in ('globally: no t as i {forall i in xs: @i > 0 and x = 1}',
                'globally: no t as i {(forall i in xs: @i > 0) and @i.x > 0}',
                'globally: some t as i {exists i in xs: (@i > x and (forall j in ys: @j < @i))}',
                'after s as j: t as i {exists i in xs: @i > @j.x} causes u {@i.x > 0}',
                'after s as j {forall j in xs: @j > 0}: no t {@j.x > 0}',
                'globally: (a as i {forall i in xs: @i > 0} or b as k {@k.x > 0 and exists k in xs: @k = 1}) requires c',
                'until q as i {not exists i in {1, 2}: @i = x}: c forbids d'):
        try:
            ast = pp.parse(txt)
        except Exception as e:
            pre_violations.append({'input': {'route': 'text-own-alias-is-quantified-name', 'text': txt}, 'impl': classify_exception(e), 'message': str(e)[:200],
                                   'what': "a property whose event alias is also the name of a variable quantified in the event's predicate was rejected",
                                   'signature': 'event-rejected:own-alias-captures-quantified-variable'})
            continue
        cases.append(({'route': 'text-own-alias-is-quantified-name', 'text': txt}, ast.scope, ast.pattern, ['ok']))

    # ---- judge ---------------------------------------------------------------------------------------------
    disagreements = []
    violations = list(pre_violations)
    lines_m, lines_s, idx = [], [], []
    for i, (inp, scope, pattern, vs) in enumerate(cases):
        if scope is None:
            continue
        ws, wp = dump_scope(scope), dump_pattern(pattern)
        lines_m.append(dumps([S('sanity'), ws, wp]))
        lines_s.append(dumps([S('wellscoped'), ws, wp]))
        idx.append(i)
    accepted = rejected = 0
    distinct = set()
    if ctx.driver is not None:
        am = ctx.driver.run_parallel(lines_m)
        asp = ctx.driver.run_parallel(lines_s)
        for k, i in enumerate(idx):
            inp, scope, pattern, vs = cases[i]
            m = loads(am[k])
            mv = 'ok' if m[0] == 'ok' else str(m[1])
            sp = loads(asp[k])
            well = sp[1] == '1'
            distinct.add(lines_m[k])
            if len(set(vs)) != 1:
                violations.append({'input': inp, 'impl': vs, 'what': f'construction routes disagree (api/text/but): {vs}', 'signature': 'routes-disagree'})
            v = vs[0]
            accepted += v == 'ok'
            rejected += v != 'ok'
            if v != mv:
                disagreements.append({'input': inp, 'impl': v, 'model': mv})
            want = 'ok' if well else 'sanity'
            if v != want:
                violations.append({'input': inp, 'impl': v, 'spec': want,
                                   'what': f'implementation verdict {v}, scoping judgement says {want}', 'signature': 'verdict'})
    # text-only cases: model verdict through mkprop
    # (events rejected on their own; covered in detail by the disjunction / quantifier families below)
    fam = families(ctx, rng)
    for inp, impl_v, req, spec_v in fam:
        pass
    fam_lines = [f[2] for f in fam]
    if ctx.driver is not None and fam:
        fa = ctx.driver.run_parallel(fam_lines)
        for (inp, impl_v, req, spec_v), a in zip(fam, fa):
            m = loads(a)
            mv = 'ok' if m[0] == 'ok' else str(m[1])
            distinct.add(req)
            if impl_v != mv:
                disagreements.append({'input': inp, 'impl': impl_v, 'model': mv})
            if impl_v != spec_v:
                violations.append({'input': inp, 'impl': impl_v, 'spec': spec_v, 'what': f'implementation verdict {impl_v}, statement says {spec_v}',
                                   'signature': 'verdict-' + inp['family']})
    samples = [c[0] for c in cases[:2]] + [c[0] for c in cases[n_grid:n_grid + 3]] + [f[0] for f in fam[:3]]
    return {
        'evaluations': len(cases) + len(fam),
        'distinct_nontrivial': len(distinct),
        'rule': f'A: grid of {total_grid} (scope kind x pattern kind x alias in {{-,X,Y}} x references ⊆ {{X,Y}} per present position), '
                f'{"all" if exhaustive else "12000 sampled"}, built through the API; B: random properties with perturbed alias/reference '
                'placement through three routes (text, API, but()); C: families for clause (iii) duplicate channels in disjunctions of width 2..4 '
                'and clause (iv) quantifier hygiene (variable in own domain, nested re-binding, unused variable). Every verdict is compared '
                'with the model (sanity / mkdisj / build) and with the spec decider (wellscoped) or the clause itself.',
        'samples': samples,
        'exhaustive': exhaustive,
        'violations': violations,
        'disagreements': disagreements,
        'coverage_extra': {'grid_total': total_grid, 'grid_run': n_grid, 'random_three_routes': built, 'accepted': accepted, 'rejected': rejected,
                           'families': len(fam)},
    }


def perturb(rng, p):
    """randomly move / duplicate aliases and references so that some properties become ill-scoped"""
    import copy
    p = copy.deepcopy(p)
    r = rng.random()
    if r < 0.45:
        return p

    def evs():
        out = []
        for ev in (p['scope'][1], p['scope'][2], p['pattern'][1], p['pattern'][2]):
            if ev is None:
                continue
            out += [ev] if ev[0] == 'ev' else list(ev[1])
        return out
    all_simple = evs()
    target = rng.choice(all_simple)
    idx_in = None

    def replace(old, new):
        def rep(ev):
            if ev is None:
                return None
            if ev is old:
                return new
            if ev[0] == 'or':
                return ('or', [new if e is old else e for e in ev[1]])
            return ev
        sk, a, t = p['scope']
        pk, b, tr, tm = p['pattern']
        p['scope'] = (sk, rep(a), rep(t))
        p['pattern'] = (pk, rep(b), rep(tr), tm)
    k = rng.random()
    if k < 0.4:
        # add a reference to some alias (maybe undefined, maybe defined later)
        al = rng.choice(['A', 'B', 'C', 'D', 'M1', 'Q'])
        extra = ('bin', '>', ('field', ('var', al), 'x'), int_lit(0))
        pred = extra if target[3] is None else ('bin', 'and', target[3], extra)
        replace(target, ('ev', target[1], target[2], pred))
    elif k < 0.75:
        # give it an alias that may already be bound elsewhere
        al = rng.choice(['A', 'B', 'C', 'D', 'M1'])
        replace(target, ('ev', target[1], al, target[3]))
    else:
        # drop its alias (references to it elsewhere become undefined)
        replace(target, ('ev', target[1], None, target[3]))
    return p


def families(ctx, rng):
    """clauses (iii) and (iv): (input, implementation verdict, model request, verdict the statement requires)"""
    from hpl.parser import property_parser, predicate_parser
    from hpl.ast import HplSimpleEvent, HplEventDisjunction
    out = []
    pp = property_parser()
    # (iii) duplicate channels, widths 2..4, every nesting the API allows
    names = ['a', 'b', 'c']
    evs = {n: HplSimpleEvent.publish(n) for n in names}
    for width in (2, 3, 4):
        for combo in itertools.product(names, repeat=width):
            for left_nested in (False, True):
                def mk():
                    objs = [HplSimpleEvent.publish(n) for n in combo]
                    if left_nested:
                        e = objs[0]
                        for o in objs[1:]:
                            e = HplEventDisjunction(e, o)
                    else:
                        e = objs[-1]
                        for o in reversed(objs[:-1]):
                            e = HplEventDisjunction(o, e)
                    return e
                v = verdict(mk)
                # model: fold of mkdisj over dumped simple events, expressed as nested requests is awkward; use mkprop on the text (right-nested)
                want = 'ok' if len(set(combo)) == len(combo) else 'sanity'
                if not left_nested:
                    raw = {'scope': ('global', None, None), 'pattern': ('absence', ('or', [('ev', n, None, None) for n in combo]), None, None), 'meta': []}
                    req = dumps([S('mkprop'), property_to_wire(raw)])
                    vt = verdict(lambda: pp.parse(render_property(raw)))
                    out.append(({'family': 'disjunction', 'channels': list(combo), 'route': 'text'}, vt, req, want))
                    out.append(({'family': 'disjunction', 'channels': list(combo), 'route': 'api-right'}, v, req, want))
                else:
                    # left-nested only exists through the API; the model's mkDisj is nesting-agnostic (flattened names)
                    req = dumps([S('mkdisj'), dump_event(_nest(evs, combo[:-1])) if len(set(combo[:-1])) == len(combo[:-1]) and len(combo) > 2 else dump_event(evs[combo[0]]),
                                 dump_event(evs[combo[-1]])]) if len(set(combo[:-1])) == len(combo[:-1]) else None
                    if req is not None:
                        out.append(({'family': 'disjunction', 'channels': list(combo), 'route': 'api-left'}, v, req, want))
    # sibling references: a branch of a disjunction may not use an alias bound by another branch of the same disjunction
    def refpred(al):
        return ('bin', '>', ('field', ('var', al), 'x'), int_lit(0))
    for pos in ('activator', 'trigger', 'behaviour', 'terminator'):
        for width in (2, 3):
            for binder in range(width):
                for user in range(width):
                    if binder == user:
                        continue
                    for pk in ('response', 'requirement', 'prevention'):
                        alts = []
                        for i in range(width):
                            alts.append(('ev', f't{i}', 'S' if i == binder else None, refpred('S') if i == user else None))
                        dis = ('or', alts)
                        simple = lambda n: ('ev', n, None, None)
                        sc = 'after_until'
                        raw = {'scope': (sc, dis if pos == 'activator' else simple('p'), dis if pos == 'terminator' else simple('q')),
                               'pattern': (pk, dis if pos == 'behaviour' else simple('r'), dis if pos == 'trigger' else simple('s'), None), 'meta': []}
                        txt = render_property(raw)
                        vt = verdict(lambda: pp.parse(txt))
                        out.append(({'family': 'sibling-alias', 'text': txt}, vt, dumps([S('mkprop'), property_to_wire(raw)]), 'sanity'))
    # (iv) quantifier hygiene
    prp = predicate_parser()
    xs = ('field', ('this',), 'xs')
    ys = ('field', ('this',), 'ys')
    v_i = ('var', 'i')
    fam = [
        ('ok', ('quant', 'all', 'i', xs, ('bin', '>', v_i, int_lit(0)))),
        ('sanity', ('quant', 'all', 'i', ('set', [v_i, int_lit(1)]), ('bin', '>', v_i, int_lit(0)))),             # variable in own domain
        ('sanity', ('quant', 'some', 'i', ('range', int_lit(0), v_i, False, False), ('bin', '>', v_i, int_lit(0)))),
        ('sanity', ('quant', 'all', 'i', ('field', ('var', 'i'), 'xs'), ('bin', '>', v_i, int_lit(0)))),
        ('sanity', ('quant', 'all', 'i', xs, ('bin', '>', ('field', ('this',), 'x'), int_lit(0)))),                # unused
        ('sanity', ('quant', 'all', 'i', xs, ('quant', 'some', 'i', ys, ('bin', '>', v_i, int_lit(0))))),          # nested re-binding (also unused outside)
        ('sanity', ('quant', 'all', 'i', xs, ('bin', 'and', ('bin', '>', v_i, int_lit(0)), ('quant', 'some', 'i', ys, ('bin', '>', v_i, int_lit(0)))))),
        ('sanity', ('quant', 'all', 'i', xs, ('bin', 'and', ('quant', 'some', 'i', ys, ('bin', '>', v_i, int_lit(0))), ('bin', '>', v_i, int_lit(0))))),
        ('ok', ('quant', 'all', 'i', xs, ('quant', 'some', 'j', ys, ('bin', '>', v_i, ('var', 'j'))))),
        ('ok', ('bin', 'and', ('quant', 'all', 'i', xs, ('bin', '>', v_i, int_lit(0))), ('quant', 'some', 'i', ys, ('bin', '<', v_i, int_lit(0))))),
        ('sanity', ('quant', 'all', 'i', xs, ('quant', 'some', 'j', ('set', [v_i, ('var', 'j')]), ('bin', '>', v_i, ('var', 'j'))))),
        ('ok', ('quant', 'all', 'i', xs, ('quant', 'some', 'j', ('set', [v_i, int_lit(2)]), ('bin', '>', v_i, ('var', 'j'))))),
        ('sanity', ('quant', 'all', 'i', xs, ('bin', 'in', int_lit(1), ('set', [int_lit(1)])))),
    ]
    for want, r in fam:
        for wrap in (lambda e: e, lambda e: ('un', 'not', e), lambda e: ('bin', 'or', ('field', ('this',), 'b'), e)):
            e = wrap(r)
            txt = '{' + render(e, rng, 'min') + '}'
            v = verdict(lambda: prp.parse(txt))
            out.append(({'family': 'quantifier', 'text': txt}, v, dumps([S('mkpred'), to_wire(e)]), want))
    return out


def _nest(evs, names):
    from hpl.ast import HplEventDisjunction
    e = evs[names[0]]
    for n in names[1:]:
        e = HplEventDisjunction(e, evs[n])
    return e


def matches_known(v, k):
    return v.get('signature') == k.get('signature')


def replay(ctx, payload):
    return None
