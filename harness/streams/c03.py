"""C03 — every AST handed out is well-typed.
(a) correspondence: parser route and API route of generated Raw trees / properties vs the model's build / mkpred /
    mkprop (typed AST equality, error class equality);
(b) spec judgement: every AST returned by a parser entry point or by a rewriting function (compositions of depth
    <= 2) is judged by the Lean decider `welltyped` (= `WT`/`WTPred`, theorem wtB_iff)."""
from sexp import Sym, dumps, loads
from gen import Gen, BOOL, NUM
from raw import render, build_api, to_wire
from propgen import PropGen, render_property, property_to_wire
from clash import inject
from dump import dump_expr, dump_pred, dump_property, dump_any, canon_str, classify_exception

S = Sym
PROPERTY = 'C03'
PROPS_MODULES = ['C03', 'C03b', 'C03c', 'C03d', 'C03e']
ASSUMPTIONS = ['float literals are compared by value (12 significant digits), not by token',
               'rewriting functions that raise are the subject of C14, not of this check']


def outcome(f, dumper):
    try:
        return ('ok', canon_str(dumper(f())))
    except Exception as e:
        return ('err', classify_exception(e))


def decode(ans):
    x = loads(ans)
    if x[0] == 'ok':
        return ('ok', canon_str(x[1]))
    return ('err', str(x[1]) if str(x[1]) != 'internal' else 'internal:' + str(x[2]))


def rewrites(obj, rng):
    """ASTs obtained by one application of each rewriting / combinator function that accepts `obj`"""
    import hpl.rewrite as R
    outs = []

    def add(label, f):
        try:
            r = f()
        except Exception:
            return
        if isinstance(r, (list, tuple)):
            for x in r:
                outs.append((label, x))
        else:
            outs.append((label, r))

    if obj.is_predicate or obj.is_expression:
        add('simplify', lambda: R.simplify(obj))
        add('replace_this_with_var', lambda: R.replace_this_with_var(obj, 'Z'))
        add('replace_var_with_this', lambda: R.replace_var_with_this(obj, 'A'))
        boolish = obj.is_predicate or obj.can_be_bool
        if boolish:
            add('split_and', lambda: R.split_and(obj))
            add('refactor_reference', lambda: R.refactor_reference(obj, 'A'))
    if obj.is_predicate:
        add('negate', lambda: obj.negate())
        add('join', lambda: obj.join(obj.negate()))
    if obj.is_property:
        add('canonical_form', lambda: R.canonical_form(obj))
    return outs


def run(ctx):
    rng = ctx.rng
    from hpl.parser import expression_parser, predicate_parser, property_parser
    ep, prp, pp = expression_parser(), predicate_parser(), property_parser()
    n_expr = 700 if ctx.quick else 8000
    n_prop = 250 if ctx.quick else 3000
    disagreements, violations = [], []
    corr_cases = []     # (input descr, impl outcomes [..], model request)
    asts = []           # (origin label, source, python AST)
    g = Gen(rng, aliases=['A', 'B'], max_depth=4)
    rejects = 0
    for _ in range(n_expr):
        want = rng.choice([BOOL, BOOL, NUM])
        r = g.expr(want, depth=rng.randrange(1, 5))
        try:
            txt = render(r, rng, rng.choice(['min', 'full', 'rand']))
        except ValueError:
            rejects += 1
            continue
        holder = {}

        def parse_e():
            holder['e'] = ep.parse(txt)
            return holder['e']
        o_parse = outcome(parse_e, dump_expr)
        o_api = outcome(lambda: build_api(r), dump_expr)
        corr_cases.append(({'kind': 'expression', 'text': txt}, [o_parse, o_api], dumps([S('build'), to_wire(r)])))
        if 'e' in holder:
            asts.append(('parse_expression', txt, holder['e']))
        if want == BOOL:
            ptxt = '{' + txt + '}'

            def parse_p():
                holder['p'] = prp.parse(ptxt)
                return holder['p']
            o_pred = outcome(parse_p, dump_pred)
            corr_cases.append(({'kind': 'predicate', 'text': ptxt}, [o_pred], dumps([S('mkpred'), to_wire(r)])))
            if 'p' in holder:
                asts.append(('parse_predicate', ptxt, holder['p']))
    # ill-typed inputs (clash injector): the model must reject them too; anything the implementation accepts is judged
    n_clash = 500 if ctx.quick else 5000
    for _ in range(n_clash):
        r, tag = inject(rng)
        try:
            ptxt = '{' + render(r, rng, 'min') + '}'
        except ValueError:
            rejects += 1
            continue
        holder = {}

        def parse_c():
            holder['p'] = prp.parse(ptxt)
            return holder['p']
        o_pred = outcome(parse_c, dump_pred)
        corr_cases.append(({'kind': 'predicate', 'text': ptxt, 'clash': tag}, [o_pred], dumps([S('mkpred'), to_wire(r)])))
        if 'p' in holder:
            asts.append(('parse_predicate', ptxt, holder['p']))
    pg = PropGen(rng)
    for _ in range(n_prop):
        p = pg.prop()
        txt = render_property(p, rng, rng.choice(['min', 'rand']))
        holder = {}

        def parse_pr():
            holder['p'] = pp.parse(txt)
            return holder['p']
        o = outcome(parse_pr, dump_property)
        corr_cases.append(({'kind': 'property', 'text': txt}, [o], dumps([S('mkprop'), property_to_wire(p)])))
        if 'p' in holder:
            asts.append(('parse_property', txt, holder['p']))
    # rule-directed inputs for the rewriting functions (what makes them build new nodes), parsed as predicates / expressions
    from rulefam import rule_directed
    for r in rule_directed(rng, ctx.quick):
        try:
            txt = render(r, rng, 'min')
            if r[0] in ('quant', 'un') or (r[0] == 'bin' and r[1] in ('>', '=', '!=', '<', '<=', '>=', 'in', 'and', 'or', 'implies', 'iff')):
                asts.append(('parse_predicate[rule-directed]', '{' + txt + '}', prp.parse('{' + txt + '}')))
            else:
                asts.append(('parse_expression[rule-directed]', txt, ep.parse(txt)))
        except Exception:
            rejects += 1
    # rewriting functions, compositions of depth <= 2
    derived = []
    for origin, src, obj in asts:
        for l1, x in rewrites(obj, rng):
            derived.append((f'{l1}({origin})', src, x))
            if rng.random() < (0.35 if ctx.quick else 0.6):
                for l2, y in rewrites(x, rng):
                    derived.append((f'{l2}({l1}({origin}))', src, y))
    judged = asts + derived
    n_eval = len(corr_cases) + len(judged)
    by_route = {}
    distinct = set()
    if ctx.driver is not None:
        answers = ctx.driver.run_parallel([c[2] for c in corr_cases])
        for (inp, outs, _), ans in zip(corr_cases, answers):
            m = decode(ans)
            for o in outs:
                if o != m:
                    disagreements.append({'input': inp, 'impl': o, 'model': m})
                    break
        lines = [dumps([S('welltyped'), dump_any(x)]) for _, _, x in judged]
        answers = ctx.driver.run_parallel(lines)
        for (label, src, x), line, ans in zip(judged, lines, answers):
            v = loads(ans)
            by_route[label.split('(')[0]] = by_route.get(label.split('(')[0], 0) + 1
            distinct.add(line)
            if v[0] != 'ok':
                disagreements.append({'input': {'route': label, 'text': src}, 'impl': line[:300], 'model': str(v)})
                continue
            wt, inside, bad = v[1] == '1', v[2] == '1', str(v[3])
            if not wt:
                violations.append({'input': {'route': label, 'text': src, 'ast': line[11:-1][:1500]}, 'what': f'AST returned by {label} is not well-typed at node «{bad}»',
                                   'signature': 'not-well-typed'})
            elif not inside:
                violations.append({'input': {'route': label, 'text': src}, 'what': 'a function-call argument keeps a type set outside the parameter type',
                                   'signature': 'call-arg-inside-parameter'})
    samples = [{'route': l, 'text': s[:160]} for l, s, _ in (judged[:3] + derived[:4])]
    return {
        'evaluations': n_eval,
        'distinct_nontrivial': len(distinct),
        'rule': 'type-directed random expressions (depth <= 4) / predicates / properties rendered with minimal, full or random redundant '
                'parentheses; parser route and API route compared with the model build; every AST returned by a parser entry point or by '
                'simplify, split_and, refactor_reference, this/var replacement, negate/join, canonical_form (compositions of depth <= 2) is '
                'judged by the Lean decider of WT/WTPred. Distinct = distinct typed ASTs judged.',
        'samples': samples,
        'violations': violations,
        'disagreements': disagreements,
        'coverage_extra': {'correspondence_cases': len(corr_cases), 'asts_judged': len(judged), 'by_route': by_route, 'generator_rejects': rejects},
    }


def matches_known(v, k):
    return v.get('signature') == k.get('signature')


def replay(ctx, payload):
    inp = payload.get('input') or {}
    return None
