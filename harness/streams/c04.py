"""C04 — well-typed specifications are never rejected.
Random message schemas per channel; predicates generated type-directedly from them (references to the own message, to
aliased earlier messages of other types, to quantified variables; `=` between fields, references used several times,
arithmetic inside indices, constants). Each must (1) be accepted by parse_predicate / parse_condition and, inside a
generated property, by parse_property; (2) carry at every reference node a type set containing the field's declared type;
(3) pass HplProperty.type_check_references against its schemas. The Lean model must accept the same trees (`mkpred`,
`mkprop`), which is the hypothesis side of the completeness theorem (Props/C04)."""
from sexp import Sym, dumps, loads
from gen import Gen, BOOL, NUM, STR
from raw import render, to_wire
from propgen import PropGen, render_property, property_to_wire
from dump import dump_property, dump_pred, classify_exception, canon_str
from layout import relayout
import schema as SC
from streams.c17 import oracle_property, denote, TYV, _short_desc, _declared

S = Sym
PROPERTY = 'C04'
PROPS_MODULES = ['C04']
ASSUMPTIONS = ['the type-directed generator only produces terms that are well typed under the schema it is given (cross-checked by the Lean '
               'decider of the theorem\'s hypothesis, see coverage)']


def quants(r, out=None):
    """(variable, element kind tag) of every quantifier of a Raw tree, with its nesting path"""
    out = [] if out is None else out
    if isinstance(r, tuple) and r and r[0] == 'quant':
        out.append(r)
    if isinstance(r, (tuple, list)):
        for c in r[1:] if isinstance(r, tuple) else r:
            if isinstance(c, (tuple, list)):
                quants(c, out)
    return out


def sibling_var_reuse(r):
    """does the tree bind one variable name in two different quantifiers?"""
    names = [q[2] for q in quants(r)]
    return len(names) != len(set(names))


def declared_ok(ast_pred, this_d, alias_d, bad):
    """(2): every reference node's type set contains the declared type"""
    def walk(e):
        for c in e.children():
            walk(c)
        if e.is_accessor:
            d = denote(e, this_d, alias_d)
            if d is None:
                bad.append(('unresolved', str(e)))
                return
            declared = _declared(d)
            if int(e.data_type.value) & declared != declared:
                bad.append(('type-set-misses-declared-type', str(e), int(e.data_type.value), declared))
    if not ast_pred.is_vacuous:
        walk(ast_pred.expression)


def run(ctx):
    rng = ctx.rng
    from hpl.parser import predicate_parser, condition_parser, property_parser
    prp, cp, pp = predicate_parser(), condition_parser(), property_parser()
    n = 300 if ctx.quick else 5000
    violations, disagreements = [], []
    stats = {'predicates': 0, 'properties': 0, 'with_alias_reference': 0, 'with_quantifier': 0, 'with_index_arithmetic': 0,
             'with_repeated_reference': 0, 'sibling_variable_reuse': 0, 'references_checked': 0,
             'theorem_applies': 0, 'outside_theorem_one_name_two_types': 0, 'hypothesis_check_failed': 0}
    lines, pending = [], []
    distinct = set()
    samples = []
    for i in range(n):
        topics = rng.sample(['a', 'b', 'c', 'd', 'odom', 'scan', '/ns/topic', '~private'], 4)
        descs = {t: SC.gen_msg(rng, 'T' + str(j)) for j, t in enumerate(topics)}
        gschemas = {t: SC.to_gen_schema(d) for t, d in descs.items()}
        msg_types = {t: SC.to_token(d) for t, d in descs.items()}
        # ---- a predicate on its own (own message + one alias of another type) -----------------------------------
        t0, t1 = topics[0], topics[1]
        g = Gen(rng, schema=gschemas[t0], aliases=['A'], alias_schemas={'A': gschemas[t1]}, max_depth=rng.randrange(1, 5),
                unique_vars=(rng.random() < 0.7))
        r = g.expr(BOOL)
        try:
            txt = render(r, rng, rng.choice(['min', 'min', 'rand', 'full']))
        except ValueError:
            continue
        if rng.random() < 0.3:
            txt = relayout(txt, rng)
        reuse = sibling_var_reuse(r)
        stats['predicates'] += 1
        stats['sibling_variable_reuse'] += reuse
        rs = repr(r)
        stats['with_alias_reference'] += "('var', 'A')" in rs
        stats['with_quantifier'] += "'quant'" in rs
        inp = {'predicate': '{' + txt + '}', 'own': _short_desc(descs[t0]), 'A': _short_desc(descs[t1])}
        distinct.add(txt)
        if len(samples) < 4:
            samples.append(inp)
        for entry, f in (('parse_predicate', lambda: prp.parse('{' + txt + '}')), ('parse_condition', lambda: cp.parse(txt))):
            try:
                p = f()
            except Exception as e:
                violations.append({'input': inp, 'entry': entry, 'raised': classify_exception(e), 'message': str(e)[:300],
                                   'what': f'{entry} rejected a predicate that is well typed under its schema',
                                   'signature': ('rejected:sibling-quantifiers-reuse-a-variable' if reuse and classify_exception(e) == 'type'
                                                 else 'rejected:' + classify_exception(e))})
                continue
            bad = []
            declared_ok(p, descs[t0], {'A': descs[t1]}, bad)
            stats['references_checked'] += 1
            if bad:
                violations.append({'input': inp, 'entry': entry, 'problems': bad[:3],
                                   'what': 'a reference node carries a type set that does not contain the declared type of its field', 'signature': 'declared-type-missing'})
            try:
                p.type_check_references(msg_types[t0], {'A': msg_types[t1]})
            except Exception as e:
                violations.append({'input': inp, 'entry': entry, 'raised': classify_exception(e), 'message': str(e)[:300],
                                   'what': 'the predicate fails type_check_references against the schema it was generated from',
                                   'signature': 'schema-check-failed:' + classify_exception(e)})
        lines.append(dumps([S('mkpred'), to_wire(r)]))
        pending.append(('predicate', inp, reuse))
        lines.append(dumps([S('wtunder'), SC.to_wire(descs[t0]), [['A', SC.to_wire(descs[t1])]], to_wire(r)]))
        pending.append(('hypothesis', inp, reuse))
        # ---- inside a property --------------------------------------------------------------------------------
        pg = PropGen(rng, max_depth=3, topic_schemas=gschemas, unique_vars=True)
        q = pg.prop()
        try:
            ptxt = render_property(q, rng, rng.choice(['min', 'rand']))
        except ValueError:
            continue
        stats['properties'] += 1
        pinp = {'property': ptxt, 'schemas': {t: _short_desc(d) for t, d in descs.items()}}
        distinct.add(ptxt)
        try:
            ast = pp.parse(ptxt)
        except Exception as e:
            violations.append({'input': pinp, 'entry': 'parse_property', 'raised': classify_exception(e), 'message': str(e)[:300],
                               'what': 'parse_property rejected a property whose predicates are well typed under their schemas',
                               'signature': 'rejected:' + classify_exception(e)})
            ast = None
        if ast is not None:
            problems = oracle_property(ast, descs)
            if problems:
                violations.append({'input': pinp, 'problems': problems[:3], 'what': 'a reference of an accepted well-typed property does not fit its declared type',
                                   'signature': 'declared-type-missing'})
            try:
                ast.type_check_references(msg_types)
            except Exception as e:
                violations.append({'input': pinp, 'raised': classify_exception(e), 'message': str(e)[:300],
                                   'what': 'a well-typed property fails type_check_references against its own schemas',
                                   'signature': 'schema-check-failed:' + classify_exception(e)})
        lines.append(dumps([S('mkprop'), property_to_wire(q)]))
        pending.append(('property', pinp, False))
    # ---- signature coverage: every function overload / operator at every base kind its parameters admit ----------------
    from sigfam import signature_family, sibling_family
    from gen import DEFAULT_SCHEMA
    from raw import build_api
    from hpl.ast.predicates import predicate_from_expression
    ddesc = SC.from_gen_schema(DEFAULT_SCHEMA)
    dtok = SC.to_token(ddesc)
    stats['signature_cases'] = 0
    for r, what in signature_family() + sibling_family():
        stats['signature_cases'] += 1
        try:
            txt = render(r, None, 'min')
            route, f = 'parse_predicate', (lambda: prp.parse('{' + txt + '}'))
        except AssertionError:
            txt = repr(r)[:300]
            route, f = 'constructors', (lambda: predicate_from_expression(build_api(r)))
        inp = {'predicate': txt, 'signature_case': what, 'schema': 'generator default schema'}
        distinct.add(txt)
        try:
            p = f()
        except Exception as e:
            violations.append({'input': inp, 'entry': route, 'raised': classify_exception(e), 'message': str(e)[:300],
                               'what': f'{route} rejected a well-typed application ({what})', 'signature': 'rejected:signature:' + what.split('(')[0]})
            continue
        bad = []
        declared_ok(p, ddesc, {'A': ddesc}, bad)
        if bad:
            violations.append({'input': inp, 'entry': route, 'problems': bad[:3],
                               'what': f'a reference loses its declared type under {what}', 'signature': 'declared-type-missing:' + what.split('(')[0]})
        try:
            p.type_check_references(dtok, {'A': dtok})
        except Exception as e:
            violations.append({'input': inp, 'entry': route, 'raised': classify_exception(e), 'message': str(e)[:300],
                               'what': f'a well-typed application ({what}) fails type_check_references', 'signature': 'schema-check-failed:signature:' + what.split('(')[0]})
        if route == 'parse_predicate':
            lines.append(dumps([S('mkpred'), to_wire(r)]))
            pending.append(('signature case', inp, False))
    if ctx.driver is not None:
        ans = ctx.driver.run_parallel(lines)
        for (kind, inp, reuse), a in zip(pending, ans):
            x = loads(a)
            if kind == 'hypothesis':
                # the proved-sound check of the theorem's hypothesis under the typing the schema induces
                wt, boolroot, single = (str(v) == '1' for v in x[1:4])
                if wt and boolroot:
                    stats['theorem_applies'] += 1
                elif not single:
                    stats['outside_theorem_one_name_two_types'] += 1
                else:
                    stats['hypothesis_check_failed'] += 1
                    disagreements.append({'input': inp, 'model': [str(v) for v in x[1:4]],
                                          'what': 'a generated predicate does not pass wellTypedB under the typing induced by its schema '
                                                  '(generator, induced typing or hypothesis too narrow: the theorem does not cover this input)'})
                continue
            if x[0] != 'ok':
                # the model rejects what the generator calls well typed: either the generator or the model is off
                bucket = violations if False else disagreements
                if reuse and str(x[1]) == 'type':
                    continue      # same known shape as the implementation (sibling quantifiers reusing a variable)
                bucket.append({'input': inp, 'model': [str(x[0]), str(x[1])], 'what': 'the model rejects a generated well-typed ' + kind})
    return {
        'evaluations': stats['predicates'] * 2 + stats['properties'],
        'distinct_nontrivial': len(distinct),
        'rule': 'per iteration 4 random message types; one type-directed boolean term over the first type with alias A of the second type '
                '(depth 1..4; 30% may reuse a quantified variable name in sibling quantifiers), given to parse_predicate and parse_condition; '
                'one generated property over the four channels; distinct = distinct texts; every accepted AST is checked node by node against '
                'the declarations and by type_check_references.',
        'samples': samples,
        'violations': violations,
        'disagreements': disagreements,
        'coverage_extra': stats,
    }


def matches_known(v, k):
    return v.get('signature') == k.get('signature')


def replay(ctx, payload):
    return None
