"""C05 — definite type errors are always rejected.
Exactly one definite clash (wrong-typed literal / operator / function result in an argument position; one reference at
two disjoint types; a non-boolean root) injected at any boolean position of a well-typed generated predicate; the text is
given to parse_predicate, parse_condition, to parse_property (inside the predicate of a random event of a generated
property) and the tree is also built through the public constructors. Every entry point must raise HplTypeError.
The Lean detector `hasClashB` (sound for `build`: Props/C05 `detected_clash_rejected`) is asked which inputs the theorem
covers directly; reference clashes are covered by `ref_clash_rejected`; the model must reject with the same class."""
from sexp import Sym, dumps, loads
from gen import Gen, BOOL
from raw import render, to_wire, build_api
from propgen import PropGen, render_property
from dump import dump_pred, dump_property, dump_expr, canon_str, classify_exception
from clash import inject, embed, position_clash, ref_clash
from layout import relayout
from evalutil import as_bool

S = Sym
PROPERTY = 'C05'
PROPS_MODULES = ['C05', 'C05b']
ASSUMPTIONS = ['the clash injector produces only terms with a definite clash (cross-checked: every position clash must be flagged by the '
               'proved-sound Lean detector hasClashB, every one must be rejected by the model)']


def outcome(f):
    try:
        f()
        return ('ok', '')
    except Exception as e:
        return ('err', classify_exception(e))


def api_pred(r):
    from hpl.ast.predicates import predicate_from_expression
    return predicate_from_expression(build_api(r))


def run(ctx):
    rng = ctx.rng
    from hpl.parser import predicate_parser, condition_parser, property_parser, expression_parser
    prp, cp, pp, ep = predicate_parser(), condition_parser(), property_parser(), expression_parser()
    n = 700 if ctx.quick else 10000
    cases = []
    rejects = 0
    pg = PropGen(rng, max_depth=2)
    tags = {}
    for i in range(n):
        r0, tag = inject(rng) if i % 3 else position_clash(rng)
        depth = 0
        r = r0
        if tag != 'position:root-not-bool' and rng.random() < 0.7:
            host = Gen(rng, aliases=['A'], max_depth=rng.randrange(1, 4), unique_vars=True).expr(BOOL)
            r, depth = embed(rng, host, r0)
        try:
            txt = render(r, rng, rng.choice(['min', 'min', 'rand']))
        except ValueError:
            rejects += 1
            continue
        if rng.random() < 0.3:
            txt = relayout(txt, rng)
        ptxt = '{' + txt + '}'
        outs = {'parse_predicate': outcome(lambda: prp.parse(ptxt)),
                'parse_condition': outcome(lambda: cp.parse(txt)),
                'constructors': outcome(lambda: api_pred(r))}
        if tag.startswith('position:') and tag != 'position:root-not-bool':
            outs['parse_expression'] = outcome(lambda: ep.parse(txt))
        # inside a property: the predicate of one event (any placement); alias A is bound by an earlier event
        uses_alias = "('var', 'A')" in repr(r)
        topics = rng.sample(['a', 'b', 'c', 'd', 'odom'], 4)
        plain = lambda t, al=None: ('ev', t, al, None)
        ev = ('ev', 'zz', None, r)
        where = rng.choice(['behaviour', 'trigger', 'activator', 'terminator'])
        if where == 'activator' and uses_alias:
            where = 'behaviour'
        pk = rng.choice(['absence', 'existence', 'response', 'requirement', 'prevention'])
        if where == 'trigger' and pk in ('absence', 'existence'):
            pk = rng.choice(['response', 'requirement', 'prevention'])
        if uses_alias and where == 'trigger' and pk == 'requirement':
            pk = 'response'      # the trigger of a requirement sees only the activator's aliases: bind A there instead
        binder = plain(topics[0], 'A')
        act = term = trig = None
        if where == 'activator':
            act = ev
        elif where == 'terminator':
            term = ev
            act = binder if uses_alias else rng.choice([None, plain(topics[0])])
        else:
            act = binder if uses_alias else rng.choice([None, plain(topics[0])])
            term = rng.choice([None, plain(topics[1])])
        beh = ev if where == 'behaviour' else plain(topics[2])
        if pk in ('response', 'requirement', 'prevention'):
            trig = ev if where == 'trigger' else plain(topics[3])
        sk = {(False, False): 'global', (True, False): 'after', (False, True): 'until', (True, True): 'after_until'}[(act is not None, term is not None)]
        p = {'scope': (sk, act, term), 'pattern': (pk, beh, trig, rng.choice([None, '100 ms', '2 s'])), 'meta': []}
        if rng.random() < 0.3 and where != 'behaviour' and pk not in ('requirement',):
            # the clash inside one alternative of a disjunction
            pass
        prop_txt = render_property(p, rng, 'min')
        outs['parse_property'] = outcome(lambda: pp.parse(prop_txt))
        cases.append(({'tag': tag, 'depth': depth, 'predicate': ptxt, 'property': prop_txt}, outs, r))

    violations, disagreements = [], []
    stats = {'detector_flagged': 0, 'reference_clashes': 0, 'root_not_bool': 0, 'quantified_variable_clashes': 0, 'by_depth': {}, 'render_rejects': rejects}
    distinct = set()
    if ctx.driver is not None:
        lines = []
        for inp, outs, r in cases:
            lines.append(dumps([S('clash'), to_wire(r)]))
            lines.append(dumps([S('mkpred'), to_wire(r)]))
        ans = ctx.driver.run_parallel(lines)
        for k, (inp, outs, r) in enumerate(cases):
            distinct.add(inp['predicate'])
            flagged = str(loads(ans[2 * k])[1]) == '1'
            m = loads(ans[2 * k + 1])
            model = ('ok', '') if m[0] == 'ok' else ('err', str(m[1]))
            stats['by_depth'][str(inp['depth'])] = stats['by_depth'].get(str(inp['depth']), 0) + 1
            if flagged:
                stats['detector_flagged'] += 1
            elif inp['tag'].startswith('ref-clash'):
                stats['reference_clashes'] += 1
            elif inp['tag'] == 'position:root-not-bool':
                stats['root_not_bool'] += 1
            elif inp['tag'].startswith('position:quantifier-variable'):
                stats['quantified_variable_clashes'] += 1      # theorem quant_var_clash_rejected (via C03 build_WT)
            else:
                disagreements.append({'input': inp, 'what': 'the injector claims a position clash that the proved-sound detector hasClashB does not flag '
                                                            '(generator or detector too weak: the theorem does not cover this input)',
                                      'impl': outs.get('parse_predicate'), 'model': model})
            if model != ('err', 'type'):
                disagreements.append({'input': inp, 'what': 'the model does not reject this clash with a type error', 'impl': outs.get('parse_predicate'), 'model': model})
            for entry, o in outs.items():
                if o[0] == 'ok':
                    violations.append({'input': inp, 'entry': entry, 'what': f'{entry} accepted a term with a definite type clash ({inp["tag"]})',
                                       'signature': 'accepted:' + inp['tag'].split(':wide')[0]})
                elif o[1] != 'type':
                    violations.append({'input': inp, 'entry': entry, 'raised': o[1],
                                       'what': f'{entry} rejected a definite type clash ({inp["tag"]}) with {o[1]} instead of a type error',
                                       'signature': 'wrong-error:' + o[1] + ':' + inp['tag'].split(':wide')[0]})
    return {
        'evaluations': len(cases),
        'distinct_nontrivial': len(distinct),
        'rule': 'one definite clash (24 kinds of argument-position clash, or one reference at two disjoint types with 0..2 wide uses in '
                'between, or a non-boolean root) joined at a random boolean position (any depth) of a type-directed well-typed predicate; '
                'each is given to parse_predicate, parse_condition, parse_expression, the public constructors, and parse_property (as the '
                'predicate of the behaviour / trigger / activator / terminator of a generated property); distinct = distinct predicate texts',
        'samples': [c[0] for c in cases[:5]],
        'violations': violations,
        'disagreements': disagreements,
        'coverage_extra': stats,
    }


def matches_known(v, k):
    return v.get('signature') == k.get('signature')


def replay(ctx, payload):
    return None
