"""C06 — printing a parsed AST and parsing it again gives the same AST.
For every AST the parser returns (expressions, predicates, properties, specifications; every node kind, n-ary
disjunctions, all scopes and patterns, time bounds across 12 orders of magnitude): str() parses back to an equal AST
with an equal hash, printing that gives the same text again; the printed text is compared with the model printer
(numbers compared by value); two different ASTs print differently."""
from sexp import Sym, dumps, loads
from gen import Gen, BOOL, NUM
from raw import render
from propgen import PropGen, render_property, TIMES
from dump import dump_expr, dump_pred, dump_property, dump_spec, canon_str, classify_exception
from layout import tokens
from streams.c01 import KwGen
import re

S = Sym
PROPERTY = 'C06'
PROPS_MODULES = ['C06', 'C06b', 'C06c', 'C01c', 'C06d', 'C06e', 'C06f', 'C06g', 'C06h', 'C06j', 'C06k', 'C18b', 'C01e', 'C06m', 'C06n']
ASSUMPTIONS = ['the printed text is compared with the model printer token by token, numeric tokens by value (Python float formatting of '
               'time bounds is outside the exact model)']

NUM_RE = re.compile(r'^(?:\d+\.\d*|\.\d+|\d+)(?:[eE][+-]?\d+)?$')


def canon_time(ct):
    """a canonical text with every `within N ms` rewritten to `within N/1000 s`: which unit the printer chooses for a time bound is
    presentation (both read back to the same bound, which the round-trip check itself verifies)"""
    toks = ct.split(' ')
    out = []
    i = 0
    while i < len(toks):
        if toks[i] == 'within' and i + 2 < len(toks) and toks[i + 2] in ('ms', 's'):
            try:
                v = float(toks[i + 1]) / (1000.0 if toks[i + 2] == 'ms' else 1.0)
                out += ['within', '%.9g' % v, 's']
                i += 3
                continue
            except ValueError:
                pass
        out.append(toks[i])
        i += 1
    return ' '.join(out)


def canon_text(s):
    out = []
    for t in tokens(s):
        if NUM_RE.match(t):
            out.append('%.9g' % float(t))
        else:
            out.append(t)
    return ' '.join(out)


LOGIC_KW = ('not', 'forall', 'exists')


def own_logic_kw(ast):
    """the tree has an own field named `not` / `forall` / `exists` (written directly where only a name can stand, e.g. `x = not + 1`)"""
    try:
        for n in ast.iterate():
            if getattr(n, 'is_field', False) is True and getattr(n, 'field', None) in LOGIC_KW and getattr(n.message, 'is_this_msg', False):
                return True
    except Exception:
        pass
    return False


def run(ctx):
    rng = ctx.rng
    from hpl.parser import expression_parser, predicate_parser, property_parser, specification_parser
    ep, prp, pp, sp = expression_parser(), predicate_parser(), property_parser(), specification_parser()
    items = []     # (entry, source text, parser, dumper, ast)
    rejects = 0
    n = 700 if ctx.quick else 9000
    g1 = Gen(rng, aliases=['A', 'B'], max_depth=4)
    g2 = KwGen(rng, aliases=['A', 'in'], max_depth=3)
    for i in range(n):
        g = g2 if i % 3 == 0 else g1
        want = rng.choice([BOOL, BOOL, NUM])
        r = g.expr(want, depth=rng.randrange(1, 5))
        try:
            txt = render(r, rng, 'min')
            if want == BOOL and rng.random() < 0.5:
                items.append(('predicate', '{' + txt + '}', prp, dump_pred, prp.parse('{' + txt + '}')))
            else:
                items.append(('expression', txt, ep, dump_expr, ep.parse(txt)))
        except Exception:
            rejects += 1
    pg = PropGen(rng, max_depth=2, max_width=4)
    times = [None, '0 s', '0.001 ms', '0.5 ms', '1 ms', '33 ms', '100 ms', '999 ms', '999.999 ms', '1 s', '1.5 s', '2.5 s', '10 s', '60 s', '3600 s',
             '86400 s', '1e5 s', '1e9 s', '123456.789 s', '1e-3 s', '1e-6 s', '0.1 s', '0.3 s', '7 ms', '0.7 s', '1e12 ms', '12345 ms']
    texts = []
    for _ in range(n // 2):
        p = pg.prop()
        sc, b, tr, _t = p['pattern']
        p['pattern'] = (sc, b, tr, rng.choice(times))
        txt = render_property(p, rng, 'min')
        try:
            items.append(('property', txt, pp, dump_property, pp.parse(txt)))
            texts.append(txt)
        except Exception:
            rejects += 1
    # ---- time bounds that are not short decimals: amounts with 15-17 significant digits in both units and over twelve orders of
    # magnitude (the printer multiplies sub-second bounds by 1000 and the parser divides `ms` amounts by 1000: floating point)
    n_float_times = 0
    for _ in range(600 if ctx.quick else 6000):
        q = rng.random() * rng.choice([1e-6, 1e-4, 1e-3, 1e-2, 0.1, 1, 10, 1e3, 1e6])
        unit = rng.choice(['s', 'ms', 's'])
        shape = rng.choice(['globally: no a within %s %s', 'after b as B: c {x > 0} causes d within %s%s', 'globally: e requires f within %s %s'])
        txt = shape % (repr(q), unit)
        try:
            items.append(('property', txt, pp, dump_property, pp.parse(txt)))
            kwfam_texts.add(txt)       # (the decimal spelling of such an amount is outside the model's number formatter)
            n_float_times += 1
        except Exception:
            rejects += 1
    # ---- fields named like keywords, reached through the event's own alias: the event constructor rewrites `@A.f` to the own field
    # `f`, which the printer writes bare - a text the grammar reads differently when `f` is a word that starts an atom or a logic
    # operand (`not forall exists True False INF NAN PI E`); the other reserved words are controls
    atom_kw = ['not', 'forall', 'exists', 'True', 'False', 'INF', 'NAN', 'PI', 'E']
    own_kw_texts = set()
    kwfam_texts = set()      # the whole family, controls included: reserved words as field names are outside `Raw.printable`
    for kw in atom_kw + ['and', 'or', 'to', 'in', 'implies', 'iff', 'x', 'notify']:
        for body in (f'@A.{kw} > 0', f'x + @A.{kw} > 0', f'b and @A.{kw}', f'abs(@A.{kw}) > 0', f'@A.{kw}.y = 1', f'@A.{kw}[0] > 0',
                     f'forall i in xs: @A.{kw} > @i'):
            for txt in (f'globally: no t as A {{{body}}}', f'after s as B {{@B.{kw} = 1}}: t {{{body.replace("@A", "@B")}}} causes u'):
                try:
                    items.append(('property', txt, pp, dump_property, pp.parse(txt)))
                    kwfam_texts.add(txt)
                    if kw in atom_kw:
                        own_kw_texts.add(txt)
                except Exception:
                    rejects += 1
    # ---- the own alias used as the whole message (`roll(@A)`): normalised to the current message, which prints as the empty text
    own_msg_texts = set()
    for fn in ('roll', 'pitch', 'yaw'):
        for body in (f'{fn}(@A) > 0', f'x < {fn}(@A)', f'b implies {fn}(@A) = 0'):
            txt = f'globally: no t as A {{{body}}}'
            try:
                items.append(('property', txt, pp, dump_property, pp.parse(txt)))
                kwfam_texts.add(txt)
                own_msg_texts.add(txt)
            except Exception:
                rejects += 1
        ctl = f'after s as B: t {{{fn}(@B) > 0}} causes u'       # another event's alias: must round-trip
        try:
            items.append(('property', ctl, pp, dump_property, pp.parse(ctl)))
        except Exception:
            rejects += 1
    # ---- constants in every operand position, and token soups over the reserved words: the accepted ones are the texts in which a
    # reserved word stands where only a name can (`{ and and and }`, `globally: no as`)
    from soup import CONSTANT_TEXTS, soups
    fam_counts = {'constants': 0, 'soup_accepted': 0}
    for body in CONSTANT_TEXTS:
        for entry, txt, parser, dumper in (('expression', body, ep, dump_expr), ('predicate', '{ ' + body + ' }', prp, dump_pred),
                                           ('property', 'globally: no t { ' + body + ' }', pp, dump_property)):
            try:
                items.append((entry, txt, parser, dumper, parser.parse(txt)))
                fam_counts['constants'] += 1
            except Exception:
                rejects += 1
    # ---- literal spellings in every operand position (index, set member, range bound, argument, operand, quantifier domain): the printer
    # must write the token, not the value (`xs[01]` and `xs[1]` are different ASTs)
    NUMBERS = ['0', '1', '01', '007', '1.', '1.0', '.5', '0.5', '1e3', '1E3', '1e+3', '2e-2', '1.5e1', '.5e1', '10.', '12', '3.25', '100', '1e0', '00']
    fam_counts['literal_spellings'] = 0
    for tok in NUMBERS + ['PI', 'E', 'INF', '"a"', '"a b"', '""']:
        num = not tok.startswith('"')
        tpls = (['xs[%] > 0', 'm.xs[%] = 1', '@A.xs[%] > 0', 'ms[%].b', 'x in [% to 9]', 'x in ![0 to %]!', 'abs(%) > 0', 'x + % > 0', '- % < x', 'x ** % = 1',
                 'forall i in [% to 3]: @i > 0', 'x = %', 'x in {%, 1}', 'xs[xs[%]] = 0']
                if num else ['s = %', 's in {%, "b"}', 'str(%) = s', 'forall i in {%}: @i = s', 'not (s != %)'])
        for tpl in tpls:
            body = tpl.replace('%', tok)
            for entry, txt, parser, dumper in (('expression', body, ep, dump_expr), ('predicate', '{ ' + body + ' }', prp, dump_pred)):
                try:
                    items.append((entry, txt, parser, dumper, parser.parse(txt)))
                    fam_counts['literal_spellings'] += 1
                except Exception:
                    rejects += 1
    # ---- own fields named `not` / `forall` / `exists`, written directly: names wherever the grammar expects an expression rather than a
    # logic operand (`x = not + 1`); printed as the left operand of a parenthesised operator they stand at the start of a logic operand
    fam_counts['own_logic_kw'] = 0
    for kw in LOGIC_KW:
        for body in (f'x = {kw} + 1', f'x = {kw} * 2', f'x < {kw}.a + 1', f'x in {{{kw} + 1}}', f'x in [{kw} - 1 to 2]', f'xs[{kw} + 1] = 1', f'abs({kw} + 1) > 0',
                     f'x = {kw} ** 2', f'b and x = {kw} / 2',
                     # controls: must round-trip
                     f'x = {kw}', f'x = {kw}.y', f'1 + {kw} > 0', f'abs({kw}) > 0', f'xs[{kw}] = 1', f'x = -{kw}', f'x in {{{kw}, 1}}', f'forall i in {kw}: @i > 0'):
            for entry, txt, parser, dumper in (('expression', body, ep, dump_expr), ('predicate', '{ ' + body + ' }', prp, dump_pred),
                                               ('property', 'globally: no t { ' + body + ' }', pp, dump_property)):
                try:
                    items.append((entry, txt, parser, dumper, parser.parse(txt)))
                    fam_counts['own_logic_kw'] += 1
                    if entry == 'property':
                        kwfam_texts.add(txt)
                except Exception:
                    rejects += 1
    for entry, txt in soups(rng, 4000 if ctx.quick else 40000):
        parser, dumper = {'expression': (ep, dump_expr), 'predicate': (prp, dump_pred), 'property': (pp, dump_property)}[entry]
        try:
            items.append((entry, txt, parser, dumper, parser.parse(txt)))
            fam_counts['soup_accepted'] += 1
            if entry == 'property':
                kwfam_texts.add(txt)
        except Exception:
            pass
    for _ in range(60 if ctx.quick else 600):
        k = rng.randrange(1, 5)
        txt = '\n\n'.join(rng.choice(texts) for _ in range(k))
        try:
            items.append(('specification', txt, sp, dump_spec, sp.parse(txt)))
        except Exception:
            rejects += 1

    violations, disagreements = [], []
    lines = []
    printed = {}
    for entry, src, parser, dumper, ast in items:
        s1 = str(ast)
        w = dumper(ast)
        lines.append(dumps([S('printany'), w]))
        inp = {'entry': entry, 'source': src, 'printed': s1}
        fam = ':own-alias-field-named-like-keyword' if src in own_kw_texts else (':own-alias-as-whole-message' if src in own_msg_texts else '')
        if not fam and own_logic_kw(ast):
            fam = ':own-field-named-like-logic-keyword'
        try:
            ast2 = parser.parse(s1)
        except Exception as e:
            violations.append({'input': inp, 'what': f'the printed text does not parse back ({classify_exception(e)})', 'signature': 'print-unparseable' + fam})
            continue
        if ast2 != ast or canon_str(_nometa(dumper(ast2))) != canon_str(_nometa(w)):
            violations.append({'input': inp, 'reparsed': str(ast2), 'what': 'the printed text parses to a different AST', 'signature': 'roundtrip-differs' + fam})
            continue
        if hash(ast2) != hash(ast):
            violations.append({'input': inp, 'what': 'equal ASTs with different hashes', 'signature': 'hash-differs'})
        if str(ast2) != s1:
            violations.append({'input': inp, 'second': str(ast2), 'what': 'printing the re-parsed AST gives a different text', 'signature': 'print-not-stable'})
        key = (entry, s1)
        cw = canon_str(_nometa(w))      # equality of ASTs ignores metadata (and str does not print it)
        if key in printed and printed[key] != cw:
            violations.append({'input': inp, 'what': 'two different ASTs print identically', 'signature': 'print-not-injective'})
        printed[key] = cw
    distinct = set(lines)
    unmodelled_floats = 0
    if ctx.driver is not None:
        am = ctx.driver.run_parallel(lines)
        for (entry, src, parser, dumper, ast), a in zip(items, am):
            x = loads(a)
            if x[0] != 'ok':
                disagreements.append({'input': {'entry': entry, 'source': src}, 'impl': str(ast), 'model': str(x)})
                continue
            if '<float>' in str(x[1]):
                unmodelled_floats += 1     # the model's number formatter covers decimals of at most 16 digits (DESIGN 4.6)
                continue
            if canon_time(canon_text(str(x[1]))) != canon_time(canon_text(str(ast))):
                disagreements.append({'input': {'entry': entry, 'source': src}, 'impl': str(ast), 'model': str(x[1])})
    # the token-level round-trip theorem (Props/C06b parse_toks_roundtrip) on the concrete texts: the parser's tree satisfies the
    # theorem's hypothesis (`printable`), the lexer makes `Raw.toks` of the printed form, the parser reads `Raw.toks` back
    rt = {'checked': 0, 'printable': 0, 'toks_equal': 0, 'read_back': 0, 'literal_tokens_complete': 0, 'model_text_is_chars': 0}
    if ctx.driver is not None:
        # (trees with an own field named like a logic keyword are outside `Raw.printable`: known finding, judged above)
        rt_src = [(entry, src, ast) for entry, src, _, _, ast in items if entry in ('expression', 'predicate')]
        rt_items = list(rt_src)
        rt_items += [(entry, str(ast), ast) for entry, src, ast in rt_src if not (entry == 'predicate' and ast.is_vacuous) and not own_logic_kw(ast)]
        # property level (Props/C06c): the printed form of every parsed property
        rt_items += [('property', str(ast), ast) for entry, src, _, _, ast in items if entry == 'property' and src not in kwfam_texts]
        am = ctx.driver.run_parallel([dumps([S('rtcheck'), S(entry), src]) for entry, src, _ in rt_items])
        for (entry, src, ast), a in zip(rt_items, am):
            x = loads(a)
            if x[0] != 'ok':
                disagreements.append({'input': {'entry': entry, 'source': src}, 'impl': 'accepted', 'model': str(x), 'op': 'rtcheck'})
                continue
            if entry != 'property':
                # `Raw.goodNames` (hypothesis of parse_print_parse, Props/C06m) is the model's name for "not in the known-finding family"
                good = str(x[6]) == '1'
                rt['good_names'] = rt.get('good_names', 0) + good
                if good == own_logic_kw(ast):
                    disagreements.append({'input': {'entry': entry, 'source': src}, 'op': 'rtcheck', 'impl': {'own_field_named_like_logic_keyword': own_logic_kw(ast)},
                                          'model': {'goodNames': good}, 'what': 'the model and the harness classify this tree differently (known-finding family)'})
                if not good:
                    rt['outside_good_names'] = rt.get('outside_good_names', 0) + 1
                    continue
            rt['checked'] += 1
            flags = [str(v) == '1' for v in x[1:5]]
            if entry == 'property':
                # the model's text of the tree (`RawProperty.chars`) against the implementation's printed text: token for token is what
                # the theorem needs (the scanner ignores the amount of white space); character for character is recorded
                chars = str(x[5])
                flags.append(canon_text(chars) == canon_text(src))
                rt['printed_text_is_chars_exactly'] = rt.get('printed_text_is_chars_exactly', 0) + (chars == src)
            else:
                flags.append(str(x[5]) == '1')
            rt['printable'] += flags[0]; rt['toks_equal'] += flags[1]; rt['read_back'] += flags[2]
            if len(flags) > 3:      # hypotheses of the text-level theorems (Props/C06g-h expressions/predicates, C06k properties)
                rt['literal_tokens_complete'] += flags[3]; rt['model_text_is_chars'] += flags[4]
            if not all(flags):
                disagreements.append({'input': {'entry': entry, 'source': src}, 'op': 'rtcheck',
                                      'impl': 'accepted', 'model': {'printable': flags[0], 'lexer_makes_toks_of_printed_form': flags[1], 'toks_read_back': flags[2],
                                                                    'literal_tokens_and_names_complete (lexOkB)': flags[3:4], 'model_text_is_Raw_chars': flags[4:5]},
                                      'what': 'the round-trip theorems (token level C06b/c, text level C06g/h) do not cover this parser output'})
    samples = [{'entry': e, 'source': s[:120], 'printed': str(a)[:160]} for e, s, _, _, a in items[:2] + items[n:n + 3] + items[-2:]]
    return {
        'evaluations': len(items),
        'distinct_nontrivial': len(distinct),
        'rule': 'ASTs returned by the parser for generated texts: expressions and predicates (every node kind, keyword-like names, '
                'non-canonical numbers), properties of every scope x pattern with disjunctions of width <= 4 and 27 time bounds from 1e-9 s '
                'to 1e9 s, specifications of 1..4 properties; str -> parse -> ==, hash, str again; model printer comparison; injectivity.',
        'samples': samples,
        'violations': violations,
        'disagreements': disagreements,
        'coverage_extra': {'generator_rejects': rejects, 'families': dict(fam_counts, float_time_bounds=n_float_times), 'distinct_printed_forms': len(printed), 'model_printer_skipped_unmodelled_float_format': unmodelled_floats, 'roundtrip_theorem_instances': rt},
    }


def _nometa(w):
    """equality of properties ignores metadata (and the printed form does not carry it)"""
    if isinstance(w, list) and w and w[0] == 'prop':
        return [w[0], w[1], w[2], [S('meta')]]
    if isinstance(w, list) and w and w[0] == 'spec':
        return [w[0]] + [_nometa(p) for p in w[1:]]
    return w


def matches_known(v, k):
    return v.get('signature') == k.get('signature')


def replay(ctx, payload):
    return None
