"""C07 — parsing never fails in undocumented ways and parsers are stateless.
All five entry points on arbitrary Unicode strings, random sequences of HPL tokens, and single / double token edits of
valid texts: the outcome must be an AST or one of the documented errors (syntax, sanity, TypeError, ValueError for an
unknown function), never an internal failure or a raw Lark exception; accept / reject is compared with the model. One
parser object fed random interleavings of valid and invalid texts must answer each text as a fresh parser does."""
from sexp import Sym, dumps, loads
from gen import Gen, BOOL, NUM
from raw import render
from propgen import PropGen, render_property
from dump import dump_any, canon_str, classify_exception
from layout import mutate, VOCAB, relayout

S = Sym
PROPERTY = 'C07'
PROPS_MODULES = ['C07', 'C07b', 'C07c']
ASSUMPTIONS = ['termination is observed (every call returned within a 10 s budget; a call that does not is interrupted and reported), bounded nesting depth (generated texts nest at most ~12 levels)',
               'Lark itself is not modelled: its exceptions are only classified (HplSyntaxError wraps UnexpectedToken/UnexpectedCharacters)']
DOCUMENTED = {'ok', 'syntax', 'sanity', 'type', 'value'}

UNI = ['é', 'ß', '日本', ' ', '​', '﻿', '😀', 'x́', '\x00', '\x7f', '"', "'", '\\', '`', '$', '%', '&', ';', '?', '^', '|', '﻿', '٣', 'Ⅻ', ' ']


TIME_BUDGET_S = 10.0     # per call; a parse of the generated texts takes milliseconds


class _OverBudget(BaseException):
    pass


def _alarm(_signum, _frame):
    raise _OverBudget()


def outcome(parser, text):
    """result class of one call, under a wall-clock budget: CPython's regex engine and Lark's loops check for signals, so a call
    that does not come back (e.g. a token pattern that backtracks exponentially) is interrupted and reported as `timeout`"""
    import signal
    old = signal.signal(signal.SIGALRM, _alarm)
    signal.setitimer(signal.ITIMER_REAL, TIME_BUDGET_S)
    try:
        try:
            return 'ok', canon_str(dump_any(parser.parse(text)))
        finally:
            signal.setitimer(signal.ITIMER_REAL, 0)
    except _OverBudget:
        return 'timeout', None
    except Exception as e:
        return classify_exception(e), None
    finally:
        signal.signal(signal.SIGALRM, old)


def run(ctx):
    rng = ctx.rng
    import hpl.parser as HP
    makers = {'expression': HP.expression_parser, 'predicate': HP.predicate_parser, 'condition': HP.condition_parser,
              'property': HP.property_parser, 'specification': HP.specification_parser}
    parsers = {k: m() for k, m in makers.items()}
    texts = []    # (entry, text, kind)
    violations = []
    # process-wide state: a battery of plain texts is answered before anything else, and again after the stress battery below and at
    # the end of the run; an answer that changes in between is state that survived a call (a fresh parser object would not see it
    # differently: module-level caches and shared default containers are shared by all parser objects)
    CANARIES = [('property', 'globally: no c {v > 0}'), ('property', 'globally: a as M causes b {@M.x > x}'),
                ('property', 'after a as K: no b {@K.x = y and z}'), ('property', 'globally: (a {x > 0} or b as Q) causes c {@Q.y = 1} within 3 s'),
                ('property', 'until q {not b}: some c {forall i in xs: @i > 0}'), ('property', 'globally: b requires a as M {x in [0 to 9]} within 10 ms'),
                ('property', 'globally: no c {@K.v > 0}'), ('property', 'globally: a as M causes b as M'),
                ('predicate', '{ x > 0 and s = "a" }'), ('predicate', '{ exists i in {1, 2}: @i = x }'), ('predicate', '{ @M.x > x }'),
                ('expression', 'x + 1 > y implies not b'), ('expression', 'len(xs) > 0'), ('expression', 'forall i in xs: @i in ys'),
                ('specification', '# id: p1\nglobally: no a\n\n# id: p2\nglobally: some b {x = 1}')]
    canary_base = [outcome(makers[e](), t) for e, t in CANARIES]
    canary_reported = set()

    def canaries_again(stage):
        for (e, t), b in zip(CANARIES, canary_base):
            if (e, t) in canary_reported:
                continue
            now = outcome(makers[e](), t)
            if now != b:
                canary_reported.add((e, t))
                violations.append({'input': {'entry': e, 'text': t, 'stage': stage}, 'impl': [b[0], now[0]],
                                   'what': f'the answer to this text changed during the process ({b[0]} at the start, {now[0]} {stage}): a call left state behind '
                                           'that every parser object sees', 'signature': 'stateful'})
    # the stress battery: every quantifier domain kind x every kind of reference in the condition x alias defined / undefined x the
    # positions an event can take - the calls that walk whole properties (sanity check, reference collection, type checks)
    STRESS = []
    for dom in ('xs', 'm.xs', '@M.xs', '{1, 2}', '[0 to 3]', 'ms[0].xs', '{x, y}'):
        for cond in ('@i > @M.x', '@i > @K.x', '@i > x', '@i in @M.xs', '@i = @M.x + @i', 'exists j in ys: @j = @i + @M.y', '@i > 0'):
            for q in ('forall', 'exists'):
                body = f'{q} i in {dom}: {cond}'
                STRESS += [('property', f'globally: a as M causes b {{{body}}}'), ('property', f'globally: no b {{{body}}}'),
                           ('property', f'after a as M until c {{{body}}}: some d'), ('predicate', '{ ' + body + ' }')]
    for e, t in STRESS:
        outcome(parsers[e], t)
    texts += [(e, t, 'canary') for e, t in CANARIES] + [(e, t, 'stress') for e, t in STRESS[::7]]
    g = Gen(rng, aliases=['A'], max_depth=4)
    pg = PropGen(rng, max_depth=2)
    valid = {'expression': [], 'predicate': [], 'property': []}
    for _ in range(150 if ctx.quick else 1500):
        r = g.expr(rng.choice([BOOL, NUM]))
        try:
            t = render(r, rng, 'min')
        except ValueError:
            continue
        valid['expression'].append(t)
        valid['predicate'].append('{' + t + '}')
        valid['property'].append(render_property(pg.prop(), rng, 'min'))
    n = 500 if ctx.quick else 8000
    for _ in range(n):
        entry = rng.choice(list(makers))
        base_entry = {'condition': 'expression', 'specification': 'property'}.get(entry, entry)
        k = rng.random()
        if k < 0.25:
            # arbitrary unicode
            L = rng.randrange(0, 12)
            t = ''.join(rng.choice(UNI + VOCAB + [' ', '\n']) for _ in range(L))
            kind = 'unicode'
        elif k < 0.5:
            t = ' '.join(rng.choice(VOCAB) for _ in range(rng.randrange(1, 14)))
            kind = 'token-soup'
        elif k < 0.9:
            t = mutate(rng.choice(valid[base_entry]), rng, rng.choice([1, 2]))
            if rng.random() < 0.15:
                pos = rng.randrange(len(t) + 1)
                t = t[:pos] + rng.choice(UNI) + t[pos:]
            kind = 'edited'
        else:
            t = rng.choice(valid[base_entry])
            if entry == 'specification':
                t = t + '\n' + rng.choice(valid['property'])
            kind = 'valid'
        texts.append((entry, t, kind))
    # annotation blocks: any sequence of 1..4 items over known / unknown keys with repetitions, well- and ill-formed values
    for _ in range(80 if ctx.quick else 800):
        items = []
        for _ in range(rng.randrange(1, 5)):
            k = rng.choice(['id', 'title', 'description', 'id', 'title', 'description', 'ID', 'name', 'idx'])
            v = {'id': rng.choice(['p1', 'a_b', '"quoted"', '12', '']), 'title': rng.choice(['"t"', '"a: b # c"', 'bare', '""']),
                 'description': rng.choice(['"d"', '"# id: x"', '7'])}.get(k, '"x"')
            items.append(f'#{rng.choice(["", " "])}{k}{rng.choice(["", " "])}:{rng.choice(["", " "])}{v}')
        body = rng.choice(valid['property'])
        body = body[body.index('\n', body.rindex('#')) + 1:] if '#' in body else body
        sep = rng.choice(['\n', ' ', '\n\n'])
        t = sep.join(items) + sep + body
        entry = rng.choice(['property', 'specification'])
        if entry == 'specification' and rng.random() < 0.5:
            t = rng.choice(valid['property']) + '\n' + t
        texts.append((entry, t, 'annotations'))
    # every sequence of 1..3 well-formed annotations over the three keys (repetitions in every order, with and without an id before them)
    import itertools
    WELL = {'id': 'p1', 'title': '"t"', 'description': '"d"'}
    for L in (1, 2, 3):
        for seq in itertools.product(('id', 'title', 'description'), repeat=L):
            block = '\n'.join(f'# {k}: {WELL[k] if i == 0 or k != "id" else "p" + str(i + 1)}' for i, k in enumerate(seq))
            for entry, t in (('property', block + '\nglobally: no a'), ('specification', block + '\nglobally: no a'),
                             ('specification', '# id: first\nglobally: some b\n\n' + block + '\nglobally: no a')):
                texts.append((entry, t, 'annotations-exhaustive'))
    # deep nesting within the stated bound
    for d in (5, 10, 12):
        texts.append(('expression', '(' * d + 'x' + ')' * d + ' > 0', 'nested'))
        texts.append(('predicate', '{' + 'not ' * d + 'b}', 'nested'))
        texts.append(('expression', 'x' + '[0]' * d + ' = 1', 'nested'))

    # unterminated string literals of growing length (a string token pattern that backtracks makes rejection time explode)
    for k in (8, 30, 60, 200):
        texts.append(('expression', 's = "' + 'a' * k, 'unterminated-string'))
        texts.append(('predicate', '{s = "' + 'ab ' * (k // 3) + '}', 'unterminated-string'))
        texts.append(('property', 'globally: no a {s = "' + 'x' * k + '}', 'unterminated-string'))
        texts.append(('specification', '# title: "' + 'some text ' * (k // 10 + 1) + '\nglobally: no a', 'unterminated-string'))
    disagreements = []
    lines = []
    res = []
    stats = {}
    canaries_again('after the stress battery')
    for entry, t, kind in texts:
        cls, dumped = outcome(parsers[entry], t)
        res.append((cls, dumped))
        stats[(kind, cls.split(':')[0])] = stats.get((kind, cls.split(':')[0]), 0) + 1
        if cls == 'timeout':
            violations.append({'input': {'entry': entry, 'text': t}, 'impl': cls,
                               'what': f'parse_{entry} did not return within {TIME_BUDGET_S:.0f} s on a text of {len(t)} characters', 'signature': 'does-not-terminate'})
            continue
        if cls.split(':')[0] not in DOCUMENTED:
            violations.append({'input': {'entry': entry, 'text': t}, 'impl': cls, 'what': f'parse_{entry} failed with an undocumented error ({cls})', 'signature': 'undocumented:' + cls})
        if entry != 'condition':
            lines.append(dumps([S('parse'), S(entry), t]))
        else:
            lines.append(None)
    if ctx.driver is not None:
        req = [l for l in lines if l is not None]
        ans = dict(zip(req, ctx.driver.run_parallel(req)))
        for (entry, t, kind), (cls, dumped), l in zip(texts, res, lines):
            if l is None:
                continue
            x = loads(ans[l])
            mcls = 'ok' if x[0] == 'ok' else str(x[1])
            if (cls == 'ok') != (mcls == 'ok'):
                disagreements.append({'input': {'entry': entry, 'text': t, 'kind': kind}, 'impl': cls, 'model': mcls})
            elif cls == 'ok':
                md = canon_str(x[1]) if entry != 'specification' else canon_str([S('spec')] + x[1:])
                if md != dumped:
                    disagreements.append({'input': {'entry': entry, 'text': t, 'kind': kind}, 'impl': dumped[:300], 'model': md[:300]})
            elif mcls == 'internal':
                disagreements.append({'input': {'entry': entry, 'text': t, 'kind': kind}, 'impl': cls, 'model': 'internal:' + str(x[2])})
    # statelessness: histories on one parser object vs fresh parsers; every history also revisits earlier texts verbatim and
    # as near-variants (other whitespace between tokens, other whitespace inside string literals, exotic space characters,
    # one-token edits), which is what any result cache or leftover lexer/transformer state would confuse
    def variant(t):
        k = rng.random()
        sp = [i for i, ch in enumerate(t) if ch == ' ']
        if k < 0.15:
            return t
        if k < 0.4 and sp:
            i = rng.choice(sp)
            return t[:i] + rng.choice(['\u00a0', '\u2028', '\x0b', '\x1f', '\x0c', '\t', '\r\n', '  ', '\u3000', '\x85']) + t[i + 1:]
        if k < 0.65 and '"' in t:
            a = t.index('"')
            b = t.find('"', a + 1)
            if b > a:
                inner = t[a + 1:b]
                inner2 = rng.choice([inner.replace(' ', '  '), inner.replace(' ', '\t'), inner + ' ', ' ' + inner, inner.replace(' ', '\n'), inner.upper(), inner.replace(' ', '')])
                return t[:a + 1] + inner2 + t[b:]
        if k < 0.8:
            return mutate(t, rng, 1)
        if k < 0.9:
            return relayout(t, rng)
        return t + rng.choice([' ', '\n', '\u00a0', ' x', ')'])

    histories = 0
    fresh_cache = {}
    n_hist = 40 if ctx.quick else 400
    for _ in range(n_hist):
        entry = rng.choice(['expression', 'predicate', 'property', 'specification'])
        base_entry = {'specification': 'property'}.get(entry, entry)
        pool = [t for e, t, k in texts if e == entry] + valid[base_entry]
        if len(pool) < 4:
            continue
        hist = []
        for _ in range(rng.randrange(3, 7)):
            t = rng.choice(valid[base_entry]) if rng.random() < 0.7 else rng.choice(pool)
            hist.append(t)
            for _ in range(rng.randrange(0, 3)):
                hist.append(variant(rng.choice(hist)))
        shared = makers[entry]()
        for i, t in enumerate(hist):
            got = outcome(shared, t)
            # reference: a never-used parser (1 call in 4), otherwise a second parser object with an unrelated history; a
            # difference from the latter is confirmed against a never-used parser before it is reported
            if (entry, t) not in fresh_cache:
                if rng.random() < 0.25:
                    fresh_cache[(entry, t)] = outcome(makers[entry](), t)
                else:
                    ref = outcome(parsers[entry], t)
                    fresh_cache[(entry, t)] = ref if ref == got else outcome(makers[entry](), t)
            fresh = fresh_cache[(entry, t)]
            histories += 1
            if got != fresh:
                violations.append({'input': {'entry': entry, 'history': hist[:i + 1]}, 'impl': [got[0], fresh[0]],
                                   'what': 'a parser object answered a text differently from a fresh parser after this history', 'signature': 'stateful'})
                break
    canaries_again('at the end of the run')
    samples = [{'entry': e, 'text': t[:120], 'kind': k, 'outcome': r[0]} for (e, t, k), r in list(zip(texts, res))[:6]]
    return {
        'evaluations': len(texts) + histories + len(STRESS) + 3 * len(CANARIES),
        'distinct_nontrivial': len(set(t for _, t, _ in texts)),
        'rule': 'five entry points x {arbitrary Unicode (BOM, NBSP, zero-width, emoji, control characters, non-ASCII digits), random HPL token '
                'sequences, one or two token edits of valid texts with an optional stray Unicode character, valid texts, nesting depth 5/10/12}; '
                f'{n_hist} histories of 3..18 texts on one parser object (valid texts, invalid texts, and verbatim repeats / near-variants of earlier texts: other whitespace between tokens or inside string literals, exotic space characters, one-token edits) compared call by call with fresh parsers.',
        'samples': samples,
        'violations': violations,
        'disagreements': disagreements,
        'coverage_extra': {'outcomes': {f'{k[0]}:{k[1]}': v for k, v in sorted(stats.items())}, 'history_calls': histories},
    }


def matches_known(v, k):
    return v.get('signature') == k.get('signature')


def replay(ctx, payload):
    return None
