"""C08 — simplify preserves meaning.
Inputs: well-typed expressions / predicates (random to depth 5; every expression of a small grammar to a size bound),
times valuations from a grid of small values including 0, 1, -1 and equal/unequal pairs. Implementation output vs the
model (`simplify`, modulo the arbitrary order of Python set iteration), and judged by the Lean evaluator: wherever the
original evaluates without error the simplified form evaluates to the same value; same type; vacuous iff literal."""
import itertools
from sexp import Sym, dumps, loads
from gen import Gen, BOOL, NUM, STR, int_lit, float_lit, TRUE, FALSE
from raw import render, build_api, to_wire
from dump import dump_expr, dump_pred, canon_str, canon, classify_exception
from evalutil import gen_env, eval_jobs, vnum, same_value
from fractions import Fraction

S = Sym
PROPERTY = 'C08'
PROPS_MODULES = ['C08', 'C08a', 'C08b', 'C08c', 'C08d', 'C08e', 'C08f']
ASSUMPTIONS = ['exact rational arithmetic (IEEE rounding is not modelled); NaN / arithmetic on infinities are evaluation errors of the original, '
               'so they constrain nothing', 'outputs are compared modulo the order of set-literal members and of flattened and/or chains '
               '(Python set iteration order is arbitrary)']

X = ('field', ('this',), 'x')
Y = ('field', ('this',), 'y')
Bf = ('field', ('this',), 'b')
Cf = ('field', ('this',), 'c')
XS = ('field', ('this',), 'xs')
AV = ('field', ('var', 'A'), 'x')


def small_grammar(rng, n3):
    nums0 = [X, Y, AV, int_lit(0), int_lit(1), int_lit(2), float_lit(0.5)]
    ar = ['+', '-', '*', '/', '**']
    nums1 = [('bin', op, a, b) for op in ar for a in nums0 for b in nums0] + [('un', '-', a) for a in nums0]
    nums1 += [('call', f, [a]) for f in ('abs', 'floor', 'ceil') for a in nums0[:5]]
    sets = [('set', [a, b]) for a in nums0[:5] for b in nums0[:5]] + [('set', [a, b, c]) for a in (X, int_lit(1)) for b in (Y, int_lit(1)) for c in (X, int_lit(2))]
    ranges = [('range', a, b, el, eh) for a in (int_lit(0), int_lit(2), int_lit(5), X) for b in (int_lit(1), int_lit(3), X) for el in (False, True) for eh in (False, True)]
    nums1 += [('call', f, [c]) for f in ('len', 'sum', 'prod', 'max', 'min') for c in sets + ranges + [XS]]
    rel = ['=', '!=', '<', '<=', '>', '>=']
    bools0 = [Bf, Cf, TRUE, FALSE]
    cmp1 = [('bin', op, a, b) for op in rel for a in nums0 for b in nums0]
    bools1 = cmp1 + [('un', 'not', a) for a in bools0] + [('bin', op, a, b) for op in ('and', 'or', 'implies', 'iff') for a in bools0 for b in bools0]
    bools1 += [('bin', '=', a, b) for a in (Bf, TRUE) for b in (Cf, FALSE, Bf)]
    out = nums1 + bools1
    # depth 2: comparisons of depth-1 numbers with depth-0 numbers (the re-association and obviously-different rules live here)
    d2 = [('bin', op, a, b) for op in ('=', '!=', '<', '>=') for a in nums1 for b in nums0]
    d2 += [('bin', op, a, b) for op in ar for a in nums1[:len(ar) * 49] for b in nums0]
    d2 += [('bin', op, a, b) for op in ar for a in nums0 for b in nums1[:len(ar) * 49]]
    d2 += [('bin', op, a, b) for op in ('and', 'or', 'implies', 'iff') for a in bools1 for b in bools0]
    d2 += [('bin', op, a, b) for op in ('and', 'or', 'implies', 'iff') for a in bools0 for b in bools1]
    d2 += [('un', 'not', a) for a in bools1]
    d3 = []
    pool_n, pool_b = nums1, bools1 + [('bin', op, a, b) for op in ('=', '<') for a in nums1[:200] for b in nums0]
    for _ in range(n3):
        k = rng.random()
        if k < 0.45:
            d3.append(('bin', rng.choice(ar), ('bin', rng.choice(ar), rng.choice(pool_n), rng.choice(nums0)), ('bin', rng.choice(ar), rng.choice(nums0), rng.choice(pool_n))))
        elif k < 0.7:
            d3.append(('bin', rng.choice(rel), ('bin', rng.choice(ar), rng.choice(pool_n), rng.choice(nums0)), rng.choice(pool_n)))
        else:
            d3.append(('bin', rng.choice(['and', 'or', 'implies', 'iff']), rng.choice(pool_b), rng.choice(pool_b)))
    return out, d2, d3


def quantifier_family():
    """quantifiers whose body the simplifier could reduce to something that no longer mentions the variable: the value over an
    empty domain (always true / always false) must survive"""
    VI = ('var', 'i')
    P = ('bin', '>', VI, int_lit(0))
    Q = ('bin', '<', VI, X)
    elim = [('bin', 'or', P, ('un', 'not', P)), ('bin', 'and', P, ('un', 'not', P)), ('bin', 'implies', P, P), ('bin', 'iff', P, P),
            ('bin', 'and', FALSE, Q), ('bin', 'or', TRUE, Q), ('bin', 'and', Bf, ('bin', 'implies', P, P)), ('bin', 'or', Cf, ('bin', 'and', P, ('un', 'not', P))),
            ('bin', 'and', P, Q), P, ('bin', '=', ('bin', '-', VI, VI), int_lit(0)), ('bin', '>', ('bin', '*', VI, int_lit(0)), int_lit(1))]
    doms = [XS, ('range', int_lit(1), X, False, False), ('set', [X, Y])]
    out = []
    for q in ('all', 'some'):
        for d in doms:
            for b in elim:
                qq = ('quant', q, 'i', d, b)
                out += [qq, ('un', 'not', qq), ('bin', 'and', Bf, qq), ('bin', 'or', qq, Cf)]
    return out


def aggregate_family():
    """every aggregate over every range with literal bounds in -3..3 (all four inclusion patterns: empty ranges, ranges that stop
    just short of zero, ranges around zero) and over sets of literals with negative, zero, repeated and float members"""
    def lit(k):
        return int_lit(k) if k >= 0 else ('un', '-', int_lit(-k))
    out = []
    ks = range(-3, 4)
    for f in ('len', 'sum', 'prod', 'max', 'min'):
        for a in ks:
            for b in ks:
                for el in (False, True):
                    for eh in (False, True):
                        out.append(('call', f, [('range', lit(a), lit(b), el, eh)]))
        members = [lit(-2), lit(-1), lit(0), lit(1), lit(3), float_lit(0.5), ('un', '-', float_lit(0.5)), float_lit(1.0), X]
        for a in members:
            out.append(('call', f, [('set', [a])]))
            for b in members:
                out.append(('call', f, [('set', [a, b])]))
                out.append(('call', f, [('set', [a, b, lit(-1)])]))
                out.append(('call', f, [('set', [lit(2), a, b, lit(0)])]))
    return out


def pair_family():
    """a connective over two comparisons of the same operand with literals (`x = 0 or x = 1`, `x < 1 iff x >= 0`, ...): the rules
    that recognise complementary / contradictory operand pairs (`_obviously_different`, `_obvious_negatives`) live here, and
    "mutually exclusive" is not "complementary"; every pair of relational operators, three literal pairs, six connectives"""
    rel = ['=', '!=', '<', '<=', '>', '>=']
    out = []
    for conn in ('and', 'or', 'implies', 'iff', '=', '!='):
        for o1 in rel:
            for o2 in rel:
                for k1, k2 in ((0, 1), (1, 0), (0, 0)):
                    out.append(('bin', conn, ('bin', o1, X, int_lit(k1)), ('bin', o2, X, int_lit(k2))))
    for o1 in rel:
        for o2 in rel:
            p, q = ('bin', o1, X, int_lit(0)), ('bin', o2, X, int_lit(1))
            out += [('bin', 'or', Bf, ('bin', 'or', p, q)), ('bin', 'and', ('bin', 'and', p, q), Cf), ('bin', 'or', ('bin', o1, X, Y), ('bin', o2, X, AV)),
                    ('bin', 'iff', ('bin', o1, int_lit(0), X), ('bin', o2, int_lit(1), X)), ('un', 'not', ('bin', 'or', p, q))]
    return out


def conversion_family():
    """conversions applied to conversions of literals (`int(str(3))`, `float(str(2.5))`, `bool(str(0))` ...): the folding works on
    Python values, and `str()` produces strings without the quotes a string literal of the text carries"""
    from gen import str_lit
    lits = [int_lit(3), ('un', '-', int_lit(3)), float_lit(2.5), float_lit(2.0), TRUE, FALSE, str_lit('a'), str_lit('7'), int_lit(0)]
    convs = ['int', 'float', 'str', 'bool', 'abs']
    out = []
    for f in convs:
        for g in convs:
            for l in lits:
                inner = ('call', g, [l])
                t = ('call', f, [inner])
                if f == 'bool':
                    out.append(('bin', 'or', t, Cf))
                elif f == 'str':
                    out.append(('bin', '=', t, str_lit('3')))
                else:
                    out.append(('bin', '>=', X, t))
    return out


def grid_envs():
    envs = []
    for x, y, a in itertools.product([0, 1, -1, 2, Fraction(1, 2)], [0, 1, 2], [0, 1, -1]):
        for b, c in ((True, False), (False, False), (True, True)):
            xs = [1, 2] if x == 1 else ([] if x == 0 else [x, y])
            this = [S('vmsg'), ['x', vnum(x)], ['y', vnum(y)], ['b', [S('vb'), b]], ['c', [S('vb'), c]], ['xs', [S('varr')] + [vnum(v) for v in xs]]]
            A = [S('vmsg'), ['x', vnum(a)]]
            envs.append([S('env'), this, ['A', A]])
    return envs


def dump2(x):
    return dump_pred(x) if x.is_predicate else dump_expr(x)


def sort_ac(w):
    """canonical form modulo the order of set members and of flattened and/or chains"""
    if not isinstance(w, list) or not w:
        return w
    w = [sort_ac(c) for c in w]
    if w[0] == 'set':
        return [w[0], w[1]] + sorted(w[2:], key=dumps)
    if w[0] == 'bin' and w[2] in ('and', 'or'):
        op = w[2]
        items = []

        def flat(n):
            if isinstance(n, list) and n and n[0] == 'bin' and n[2] == op:
                flat(n[3]); flat(n[4])
            else:
                items.append(n)
        flat(w)
        items.sort(key=dumps)
        e = items[-1]
        for it in reversed(items[:-1]):
            e = [S('bin'), w[1], op, it, e]
        return e
    return w


def impl_simplify(obj):
    from hpl.rewrite import simplify
    try:
        r = simplify(obj)
    except Exception as e:
        return ('err', classify_exception(e)), None
    return ('ok', dumps(sort_ac(canon(dump2(r))))), r


def run(ctx):
    rng = ctx.rng
    from hpl.parser import expression_parser, predicate_parser
    ep, prp = expression_parser(), predicate_parser()
    genv = grid_envs()
    g1, g2, g3 = small_grammar(rng, 400 if ctx.quick else 4000)
    forms = g1 + (rng.sample(g2, 2500) if ctx.quick else g2) + g3 + quantifier_family() + conversion_family() + pair_family() + aggregate_family()
    cases = []
    rejects = 0
    for k, r in enumerate(forms):
        try:
            e = build_api(r)
        except Exception:
            rejects += 1
            continue
        # thorough: the whole grid for the depth-1 terms, 32 grid points for each of the others (memory)
        envs = rng.sample(genv, 24) if ctx.quick else (genv if k < len(g1) else rng.sample(genv, 32))
        cases.append(({'kind': 'grammar', 'expr': render(r, None, 'min')}, e, envs))
    n_grammar = len(cases)
    g = Gen(rng, aliases=['A'], max_depth=5, opaque=False, consts=False)
    for _ in range(700 if ctx.quick else 8000):
        want = rng.choice([BOOL, BOOL, NUM])
        r = g.expr(want, depth=rng.randrange(2, 6))
        try:
            txt = render(r, rng, 'min')
            obj = prp.parse('{' + txt + '}') if (want == BOOL and rng.random() < 0.5) else ep.parse(txt)
        except Exception:
            rejects += 1
            continue
        cases.append(({'kind': 'random', 'expr': txt, 'as': 'predicate' if obj.is_predicate else 'expression'}, obj, [gen_env(rng) for _ in range(8 if ctx.quick else 16)]))

    disagreements, violations = [], []
    results, lines_m = [], []
    for inp, obj, envs in cases:
        w = dump2(obj)
        results.append(impl_simplify(obj))
        lines_m.append(dumps([S('simplify'), w]))
    distinct = set(lines_m)
    outcomes = {}
    unmodelled = 0
    changed = 0
    if ctx.driver is not None:
        have_model = MODEL_READY
        if have_model:
            am = ctx.driver.run_parallel(lines_m)
        jobs, idx = [], []
        raised = set()
        for i, ((inp, obj, envs), (out, r)) in enumerate(zip(cases, results)):
            key = out[0] if out[0] == 'ok' else out[1]
            outcomes[key] = outcomes.get(key, 0) + 1
            if have_model:
                x = loads(am[i])
                if x[0] == 'ok':
                    m = ('ok', dumps(sort_ac(canon(x[1]))))
                else:
                    m = ('err', str(x[1]) if str(x[1]) != 'internal' else 'internal:' + str(x[2]))
                if m == ('err', 'internal:unmodelled'):
                    unmodelled += 1
                elif out != m and not (out[0] == 'err' and m[0] == 'err' and out[1].split(':')[0] == m[1].split(':')[0]):
                    disagreements.append({'input': inp, 'impl': out, 'model': m})
            if out[0] != 'ok':
                # allowed only for inputs with an identically-zero divisor or an undefined constant subexpression (e.g. int(""),
                # (0 - 2) ** 0.5): the original must then be undefined under every valuation
                raised.add(i)
                for env in envs:
                    jobs.append((env, [dump2(obj)]))
                    idx.append(i)
                continue
            w0, w1 = dump2(obj), dump2(r)
            if dumps(w0) != dumps(w1):
                changed += 1
            # type preserved; predicate vacuous iff literal
            t0 = w0[1] if obj.is_expression else None
            t1 = w1[1] if r.is_expression else None
            if obj.is_expression and (not r.is_expression or (int(t0) & int(t1)) == 0):
                violations.append({'input': inp, 'impl': out, 'what': 'the simplified form has a different type', 'signature': 'type-changed'})
            for env in envs:
                jobs.append((env, [w0, w1]))
                idx.append(i)
        ev = eval_jobs(ctx.driver, jobs)
        flagged = set()
        for (env, items), res, i in zip(jobs, ev, idx):
            if i in flagged or res is None:
                continue
            if i in raised:
                if res[0][0] == 'ok':
                    flagged.add(i)
                    violations.append({'input': cases[i][0], 'env': dumps(env), 'impl': results[i][0], 'original_value': res[0],
                                       'what': f'simplify raised {results[i][0][1]} although the input evaluates without error on this valuation',
                                       'signature': 'raises-on-defined-input'})
                continue
            if res[0][0] == 'ok' and not same_value(res[0], res[1]):
                flagged.add(i)
                violations.append({'input': cases[i][0], 'env': dumps(env), 'simplified': results[i][0][1][:400], 'original_value': res[0], 'simplified_value': res[1],
                                   'what': 'the original evaluates without error but the simplified form evaluates differently', 'signature': 'not-equivalent'})
    samples = [{'input': c[0], 'output': r[0][1][:200] if r[0][0] == 'ok' else r[0]} for c, r in list(zip(cases, results))[300:303] + list(zip(cases, results))[-3:]]
    return {
        'evaluations': len(cases),
        'distinct_nontrivial': len(distinct),
        'rule': 'small grammar over x, y, @A.x, 0, 1, 2, 0.5: all binary arithmetic / comparison / logic terms of depth 1, depth-2 combinations '
                f'({"2500 sampled" if ctx.quick else "all"}) and sampled depth-3 re-association shapes, aggregates over set/range literals; '
                'random well-typed expressions/predicates to depth 5; valuations from the grid x∈{0,1,-1,2,1/2} × y∈{0,1,2} × @A.x∈{0,1,-1} × booleans.',
        'samples': samples,
        'violations': violations,
        'disagreements': disagreements,
        'coverage_extra': {'grammar_cases': n_grammar, 'random_cases': len(cases) - n_grammar, 'outcomes': outcomes, 'changed_by_simplify': changed,
                           'unmodelled_by_the_model': unmodelled, 'generator_rejects': rejects, 'model_correspondence': MODEL_READY},
    }


MODEL_READY = True


def matches_known(v, k):
    return v.get('signature') == k.get('signature')


def replay(ctx, payload):
    return None
