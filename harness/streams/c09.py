"""C09 — split_and returns an equivalent list of indivisible conjuncts.
Inputs: every formula of a small propositional-plus-quantifier grammar (atoms b, c, x > 0; not/and/or/implies/iff;
forall/exists over xs) to depth 2 (+ sampled depth 3), and random boolean expressions / predicates to depth 5.
Implementation output vs the model (`splitand`); judged by the spec: Lean `eval` of the input and of every part on
a grid of valuations (complete truth table of the atoms x domains [], [1], [-1], [1,-1]) / random valuations, the shape
decider `indivisible`, boolean type, and ValueError only for inputs that are false wherever defined."""
import itertools
from sexp import Sym, dumps, loads
from gen import Gen, BOOL, int_lit, TRUE, FALSE
from raw import render, build_api, to_wire
from dump import dump_expr, dump_pred, canon_str, canon, classify_exception
from evalutil import gen_env, eval_jobs, as_bool, vnum

S = Sym
PROPERTY = 'C09'
PROPS_MODULES = ['C09', 'C09b', 'C09c', 'C14c', 'Hpl.Lemmas.Eval', 'Hpl.Lemmas.OptList']
ASSUMPTIONS = ['equivalence is judged as refinement on the valuations where every returned conjunct evaluates without error '
               '(DESIGN §6 C09: the hoisted conjunct `len(d) = 0 or p` is evaluated even on an empty domain)']

B = ('field', ('this',), 'b')
C = ('field', ('this',), 'c')
XP = ('bin', '>', ('field', ('this',), 'x'), int_lit(0))
XS = ('field', ('this',), 'xs')
VI = ('var', 'i')
USE = ('bin', '>', VI, int_lit(0))
OPS = ['and', 'or', 'implies', 'iff']


def grammar(depth3_sample, rng):
    L0 = [B, C, XP]
    L0c = L0 + [TRUE, FALSE]
    bodies0 = [USE, ('bin', 'and', USE, B), ('bin', 'and', B, USE), ('bin', 'and', B, C) if False else ('bin', 'or', USE, B),
               ('un', 'not', ('bin', 'or', USE, B)), ('un', 'not', ('bin', 'or', B, USE)), ('bin', 'implies', USE, C),
               ('un', 'not', ('bin', 'implies', USE, C)), ('bin', 'and', USE, ('bin', 'and', B, C)), ('un', 'not', USE),
               ('un', 'not', ('un', 'not', ('bin', 'and', USE, B))), ('bin', 'and', ('bin', 'and', USE, B), USE),
               ('bin', 'and', B, ('un', 'not', ('bin', 'or', USE, C)))]
    quants = [('quant', q, 'i', XS, body) for q in ('all', 'some') for body in bodies0]
    quants += [('quant', 'all', 'i', XS, ('bin', 'and', USE, ('quant', 'some', 'j', XS, ('bin', '>', ('var', 'j'), VI))))]
    L1 = [('un', 'not', a) for a in L0c] + [('bin', op, a, b) for op in OPS for a in L0c for b in L0c] + quants
    L2 = [('un', 'not', a) for a in L1]
    L2 += [('bin', op, a, b) for op in ['and', 'or', 'implies'] for a in L1 for b in L0]
    L2 += [('bin', op, a, b) for op in ['and', 'or', 'implies'] for a in L0 for b in L1]
    L2 += [('bin', 'and', a, b) for a in quants for b in quants[:6]]
    out = L0c + L1 + L2
    L3 = []
    pool = L1 + L2
    for _ in range(depth3_sample):
        k = rng.random()
        if k < 0.3:
            L3.append(('un', 'not', rng.choice(L2)))
        elif k < 0.8:
            L3.append(('bin', rng.choice(OPS), rng.choice(pool), rng.choice(pool)))
        else:
            L3.append(('quant', rng.choice(['all', 'some']), 'k', XS, ('bin', rng.choice(['and', 'or', 'implies']), ('bin', '<', ('var', 'k'), int_lit(2)), rng.choice(L1[:80]))))
    return out + L3


def literal_domains():
    """quantifiers over literal domains, empty ones included (`[3 to 1]`, `![1 to 1]!`; `[x to 0]` is empty for x = 1): where the guard
    `len(d) = 0 or p` of a conjunct hoisted out of a universal quantifier matters; plain, negated, and as a conjunct"""
    RNG_E = ('range', int_lit(3), int_lit(1), False, False)
    RNG_X = ('range', ('field', ('this',), 'x'), int_lit(0), False, False)
    RNG_O = ('range', int_lit(1), int_lit(1), True, True)
    RNG_N = ('range', int_lit(0), int_lit(2), False, False)
    SET2 = ('set', [int_lit(1), int_lit(-1)])
    bodies = [USE, ('bin', 'and', USE, B), ('bin', 'and', B, USE), ('bin', 'or', USE, B), ('un', 'not', ('bin', 'or', USE, B)),
              ('bin', 'implies', USE, C), ('un', 'not', ('bin', 'implies', USE, C)), ('bin', 'and', USE, ('bin', 'and', B, C)),
              ('bin', 'and', ('bin', 'and', USE, B), USE), ('bin', 'and', B, C)]
    qs = [('quant', q, 'i', d, body) for q in ('all', 'some') for d in (RNG_E, RNG_X, RNG_O, RNG_N, SET2) for body in bodies]
    return qs + [('un', 'not', a) for a in qs] + [('bin', 'and', a, C) for a in qs[::3]] + [('un', 'not', ('un', 'not', a)) for a in qs[::4]]


def neg_stacks():
    """stacks of 2..5 negations over every shape the pre-split transformation rewrites (and over those it must leave alone),
    at top level, as a conjunct, below a negated disjunction and inside a universal quantifier"""
    out = []
    inner = [('bin', 'or', B, C), ('bin', 'implies', B, C), ('bin', 'and', B, C), ('bin', 'iff', B, C), B, XP,
             ('quant', 'some', 'i', XS, USE), ('quant', 'some', 'i', XS, ('bin', 'and', USE, B)),
             ('quant', 'all', 'i', XS, ('bin', 'and', USE, B)), ('quant', 'all', 'i', XS, ('bin', 'or', USE, B)),
             ('quant', 'all', 'i', XS, ('un', 'not', ('un', 'not', ('bin', 'and', USE, B))))]
    for e in inner:
        for k in range(2, 6):
            n = e
            for _ in range(k):
                n = ('un', 'not', n)
            out += [n, ('bin', 'and', C, n), ('bin', 'and', n, XP), ('un', 'not', ('bin', 'or', C, n)), ('quant', 'all', 'k', XS, ('bin', 'and', ('bin', '<', ('var', 'k'), int_lit(2)), n))]
    # literal False / True inside quantified conjunctions: `forall i in xs: (False and q)` is true on the empty domain, so a
    # ValueError ("unsatisfiable") is wrong for it; only a top-level False conjunct is unsatisfiable
    for lit in (FALSE, TRUE, ('un', 'not', TRUE), ('un', 'not', FALSE)):
        for q in (USE, ('bin', 'and', USE, B)):
            f1 = ('quant', 'all', 'i', XS, ('bin', 'and', lit, q))
            f2 = ('quant', 'all', 'i', XS, ('bin', 'and', q, lit))
            f3 = ('quant', 'all', 'i', XS, ('quant', 'all', 'j', XS, ('bin', 'and', ('bin', '>', ('var', 'j'), VI), lit)))
            f4 = ('un', 'not', ('quant', 'some', 'i', XS, ('bin', 'or', ('un', 'not', lit), ('un', 'not', q))))
            out += [f1, f2, f3, f4, ('bin', 'and', C, f1), ('bin', 'and', f2, B), ('bin', 'and', lit, q) if q is not USE else ('bin', 'and', lit, B)]
    return out


def grid_envs():
    envs = []
    for b, c, x in itertools.product([True, False], [True, False], [1, -1]):
        for xs in ([], [1], [-1], [1, -1]):
            this = [S('vmsg'), ['b', [S('vb'), b]], ['c', [S('vb'), c]], ['x', vnum(x)], ['xs', [S('varr')] + [vnum(v) for v in xs]]]
            envs.append([S('env'), this])
    return envs


def impl_split(obj):
    from hpl.rewrite import split_and
    try:
        parts = split_and(obj)
    except Exception as e:
        return ('err', classify_exception(e)), None
    return ('ok', [canon_str(dump_expr(p)) for p in parts]), parts


def run(ctx):
    rng = ctx.rng
    from hpl.parser import expression_parser, predicate_parser
    ep, prp = expression_parser(), predicate_parser()
    cases = []   # (input descr, python object, envs)
    genv = grid_envs()
    n_d3 = 300 if ctx.quick else 6000
    forms = grammar(n_d3, rng)
    if ctx.quick:
        head = forms[:140]
        rest = forms[140:]
        forms = head + rng.sample(rest, min(len(rest), 1600))
    forms = forms + neg_stacks() + literal_domains()
    rejects = 0
    for r in forms:
        try:
            e = build_api(r)
        except Exception:
            rejects += 1
            continue
        cases.append(({'kind': 'grammar', 'expr': render(r, None, 'min')}, e, genv))
    n_grammar = len(cases)
    n_rand = 500 if ctx.quick else 6000
    g = Gen(rng, aliases=['A'], max_depth=5, opaque=False, consts=False)
    for _ in range(n_rand):
        r = g.expr(BOOL, depth=rng.randrange(2, 6))
        try:
            txt = render(r, rng, 'min')
            obj = prp.parse('{' + txt + '}') if rng.random() < 0.5 else ep.parse(txt)
        except Exception:
            rejects += 1
            continue
        envs = [gen_env(rng) for _ in range(6 if ctx.quick else 12)]
        cases.append(({'kind': 'random', 'expr': txt, 'as': 'predicate' if obj.is_predicate else 'expression'}, obj, envs))

    disagreements, violations = [], []
    results = []
    lines_m = []
    for inp, obj, envs in cases:
        out, parts = impl_split(obj)
        results.append((out, parts))
        w = dump_pred(obj) if obj.is_predicate else dump_expr(obj)
        lines_m.append(dumps([S('splitand'), w]))
    distinct = set()
    n_parts = 0
    outcomes = {}
    if ctx.driver is not None:
        am = ctx.driver.run_parallel(lines_m)
        jobs, shape_lines, idx = [], [], []
        for i, ((inp, obj, envs), (out, parts), a) in enumerate(zip(cases, results, am)):
            x = loads(a)
            m = ('ok', [canon_str(p) for p in x[1:]]) if x[0] == 'ok' else ('err', str(x[1]) if str(x[1]) != 'internal' else 'internal:' + str(x[2]))
            distinct.add(lines_m[i])
            outcomes[out[0] if out[0] == 'ok' else out[1]] = outcomes.get(out[0] if out[0] == 'ok' else out[1], 0) + 1
            if out != m and not (out[0] == 'err' and m[0] == 'err' and out[1].split(':')[0] == m[1].split(':')[0] == 'internal'):
                disagreements.append({'input': inp, 'impl': _short(out), 'model': _short(m)})
            cond = obj.condition if obj.is_predicate else obj
            wc = dump_expr(cond)
            if out[0] == 'ok':
                n_parts += len(parts)
                pw = [dump_expr(p) for p in parts]
                shape_lines.append(dumps([S('shapes')] + pw))
                for env in envs:
                    jobs.append((env, [wc] + pw))
                    idx.append(i)
            else:
                shape_lines.append(None)
                if out[1] == 'value':
                    for env in envs:
                        jobs.append((env, [wc]))
                        idx.append(i)
                else:
                    violations.append({'input': inp, 'impl': out, 'what': f'split_and raised {out[1]} (only ValueError for an unsatisfiable input is allowed)',
                                       'signature': 'raises:' + out[1]})
        ev = eval_jobs(ctx.driver, jobs)
        flagged = set()
        for (env, items), res, i in zip(jobs, ev, idx):
            if i in flagged or res is None:
                continue
            inp = cases[i][0]
            out = results[i][0]
            if out[0] == 'ok':
                vals = [as_bool(r) for r in res[1:]]
                if all(v is not None for v in vals):
                    want = all(vals)
                    got = as_bool(res[0])
                    if got is None or got != want:
                        flagged.add(i)
                        violations.append({'input': inp, 'env': dumps(env), 'parts': out[1][:6], 'original_value': res[0], 'parts_values': vals,
                                           'what': 'the conjunction of the returned expressions differs from the input on this valuation', 'signature': 'not-equivalent'})
            else:
                if as_bool(res[0]) is True:
                    flagged.add(i)
                    violations.append({'input': inp, 'env': dumps(env), 'what': 'split_and reported unsatisfiable (ValueError) but the input is true on this valuation',
                                       'signature': 'valueerror-on-satisfiable'})
        sa = ctx.driver.run_parallel([l for l in shape_lines if l is not None])
        k = 0
        for i, l in enumerate(shape_lines):
            if l is None:
                continue
            x = loads(sa[k]); k += 1
            for j, sh in enumerate(x[1:]):
                if sh[0] != '1':
                    violations.append({'input': cases[i][0], 'part': results[i][0][1][j], 'what': 'a returned expression is still divisible', 'signature': 'divisible'})
                if sh[1] != '1':
                    violations.append({'input': cases[i][0], 'part': results[i][0][1][j], 'what': 'a returned expression is not boolean', 'signature': 'not-bool'})
    samples = [{'input': c[0], 'parts': (len(r[0][1]) if r[0][0] == 'ok' else r[0][1])} for c, r in list(zip(cases, results))[200:203] + list(zip(cases, results))[-3:]]
    return {
        'evaluations': len(cases),
        'distinct_nontrivial': len(distinct),
        'rule': 'every formula of the small grammar (atoms b, c, x>0, True, False; not/and/or/implies/iff; forall/exists over xs with 13 body '
                f'shapes) to depth 2 ({"sampled" if ctx.quick else "all"}) plus {n_d3} sampled depth-3 formulas, judged on the complete 32-row grid '
                '(truth table x domains [], [1], [-1], [1,-1]); random boolean expressions/predicates to depth 5 on random valuations. '
                'Output list compared with the model; equivalence, indivisibility, boolean type and the ValueError clause judged by the Lean spec.',
        'samples': samples,
        'violations': violations,
        'disagreements': disagreements,
        'coverage_extra': {'grammar_cases': n_grammar, 'random_cases': len(cases) - n_grammar, 'parts_returned': n_parts, 'outcomes': outcomes,
                           'generator_rejects': rejects},
    }


def _short(o):
    return [o[0], len(o[1])] + o[1][:3] if o[0] == 'ok' else list(o)


def matches_known(v, k):
    return v.get('signature') == k.get('signature')


def replay(ctx, payload):
    return None
