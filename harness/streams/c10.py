"""C10 — refactor_reference isolates the alias-dependent part without changing meaning.
Inputs: boolean expressions / predicates mentioning zero, one or several aliases at any depth (inside negations,
implications, quantifier bodies and domains): a small grammar enumerated exhaustively plus random ones.
Output pair vs the model (`refactor`); judged by the spec: f1 and f2 == f on every valuation where both parts are
defined (Lean `eval`), f1 does not mention the alias, no bound variable escapes, unchanged when the alias is absent."""
import itertools
from sexp import Sym, dumps, loads
from gen import Gen, BOOL, int_lit, TRUE
from raw import render, build_api
from dump import dump_expr, dump_pred, canon_str, classify_exception
from evalutil import gen_env, eval_jobs, as_bool, vnum
from fractions import Fraction

S = Sym
PROPERTY = 'C10'
PROPS_MODULES = ['C10', 'C10b', 'Hpl.Lemmas.Refs']
ASSUMPTIONS = ['equivalence judged as refinement on the valuations where both returned parts evaluate without error (as C09)']

B = ('field', ('this',), 'b')
XP = ('bin', '>', ('field', ('this',), 'x'), int_lit(0))
AB = ('field', ('var', 'A'), 'b')
AX = ('bin', '>', ('field', ('var', 'A'), 'x'), ('field', ('this',), 'x'))
BBv = ('field', ('var', 'B'), 'b')
XS = ('field', ('this',), 'xs')
AXS = ('field', ('var', 'A'), 'xs')
VI = ('var', 'i')
USE = ('bin', '>', VI, int_lit(0))
USEA = ('bin', '>', VI, ('field', ('var', 'A'), 'x'))
# the alias / the bound variable occurring only inside an index expression
IDXA = ('bin', '>', ('index', ('field', ('this',), 'ys'), ('field', ('var', 'A'), 'x')), int_lit(0))
IDXI = ('bin', '>', ('index', ('field', ('this',), 'ys'), VI), int_lit(0))
USELT = ('bin', '<', VI, ('field', ('var', 'A'), 'x'))      # with xs = [-1, 3], @A.x = 0: `@i > 0` and `@i < @A.x` have separate witnesses


def grammar(rng, n3):
    atoms = [B, XP, AB, AX, BBv, IDXA]
    bodies = [USE, USEA, ('bin', 'and', USE, AB), ('bin', 'and', AB, USE), ('bin', 'and', USE, USEA), ('bin', 'and', USEA, B),
              ('un', 'not', ('bin', 'or', USE, AB)), ('un', 'not', ('bin', 'or', AB, USEA)), ('bin', 'implies', USE, AB),
              ('bin', 'and', ('bin', 'and', USE, B), USEA), ('bin', 'or', USE, AB), ('bin', 'and', B, AB),
              ('bin', 'and', IDXI, AB), ('bin', 'and', IDXA, USE), ('bin', 'and', IDXI, IDXA),
              ('bin', 'and', USE, USELT), ('bin', 'and', USELT, USE), ('bin', 'or', USE, USELT), ('bin', 'and', ('bin', 'and', USE, USELT), B),
              # negated connectives other than `or` in the body (only `not (p or q)` may be rewritten to a conjunction and split)
              ('un', 'not', ('bin', 'implies', USE, AB)), ('un', 'not', ('bin', 'implies', AB, USE)), ('un', 'not', ('bin', 'implies', USE, USELT)),
              ('un', 'not', ('bin', 'and', USE, AB)), ('un', 'not', ('bin', 'iff', USE, AB))]
    # an implication / disjunction whose consequent does not depend on the bound variable, alias in the antecedent, the consequent or the domain
    bodies += [('bin', 'implies', USEA, B), ('bin', 'implies', USEA, AB), ('bin', 'implies', USE, AX), ('bin', 'implies', USE, B),
               ('bin', 'or', ('un', 'not', USE), AB), ('bin', 'implies', AB, USE), ('bin', 'iff', USE, AB)]
    quants = [('quant', q, 'i', d, body) for q in ('all', 'some') for d in (XS, AXS) for body in bodies if not (body == ('bin', 'and', B, AB))]
    # literal domains, empty ones included (`[3 to 1]`; `[x to 0]` is empty for x = 1): the hoisting guard `len(d) = 0 or p` matters there
    RNG_E = ('range', int_lit(3), int_lit(1), False, False)
    RNG_X = ('range', ('field', ('this',), 'x'), int_lit(0), False, False)
    RNG_A = ('range', int_lit(1), ('field', ('var', 'A'), 'x'), False, False)
    RNG_O = ('range', int_lit(1), int_lit(1), True, True)
    SET2 = ('set', [int_lit(1), int_lit(-1)])
    lit_bodies = [USE, USEA, ('bin', 'and', USE, AB), ('bin', 'and', AB, USE), ('bin', 'or', USE, AB), ('bin', 'implies', USE, AB),
                  ('bin', 'and', USEA, B), ('un', 'not', ('bin', 'or', USE, AB)), ('bin', 'and', USE, USELT)]
    lit_quants = [('quant', q, 'i', d, body) for q in ('all', 'some') for d in (RNG_E, RNG_X, RNG_A, RNG_O, SET2) for body in lit_bodies]
    quants += lit_quants
    L1 = [('un', 'not', a) for a in atoms] + [('bin', op, a, b) for op in ('and', 'or', 'implies', 'iff') for a in atoms for b in atoms] + quants
    L2 = [('un', 'not', a) for a in L1] + [('bin', 'and', a, b) for a in L1 for b in atoms] + [('bin', 'and', a, b) for a in atoms for b in L1]
    L2 += [('bin', op, a, b) for op in ('or', 'implies') for a in quants[:10] for b in atoms]
    out = atoms + L1 + L2
    pool = L1 + L2
    for _ in range(n3):
        k = rng.random()
        if k < 0.4:
            out.append(('un', 'not', rng.choice(L2)))
        else:
            out.append(('bin', rng.choice(['and', 'and', 'or', 'implies']), rng.choice(pool), rng.choice(pool)))
    return out


def grid_envs():
    envs = []
    for b, ab, x, ax in itertools.product([True, False], [True, False], [1, -1], [0, 2]):
        for xs in ([], [1], [-1, 3]):
            this = [S('vmsg'), ['b', [S('vb'), b]], ['x', vnum(x)], ['xs', [S('varr')] + [vnum(v) for v in xs]],
                    ['ys', [S('varr'), vnum(5), vnum(-5), vnum(7), vnum(-1)]]]
            A = [S('vmsg'), ['b', [S('vb'), ab]], ['x', vnum(ax)], ['xs', [S('varr')] + [vnum(v) for v in xs[::-1]]]]
            Bm = [S('vmsg'), ['b', [S('vb'), not b]], ['x', vnum(1)], ['xs', [S('varr')]]]
            envs.append([S('env'), this, ['A', A], ['B', Bm]])
    return envs


def dump_any2(x):
    return dump_pred(x) if x.is_predicate else dump_expr(x)


def impl_refactor(obj, alias):
    from hpl.rewrite import refactor_reference
    try:
        f1, f2 = refactor_reference(obj, alias)
    except Exception as e:
        return ('err', classify_exception(e)), None
    return ('ok', [canon_str(dump_any2(f1)), canon_str(dump_any2(f2))]), (f1, f2)


def run(ctx):
    rng = ctx.rng
    from hpl.parser import expression_parser, predicate_parser
    ep, prp = expression_parser(), predicate_parser()
    genv = grid_envs()
    forms = grammar(rng, 300 if ctx.quick else 2000)
    if ctx.quick:
        rest = forms[120:]
        quants1 = [f for f in rest if f[0] == 'quant'] + [f for f in rest if f[0] == 'un' and f[2][0] == 'quant']
        forms = forms[:120] + quants1 + rng.sample(rest, min(len(rest), 1400))
    cases = []
    rejects = 0
    for r in forms:
        try:
            e = build_api(r)
        except Exception:
            rejects += 1
            continue
        for alias in ('A', 'B', 'Q'):
            if alias != 'A' and rng.random() < 0.6:
                continue
            cases.append(({'kind': 'grammar', 'expr': render(r, None, 'min'), 'alias': alias}, e, alias, genv))
    n_grammar = len(cases)
    g = Gen(rng, aliases=['A', 'B'], max_depth=5, opaque=False, consts=False)
    for _ in range(400 if ctx.quick else 2500):
        r = g.expr(BOOL, depth=rng.randrange(2, 6))
        try:
            txt = render(r, rng, 'min')
            obj = prp.parse('{' + txt + '}') if rng.random() < 0.5 else ep.parse(txt)
        except Exception:
            rejects += 1
            continue
        envs = [gen_env(rng) for _ in range(6 if ctx.quick else 8)]
        cases.append(({'kind': 'random', 'expr': txt, 'as': 'predicate' if obj.is_predicate else 'expression', 'alias': 'A'}, obj, 'A', envs))

    disagreements, violations = [], []
    results, lines_m = [], []
    for inp, obj, alias, envs in cases:
        results.append(impl_refactor(obj, alias))
        lines_m.append(dumps([S('refactor'), dump_any2(obj), alias]))
    distinct = set()
    moved = 0
    if ctx.driver is not None:
        am = ctx.driver.run_parallel(lines_m)
        jobs, idx, shape_lines, shape_idx = [], [], [], []
        for i, ((inp, obj, alias, envs), (out, pair), a) in enumerate(zip(cases, results, am)):
            x = loads(a)
            m = ('ok', [canon_str(p) for p in x[1:]]) if x[0] == 'ok' else ('err', str(x[1]))
            distinct.add(lines_m[i])
            if out != m and not (out[0] == 'err' and m[0] == 'err' and out[1].startswith('internal') and m[1].startswith('internal')):
                disagreements.append({'input': inp, 'impl': out, 'model': m})
            if out[0] != 'ok':
                violations.append({'input': inp, 'impl': out, 'what': f'refactor_reference raised {out[1]}', 'signature': 'raises:' + out[1]})
                continue
            f1, f2 = pair
            # (whether the input / the first component mention the alias is judged below from the Lean free variables of the
            #  dumped trees, not by the implementation's own contains_reference)
            c0 = obj.condition if obj.is_predicate else obj
            c1 = f1.condition if f1.is_predicate else f1
            c2 = f2.condition if f2.is_predicate else f2
            shape_lines.append(dumps([S('shapes'), dump_expr(c0), dump_expr(c1), dump_expr(c2)]))
            shape_idx.append(i)
            for env in envs:
                jobs.append((env, [dump_expr(c0), dump_expr(c1), dump_expr(c2)]))
                idx.append(i)
        ev = eval_jobs(ctx.driver, jobs)
        flagged = set()
        for (env, items), res, i in zip(jobs, ev, idx):
            if i in flagged or res is None:
                continue
            b1, b2 = as_bool(res[1]), as_bool(res[2])
            if b1 is not None and b2 is not None:
                got = as_bool(res[0])
                if got is None or got != (b1 and b2):
                    flagged.add(i)
                    violations.append({'input': cases[i][0], 'env': dumps(env), 'impl': results[i][0], 'values': [res[0], res[1], res[2]],
                                       'what': 'f1 and f2 differs from f on this valuation', 'signature': 'not-equivalent'})
        sa = ctx.driver.run_parallel(shape_lines)
        for a, i in zip(sa, shape_idx):
            x = loads(a)
            fv0 = set(str(v) for v in x[1][2])
            fv1 = set(str(v) for v in x[2][2])
            fv12 = fv1 | set(str(v) for v in x[3][2])
            inp, obj, alias, envs = cases[i]
            out, (f1, f2) = results[i]
            if alias not in fv0:
                same = (f1 == obj and canon_str(dump_any2(f1)) == canon_str(dump_any2(obj))) and ((f2.is_predicate and f2.is_vacuous and f2.is_true) or (f2.is_expression and f2.is_value and f2.is_literal and f2.value is True))
                if not same:
                    violations.append({'input': inp, 'impl': out, 'what': 'the input does not mention the alias but the result is not (input itself, True)', 'signature': 'not-unchanged'})
            else:
                moved += 1
            if alias in fv1:
                violations.append({'input': inp, 'impl': out, 'what': 'the first component still references the alias (free variables computed by the Lean spec)', 'signature': 'f1-mentions-alias'})
            if not fv12 <= fv0:
                violations.append({'input': cases[i][0], 'impl': results[i][0], 'what': f'variables {sorted(fv12 - fv0)} occur free in the result but not in the input (a bound variable escaped)',
                                   'signature': 'escape'})
    samples = [{'input': c[0], 'result': r[0][1] if r[0][0] == 'ok' else r[0]} for c, r in list(zip(cases, results))[150:153] + list(zip(cases, results))[-2:]]
    return {
        'evaluations': len(cases),
        'distinct_nontrivial': len(distinct),
        'rule': 'formulas over atoms {b, x>0, @A.b, @A.x>x, @B.b}, not/and/or/implies/iff, forall/exists over xs or @A.xs with 11 body shapes, to '
                'depth 2 plus sampled depth 3, refactored for alias A (and sampled B, absent Q), judged on a 48-row valuation grid; random '
                'expressions/predicates to depth 5 on random valuations. Output pair compared with the model; equivalence (Lean eval), alias-freeness '
                'of f1, no escaping variables (Lean freeVars) and the unchanged clause judged by the spec.',
        'samples': samples,
        'violations': violations,
        'disagreements': disagreements,
        'coverage_extra': {'grammar_cases': n_grammar, 'random_cases': len(cases) - n_grammar, 'inputs_mentioning_alias': moved, 'generator_rejects': rejects},
    }


def matches_known(v, k):
    return v.get('signature') == k.get('signature')


def replay(ctx, payload):
    return None
