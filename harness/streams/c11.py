"""C11 — canonical_form is an exact, order-stable decomposition.
Exhaustive: every scope kind x pattern kind x disjunction width 1..4 in each present event position (right-nested
through the parser and left-nested through the API), with random predicates, aliases, time bounds and metadata.
Implementation output vs model (`canon`) vs spec (`canonspec` = canonicalSpec); plus identity of the result when nothing
is split, and idempotence on every output."""
import itertools
from sexp import Sym, dumps, loads
from dump import dump_property, classify_exception, canon_str
from propgen import PropGen, render_property, TOPICS
from gen import Gen, BOOL

S = Sym
PROPERTY = 'C11'
PROPS_MODULES = ['C11', 'C14d']
ASSUMPTIONS = ['metadata dictionaries are compared by content here; sharing/identity of metadata is the subject of C16']
ONLY_SIMPLE_ACTIVATOR = False


def event_positions(scope, pattern):
    pos = []
    if scope in ('after', 'after_until'):
        pos.append('activator')
    if pattern in ('response', 'prevention', 'requirement'):
        pos.append('trigger')
    pos.append('behaviour')
    if scope in ('until', 'after_until'):
        pos.append('terminator')
    return pos


def split_positions(scope, pattern):
    s = []
    if scope in ('after', 'after_until'):
        s.append('activator')
    s.append('trigger' if pattern == 'response' else ('behaviour' if pattern in ('absence', 'requirement', 'prevention') else None))
    return [x for x in s if x]


def make_property(rng, scope, pattern, widths, aliases_in_splits, left_nested):
    """build through the API (so that left-nested disjunctions exist too); returns (HplProperty or exception class, description)"""
    from hpl.ast import HplSimpleEvent, HplEventDisjunction, HplScope, HplPattern, HplProperty
    from hpl.ast.properties import ScopeType, PatternType
    from hpl.parser import predicate_parser
    ST = {'global': ScopeType.GLOBAL, 'after': ScopeType.AFTER, 'until': ScopeType.UNTIL, 'after_until': ScopeType.AFTER_UNTIL}
    PT = {'absence': PatternType.ABSENCE, 'existence': PatternType.EXISTENCE, 'response': PatternType.RESPONSE,
          'requirement': PatternType.REQUIREMENT, 'prevention': PatternType.PREVENTION}
    prp = make_property.prp
    topics = list(TOPICS)
    rng.shuffle(topics)
    pool = ['A', 'B', 'C', 'D', 'M1', 'M2', 'M3', 'M4']
    splits = split_positions(scope, pattern)
    avail = []
    order = [p for p in ['activator', 'trigger', 'behaviour', 'terminator'] if p in widths]
    if pattern == 'requirement':
        order = [p for p in ['activator', 'behaviour', 'trigger', 'terminator'] if p in widths]
    objs = {}
    desc = {}
    act_aliases = []
    used_topics = []
    for pos in order:
        w = widths[pos]
        # topics are distinct within one event (a disjunction must not repeat a channel) but may recur in another position
        # (a behaviour alternative on the terminator's channel with another predicate, ...)
        names = []
        for _ in range(w):
            reuse = [u for u in used_topics if u not in names]
            if reuse and rng.random() < 0.25:
                names.append(rng.choice(reuse))
            else:
                names.append(topics.pop())
        used_topics.extend(names)
        evs, bound = [], []
        see = list(act_aliases) if pos == 'terminator' else list(avail)
        for n in names:
            alias = None
            allow_alias = aliases_in_splits or not (pos in splits and w > 1)
            if allow_alias and pool and rng.random() < 0.5:
                alias = pool.pop(0)
                bound.append(alias)
            pred = None
            if rng.random() < 0.7:
                from raw import render
                g = Gen(rng, aliases=see, max_depth=2, quants=False)
                pred = prp.parse('{' + render(g.expr(BOOL), rng, 'min') + '}')
            evs.append(HplSimpleEvent.publish(n, pred, alias=alias))
        if w == 1:
            e = evs[0]
        elif left_nested:
            e = evs[0]
            for o in evs[1:]:
                e = HplEventDisjunction(e, o)
        else:
            e = evs[-1]
            for o in reversed(evs[:-1]):
                e = HplEventDisjunction(o, e)
        objs[pos] = e
        desc[pos] = {'width': w, 'aliases': bound}
        if pos == 'activator':
            act_aliases = list(bound)
        if pos != 'terminator':
            avail = bound + avail
    t = rng.choice([float('inf'), float('inf'), 0.1, 1.0, 2.5, 0.0, 30.0])
    scope_o = HplScope(ST[scope], activator=objs.get('activator'), terminator=objs.get('terminator'))
    pattern_o = HplPattern(PT[pattern], objs['behaviour'], objs.get('trigger'), max_time=t)
    p = HplProperty(scope_o, pattern_o)
    if rng.random() < 0.6:
        for k in rng.sample(['id', 'title', 'description'], rng.randrange(1, 4)):
            p.metadata[k] = f'm{rng.randrange(50)}'
    return p, desc


def canonical_outcome(p):
    from hpl.rewrite import canonical_form
    try:
        qs = canonical_form(p)
    except Exception as e:
        return ('err', classify_exception(e)), None
    return ('ok', [canon_str(dump_property(q)) for q in qs]), qs


def run(ctx, only_simple_activator=False):
    from hpl.parser import predicate_parser
    from hpl.rewrite import canonical_form
    make_property.prp = predicate_parser()
    rng = ctx.rng
    SC = ['global', 'after', 'until', 'after_until']
    PK = ['absence', 'existence', 'response', 'requirement', 'prevention']
    combos = []
    for sc in SC:
        for pk in PK:
            pos = event_positions(sc, pk)
            for ws in itertools.product([1, 2, 3, 4], repeat=len(pos)):
                w = dict(zip(pos, ws))
                if only_simple_activator and w.get('activator', 1) != 1:
                    continue
                combos.append((sc, pk, w))
    total = len(combos)
    reps = 1 if ctx.quick else 4
    cases = []
    build_fail = 0
    for sc, pk, w in combos:
        for rep in range(reps):
            for left in (False, True):
                if left and max(w.values()) < 3:
                    continue      # left and right nesting coincide below width 3
                for aliases_in_splits in (False, True):
                    if aliases_in_splits and (ctx.quick and rng.random() < 0.6):
                        continue
                    try:
                        p, desc = make_property(rng, sc, pk, w, aliases_in_splits, left)
                    except Exception:
                        build_fail += 1
                        continue
                    cases.append(({'scope': sc, 'pattern': pk, 'events': desc, 'left_nested': left, 'aliases_in_split_positions': aliases_in_splits,
                                   'text': str(p)}, p))
    disagreements, violations = [], []
    lines_m, lines_s = [], []
    impl = []
    for inp, p in cases:
        w = dump_property(p)
        out, qs = canonical_outcome(p)
        extra = []
        if qs is not None:
            nothing = all(v['width'] == 1 for k, v in inp['events'].items() if k in split_positions(inp['scope'], inp['pattern']))
            if nothing and not (len(qs) == 1 and qs[0] is p):
                extra.append('nothing to split but the result is not the property itself (same object)')
            for q in qs:
                o2, q2 = canonical_outcome(q)
                if o2 != ('ok', [canon_str(dump_property(q))]):
                    extra.append('canonical_form of an output is not just that output')
                    break
        impl.append((out, extra))
        lines_m.append(dumps([S('canon'), w]))
        lines_s.append(dumps([S('canonspec'), w]))
    distinct = set()
    n_split = 0
    if ctx.driver is not None:
        am = ctx.driver.run_parallel(lines_m)
        asp = ctx.driver.run_parallel(lines_s)
        for (inp, p), (out, extra), a, b, lm in zip(cases, impl, am, asp, lines_m):
            x = loads(a)
            m = ('ok', [canon_str(q) for q in x[1:]]) if x[0] == 'ok' else ('err', str(x[1]))
            y = loads(b)
            spec = [canon_str(q) for q in y[1:]]
            distinct.add(lm)
            n_split += len(spec) > 1
            short = {k: inp[k] for k in ('scope', 'pattern', 'events', 'left_nested', 'text')}
            if out != m:
                disagreements.append({'input': short, 'impl': _short(out), 'model': _short(m)})
            if out[0] == 'ok':
                if out[1] != spec:
                    violations.append({'input': short, 'impl': _short(out), 'spec': f'{len(spec)} properties',
                                       'what': 'canonical_form output differs from the product of alternatives (activator-major, source order, other fields copied)',
                                       'signature': 'not-the-product'})
                for ex in extra:
                    violations.append({'input': short, 'what': ex, 'signature': 'self-or-idempotence'})
            else:
                sig = 'canonical-raises:' + out[1]
                if out[1] == 'sanity' and _unbinds_alias(inp) and _alias_referenced_elsewhere(p, inp):
                    sig = 'canonical-raises:sanity:alias-of-one-alternative'
                violations.append({'input': short, 'impl': out, 'what': f'canonical_form raised ({out[1]}) on a valid property', 'signature': sig})
    samples = [{'text': c[0]['text'][:200], 'outputs': (len(o[0][1]) if o[0][0] == 'ok' else o[0][1])} for c, o in list(zip(cases, impl))[:3] + list(zip(cases, impl))[-3:]]
    return {
        'evaluations': len(cases),
        'distinct_nontrivial': len(distinct),
        'rule': f'all {total} combinations of scope kind x pattern kind x disjunction width 1..4 in each present event position '
                f'({"simple activator only; " if only_simple_activator else ""}{reps} random instance(s) each; right-nested and, from width 3, left-nested through the API; '
                'with and without aliases on the alternatives of split positions), random predicates, aliases, time bounds, metadata. '
                'canonical_form output vs model (canon) vs spec (canonicalSpec); identity when nothing is split; idempotence on every output.',
        'samples': samples,
        'exhaustive': True,
        'violations': violations,
        'disagreements': disagreements,
        'coverage_extra': {'shape_combinations': total, 'instances': len(cases), 'with_a_split': n_split, 'construction_rejected': build_fail},
    }


def _short(o):
    if o[0] == 'ok':
        return ['ok', len(o[1])] + [s[:300] for s in o[1][:2]]
    return list(o)


def _unbinds_alias(inp):
    """the narrow shape of the known finding: an alternative of a split disjunction (width > 1) binds an alias"""
    for pos in split_positions(inp['scope'], inp['pattern']):
        ev = inp['events'].get(pos)
        if ev and ev['width'] > 1 and ev['aliases']:
            return True
    return False


def _alias_referenced_elsewhere(p, inp):
    """... and some other event of the property references such an alias"""
    pos_obj = {'activator': p.scope.activator, 'terminator': p.scope.terminator, 'behaviour': p.pattern.behaviour, 'trigger': p.pattern.trigger}
    for pos in split_positions(inp['scope'], inp['pattern']):
        ev = pos_obj.get(pos)
        if ev is None or not ev.is_event_disjunction:
            continue
        for alt in ev.simple_events():
            if alt.alias is None:
                continue
            for other_pos, other in pos_obj.items():
                if other is None or other_pos == pos:
                    continue
                if other.contains_reference(alt.alias):
                    return True
    return False


def matches_known(v, k):
    return v.get('signature') == k.get('signature')


def replay(ctx, payload):
    return None
