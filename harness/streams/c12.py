"""C12 — splitting a pattern over event alternatives preserves trace semantics.
The theorem (canonical_sat_iff, all finite timed traces, both re-activation readings) speaks about the model's
`canonical`; its tie to the code is C11's correspondence restricted to the theorem's hypothesis (simple activator), and
the implementation's output is judged against `canonicalSpec`, to which `canonicalSpec_sat_iff` applies directly."""
from streams import c11

PROPERTY = 'C12'
PROPS_MODULES = ['C12']
ASSUMPTIONS = ['predicate satisfaction is a parameter of the trace semantics (the theorem holds for every interpretation)',
               'the trace semantics of Hpl/Spec/Trace.lean is the reading given to docs/lang.md (docs/semantics.md is TBD in the repository)']


def run(ctx):
    r = c11.run(ctx, only_simple_activator=True)
    r['rule'] = 'C11 stream restricted to properties whose activator is not a disjunction (the hypothesis of canonical_sat_iff): ' + r['rule']
    for v in r['violations']:
        v['what'] = v['what'] + ' — canonicalSpec_sat_iff no longer applies to this output'
    return r


matches_known = c11.matches_known


def replay(ctx, payload):
    return None
