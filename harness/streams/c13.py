"""C13 — predicate combinators and reference substitutions are semantically exact.
negate / join (including the two vacuous predicates), replace_this_with_var / replace_var_with_this on expressions and
predicates, and the alias normalisation of HplSimpleEvent: implementation outputs vs the model, and judged by the Lean
evaluator on valuations in which the substituted variable is bound to the current message."""
from sexp import Sym, dumps, loads
from gen import Gen, BOOL, NUM
from raw import render
from dump import dump_expr, dump_pred, dump_event, canon_str, classify_exception
from evalutil import gen_env, eval_jobs, as_bool

S = Sym
PROPERTY = 'C13'
PROPS_MODULES = ['C13', 'C13b', 'C13c', 'C13d', 'C13e', 'C13f']
ASSUMPTIONS = ['substitution laws are judged on valuations that bind the substituted variable to the current message (the reading of '
               '"evaluating with that variable bound to the message")']


def dump2(x):
    return dump_pred(x) if x.is_predicate else dump_expr(x)


def outcome(f):
    try:
        r = f()
    except Exception as e:
        return ('err', classify_exception(e)), None
    return ('ok', canon_str(dump2(r))), r


def decode(a):
    x = loads(a)
    if x[0] == 'ok':
        return ('ok', canon_str(x[1]))
    return ('err', str(x[1]) if str(x[1]) != 'internal' else 'internal:' + str(x[2]))


def with_this_as(env, name):
    """env + name bound to the current message"""
    return [env[0], env[1], [name, env[1]]] + [kv for kv in env[2:] if kv[0] != name]


def run(ctx):
    rng = ctx.rng
    import hpl.rewrite as R
    from hpl.parser import expression_parser, predicate_parser
    from hpl.ast import HplVacuousTruth, HplContradiction, HplSimpleEvent
    ep, prp = expression_parser(), predicate_parser()
    g = Gen(rng, aliases=['A', 'B'], max_depth=4, opaque=False, consts=False)
    n = 450 if ctx.quick else 2000
    preds, exprs = [], []
    rejects = 0
    for _ in range(n):
        r = g.expr(BOOL, depth=rng.randrange(1, 5))
        try:
            txt = render(r, rng, 'min')
            preds.append((txt, prp.parse('{' + txt + '}')))
        except Exception:
            rejects += 1
    # stacks of 1..4 leading `not` (and nots around / inside connectives): negate() has its own rule for a negated root
    for _ in range(n // 4):
        r = g.expr(BOOL, depth=rng.randrange(1, 3))
        k = rng.randrange(1, 5)
        for _ in range(k):
            r = ('un', 'not', r)
        if rng.random() < 0.3:
            r = ('bin', rng.choice(['and', 'or', 'implies']), r, ('un', 'not', ('un', 'not', g.expr(BOOL, depth=1))))
        try:
            txt = render(r, rng, 'min')
            preds.append((txt, prp.parse('{' + txt + '}')))
        except Exception:
            rejects += 1
    for _ in range(n // 2):
        r = g.expr(rng.choice([BOOL, NUM]), depth=rng.randrange(1, 4))
        try:
            txt = render(r, rng, 'min')
            exprs.append((txt, ep.parse(txt)))
        except Exception:
            rejects += 1
    vac = [('{True}', HplVacuousTruth()), ('{False}', HplContradiction())]
    ops = []   # (input descr, impl outcome, model request, judge spec)
    nenv = 5 if ctx.quick else 10

    def envs():
        return [gen_env(rng) for _ in range(nenv)]
    # negate
    for txt, p in preds + vac:
        out, q = outcome(lambda: p.negate())
        ops.append(({'op': 'negate', 'pred': txt}, out, dumps([S('negate'), dump_pred(p)]), ('negate', p, q)))
    # join (pairs, including vacuous on either side)
    allp = preds + vac
    for _ in range(len(preds)):
        (t1, p1), (t2, p2) = rng.choice(allp), rng.choice(allp)
        out, q = outcome(lambda: p1.join(p2))
        ops.append(({'op': 'join', 'left': t1, 'right': t2}, out, dumps([S('join'), dump_pred(p1), dump_pred(p2)]), ('join', p1, p2, q)))
    # join with one of the receiver's own operands (a disjunct, the operand of a negation, a side of an implication / equivalence):
    # the result must still denote the conjunction
    related = 0
    for t1, p1 in preds:
        e = getattr(p1, 'expression', None)
        if e is None or not (e.is_operator or e.is_quantifier):
            continue
        kids = [k for k in e.children() if getattr(k, 'can_be_bool', False) and k.is_expression]
        if not kids or (related >= (60 if ctx.quick else 600)):
            continue
        k = rng.choice(kids)
        try:
            t2 = '{' + str(k) + '}'
            p2 = prp.parse(t2)
        except Exception:
            continue
        related += 1
        for a, b, ta, tb in ((p1, p2, t1, t2), (p2, p1, t2, t1)):
            out, q = outcome(lambda: a.join(b))
            ops.append(({'op': 'join', 'left': ta, 'right': tb, 'family': 'operand of the other'}, out, dumps([S('join'), dump_pred(a), dump_pred(b)]), ('join', a, b, q)))
    # the alias name is also bound by a quantifier of the input: bound occurrences are not references to the alias
    shadowed = []
    for txt in ('{@A.x > 0 and forall A in xs: @A > x}', '{forall A in xs: @A > 0}', '{(exists A in {1, 2}: @A = x) or @A.y < 3}',
                '{forall i in xs: (@i > @A.x and exists A in ys: @A > @i)}', '{not (forall A in xs: @A > y) implies @A.b}'):
        try:
            shadowed.append((txt, prp.parse(txt)))
        except Exception:
            pass
    # substitutions
    for txt, x in preds + exprs + vac + shadowed:
        out, y = outcome(lambda: R.replace_this_with_var(x, 'Z'))
        ops.append(({'op': 'replace_this_with_var', 'input': txt, 'alias': 'Z'}, out, dumps([S('thisvar'), dump2(x), 'Z']), ('thisvar', x, y)))
        out2, y2 = outcome(lambda: R.replace_var_with_this(x, 'A'))
        ops.append(({'op': 'replace_var_with_this', 'input': txt, 'alias': 'A'}, out2, dumps([S('varthis'), dump2(x), 'A']), ('varthis', x, y2)))
        if y is not None:
            out3, y3 = outcome(lambda: R.replace_var_with_this(y, 'Z'))
            ops.append(({'op': 'inverse', 'input': txt}, out3, dumps([S('varthis'), dump2(y), 'Z']), ('inverse', x, y3)))
    # event alias normalisation
    for txt, p in preds + shadowed:
        out, ev = None, None
        try:
            ev = HplSimpleEvent.publish('t', p, alias='A')
            out = ('ok', canon_str(dump_event(ev)))
        except Exception as e:
            out = ('err', classify_exception(e))
        ops.append(({'op': 'event-alias', 'pred': txt, 'alias': 'A'}, out, dumps([S('mkevent'), 't', 'A', dump_pred(p)]), ('event', p, ev)))

    disagreements, violations = [], []
    distinct = set()
    by_op = {}
    if ctx.driver is not None:
        am = ctx.driver.run_parallel([o[2] for o in ops])
        jobs, meta = [], []
        for (inp, out, req, spec), a in zip(ops, am):
            m = decode(a)
            by_op[inp['op']] = by_op.get(inp['op'], 0) + 1
            distinct.add(req)
            if out != m and not (out[0] == 'err' and m[0] == 'err' and out[1].startswith('internal') and m[1].startswith('internal')):
                disagreements.append({'input': inp, 'impl': out, 'model': m})
            kind = spec[0]
            if kind == 'negate':
                _, p, q = spec
                if q is None:
                    violations.append({'input': inp, 'impl': out, 'what': 'negate raised', 'signature': 'negate-raises'})
                    continue
                for env in envs():
                    jobs.append((env, [dump_pred(p), dump_pred(q)])); meta.append((inp, 'negate'))
            elif kind == 'join':
                _, p1, p2, q = spec
                if q is None:
                    continue     # type errors when joined references clash are legitimate (same rule as the constructor)
                # identity / annihilator laws, structurally
                if p1.is_vacuous and p1.is_true and q != p2:
                    violations.append({'input': inp, 'impl': out, 'what': 'True.join(q) is not q', 'signature': 'join-identity'})
                if p2.is_vacuous and p2.is_true and q != p1:
                    violations.append({'input': inp, 'impl': out, 'what': 'p.join(True) is not p', 'signature': 'join-identity'})
                if ((p1.is_vacuous and not p1.is_true) or (p2.is_vacuous and not p2.is_true)) and not (q.is_vacuous and not q.is_true):
                    violations.append({'input': inp, 'impl': out, 'what': 'joining with the contradiction is not the contradiction', 'signature': 'join-annihilator'})
                for env in envs() + (envs() + envs() if inp.get('family') else []):
                    jobs.append((env, [dump_pred(p1), dump_pred(p2), dump_pred(q)])); meta.append((inp, 'join'))
            elif kind == 'thisvar':
                _, x, y = spec
                if y is None:
                    continue
                if y.contains_self_reference():
                    violations.append({'input': inp, 'impl': out, 'what': 'the result still references the current message', 'signature': 'thisvar-leftover'})
                for env in envs():
                    jobs.append((with_this_as(env, 'Z'), [dump2(x), dump2(y)])); meta.append((inp, 'same'))
            elif kind == 'varthis':
                _, x, y = spec
                if y is None:
                    continue
                if 'A' in y.external_references():      # occurrences bound by a quantifier named A are not references to the alias
                    violations.append({'input': inp, 'impl': out, 'what': 'the result still references the variable', 'signature': 'varthis-leftover'})
                for env in envs():
                    e2 = [env[0], env[1]] + [kv for kv in env[2:] if kv[0] != 'A'] + [['A', env[1]]]
                    jobs.append((e2, [dump2(x), dump2(y)])); meta.append((inp, 'same'))
            elif kind == 'inverse':
                _, x, y3 = spec
                if y3 is None or canon_str(dump2(y3)) != canon_str(dump2(x)):
                    violations.append({'input': inp, 'impl': out, 'what': 'replace_var_with_this(replace_this_with_var(e, Z), Z) is not e (Z fresh)', 'signature': 'not-inverse'})
            elif kind == 'event':
                _, p, ev = spec
                if ev is None:
                    continue
                if 'A' in ev.predicate.external_references() or 'A' in ev.external_references():
                    violations.append({'input': inp, 'impl': out, 'what': 'the stored predicate / external references still mention the own alias', 'signature': 'event-alias-leftover'})
                for env in envs():
                    e2 = [env[0], env[1]] + [kv for kv in env[2:] if kv[0] != 'A'] + [['A', env[1]]]
                    jobs.append((e2, [dump_pred(p), dump_pred(ev.predicate)])); meta.append((inp, 'same'))
        ev = eval_jobs(ctx.driver, jobs)
        flagged = set()
        for (env, items), res, (inp, how) in zip(jobs, ev, meta):
            key = dumps([inp[k] for k in sorted(inp)])
            if key in flagged or res is None:
                continue
            bad = None
            if how == 'negate':
                a, b = as_bool(res[0]), as_bool(res[1])
                if (res[0][0] == 'ok') != (res[1][0] == 'ok') or (a is not None and b != (not a)):
                    bad = 'negate() does not denote logical negation on this valuation'
            elif how == 'join':
                a, b, c = as_bool(res[0]), as_bool(res[1]), as_bool(res[2])
                if a is not None and b is not None and c != (a and b):
                    bad = 'join() does not denote conjunction on this valuation'
            else:
                if res[0] != res[1] and not (res[0][0] == 'err' and res[1][0] == 'err'):
                    bad = 'the rewritten form evaluates differently with the variable bound to the current message'
            if bad:
                flagged.add(key)
                violations.append({'input': inp, 'env': dumps(env), 'values': res, 'what': bad, 'signature': 'semantics-' + inp['op']})
    samples = [o[0] for o in ops[:2]] + [o[0] for o in ops[len(ops) // 2: len(ops) // 2 + 3]]
    return {
        'evaluations': len(ops),
        'distinct_nontrivial': len(distinct),
        'rule': 'random predicates (depth <= 4, aliases A, B, quantifiers, functions) and expressions, plus the two vacuous predicates: negate, '
                'join of random pairs, replace_this_with_var(·, Z), replace_var_with_this(·, A), their composition, and HplSimpleEvent(alias=A); '
                'outputs compared with the model, laws judged with the Lean evaluator on random valuations binding the variable to the message.',
        'samples': samples,
        'violations': violations,
        'disagreements': disagreements,
        'coverage_extra': {'by_operation': by_op, 'generator_rejects': rejects},
    }


def matches_known(v, k):
    return v.get('signature') == k.get('signature')


def replay(ctx, payload):
    return None
