"""C14 — rewriting functions are total on valid inputs.
Every built-in function with every admissible argument shape (number / string / boolean literal, reference, set literal
of literals or with references, range with literal or non-literal bounds, message reference), inside expressions and
predicates, plus random accepted predicates / expressions / properties: simplify, split_and, refactor_reference, the
this/var replacements and canonical_form must return a result of the documented kind and never fail with an internal
error. Exception class and result are compared with the model; allowed exceptions are judged by the spec (simplify:
only on inputs that are undefined under every valuation; split_and: ValueError only; replacements on predicates:
TypeError only)."""
from sexp import Sym, dumps, loads
from gen import Gen, BOOL, NUM, STR, int_lit, float_lit, str_lit, TRUE
from raw import render, build_api, to_wire
from propgen import PropGen, render_property
from dump import dump_expr, dump_pred, dump_property, canon_str, canon, classify_exception
from evalutil import gen_env, eval_jobs
from streams.c08 import sort_ac

S = Sym
PROPERTY = 'C14'
PROPS_MODULES = ['C14', 'C14b', 'C14c', 'C14d', 'C14e', 'C03b', 'C13d']
ASSUMPTIONS = ['termination of the Python recursion is observed (every call returned), the model carries explicit fuel and never reported exhaustion']

X = ('field', ('this',), 'x')
XS = ('field', ('this',), 'xs')
M = ('field', ('this',), 'm')
AX = ('field', ('var', 'A'), 'x')


def arg_shapes():
    num = [int_lit(0), int_lit(1), int_lit(4), float_lit(0.5), ('un', '-', int_lit(2)), X, AX, ('bin', '+', X, int_lit(1)), ('bin', '+', int_lit(1), int_lit(2))]
    prim = num + [str_lit('a'), str_lit(''), TRUE, ('field', ('this',), 'b'), ('field', ('this',), 's')]
    comp = [XS, ('field', ('var', 'A'), 'xs'),
            ('set', [int_lit(1), int_lit(2)]), ('set', [int_lit(1), int_lit(1)]), ('set', [int_lit(0), int_lit(3), float_lit(0.5)]), ('set', [X, int_lit(1)]), ('set', [X, AX]), ('set', [int_lit(2)]),
            ('set', [X]), ('set', [str_lit('a'), str_lit('b')]),
            ('range', int_lit(0), int_lit(3), False, False), ('range', int_lit(0), int_lit(3), True, True), ('range', int_lit(5), int_lit(1), False, False),
            ('range', int_lit(2), int_lit(2), False, False), ('range', int_lit(2), int_lit(2), True, False), ('range', X, int_lit(3), False, False), ('range', int_lit(0), AX, False, True),
            ('range', float_lit(0.5), float_lit(2.5), False, False), ('range', ('bin', '+', int_lit(1), int_lit(1)), int_lit(4), False, False)]
    msg = [M, ('var', 'A'), ('index', ('field', ('this',), 'ms'), int_lit(0))]
    # keyed by the NAMES of the base types of the parameter's type set (the numeric values of DataType are an implementation detail)
    return {frozenset(['NUMBER']): num, frozenset(['BOOL', 'NUMBER', 'STRING']): prim, frozenset(['ARRAY', 'RANGE', 'SET']): comp,
            frozenset(['MESSAGE']): msg}


def _base_names(t):
    from hpl.types import DataType
    bases = ['BOOL', 'NUMBER', 'STRING', 'ARRAY', 'RANGE', 'SET', 'MESSAGE']
    return frozenset(n for n in bases if t & DataType[n])


def function_cases():
    """(raw expression, description) for every function x admissible unary argument shape, and the n-ary forms through the API"""
    from hpl.ast.expressions import BuiltinFunction
    shapes = arg_shapes()
    out = []
    for m in BuiltinFunction.__members__.values():
        d = m.value
        for sig in d.overloads:
            if len(sig.parameters) == 1:
                p = _base_names(sig.parameters[0])
                for a in shapes.get(p, []):
                    out.append((('call', d.name, [a]), f'{d.name}/1'))
            else:
                n = len(sig.parameters)
                pool = shapes[frozenset(['NUMBER'])]
                for k in range(len(pool)):
                    args = [pool[(k + j * 3) % len(pool)] for j in range(n)]
                    out.append((('call', d.name, args), f'{d.name}/{n}'))
                    if sig.variadic is not None:
                        out.append((('call', d.name, args + [pool[(k + 1) % len(pool)]]), f'{d.name}/{n + 1}'))
    return out


def wrap_bool(call):
    t = 1 if call[1] == 'bool' else (4 if call[1] == 'str' else 2)
    if t == 1:
        return call
    if t == 4:
        return ('bin', '=', call, str_lit('a'))
    return ('bin', '>', call, int_lit(0))


def kind_of(x):
    if isinstance(x, (list, tuple)):
        return 'list[' + ','.join(sorted(set(kind_of(y) for y in x))) + ']'
    return 'predicate' if x.is_predicate else ('expression' if x.is_expression else ('property' if x.is_property else type(x).__name__))


def run(ctx):
    rng = ctx.rng
    import hpl.rewrite as R
    from hpl.parser import expression_parser, predicate_parser, property_parser
    from hpl.ast.predicates import HplPredicateExpression
    ep, prp, pp = expression_parser(), predicate_parser(), property_parser()
    inputs = []     # (descr, python object)
    rejects = 0
    for call, tag in function_cases():
        for variant in ('expr', 'pred', 'pred-and'):
            try:
                if variant == 'expr':
                    obj = build_api(call)
                elif variant == 'pred':
                    obj = HplPredicateExpression(build_api(wrap_bool(call)))
                else:
                    obj = HplPredicateExpression(build_api(('bin', 'and', ('un', 'not', ('bin', 'or', wrap_bool(call), ('field', ('var', 'A'), 'b'))), ('field', ('this',), 'c'))))
            except Exception:
                rejects += 1
                continue
            inputs.append(({'family': 'function', 'function': tag, 'as': variant, 'text': str(obj)}, obj))
    n_fun = len(inputs)
    g = Gen(rng, aliases=['A', 'B'], max_depth=5, consts=True)
    for _ in range(350 if ctx.quick else 5000):
        want = rng.choice([BOOL, BOOL, NUM, STR])
        r = g.expr(want, depth=rng.randrange(1, 6))
        try:
            txt = render(r, rng, 'min')
            obj = prp.parse('{' + txt + '}') if (want == BOOL and rng.random() < 0.6) else ep.parse(txt)
        except Exception:
            rejects += 1
            continue
        inputs.append(({'family': 'random', 'text': txt, 'as': 'pred' if obj.is_predicate else 'expr'}, obj))
    # shapes on which a rewriting function has to build new nodes (the rule-directed family shared with C03 / C16) and quantifiers
    # whose body a simplifier could reduce to something that no longer mentions the variable (shared with C08)
    from rulefam import rule_directed
    import importlib
    c08 = importlib.import_module('streams.c08')
    # quantifiers whose body refactor_reference splits (alias / bound variable in either conjunct, literal and empty domains): C10's family
    c10 = importlib.import_module('streams.c10')
    split_quants = [f for f in c10.grammar(rng, 0) if f[0] == 'quant' or (f[0] == 'un' and f[2][0] == 'quant')]
    for r in rule_directed(rng, ctx.quick) + c08.quantifier_family() + split_quants:
        try:
            txt = render(r, rng, 'min')
            boolish = r[0] in ('quant', 'un') or (r[0] == 'bin' and r[1] in ('>', '=', '!=', '<', '<=', '>=', 'in', 'and', 'or', 'implies', 'iff'))
            obj = prp.parse('{' + txt + '}') if (boolish and rng.random() < 0.5) else ep.parse(txt)
        except Exception:
            rejects += 1
            continue
        inputs.append(({'family': 'rule-directed', 'text': txt, 'as': 'pred' if obj.is_predicate else 'expr'}, obj))
    props = []
    pg = PropGen(rng)
    for _ in range(120 if ctx.quick else 1500):
        p = pg.prop()
        try:
            props.append(({'family': 'property', 'text': render_property(p)}, pp.parse(render_property(p, rng, 'min'))))
        except Exception:
            rejects += 1

    def dump2(x):
        return dump_pred(x) if x.is_predicate else dump_expr(x)

    ops = []   # (descr, op name, impl outcome (class/kind/canonical), model request, python input, python result)

    def attempt(f):
        try:
            return ('ok', f())
        except Exception as e:
            return ('err', classify_exception(e))
    for inp, obj in inputs:
        w = dump2(obj)
        boolish = obj.is_predicate or obj.can_be_bool
        todo = [('simplify', lambda: R.simplify(obj), [S('simplify'), w]),
                ('replace_this_with_var', lambda: R.replace_this_with_var(obj, 'Z'), [S('thisvar'), w, 'Z']),
                ('replace_var_with_this', lambda: R.replace_var_with_this(obj, 'A'), [S('varthis'), w, 'A'])]
        if boolish:
            todo += [('split_and', lambda: R.split_and(obj), [S('splitand'), w])]
        # refactor_reference has an explicit case for non-boolean expressions (returns (True, expr)): it is applied to every input
        todo += [('refactor_reference', lambda: R.refactor_reference(obj, 'A'), [S('refactor'), w, 'A'])]
        for name, f, req in todo:
            ops.append((inp, name, attempt(f), dumps(req), obj))
    for inp, p in props:
        ops.append((inp, 'canonical_form', attempt(lambda: R.canonical_form(p)), dumps([S('canon'), dump_property(p)]), p))

    disagreements, violations = [], []
    outcomes = {}
    distinct = set()
    unmodelled = 0
    if ctx.driver is not None:
        am = ctx.driver.run_parallel([o[3] for o in ops])
        jobs, idx = [], []
        for i, ((inp, name, out, req, obj), a) in enumerate(zip(ops, am)):
            distinct.add(req)
            x = loads(a)
            mcls = 'ok' if x[0] == 'ok' else (str(x[1]) if str(x[1]) != 'internal' else 'internal:' + str(x[2]))
            icls = 'ok' if out[0] == 'ok' else out[1]
            outcomes[(name, icls)] = outcomes.get((name, icls), 0) + 1
            if mcls == 'internal:unmodelled':
                unmodelled += 1
            elif icls.split(':')[0] != mcls.split(':')[0]:
                disagreements.append({'input': inp, 'op': name, 'impl': icls, 'model': mcls})
            # documented result kinds
            if out[0] == 'ok':
                r = out[1]
                k = kind_of(r)
                want = {'simplify': kind_of(obj), 'replace_this_with_var': kind_of(obj), 'replace_var_with_this': kind_of(obj),
                        'split_and': 'list[expression]', 'refactor_reference': f'list[{kind_of(obj)}]', 'canonical_form': 'list[property]'}[name]
                okk = (k == want) or (name == 'split_and' and k == 'list[]')
                if name == 'canonical_form' and len(r) == 0:
                    okk = False
                if not okk:
                    violations.append({'input': inp, 'op': name, 'what': f'{name} returned {k}, documented kind is {want}', 'signature': 'kind:' + name})
                if name == 'simplify' and obj.is_expression and r.is_expression and not (int(obj.data_type.value) & int(r.data_type.value)):
                    violations.append({'input': inp, 'op': name, 'what': 'expression out has a different type', 'signature': 'type:' + name})
                continue
            cls = out[1]
            if name == 'simplify':
                # allowed only when the input is undefined under every valuation (zero divisor / undefined constant)
                for _ in range(4):
                    jobs.append((gen_env(rng), [dump2(obj)]))
                    idx.append(i)
            elif name == 'split_and' and cls == 'value':
                pass                                   # reports unsatisfiability (judged by C09)
            elif name in ('replace_this_with_var', 'replace_var_with_this') and cls == 'type' and obj.is_predicate:
                pass                                   # two references of incompatible types coincide (exactness judged against the model)
            elif name == 'canonical_form' and cls == 'sanity':
                violations.append({'input': inp, 'op': name, 'what': 'canonical_form raised HplSanityError on an accepted property',
                                   'signature': 'canonical-raises:sanity:alias-of-one-alternative' if _split_unbinds(obj) else 'canonical-raises:sanity'})
            else:
                violations.append({'input': inp, 'op': name, 'impl': cls, 'what': f'{name} failed with {cls}', 'signature': f'raises:{name}:{cls}'})
        ev = eval_jobs(ctx.driver, jobs)
        flagged = set()
        for (env, items), res, i in zip(jobs, ev, idx):
            if i in flagged or res is None:
                continue
            if res[0][0] == 'ok':
                flagged.add(i)
                inp, name, out, req, obj = ops[i]
                violations.append({'input': inp, 'op': name, 'impl': out[1], 'env': dumps(env),
                                   'what': f'simplify failed with {out[1]} although the input evaluates without error on this valuation', 'signature': 'raises:simplify-on-defined-input'})
    samples = [{'input': o[0], 'op': o[1], 'outcome': ('ok' if o[2][0] == 'ok' else o[2][1])} for o in ops[:3] + ops[len(ops) // 2: len(ops) // 2 + 3]]
    return {
        'evaluations': len(ops),
        'distinct_nontrivial': len(distinct),
        'rule': 'every built-in function of the extracted table x every overload x admissible argument shapes (9 number shapes, 5 other '
                'primitives, 19 collection shapes incl. empty/reversed/non-literal ranges and sets with equal or non-literal members, 3 message '
                'shapes; n-ary overloads through the API), as expression, as predicate and under not/or/and; random accepted predicates, '
                'expressions and properties; each of simplify, split_and, refactor_reference, replace_this_with_var, replace_var_with_this, '
                'canonical_form applied; exception class compared with the model, result kind and allowed exceptions judged by the statement.',
        'samples': samples,
        'violations': violations,
        'disagreements': disagreements,
        'coverage_extra': {'function_inputs': n_fun, 'other_inputs': len(inputs) - n_fun, 'properties': len(props),
                           'outcomes': {f'{k[0]}:{k[1]}': v for k, v in sorted(outcomes.items())}, 'unmodelled_by_the_model': unmodelled, 'generator_rejects': rejects},
    }


def _split_unbinds(p):
    from streams.c11 import split_positions
    sc = {'GLOBAL': 'global', 'AFTER': 'after', 'UNTIL': 'until', 'AFTER_UNTIL': 'after_until'}[p.scope.scope_type.name]
    pk = p.pattern.pattern_type.name.lower()
    pos_obj = {'activator': p.scope.activator, 'terminator': p.scope.terminator, 'behaviour': p.pattern.behaviour, 'trigger': p.pattern.trigger}
    for pos in split_positions(sc, pk):
        ev = pos_obj.get(pos)
        if ev is None or not ev.is_event_disjunction:
            continue
        for alt in ev.simple_events():
            if alt.alias is None:
                continue
            for other_pos, other in pos_obj.items():
                if other is not None and other_pos != pos and other.contains_reference(alt.alias):
                    return True
    return False


def matches_known(v, k):
    return v.get('signature') == k.get('signature')


def replay(ctx, payload):
    return None
