"""C15 — reference queries. Implementation answers (external_references, contains_reference, contains_self_reference,
contains_definition, iterate, aliases, own-field check) on generated and small-scope-enumerated trees are compared
with the Lean model (`query`, `evquery`) and judged by the Lean spec (`specquery`: freeVars / pre-order listing)."""
import random
from sexp import Sym, dumps, loads
from gen import Gen, BOOL, NUM, int_lit
from raw import render, build_api, to_wire, size
from propgen import PropGen, render_property
from dump import dump_expr, dump_event, canon, classify_exception

S = Sym
PROPERTY = 'C15'
PROPS_MODULES = ['C15', 'C15b']
ASSUMPTIONS = ['sets returned by the implementation are compared as sorted lists (order of a Python set is not observable)']
NAMES = ['A', 'B', 'a', 'i', 'j', 'zz', 'M1', 'X', 'Y']


def impl_query(e):
    try:
        refs = sorted(str(r) for r in e.external_references())
    except Exception as ex:
        refs = 'exc:' + classify_exception(ex)
    return [refs, bool(e.contains_self_reference()), [bool(e.contains_reference(n)) for n in NAMES],
            [bool(e.contains_definition(n)) for n in NAMES], [dumps(canon(dump_expr(x))) for x in e.iterate()]]


def decode_query(ans):
    x = loads(ans)
    if x[0] != 'ok':
        return ['protocol-error', str(x)]
    refs = x[1]
    refs = 'exc:key' if refs[0] == 'keyerror' else sorted(set(str(r) for r in refs[1:]))
    return [refs, x[2] == '1', [b == '1' for b in x[3]], [b == '1' for b in x[4]], [dumps(canon(n)) for n in x[5]]]


def impl_evquery(ev):
    try:
        refs = sorted(str(r) for r in ev.external_references())
    except Exception as ex:
        refs = 'exc:' + classify_exception(ex)
    return [refs, bool(ev.contains_self_reference()), [bool(ev.contains_reference(n)) for n in NAMES],
            [str(a) for a in ev.aliases()], [dumps(canon(dump_event(s))) for s in ev.simple_events()]]


def decode_evquery(ans):
    x = loads(ans)
    if x[0] != 'ok':
        return ['protocol-error', str(x)]
    refs = x[1]
    refs = 'exc:key' if refs[0] == 'keyerror' else sorted(set(str(r) for r in refs[1:]))
    return [refs, x[2] == '1', [b == '1' for b in x[3]], [str(a) for a in x[4]], [dumps(canon(n)) for n in x[5]]]


def decode_evspec(ans):
    x = loads(ans)
    return [sorted(set(str(r) for r in x[1][1:])), [b == '1' for b in x[2]], [str(a) for a in x[3]]]


# ---- small-scope enumeration: every node kind x every child slot x {@a.f, this.f, bound var, literal} --------
def fillers(t):
    if t == NUM:
        return [('field', ('var', 'a'), 'x'), ('field', ('this',), 'x'), ('var', 'i'), int_lit(1)]
    if t == BOOL:
        return [('field', ('var', 'a'), 'b'), ('field', ('this',), 'b'), ('bin', '>', ('var', 'i'), int_lit(0)), ('lit', 'True', True)]
    if t == 'arr':
        return [('field', ('var', 'a'), 'xs'), ('field', ('this',), 'xs'), ('set', [('var', 'i'), int_lit(2)]), ('range', int_lit(0), ('var', 'i'), False, False)]
    if t == 'msg':
        return [('var', 'a'), ('this',), ('index', ('field', ('var', 'a'), 'ms'), ('var', 'i')), ('field', ('this',), 'm')]
    raise ValueError(t)


# (result type, constructor taking fillers, hole types)
TEMPLATES = [
    (NUM, lambda h: ('bin', '+', h[0], h[1]), [NUM, NUM]),
    (NUM, lambda h: ('un', '-', h[0]), [NUM]),
    (NUM, lambda h: ('call', 'abs', [h[0]]), [NUM]),
    (NUM, lambda h: ('call', 'len', [h[0]]), ['arr']),
    (NUM, lambda h: ('index', h[0], h[1]), ['arr', NUM]),
    (NUM, lambda h: ('field', h[0], 'x'), ['msg']),
    ('arr', lambda h: ('set', [h[0], h[1]]), [NUM, NUM]),
    ('arr', lambda h: ('range', h[0], h[1], False, True), [NUM, NUM]),
    ('arr', lambda h: ('field', h[0], 'xs'), ['msg']),
    (BOOL, lambda h: ('bin', 'and', h[0], h[1]), [BOOL, BOOL]),
    (BOOL, lambda h: ('un', 'not', h[0]), [BOOL]),
    (BOOL, lambda h: ('bin', '<', h[0], h[1]), [NUM, NUM]),
    (BOOL, lambda h: ('bin', '=', h[0], h[1]), [NUM, NUM]),
    (BOOL, lambda h: ('bin', 'in', h[0], h[1]), [NUM, 'arr']),
    (BOOL, lambda h: ('quant', 'some', 'j', h[0], ('bin', '=', ('var', 'j'), h[1])), ['arr', NUM]),
    (BOOL, lambda h: ('quant', 'all', 'j', ('field', ('this',), 'ys'), ('bin', 'or', ('bin', '>', ('var', 'j'), int_lit(0)), h[0])), [BOOL]),
    (BOOL, lambda h: ('field', h[0], 'b'), ['msg']),
]


def enum_trees(depth):
    """all templates with every combination of fillers; at depth 2 each hole may also hold a depth-1 tree of the right type"""
    import itertools
    level1 = {NUM: [], BOOL: [], 'arr': [], 'msg': []}
    for rt, mk, holes in TEMPLATES:
        for combo in itertools.product(*[fillers(t) for t in holes]):
            level1[rt].append(mk(list(combo)))
    out = [t for ts in level1.values() for t in ts]
    if depth >= 2:
        for rt, mk, holes in TEMPLATES:
            for pos, ht in enumerate(holes):
                for inner in level1.get(ht, []):
                    combo = [fillers(t)[1] for t in holes]
                    combo[pos] = inner
                    out.append(mk(combo))
    return out


def close(r):
    """bind the free bound-variable `i` so the tree is valid under a quantifier, keeping @a free"""
    return ('quant', 'all', 'i', ('field', ('this',), 'zs'), ('bin', 'or', ('bin', '=', ('var', 'i'), ('var', 'i')), r))


def boolify(r, rt):
    if rt == BOOL:
        return r
    if rt == NUM:
        return ('bin', '>', r, int_lit(0))
    if rt == 'arr':
        return ('bin', 'in', int_lit(1), r)
    return ('field', r, 'b')


def tmpl_type(r):
    for rt, mk, holes in TEMPLATES:
        pass
    return None


def _walk_expr(e, out):
    out.append(e)
    if e.is_quantifier:
        _walk_expr(e.domain, out); _walk_expr(e.condition, out)
    elif e.is_function_call:
        for a in e.arguments:
            _walk_expr(a, out)
    elif e.is_operator:
        if e.arity == 1:
            _walk_expr(e.operand, out)
        else:
            _walk_expr(e.operand1, out); _walk_expr(e.operand2, out)
    elif e.is_accessor:
        if e.is_field:
            _walk_expr(e.message, out)
        else:
            _walk_expr(e.array, out); _walk_expr(e.index, out)
    elif e.is_value:
        if e.is_set:
            for v in e.values:
                _walk_expr(v, out)
        elif e.is_range:
            _walk_expr(e.min_value, out); _walk_expr(e.max_value, out)


def _walk_event(ev, out):
    out.append(ev)
    if ev.is_simple_event:
        out.append(ev.predicate)
        if not ev.predicate.is_vacuous:
            _walk_expr(ev.predicate.expression, out)
    else:
        _walk_event(ev.event1, out); _walk_event(ev.event2, out)


def _walk_property(p):
    """the nodes of a property in pre-order, from its public attributes (not from children())"""
    out = [p, p.scope]
    for ev in (p.scope.activator, p.scope.terminator):
        if ev is not None:
            _walk_event(ev, out)
    out.append(p.pattern)
    for ev in (p.pattern.trigger, p.pattern.behaviour):
        if ev is not None:
            _walk_event(ev, out)
    return out


def _node_tag(n):
    if n.is_property: return 'property'
    if getattr(n, 'is_scope', False): return 'scope'
    if getattr(n, 'is_pattern', False): return 'pattern'
    if getattr(n, 'is_event', False): return 'simple_event' if n.is_simple_event else 'disjunction'
    if n.is_predicate: return ('true' if n.is_true else 'false') if n.is_vacuous else 'predicate'
    e = n
    if e.is_value:
        if e.is_literal: return 'lit'
        if e.is_this_msg: return 'this'
        if e.is_variable: return 'var'
        if e.is_set: return 'set'
        return 'range'
    if e.is_quantifier: return 'quant'
    if e.is_function_call: return 'call'
    if e.is_operator: return 'un' if e.arity == 1 else 'bin'
    return 'field' if e.is_field else 'index'


def run(ctx):
    rng = ctx.rng
    exprs = []        # (label, python expression object, raw or text)
    gen_fail = 0
    # 1. small-scope enumeration through the API (fresh nodes), closed under a quantifier
    depth = 2
    seen_kinds = {}
    for r in enum_trees(depth):
        for variant in (r, close(boolify(r, _rtype(r)))):
            try:
                e = build_api(variant)
            except Exception:
                gen_fail += 1
                continue
            exprs.append(('enum', e, variant))
    # 1b. a quantifier in every kind of child position of another node: the domain of a quantifier (through a set member), a set
    #     member, a range bound (through `len`), a function argument, an operand, an index
    YS = ('field', ('this',), 'ys')
    inner = lambda q, v: ('quant', q, v, YS, ('bin', '>', ('var', v), int_lit(0)))
    for q in ('all', 'some'):
        for v in ('j', 'a', 'i2'):
            qq = inner(q, v)
            nested = [
                ('quant', 'all', 'i', ('set', [qq, ('field', ('this',), 'b')]), ('var', 'i')),
                ('quant', 'some', 'i', ('set', [('field', ('this',), 'b'), qq]), ('un', 'not', ('var', 'i'))),
                ('bin', 'in', ('field', ('this',), 'b'), ('set', [qq])),
                ('call', 'bool', [qq]),
                ('bin', '=', qq, ('field', ('this',), 'b')),
                ('bin', '>', ('index', ('field', ('this',), 'xs'), ('call', 'int', [qq])), int_lit(0)),
                ('quant', 'all', 'i', ('range', int_lit(0), ('call', 'int', [qq]), False, False), ('bin', '>', ('var', 'i'), int_lit(0))),
                ('un', 'not', qq), ('bin', 'implies', qq, ('un', 'not', qq)),
            ]
            for r in nested:
                try:
                    exprs.append(('nested-quantifier', build_api(r), r))
                except Exception:
                    gen_fail += 1
    n_enum = len(exprs)
    # 2. random trees through the parser
    from hpl.parser import expression_parser, property_parser
    ep = expression_parser()
    n_rand = 400 if ctx.quick else 6000
    g = Gen(rng, aliases=['A', 'B'], max_depth=5)
    for _ in range(n_rand):
        r = g.expr(rng.choice([BOOL, BOOL, NUM]), depth=rng.randrange(1, 6))
        try:
            txt = render(r, rng, 'rand')
            e = ep.parse(txt)
        except Exception:
            gen_fail += 1
            continue
        exprs.append(('rand', e, txt))
    # 3. events of random properties
    pp = property_parser()
    pg = PropGen(rng)
    events = []
    props = []
    for _ in range(150 if ctx.quick else 2000):
        p = pg.prop()
        txt = render_property(p, rng, 'min')
        try:
            ast = pp.parse(txt)
        except Exception:
            gen_fail += 1
            continue
        for ev in ast.events():
            events.append((ev, txt))
        props.append((ast, txt))
    # 3b. properties whose events reach their own message through the alias several times (the event constructor puts ONE message
    # object in every such place: a shared node must still be visited once per position)
    for txt in ('globally: no /a as M {@M.x > @M.y}', 'after s as A {@A.x > 0 and @A.y > @A.x}: (t as B {@B.x = @A.x} or u {x > 0}) causes v {@A.y < 1} within 5 s',
                'until q {forall i in xs: @i > x}: some t as T {@T.x in [@T.y to @T.z]}', 'globally: t as T {abs(@T.x) > @T.x} requires (u as U {@U.b} or w)'):
        try:
            props.append((pp.parse(txt), txt))
        except Exception:
            gen_fail += 1

    # 4. events built through the API with every alias / reference placement over {X, Y} (valid or not as properties)
    from hpl.ast import HplSimpleEvent, HplEventDisjunction
    from hpl.parser import predicate_parser
    prp = predicate_parser()
    pr = {rs: prp.parse('{x > 0' + ''.join(f' and @{r}.v > 0' for r in rs) + '}') for rs in [(), ('X',), ('Y',), ('X', 'Y')]}
    simple_evs = [(a, rs) for a in (None, 'X', 'Y') for rs in pr]
    import itertools as _it
    for (a1, r1), (a2, r2) in _it.product(simple_evs, repeat=2):
        e1 = HplSimpleEvent.publish('t1', pr[r1], alias=a1)
        e2 = HplSimpleEvent.publish('t2', pr[r2], alias=a2)
        events.append((e1, f'api: t1 as {a1} refs {r1}'))
        events.append((HplEventDisjunction(e1, e2), f'api: (t1 as {a1} refs {r1} or t2 as {a2} refs {r2})'))
    for _ in range(60 if ctx.quick else 600):
        parts = [HplSimpleEvent.publish(f't{i}', pr[rng.choice(list(pr))], alias=rng.choice([None, 'X', 'Y'])) for i in range(3)]
        d = HplEventDisjunction(HplEventDisjunction(parts[0], parts[1]), parts[2]) if rng.random() < 0.5 else HplEventDisjunction(parts[0], HplEventDisjunction(parts[1], parts[2]))
        events.append((d, 'api: random width-3 disjunction'))

    disagreements, violations = [], []
    lines_m, lines_s = [], []
    impl_answers = []
    for label, e, src in exprs:
        w = dump_expr(e)
        impl_answers.append(impl_query(e))
        lines_m.append(dumps([S('query'), w] + NAMES))
        lines_s.append(dumps([S('specquery'), w] + NAMES))
    ev_impl = []
    for ev, txt in events:
        w = dump_event(ev)
        ev_impl.append(impl_evquery(ev))
        lines_m.append(dumps([S('evquery'), w] + NAMES))
        lines_s.append(dumps([S('evspec'), w] + NAMES))
    distinct = set()
    kinds = {}
    if ctx.driver is not None:
        ans_m = ctx.driver.run_parallel(lines_m)
        ans_s = ctx.driver.run_parallel(lines_s)
        for i, (label, e, src) in enumerate(exprs):
            got = impl_answers[i]
            m = decode_query(ans_m[i])
            sp = decode_query(ans_s[i])
            inp = {'kind': 'expression', 'source': src if isinstance(src, str) else dumps(to_wire(src)), 'ast': dumps(dump_expr(e))}
            distinct.add(inp['ast'])
            for x in e.iterate():
                kinds[type(x).__name__] = kinds.get(type(x).__name__, 0) + 1
            if got != m:
                disagreements.append({'input': inp, 'impl': got[:4], 'model': m[:4]})
            if got != sp:
                what = _explain(got, sp)
                violations.append({'input': inp, 'impl': got[:4], 'spec': sp[:4], 'what': what, 'signature': what.split(':')[0]})
        off = len(exprs)
        for j, (ev, txt) in enumerate(events):
            got = ev_impl[j]
            m = decode_evquery(ans_m[off + j])
            sp = decode_evspec(ans_s[off + j])
            inp = {'kind': 'event', 'source': txt, 'ast': dumps(dump_event(ev))}
            distinct.add(inp['ast'])
            if got != m:
                disagreements.append({'input': inp, 'impl': got[:4], 'model': m[:4]})
            if [got[0], got[2], got[3]] != sp:
                violations.append({'input': inp, 'impl': [got[0], got[2], got[3]], 'spec': sp,
                                   'what': 'event query differs from free references / occurrences / aliases in source order', 'signature': 'event-query'})
    # ---- iterate() on whole properties: against an independent pre-order walk over the public attributes (identity of the visited
    # objects, one visit per position), and against the model's loop (tags of the visited nodes)
    prop_iter = {'properties': 0, 'nodes': 0}
    if ctx.driver is not None and props:
        from dump import dump_property
        pans = ctx.driver.run_parallel([dumps([S('nodeiter'), dump_property(p)]) for p, _ in props])
        for (p, txt), a in zip(props, pans):
            got = list(p.iterate())
            want = _walk_property(p)
            prop_iter['properties'] += 1; prop_iter['nodes'] += len(want)
            inp = {'kind': 'property', 'source': txt}
            if len(got) != len(want) or any(g is not w for g, w in zip(got, want)):
                violations.append({'input': inp, 'impl': [type(x).__name__ for x in got][:40], 'spec': [type(x).__name__ for x in want][:40],
                                   'what': 'iterate() of a property is not the pre-order walk (every node once per position, parents first, left to right)',
                                   'signature': 'iterate-property'})
            x = loads(a)
            tags = [_node_tag(n) for n in got]
            if x[0] != 'ok' or [str(t) for t in x[1:]] != tags:
                disagreements.append({'input': inp, 'impl': tags[:40], 'model': [str(t) for t in x[1:]][:40]})
    samples = [{'source': (s if isinstance(s, str) else dumps(to_wire(s)))[:200], 'external_references': a[0], 'self': a[1], 'nodes_visited': len(a[4])}
               for (l, e, s), a in list(zip(exprs, impl_answers))[n_enum:n_enum + 4] + list(zip(exprs, impl_answers))[:3]]
    return {
        'evaluations': len(exprs) + len(events),
        'distinct_nontrivial': len(distinct),
        'rule': f'(1) every node kind x every child slot x filler in {{@a.f, own field, bound variable, literal}} to depth {depth}, built through '
                'the API, free and closed under a quantifier; (2) random expressions to depth 5 through the parser; (3) events of random '
                'properties. Distinct = distinct typed ASTs. Each implementation answer is compared with the model (query/evquery) and with '
                'the spec (specquery/evspec: freeVars and predicates over the pre-order listing)',
        'samples': samples,
        'violations': violations,
        'coverage_property_iterate': prop_iter,
        'disagreements': disagreements,
        'coverage_extra': {'enumerated': n_enum, 'random': len(exprs) - n_enum, 'events': len(events), 'generator_rejects': gen_fail,
                           'node_kinds_visited': kinds},
    }


def _rtype(r):
    k = r[0]
    if k in ('set', 'range'):
        return 'arr'
    if k == 'bin':
        return BOOL if r[1] in ('and', '<', '=', 'in') else NUM
    if k == 'un':
        return BOOL if r[1] == 'not' else NUM
    if k == 'quant':
        return BOOL
    if k == 'call':
        return NUM
    if k == 'index':
        return NUM
    if k == 'field':
        return {'x': NUM, 'xs': 'arr', 'b': BOOL}[r[2]]
    raise ValueError(r)


def _explain(got, sp):
    names = ['external_references', 'contains_self_reference', 'contains_reference', 'contains_definition', 'iterate']
    for n, a, b in zip(names, got, sp):
        if a != b:
            return f'{n}: implementation {str(a)[:120]} vs spec {str(b)[:120]}'
    return 'query'


def matches_known(v, k):
    return v.get('signature') == k.get('signature')


def replay(ctx, payload):
    from hpl.parser import expression_parser
    inp = payload.get('input') or {}
    if inp.get('kind') == 'expression' and isinstance(inp.get('source'), str) and not inp['source'].startswith('('):
        e = expression_parser().parse(inp['source'])
        got = impl_query(e)
        sp = decode_query(ctx.driver.run([dumps([S('specquery'), dump_expr(e)] + NAMES)])[0])
        return None if got == sp else {'impl': got[:4], 'spec': sp[:4]}
    return None
