"""C16 — ASTs are immutable values: no API call changes an existing tree.
Every accepted AST (expressions, predicates, properties; parsed and API-built) and each of its sub-trees is snapshotted
(deep repr including data_type and metadata, hash, a structural dump) and then put through sequences of up to three API
calls (queries, printers, cast, but() with same / changed values, the rewriting functions, negate / join,
canonical_form, type_check_references, and constructors applied around existing sub-trees); after every call the
snapshot of the original must be unchanged. The contracts of but() are checked on every node.
The Lean side: the constructors of the model re-applied to the children of a well-typed node return those children
unchanged (`Props/C16`: castE_stable, mkUn_stable .. rebuild_stable), which is why in-place narrowing by validators is
a no-op on trees that satisfy the C03 invariant."""
from sexp import Sym, dumps, loads
from gen import Gen, BOOL, NUM
from raw import render, build_api
from propgen import PropGen, render_property
from dump import dump_expr, dump_pred, dump_property, canon_str, classify_exception
import copy

S = Sym
PROPERTY = 'C16'
PROPS_MODULES = ['C16']
ASSUMPTIONS = ['constructors applied by the caller to sub-trees it took from an AST are included among the API calls only at parameter '
               'positions whose type contains the sub-tree\'s type set (a constructor narrowing a wider operand is documented behaviour of '
               'the validators and is reported separately as coverage, not as a violation)']


DEFAULT_TOKEN = [None]
DEFAULT_TYPES = {}


def _init_tokens():
    import schema as SC
    from gen import DEFAULT_SCHEMA
    from propgen import TOPICS
    tok = SC.to_token(SC.from_gen_schema(DEFAULT_SCHEMA))
    DEFAULT_TOKEN[0] = tok
    for t in TOPICS:
        DEFAULT_TYPES[t] = tok


def snap(o):
    return (repr(o), hash(o))


def subtrees(o, limit=40):
    out = []
    for x in o.iterate():
        out.append(x)
        if len(out) >= limit:
            break
    return out


def api_calls(o, rng):
    """(label, thunk) for the calls applicable to `o`"""
    import hpl.rewrite as R
    from hpl.types import DataType
    from hpl.ast.expressions import HplUnaryOperator, HplBinaryOperator, HplFunctionCall, HplSet, HplRange, HplLiteral
    calls = [('str', lambda: str(o)), ('repr', lambda: repr(o)), ('hash', lambda: hash(o)), ('eq', lambda: o == copy.copy(o)),
             ('iterate', lambda: list(o.iterate())), ('children', lambda: o.children())]
    if o.is_expression or o.is_predicate:
        calls += [('external_references', lambda: o.external_references()),
                  ('contains_reference', lambda: o.contains_reference('A')),
                  ('contains_self_reference', lambda: o.contains_self_reference()),
                  ('contains_definition', lambda: o.contains_definition('i')),
                  ('is_fully_typed', lambda: o.is_fully_typed()),
                  ('simplify', lambda: R.simplify(o)),
                  ('replace_this_with_var', lambda: R.replace_this_with_var(o, 'Z')),
                  ('replace_var_with_this', lambda: R.replace_var_with_this(o, 'A'))]
    if o.is_expression or o.is_predicate:
        # the substitution methods themselves, with replacements whose type is narrower than the place they go to: the new parent is
        # built around operands shared with `o` (a validator that narrowed them in place would retype `o`)
        from hpl.ast.expressions import HplVarReference
        try:
            names = sorted(o.external_references())
        except Exception:
            names = []
        for v in names[:3] + ['v']:
            for lbl, mk in (('1', lambda: HplLiteral('1', 1)), ('"s"', lambda: HplLiteral('"s"', 's')), ('True', lambda: HplLiteral('True', True)),
                            ('@w', lambda: HplVarReference('@w'))):
                calls.append((f'replace_var_reference({v},{lbl})', (lambda v=v, mk=mk: o.replace_var_reference(v, mk()))))
        calls += [('replace_self_reference(@w)', lambda: o.replace_self_reference(HplVarReference('@w')))]
        if o.is_expression:
            calls += [('reshape(identity)', lambda: o.reshape(lambda e: e)), ('reshape(identity,deep)', lambda: o.reshape(lambda e: e, deep=True)),
                      ('reshape(literal-for-var)', lambda: o.reshape(lambda e: HplLiteral('2', 2) if getattr(e, 'is_variable', False) else e, deep=True)),
                      ('replace(var->literal)', lambda: o.replace(lambda e: getattr(e, 'is_variable', False), HplLiteral('3', 3)))]
    if o.is_expression:
        t = rng.choice([DataType.BOOL, DataType.NUMBER, DataType.STRING, DataType.PRIMITIVE, DataType.ANY, DataType.ARRAY, DataType.MESSAGE])
        calls += [(f'cast({t.name})', lambda: o.cast(t)),
                  ('but()', lambda: o.but()),
                  ('but(data_type)', lambda: o.but(data_type=o.data_type & t or o.data_type))]
        if o.can_be_bool:
            calls += [('split_and', lambda: R.split_and(o)), ('refactor_reference', lambda: R.refactor_reference(o, 'A'))]
        # the caller builds new parents around this existing sub-tree, at positions that accept its whole type set
        dt = o.data_type
        if dt & DataType.BOOL == dt:
            calls += [('new not(.)', lambda: HplUnaryOperator('not', o)),
                      ('new (. and True)', lambda: HplBinaryOperator('and', o, HplLiteral('True', True))),
                      ('new (True implies .)', lambda: HplBinaryOperator('implies', HplLiteral('True', True), o))]
        if dt & DataType.NUMBER == dt:
            calls += [('new -(.)', lambda: HplUnaryOperator('-', o)),
                      ('new (. + 1)', lambda: HplBinaryOperator('+', o, HplLiteral('1', 1))),
                      ('new (. < 1)', lambda: HplBinaryOperator('<', o, HplLiteral('1', 1))),
                      ('new abs(.)', lambda: HplFunctionCall('abs', (o,))),
                      ('new [. to 9]', lambda: HplRange(o, HplLiteral('9', 9)))]
        if dt & DataType.PRIMITIVE == dt:
            calls += [('new {.}', lambda: HplSet((o,))), ('new (. = .)', lambda: HplBinaryOperator('=', o, o))]
    if o.is_predicate or o.is_expression:
        calls += [('type_check_references', lambda: o.type_check_references(DEFAULT_TOKEN[0], {'A': DEFAULT_TOKEN[0], 'B': DEFAULT_TOKEN[0], 'v': DEFAULT_TOKEN[0]}))]
    if o.is_predicate:
        calls += [('negate', lambda: o.negate()), ('join', lambda: o.join(o.negate())), ('split_and', lambda: R.split_and(o)),
                  ('refactor_reference', lambda: R.refactor_reference(o, 'A')),
                  ('is_vacuous', lambda: o.is_vacuous)]
    if getattr(o, 'is_event', False):
        calls += [('simple_events', lambda: list(o.simple_events())), ('aliases', lambda: o.aliases() if hasattr(o, 'aliases') else None)]
    if o.is_property:
        calls += [('canonical_form', lambda: R.canonical_form(o)), ('sanity_check', lambda: o.sanity_check()),
                  ('is_fully_typed', lambda: o.is_fully_typed()),
                  ('type_check_references', lambda: o.type_check_references(DEFAULT_TYPES))]
    return calls


def run(ctx):
    rng = ctx.rng
    from hpl.parser import expression_parser, predicate_parser, property_parser
    ep, prp, pp = expression_parser(), predicate_parser(), property_parser()
    _init_tokens()
    n = 120 if ctx.quick else 2000
    roots = []
    g = Gen(rng, aliases=['A', 'B'], max_depth=4)
    pg = PropGen(rng, max_depth=2)
    for i in range(n):
        r = g.expr(rng.choice([BOOL, BOOL, NUM]), depth=rng.randrange(1, 5))
        try:
            txt = render(r, rng, 'min')
        except ValueError:
            continue
        try:
            roots.append(('parse_expression', txt, ep.parse(txt)))
        except Exception:
            pass
        if i % 3 == 0:
            try:
                roots.append(('constructors', txt, build_api(r)))
            except Exception:
                pass
        if i % 2 == 0:
            try:
                roots.append(('parse_predicate', '{' + txt + '}', prp.parse('{' + txt + '}')))
            except Exception:
                pass
        if i % 3 == 0:
            ptxt = render_property(pg.prop(), rng, 'min')
            try:
                roots.append(('parse_property', ptxt, pp.parse(ptxt)))
            except Exception:
                pass
    # free variables next to untyped own fields: the places where a substitution narrows a type
    for body in ('a = @v', '@v = a', 'a != @v', 'x + @v > 0', 'a = @v and b', '@v in xs', 'a in {@v, c}', 'not (@v = c)', 'm.y = @v', 'a = @v or a = @u',
                 'xs[@v] = a', 'a = @v.f', '(a = @v) implies (c = @v)', 'forall i in xs: @i = @v', 'a in [@v to @u]', 'abs(@v) = a'):
        for origin, txt, parser in (('free-variable expression', body, ep), ('free-variable predicate', '{ ' + body + ' }', prp),
                                    ('free-variable property', 'globally: no t { ' + body + ' }', pp)):
            try:
                roots.append((origin, txt, parser.parse(txt)))
            except Exception:
                pass
    from rulefam import rule_directed
    from sigfam import signature_family
    fam = rule_directed(rng, ctx.quick) + [r for r, _ in signature_family() if 'call' not in repr(r) or all(len(a) == 1 for a in _call_args(r))]
    n_fam = 0
    for r in fam:
        try:
            txt = render(r, rng, 'min')
            if r[0] in ('bin', 'un', 'quant') and (r[0] != 'bin' or r[1] in ('>', '=', '!=', '<', '<=', '>=', 'in', 'and', 'or', 'implies', 'iff')):
                roots.append(('rule-directed predicate', '{' + txt + '}', prp.parse('{' + txt + '}')))
            else:
                roots.append(('rule-directed expression', txt, ep.parse(txt)))
            n_fam += 1
        except Exception:
            pass
    violations = []
    stats = {'rule_directed_roots': n_fam, 'roots': len(roots), 'calls': 0, 'calls_raising': 0, 'sequences': 0, 'but_contracts': 0, 'by_call': {}}
    stats['value_contracts'] = 0
    stats['value_contracts_by_class'] = {}
    pool = {}
    distinct = set()
    samples = []
    for origin, src, root in roots:
        distinct.add(src)
        nodes = subtrees(root)
        watched = [(x, snap(x)) for x in nodes]
        root_dump = canon_str(dump_any(root))
        # every rewriting / copying call once on the root (and on its expression when it is a predicate)
        tops = [root] + ([root.expression] if root.is_predicate and not root.is_vacuous else [])
        for top in tops:
            for label, f in api_calls(top, rng):
                if label in ('str', 'repr', 'hash', 'eq', 'iterate', 'children'):
                    continue
                stats['calls'] += 1
                stats['by_call'][label.split('(')[0]] = stats['by_call'].get(label.split('(')[0], 0) + 1
                try:
                    f()
                except Exception:
                    stats['calls_raising'] += 1
                changed = [(x, before) for x, before in watched if snap(x) != before]
                if changed or canon_str(dump_any(root)) != root_dump:
                    x, before = changed[0] if changed else (root, (root_dump, None))
                    violations.append({'input': {'origin': origin, 'source': src[:400], 'applied_to': str(top)[:200], 'calls': [label]},
                                       'before': before[0][:300], 'after': repr(x)[:300],
                                       'what': f'{label} changed an AST obtained earlier (node «{str(x)[:80]}»)',
                                       'signature': 'mutated-by:' + label.split('(')[0]})
                    watched = [(x, snap(x)) for x in nodes]
                    root_dump = canon_str(dump_any(root))
        # sequences of <= 3 calls, each applied to the root, to a sub-tree, or to the result of the previous call
        for s in range(3 if ctx.quick else 6):
            target = rng.choice(nodes)
            labels = []
            cur = target
            for step in range(rng.randrange(1, 4)):
                calls = api_calls(cur, rng)
                label, f = rng.choice(calls)
                labels.append(label)
                stats['calls'] += 1
                stats['by_call'][label.split('(')[0]] = stats['by_call'].get(label.split('(')[0], 0) + 1
                try:
                    res = f()
                except Exception as e:
                    stats['calls_raising'] += 1
                    res = None
                changed = [(x, before) for x, before in watched if snap(x) != before]
                if changed or canon_str(dump_any(root)) != root_dump:
                    x, before = changed[0] if changed else (root, (root_dump, None))
                    violations.append({'input': {'origin': origin, 'source': src[:400], 'applied_to': str(target)[:200], 'calls': labels},
                                       'before': before[0][:300], 'after': repr(x)[:300],
                                       'what': f'the call sequence {labels} changed an AST obtained earlier (node «{str(x)[:80]}»)',
                                       'signature': 'mutated-by:' + label.split('(')[0]})
                    watched = [(x, snap(x)) for x in nodes]
                    root_dump = canon_str(dump_any(root))
                    break
                nxt = None
                if isinstance(res, (list, tuple)) and res and hasattr(res[0], 'iterate'):
                    nxt = res[0]
                elif hasattr(res, 'iterate'):
                    nxt = res
                if nxt is None:
                    break
                cur = nxt
            stats['sequences'] += 1
            if len(samples) < 5:
                samples.append({'origin': origin, 'source': src[:160], 'applied_to': str(target)[:80], 'calls': labels})
        # value contracts of every node kind (properties, scopes, patterns, events, predicates, expressions)
        for x in nodes:
            pool.setdefault(type(x), []).append(x)
        others = [x for x in nodes if not x.is_expression]
        for x in others + rng.sample(nodes, min(3, len(nodes))):
            stats['value_contracts'] += 1
            stats['value_contracts_by_class'][type(x).__name__] = stats['value_contracts_by_class'].get(type(x).__name__, 0) + 1
            for what, sig in _value_contracts(x, pool.get(type(x), []), rng):
                violations.append({'input': {'origin': origin, 'source': src[:300], 'node': str(x)[:120], 'class': type(x).__name__}, 'what': what, 'signature': sig})
        # but() contracts on a few nodes
        for x in rng.sample(nodes, min(4, len(nodes))):
            if not x.is_expression:
                continue
            stats['but_contracts'] += 1
            same = x.but()
            if same is not x:
                violations.append({'input': {'origin': origin, 'source': src[:300], 'node': str(x)[:120]}, 'what': 'but() without changes did not return the same object', 'signature': 'but-identity'})
            same2 = x.but(data_type=x.data_type)
            if same2 is not x:
                violations.append({'input': {'origin': origin, 'source': src[:300], 'node': str(x)[:120]}, 'what': 'but(data_type=<the same>) did not return the same object', 'signature': 'but-identity'})
            x.metadata['k'] = 1
            h0 = hash(x)
            try:
                y = _changed_copy(x)
            except Exception:
                y = None
            if y is not None:
                if y is x:
                    pass
                else:
                    if y.metadata is x.metadata:
                        violations.append({'input': {'origin': origin, 'source': src[:300], 'node': str(x)[:120]}, 'what': 'but() shares the metadata dict with the original', 'signature': 'but-metadata-shared'})
                    if y.metadata != x.metadata:
                        violations.append({'input': {'origin': origin, 'source': src[:300], 'node': str(x)[:120]}, 'what': 'but() does not carry a copy of the metadata', 'signature': 'but-metadata-lost'})
                    y.metadata['other'] = 2
                    if 'other' in x.metadata:
                        violations.append({'input': {'origin': origin, 'source': src[:300], 'node': str(x)[:120]}, 'what': 'writing the copy\'s metadata changed the original\'s', 'signature': 'but-metadata-shared'})
            z = copy.copy(x)
            if not (z == x and hash(z) == hash(x)):
                violations.append({'input': {'origin': origin, 'source': src[:300], 'node': str(x)[:120]}, 'what': 'a shallow copy is not equal / hashes differently', 'signature': 'eq-hash'})
            x.metadata['k'] = 2
            if hash(x) != h0:
                violations.append({'input': {'origin': origin, 'source': src[:300], 'node': str(x)[:120]}, 'what': 'the hash depends on metadata', 'signature': 'hash-metadata'})
            del x.metadata['k']
    return {
        'evaluations': stats['calls'] + stats['but_contracts'] + stats['value_contracts'],
        'distinct_nontrivial': len(distinct),
        'rule': 'generated expressions / predicates / properties (parsed; one third also built through the constructors); per AST 3 (thorough: 6) '
                'sequences of 1..3 API calls starting at a random sub-tree (each next call applied to the previous result); after every call all '
                'watched nodes (the AST and up to 40 sub-trees) are compared with their snapshot (deep repr with data_type and metadata, hash) and '
                'the structural dump of the root; but() contracts on up to 4 nodes per AST; distinct = distinct source texts.',
        'samples': samples,
        'violations': violations,
        'disagreements': [],
        'coverage_extra': stats,
    }


def _call_args(r):
    out = []
    if isinstance(r, tuple):
        if r and r[0] == 'call':
            out.append(r[2])
        for c in r[1:]:
            out += _call_args(c)
    elif isinstance(r, list):
        for c in r:
            out += _call_args(c)
    return out


def _value_contracts(x, donors, rng):
    """equality and hashing ignore metadata; but() with the same values is the identity; but() with a changed field equals a
    fresh construction with those fields and carries a copy of the metadata - for a node of any class"""
    import attr
    out = []
    cls = type(x)
    flds = [f for f in attr.fields(cls) if f.init and f.name != 'metadata']
    arg = lambda f: getattr(f, 'alias', None) or f.name.lstrip('_')
    same = {arg(f): getattr(x, f.name) for f in flds}
    try:
        if x.but(**same) is not x:
            out.append(('but() with the same field values did not return the same object', 'but-identity'))
    except Exception as e:
        out.append((f'but() with the same field values raised {type(e).__name__}', 'but-identity'))
    saved = dict(x.metadata)
    try:
        try:
            fresh = cls(**same)
        except Exception:
            fresh = None
        if fresh is not None:
            x.metadata['verif-k'] = 1
            if not (x == fresh and fresh == x and not (x != fresh)):
                out.append(('a node is not equal to a fresh construction from its own fields that differs only in metadata', 'eq-metadata'))
            if hash(x) != hash(fresh):
                out.append(('the hash depends on metadata', 'hash-metadata'))
            if len({x, fresh}) != 1:
                out.append(('two nodes that differ only in metadata do not collapse in a set', 'eq-metadata'))
        donors = [d for d in donors if d is not x]
        if donors and flds:
            d = rng.choice(donors)
            diff = [f for f in flds if getattr(d, f.name) != getattr(x, f.name)]
            if diff:
                f = rng.choice(diff)
                v = getattr(d, f.name)
                x.metadata['verif-k'] = 1
                try:
                    y = x.but(**{arg(f): v})
                except Exception:
                    y = None
                try:
                    fresh2 = cls(**dict(same, **{arg(f): v}))
                except Exception:
                    fresh2 = None
                if y is not None and fresh2 is not None:
                    if not (y == fresh2 and hash(y) == hash(fresh2)):
                        out.append((f'but({arg(f)}=...) is not equal to a fresh construction with those fields', 'but-fresh'))
                    if y.metadata is x.metadata:
                        out.append(('but() shares the metadata dict with the original', 'but-metadata-shared'))
                    elif y.metadata != x.metadata:
                        out.append(('but() does not carry a copy of the metadata', 'but-metadata-lost'))
        # a value that compares equal in Python but is not the stored one (True / 1, False / 0, 2 / 2.0): `but` must not treat it
        # as "unchanged" - the result has to be what a fresh construction with that value is
        if cls.__name__ == 'HplLiteral' and 'value' in same:
            v = same['value']
            alt = None
            if isinstance(v, bool):
                alt = int(v)
            elif isinstance(v, int) and v in (0, 1):
                alt = bool(v)
            elif isinstance(v, int):
                alt = float(v)
            if alt is not None:
                try:
                    y = x.but(value=alt)
                except Exception:
                    y = None
                try:
                    fresh3 = cls(**dict(same, value=alt))
                except Exception:
                    fresh3 = None
                if y is not None and fresh3 is not None:
                    if not (y == fresh3 and hash(y) == hash(fresh3) and y.data_type == fresh3.data_type and type(y.value) is type(fresh3.value)):
                        out.append((f'but(value={alt!r}) on the literal {v!r} is not what a fresh construction with that value is', 'but-fresh'))
    finally:
        x.metadata.clear()
        x.metadata.update(saved)
    return out


def _changed_copy(x):
    from hpl.types import DataType
    for t in (DataType.BOOL, DataType.NUMBER, DataType.STRING, DataType.ARRAY, DataType.MESSAGE):
        r = x.data_type & t
        if r and r != x.data_type:
            return x.but(data_type=r)
    return None


def dump_any(o):
    if o.is_expression:
        return dump_expr(o)
    if o.is_predicate:
        return dump_pred(o)
    if o.is_property:
        return dump_property(o)
    return [S('other'), str(o)]


def matches_known(v, k):
    return v.get('signature') == k.get('signature')


def replay(ctx, payload):
    return None
