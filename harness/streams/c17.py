"""C17 — schema checking of references is exact.
Random message schemas (nested messages, fixed / variable arrays, arrays of messages, constants) per channel; generated
properties whose references are valid by construction, or invalid in exactly one way (unknown field at any depth,
field / array confusion, type mismatch, literal index out of range) at a random reference position of a random event —
including positions inside index expressions, range bounds, set members, function arguments and quantifiers.
HplProperty.type_check_references(msg_types) is compared with (a) the construction, (b) an independent oracle of the
spec RefsOK run on the implementation's own AST, (c) the Lean model `refscheck` (= RefsOK by theorem). The navigation
helpers and the token constructors are compared with the model and with independent listings."""
from sexp import Sym, dumps, loads
from gen import Gen, BOOL, NUM, STR, int_lit
from raw import render
from propgen import PropGen, render_property
from dump import dump_property, classify_exception, canon_str
import schema as SC
import copy

S = Sym
PROPERTY = 'C17'
PROPS_MODULES = ['C17']
ASSUMPTIONS = ['channel -> message type mappings hold MessageType tokens (what the API documents)',
               'a Python bool offered as a value of a NUMBER enumeration is not judged (isinstance(True, int) holds in Python; whether that '
               'is "the wrong kind" is left open)']
from schema import TY as TYV  # kind -> value of the live DataType member


def _declared(d):
    """numeric value of the DataType member a schema denotation declares (live numbering of /repo)"""
    from hpl.types import DataType
    if d[0] == 'arr':
        return int(DataType.ARRAY.value)
    if d[0] == 'msg':
        return int(DataType.MESSAGE.value)
    return TYV[d[2]]


# ---- reference chains in Raw trees ---------------------------------------------------------------------------------
def chains(r, path=(), out=None, inside_acc=False):
    """paths to the maximal accessor chains of a Raw tree, also those nested inside index expressions"""
    out = [] if out is None else out
    k = r[0]
    if k in ('field', 'index'):
        if not inside_acc:
            out.append(path)
        chains(r[1], path + (1,), out, True)
        if k == 'index':
            chains(r[2], path + (2,), out, False)
        return out
    if k in ('lit', 'this', 'var'):
        return out
    for i, c in enumerate(r):
        if i == 0:
            continue
        if isinstance(c, tuple) and c and isinstance(c[0], str) and c[0] in KINDS:
            chains(c, path + (i,), out, False)
        elif isinstance(c, list):
            for j, x in enumerate(c):
                chains(x, path + (i, j), out, False)
    return out


KINDS = {'lit', 'this', 'var', 'set', 'range', 'quant', 'un', 'bin', 'call', 'field', 'index'}


def get(r, path):
    for i in path:
        r = r[i]
    return r


def put(r, path, new):
    if not path:
        return new
    i = path[0]
    if isinstance(r, list):
        return r[:i] + [put(r[i], path[1:], new)] + r[i + 1:]
    return r[:i] + (put(r[i], path[1:], new),) + r[i + 1:]


def steps(c):
    """(root raw, [steps]) of an accessor chain: field names and '[]'"""
    st = []
    while c[0] in ('field', 'index'):
        st.append(c[2] if c[0] == 'field' else '[]')
        c = c[1]
    return c, list(reversed(st))


def rebuild(root, st, idxs):
    """chain from steps; idxs supplies the index raws for '[]' steps in order"""
    c = root
    k = 0
    for s in st:
        if s == '[]':
            c = ('index', c, idxs[k])
            k += 1
        else:
            c = ('field', c, s)
    return c


def index_raws(c):
    out = []
    while c[0] in ('field', 'index'):
        if c[0] == 'index':
            out.append(c[2])
        c = c[1]
    return list(reversed(out))


# ---- independent oracle of RefsOK on the implementation's AST -----------------------------------------------------
def oracle_expr(e, this_d, alias_d, problems):
    """every accessor node of the tree (any position) resolves, meets its declared type, literal indices in bounds"""
    for c in e.children():
        oracle_expr(c, this_d, alias_d, problems)
    if not e.is_accessor:
        return
    d = denote(e, this_d, alias_d)
    if d is None:
        problems.append(('unresolved', str(e)))
        return
    declared = _declared(d)
    if not (int(e.data_type.value) & declared):
        problems.append(('type', str(e)))
    if e.is_indexed and e.index.is_value and e.index.is_literal:
        a = denote(e.array, this_d, alias_d)
        if a is not None and a[0] == 'arr' and a[3] >= 0 and not (a[3] > e.index.value):
            problems.append(('index', str(e)))


def denote(e, this_d, alias_d):
    if e.is_value and e.is_this_msg:
        return this_d
    if e.is_value and e.is_variable:
        return alias_d.get(e.name)
    if not e.is_accessor:
        return None
    if e.is_field:
        m = denote(e.message, this_d, alias_d)
        if m is None or m[0] != 'msg':
            return None
        if e.field in m[2]:
            return m[2][e.field]
        if e.field in m[3]:
            return m[3][e.field][0]
        return None
    a = denote(e.array, this_d, alias_d)
    if a is None or a[0] != 'arr':
        return None
    return a[2]


def oracle_property(p, descs):
    problems = []
    alias_d = {}
    for ev in p.events():
        for se in ev.simple_events():
            if se.alias is not None:
                alias_d[str(se.alias)] = descs[str(se.name)]
    for ev in p.events():
        for se in ev.simple_events():
            if se.predicate.is_vacuous:
                continue
            oracle_expr(se.predicate.expression, descs[str(se.name)], alias_d, problems)
    return problems


# ---- mutations: invalid in exactly one way -------------------------------------------------------------------------
def event_slots(p):
    """(setter path description, simple event raw) for each simple event with a predicate"""
    out = []
    kind, act, term = p['scope']
    pk, beh, trig, t = p['pattern']
    for where, ev in (('activator', act), ('behaviour', beh), ('trigger', trig), ('terminator', term)):
        if ev is None:
            continue
        if ev[0] == 'ev':
            if ev[3] is not None:
                out.append(((where, None), ev))
        else:
            for j, e in enumerate(ev[1]):
                if e[3] is not None:
                    out.append(((where, j), e))
    return out


def set_slot(p, slot, newev):
    p = copy.deepcopy(p)
    where, j = slot
    kind, act, term = p['scope']
    pk, beh, trig, t = p['pattern']
    cur = {'activator': act, 'behaviour': beh, 'trigger': trig, 'terminator': term}[where]
    if j is None:
        cur = newev
    else:
        cur = ('or', cur[1][:j] + [newev] + cur[1][j + 1:])
    if where == 'activator':
        act = cur
    elif where == 'behaviour':
        beh = cur
    elif where == 'trigger':
        trig = cur
    else:
        term = cur
    p['scope'] = (kind, act, term)
    p['pattern'] = (pk, beh, trig, t)
    return p


def mutate_ref(rng, pred, root_desc_of, kind):
    """one reference of `pred` made invalid in the way `kind`; returns (new pred, description) or None"""
    cs = chains(pred)
    rng.shuffle(cs)
    for path in cs:
        c = get(pred, path)
        root, st = steps(c)
        d0 = root_desc_of(root)
        if d0 is None:
            continue
        idxs = index_raws(c)
        if kind == 'unknown-field':
            fpos = [i for i, s in enumerate(st) if s != '[]']
            if not fpos:
                continue
            i = rng.choice(fpos)
            st2 = st[:i] + ['nosuch' + str(rng.randrange(3))] + st[i + 1:]
            return put(pred, path, rebuild(root, st2, idxs)), {'kind': kind, 'depth': i, 'of': len(st), 'offender': st2[i]}
        if kind == 'index-out-of-range':
            ipos = [i for i, s in enumerate(st) if s == '[]']
            cands = []
            for i in ipos:
                a = SC.walk(d0, st[:i])
                k = st[:i].count('[]')
                if a is not None and a[0] == 'arr' and a[3] >= 0 and idxs[k][0] == 'lit':
                    cands.append((i, k, a[3]))
            if not cands:
                continue
            i, k, L = rng.choice(cands)
            bad = L + rng.choice([0, 0, 1, 7])
            idxs2 = idxs[:k] + [int_lit(bad)] + idxs[k + 1:]
            return put(pred, path, rebuild(root, st, idxs2)), {'kind': kind, 'index': bad, 'length': L, 'offender': str(bad)}
        if kind == 'confusion':
            d = SC.walk(d0, st)
            how = rng.choice(['index-a-non-array', 'field-of-a-non-message', 'drop-an-index'])
            if how == 'index-a-non-array' and d is not None and d[0] == 'prim':
                # x  ->  x[0] used where an element of the same kind is expected
                return put(pred, path, ('index', c, int_lit(0))), {'kind': kind, 'how': how, 'offender': '[0]'}
            if how == 'field-of-a-non-message' and d is not None and d[0] == 'prim':
                return put(pred, path, ('field', c, 'f')), {'kind': kind, 'how': how, 'offender': 'f'}
            if how == 'drop-an-index' and '[]' in st:
                i = rng.choice([i for i, s in enumerate(st) if s == '[]'])
                k = st[:i].count('[]')
                return put(pred, path, rebuild(root, st[:i] + st[i + 1:], idxs[:k] + idxs[k + 1:])), {'kind': kind, 'how': how, 'offender': st[i - 1] if i else ''}
            continue
        if kind == 'type-mismatch':
            if not st or st[-1] == '[]':
                continue
            parent = SC.walk(d0, st[:-1])
            d = SC.walk(d0, st)
            if parent is None or parent[0] != 'msg' or d is None or d[0] != 'prim':
                continue
            sibs = [n for n, v in parent[2].items() if v[0] == 'prim' and v[2] != d[2]]
            if not sibs:
                continue
            n = rng.choice(sibs)
            bad = rebuild(root, st[:-1] + [n], idxs)
            mutated = put(pred, path, bad)
            info = {'kind': kind, 'from': d[2], 'to': parent[2][n][2], 'offender': n}
            if rng.random() < 0.4:
                # the same (now wrongly typed) path also occurs EARLIER in a position that only asks for a primitive: every occurrence
                # has to be checked against the declared type, not only the first one of each path
                mutated = ('bin', 'and', ('call', 'bool', [bad]), mutated)
                info['loose_occurrence_first'] = True
            return mutated, info
    return None


def run(ctx):
    rng = ctx.rng
    from hpl.parser import property_parser
    import hpl.types as HT
    pp = property_parser()
    n = 260 if ctx.quick else 4000
    cases = []      # (input, impl outcome, oracle problems, expectation, model request)
    stats = {'valid': 0, 'generated_but_rejected_by_parser': 0, 'mutants': {}, 'mutants_discarded_at_parse': 0, 'mutation_not_applicable': 0,
             'mutated_reference_inside_index_or_nested': 0}
    helper_cases = []
    for i in range(n):
        topics = rng.sample(['a', 'b', 'c', 'd', 'odom', 'scan', '/ns/topic', '~private'], 4)
        descs = {t: SC.gen_msg(rng, 'T' + str(j)) for j, t in enumerate(topics)}
        if rng.random() < 0.3:
            descs[topics[1]] = descs[topics[0]]        # two channels with the same message type
        gschemas = {t: SC.to_gen_schema(d) for t, d in descs.items()}
        msg_types = {t: SC.to_token(d) for t, d in descs.items()}
        mt_wire = [[t, SC.to_wire(d)] for t, d in descs.items()]
        pg = PropGen(rng, max_depth=3, topic_schemas=gschemas, consts=False)
        p = pg.prop()
        alias_topic = dict(pg.alias_topic)
        variants = [(p, {'kind': 'valid'})]
        slots = event_slots(p)
        if slots:
            for kind in rng.sample(['unknown-field', 'index-out-of-range', 'confusion', 'type-mismatch'], 3):
                slot, ev = rng.choice(slots)

                def root_desc_of(root, ev=ev):
                    if root[0] == 'this':
                        return descs[ev[1]]
                    if root[0] == 'var':
                        if root[1] == ev[2]:
                            return descs[ev[1]]
                        t = alias_topic.get(root[1])
                        return descs.get(t)
                    return None
                m = mutate_ref(rng, ev[3], root_desc_of, kind)
                if m is None:
                    stats['mutation_not_applicable'] += 1
                    continue
                pred2, info = m
                info['event'] = slot[0]
                variants.append((set_slot(p, slot, ('ev', ev[1], ev[2], pred2)), info))
        for q, info in variants:
            try:
                txt = render_property(q, rng, 'min')
            except ValueError:
                continue
            try:
                ast = pp.parse(txt)
            except Exception as e:
                if info['kind'] == 'valid':
                    stats['generated_but_rejected_by_parser'] += 1
                else:
                    stats['mutants_discarded_at_parse'] += 1
                continue
            before = canon_str(dump_property(ast))
            try:
                ast.type_check_references(msg_types)
                out = ('ok', '')
            except Exception as e:
                out = ('err', classify_exception(e), str(e)[:400])
            after = canon_str(dump_property(ast))
            problems = oracle_property(ast, descs)
            if info['kind'] == 'valid':
                stats['valid'] += 1
            else:
                stats['mutants'][info['kind']] = stats['mutants'].get(info['kind'], 0) + 1
            cases.append(({'property': txt, 'schemas': {t: _short_desc(d) for t, d in descs.items()}, 'variant': info}, out, problems, before == after,
                          dumps([S('refscheck'), mt_wire, loads(before) if False else dump_property(ast)])))
        # navigation helpers on this iteration's schemas
        for t, d in list(descs.items())[:2]:
            helper_cases.append((d, msg_types[t]))

    violations, disagreements = [], []
    if ctx.driver is not None:
        ans = ctx.driver.run_parallel([c[4] for c in cases])
        for (inp, out, problems, unchanged, _), a in zip(cases, ans):
            x = loads(a)
            model = ('ok',) if x[0] == 'ok' else ('err', str(x[1]))
            kind = inp['variant']['kind']
            if (out[0], out[1] if out[0] == 'err' else None) != (model[0], model[1] if model[0] == 'err' else None):
                disagreements.append({'input': inp, 'impl': out[:2], 'model': model})
            # (a) by construction
            if kind == 'valid' and out[0] != 'ok':
                violations.append({'input': inp, 'impl': out, 'what': 'a property whose references are all valid in its schemas fails the schema check',
                                   'signature': 'valid-rejected:' + out[1]})
            elif kind in ('unknown-field', 'index-out-of-range', 'confusion') and out[0] == 'ok':
                violations.append({'input': inp, 'what': f'a property with one invalid reference ({kind}) passes the schema check', 'signature': 'invalid-accepted:' + kind})
            # (b) the spec oracle on the implementation's AST
            elif (out[0] == 'ok') != (not problems):
                violations.append({'input': inp, 'impl': out, 'oracle': problems[:3],
                                   'what': 'the schema check disagrees with the specification (every accessor node resolves, meets its declared type, literal indices in bounds)',
                                   'signature': ('accepted-but-' + problems[0][0]) if problems else 'rejected-but-valid'})
            elif out[0] == 'err':
                want = {'unknown-field': 'type', 'confusion': 'type', 'type-mismatch': 'type', 'index-out-of-range': 'index'}.get(kind)
                first = problems[0][0] if problems else None
                if out[1] not in ('type', 'index'):
                    violations.append({'input': inp, 'impl': out, 'what': f'the schema check failed with {out[1]}, not with an error about the reference', 'signature': 'wrong-error:' + out[1]})
                elif want is not None and out[1] != want:
                    violations.append({'input': inp, 'impl': out, 'what': f'a {kind} is reported as {out[1]} error, expected {want}', 'signature': f'wrong-error:{kind}:{out[1]}'})
                elif inp['variant'].get('offender') and inp['variant']['offender'] not in out[2]:
                    violations.append({'input': inp, 'impl': out, 'what': 'the error raised does not identify the offending reference', 'signature': 'unidentified:' + kind})
            if not unchanged:
                violations.append({'input': inp, 'what': 'type_check_references changed the AST it checked', 'signature': 'ast-changed'})

    # ---- navigation helpers ------------------------------------------------------------------------------------
    hstats = {'leaf_fields': 0, 'contains_name': 0, 'get_type_of': 0, 'validators': 0}
    hreq, hexp = [], []
    for d, tok in helper_cases[: (60 if ctx.quick else 600)]:
        w = SC.to_wire(d)
        try:
            lf = tok.leaf_fields()
            got = ('ok', [[k, SC.token_to_wire(v)] for k, v in lf.items()])
        except Exception as e:
            got = ('err', classify_exception(e))
        hstats['leaf_fields'] += 1
        if got[0] != 'ok' or [k for k, _ in got[1]] != SC.leaf_paths(d):
            violations.append({'input': {'schema': _short_desc(d)}, 'impl': str(got)[:300], 'expected_paths': SC.leaf_paths(d),
                               'what': 'leaf_fields() does not list exactly the non-message leaves of the declared tree, in order', 'signature': 'leaf-fields'})
        hreq.append(dumps([S('leaffields'), w]))
        hexp.append(('leaffields', d, got))
        names = list(d[2]) + list(d[3]) + ['nosuch', 'x', 'K', '']
        for nm in names:
            c = tok.contains_name(nm)
            exp = nm in d[2] or nm in d[3]
            hstats['contains_name'] += 1
            if c != exp:
                violations.append({'input': {'schema': _short_desc(d), 'name': nm}, 'what': f'contains_name({nm!r}) = {c}', 'signature': 'contains-name'})
            hreq.append(dumps([S('containsname'), w, nm]))
            hexp.append(('containsname', nm, c))
            try:
                g = ('ok', SC.token_to_wire(tok.get_type_of(nm)))
            except Exception as e:
                g = ('err', classify_exception(e))
            hstats['get_type_of'] += 1
            want_d = d[2].get(nm) or (d[3][nm][0] if nm in d[3] else None)
            if (g[0] == 'ok') != (want_d is not None) or (g[0] == 'ok' and canon_str(g[1]) != canon_str(SC.to_wire(want_d))):
                violations.append({'input': {'schema': _short_desc(d), 'name': nm}, 'impl': str(g)[:200], 'what': 'get_type_of disagrees with the declaration', 'signature': 'get-type-of'})
            hreq.append(dumps([S('gettypeof'), w, nm]))
            hexp.append(('gettypeof', nm, g))
    # ---- token constructors ---------------------------------------------------------------------------------------
    from fractions import Fraction
    for _ in range(80 if ctx.quick else 800):
        lo, hi = rng.choice([-5, 0, 1, 2.5, 10, -128]), rng.choice([-6, 0, 1, 2.5, 10, 255])
        try:
            HT.RangedType('r', type=HT.DataType.NUMBER, min_value=lo, max_value=hi)
            g = 'ok'
        except Exception as e:
            g = classify_exception(e)
        hstats['validators'] += 1
        if (g == 'ok') != (lo <= hi) or g not in ('ok', 'value'):
            violations.append({'input': {'RangedType': [lo, hi]}, 'impl': g, 'what': 'RangedType accepts max < min or rejects a well-formed range', 'signature': 'ranged-validator'})
        flo, fhi = Fraction(repr(lo)), Fraction(repr(hi))
        hreq.append(dumps([S('mkranged'), 2, [S('q'), flo.numerator, flo.denominator], [S('q'), fhi.numerator, fhi.denominator]]))
        hexp.append(('validator', ('RangedType', lo, hi), g))
        L = rng.choice([-3, -2, -1, 0, 1, 7])
        try:
            HT.ArrayType('a', HT.INT8, L)
            g = 'ok'
        except Exception as e:
            g = classify_exception(e)
        if (g == 'ok') != (L >= -1) or g not in ('ok', 'value'):
            violations.append({'input': {'ArrayType.length': L}, 'impl': g, 'what': 'ArrayType accepts length < -1 or rejects a well-formed length', 'signature': 'array-validator'})
        hreq.append(dumps([S('mkarray'), L]))
        hexp.append(('validator', ('ArrayType', L), g))
        ty, vals, good = rng.choice([
            (HT.DataType.BOOL, (True, False), True), (HT.DataType.BOOL, (1, 0), False), (HT.DataType.BOOL, ('a',), False),
            (HT.DataType.NUMBER, (1, 2.5), True), (HT.DataType.NUMBER, ('1',), False), (HT.DataType.NUMBER, (1, 'x'), False),
            (HT.DataType.STRING, ('a', 'b'), True), (HT.DataType.STRING, (1,), False), (HT.DataType.STRING, ('a', True), False)])
        try:
            HT.EnumeratedType('e', type=ty, values=vals)
            g = 'ok'
        except Exception as e:
            g = classify_exception(e)
        if (g == 'ok') != good:
            violations.append({'input': {'EnumeratedType': [str(ty), list(map(repr, vals))]}, 'impl': g, 'what': 'EnumeratedType accepts values of the wrong kind or rejects well-formed ones', 'signature': 'enum-validator'})
        bad_ty = rng.choice([HT.DataType.RANGE, HT.DataType.NUMBER | HT.DataType.BOOL, HT.DataType.ANY]) if hasattr(HT.DataType, 'RANGE') else None
        if bad_ty is not None:
            try:
                HT.TypeToken('t', type=bad_ty)
                violations.append({'input': {'TypeToken.type': str(bad_ty)}, 'what': 'TypeToken accepts a type that is not a base type', 'signature': 'token-type-validator'})
            except Exception:
                pass
    if ctx.driver is not None and hreq:
        hans = ctx.driver.run_parallel(hreq)
        for (what, arg, got), a in zip(hexp, hans):
            x = loads(a)
            if what == 'leaffields':
                m = ('ok', [list(e) for e in x[1:]]) if x[0] == 'ok' else ('err', str(x[1]))
                if got[0] != m[0] or (got[0] == 'ok' and canon_str(got[1]) != canon_str(m[1])):
                    disagreements.append({'input': {'leaf_fields_of': _short_desc(arg)}, 'impl': str(got)[:300], 'model': str(m)[:300]})
            elif what == 'containsname':
                if (str(x[1]) == '1') != got:
                    disagreements.append({'input': {'contains_name': arg}, 'impl': got, 'model': str(x)})
            elif what == 'gettypeof':
                m = ('ok', x[1]) if x[0] == 'ok' else ('err', str(x[1]))
                if got[0] != m[0] or (got[0] == 'ok' and canon_str(got[1]) != canon_str(m[1])) or (got[0] == 'err' and got[1] != m[1]):
                    disagreements.append({'input': {'get_type_of': arg}, 'impl': str(got)[:200], 'model': str(m)[:200]})
            else:
                m = 'ok' if x[0] == 'ok' else str(x[1])
                if m != got:
                    disagreements.append({'input': {'constructor': list(map(str, arg))}, 'impl': got, 'model': m})
    stats.update(hstats)
    return {
        'evaluations': len(cases) + len(hreq),
        'distinct_nontrivial': len(set(c[0]['property'] for c in cases)),
        'rule': 'per iteration 4 channels with random message types (2..6 primitive fields, 0..3 arrays (fixed >= 4 or variable), nested messages '
                'to depth 2, arrays of messages, 0..2 constants); one generated property over them (references to the own message, to aliased '
                'earlier events of other types, inside indices / ranges / sets / calls / quantifiers) checked as is, and in up to three variants '
                'with exactly one reference of one event made invalid (unknown field at a random depth, literal index out of range, field / array '
                'confusion, a sibling field of another primitive kind); variants that no longer parse are discarded; distinct = distinct property texts. '
                'Helpers: leaf_fields / contains_name / get_type_of on every generated type; constructors: RangedType, ArrayType, EnumeratedType, TypeToken.',
        'samples': [{'property': c[0]['property'][:300], 'variant': c[0]['variant'], 'outcome': c[1][:2]} for c in cases[:6]],
        'violations': violations,
        'disagreements': disagreements,
        'coverage_extra': stats,
    }


def _short_desc(d, depth=0):
    if d[0] == 'prim':
        return d[1]
    if d[0] == 'arr':
        return f'{_short_desc(d[2], depth + 1)}[{d[3] if d[3] >= 0 else ""}]'
    inner = ', '.join(f'{k}: {_short_desc(v, depth + 1)}' for k, v in d[2].items())
    cs = ', '.join(f'const {k}: {_short_desc(v[0])}' for k, v in d[3].items())
    return '{' + inner + ('; ' + cs if cs else '') + '}'


def matches_known(v, k):
    return v.get('signature') == k.get('signature')


def replay(ctx, payload):
    return None
