"""C18 — a specification file is exactly its sequence of annotated properties.
Sequences of 1..6 generated properties (valid, or with exactly one invalid member) with any subset and order of
annotations, separated by arbitrary whitespace: parse_specification(text).properties[i] and its metadata must equal
parse_property(part_i); the file's error class must be the offending member's; duplicate / unknown annotation keys and
the empty file are rejected. Compared with the model (`parse specification`)."""
from sexp import Sym, dumps, loads
from propgen import PropGen, render_property
from dump import dump_property, dump_spec, canon_str, classify_exception
from layout import relayout
from clash import inject
from raw import render
import itertools

S = Sym
PROPERTY = 'C18'
PROPS_MODULES = ['C18', 'C06c', 'C18b', 'C18c', 'C18d', 'C18e', 'C18f', 'C01g', 'C06k']
ASSUMPTIONS = []

SEPS = ['\n', '\n\n', ' ', '\n \n', '\t', '\r\n', '  \n  ']


def outcome(f, dumper):
    try:
        return ('ok', canon_str(dumper(f())))
    except Exception as e:
        return ('err', classify_exception(e))


def annotate(rng, p, mode):
    keys = ['id', 'title', 'description']
    vals = {'id': lambda: (f'p{rng.randrange(1000)}' if rng.random() < 0.5 else rng.choice(['p1', 'p2', 'same'])), 'title': lambda: '"' + rng.choice(['t', 'some title', 'a: b # c', '']) + '"',
            'description': lambda: '"' + rng.choice(['d', 'globally: no a', '# id: x']) + '"'}
    chosen = rng.sample(keys, rng.randrange(0, 4))
    meta = [(k, vals[k]()) for k in chosen]
    if mode == 'dup' and meta:
        k = rng.choice(meta)[0]
        meta.insert(rng.randrange(len(meta) + 1), (k, vals[k]()))
    elif mode == 'dup':
        meta = [('id', 'a1'), ('id', 'a2')]
    elif mode == 'unknown':
        meta.insert(rng.randrange(len(meta) + 1), (rng.choice(['ID', 'name', 'idx', 'titles', 'desc']), '"x"'))
    p = dict(p)
    p['meta'] = meta
    return p


def invalid_member(rng, pg):
    """text of a property that is rejected on its own, and a tag"""
    k = rng.random()
    p = pg.prop()
    if k < 0.3:
        r, tag = inject(rng)
        p['pattern'] = (p['pattern'][0], ('ev', 'zz', None, r), p['pattern'][2], p['pattern'][3])
        return render_property(annotate(rng, p, 'ok')), 'type-clash'
    if k < 0.5:
        return render_property(annotate(rng, p, 'ok')).replace(':', ' ', 1) if False else render_property(annotate(rng, p, 'ok')) + ' within', 'syntax'
    if k < 0.7:
        p['pattern'] = (p['pattern'][0], ('or', [('ev', 'q', None, None), ('ev', 'q', None, None)]), p['pattern'][2], p['pattern'][3])
        return render_property(annotate(rng, p, 'ok')), 'duplicate-channel'
    if k < 0.85:
        return render_property(annotate(rng, p, 'dup')), 'duplicate-key'
    return render_property(annotate(rng, p, 'unknown')), 'unknown-key'


def run(ctx):
    rng = ctx.rng
    from hpl.parser import property_parser, specification_parser
    pp, sp = property_parser(), specification_parser()
    pg = PropGen(rng, max_depth=2)
    cases = []
    n = 450 if ctx.quick else 6000
    for i in range(n):
        k = rng.randrange(1, 7)
        parts, bad_at, tag = [], None, None
        make_invalid = rng.random() < 0.35
        bodies = []
        for j in range(k):
            # now and then a member repeats the body of an earlier member (with its own annotations): members are a
            # sequence, not a set, and equality of properties ignores annotations
            body = rng.choice(bodies) if bodies and rng.random() < 0.25 else pg.prop()
            bodies.append(body)
            parts.append(render_property(annotate(rng, body, 'ok'), rng, 'min'))
        if make_invalid:
            bad_at = rng.randrange(k)
            parts[bad_at], tag = invalid_member(rng, pg)
        if rng.random() < 0.5:
            parts = [relayout(t, rng, squeeze=0.1) for t in parts]
        text = rng.choice(['', '\n', '  ']) + ''.join(t + rng.choice(SEPS) for t in parts)
        cases.append(({'k': k, 'invalid_member': bad_at, 'invalid_kind': tag, 'text': text}, parts))
    for t in ['', ' ', '\n\n', '# id: x', '#', 'globally', '# id: a\n# title: "t"', '﻿globally: no a']:
        cases.append(({'k': 0, 'invalid_member': None, 'invalid_kind': 'degenerate', 'text': t}, []))

    violations, disagreements = [], []
    lines = []
    results = []
    for inp, parts in cases:
        out = outcome(lambda: sp.parse(inp['text']), dump_spec)
        singles = [outcome(lambda: pp.parse(t), dump_property) for t in parts]
        results.append((out, singles))
        lines.append(dumps([S('parse'), S('specification'), inp['text']]))
    stats = {'files_ok': 0, 'files_rejected': 0}
    if ctx.driver is not None:
        am = ctx.driver.run_parallel(lines)
        for (inp, parts), (out, singles), a in zip(cases, results, am):
            x = loads(a)
            m = ('ok', canon_str([S('spec')] + x[1:])) if x[0] == 'ok' else ('err', str(x[1]))
            stats['files_ok' if out[0] == 'ok' else 'files_rejected'] += 1
            short = {k: inp[k] for k in ('k', 'invalid_member', 'invalid_kind')}
            short['text'] = inp['text'][:600]
            tolerated = (out[0] == 'err' and m[0] == 'err' and 'syntax' in (out[1], m[1]) and out[1] in ('syntax', 'sanity', 'type', 'value')
                         and m[1] in ('syntax', 'sanity', 'type', 'value'))
            if out != m and not tolerated:      # several defects in one text: Lark reports the first in LALR reduce order, the model syntax first
                disagreements.append({'input': short, 'impl': [out[0], out[1][:300]], 'model': [m[0], m[1][:300]]})
            # the statement: exactly the members, in order, each with its own annotations; same error class as the offending member
            if not parts:
                if out[0] == 'ok':
                    violations.append({'input': short, 'what': 'a file without a property was accepted', 'signature': 'empty-accepted'})
                continue
            # by construction (independent of the implementation's own verdict on the member)
            if inp['invalid_kind'] in ('duplicate-key', 'unknown-key'):
                what = 'a duplicated' if inp['invalid_kind'] == 'duplicate-key' else 'an unknown'
                if out[0] == 'ok':
                    violations.append({'input': short, 'what': f'a file whose member {inp["invalid_member"]} carries {what} annotation key was accepted',
                                       'signature': inp['invalid_kind'] + '-accepted'})
                    continue
                if singles[inp['invalid_member']][0] == 'ok':
                    violations.append({'input': short, 'what': f'a property with {what} annotation key is accepted on its own', 'signature': inp['invalid_kind'] + '-accepted'})
                    continue
            firstbad = next((i for i, s in enumerate(singles) if s[0] != 'ok'), None)
            if firstbad is None:
                want = ('ok', '(spec ' + ' '.join(s[1] for s in singles) + ')')
                if out != want:
                    violations.append({'input': short, 'impl': [out[0], out[1][:300]], 'what': 'the file does not yield exactly the ASTs (with their own annotations) its members yield on their own',
                                       'signature': 'members-differ'})
            else:
                if out[0] == 'ok':
                    violations.append({'input': short, 'what': 'a file with a member that is rejected on its own was accepted', 'signature': 'invalid-member-accepted'})
                elif out[1] != singles[firstbad][1]:
                    violations.append({'input': short, 'impl': out, 'member': singles[firstbad], 'what': 'the file is rejected with a different error class than the offending member',
                                       'signature': 'error-class-differs'})
    samples = [{'k': c[0]['k'], 'invalid': c[0]['invalid_kind'], 'text': c[0]['text'][:200]} for c in cases[:4]]
    return {
        'evaluations': len(cases),
        'distinct_nontrivial': len(set(lines)),
        'rule': 'files of 1..6 generated properties, each with a random subset and order of id/title/description annotations, random '
                'separators and layout; 35% with exactly one member that is rejected on its own (type clash, syntax error, duplicate channel, '
                'duplicate annotation key, unknown annotation key); degenerate files (empty, annotations only).',
        'samples': samples,
        'violations': violations,
        'disagreements': disagreements,
        'coverage_extra': stats,
    }


def matches_known(v, k):
    return v.get('signature') == k.get('signature')


def replay(ctx, payload):
    return None
