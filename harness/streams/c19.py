"""C19 — the command-line tool's exit status and JSON output are faithful.
hpl.cli.main(argv) in-process (and the real `python -m hpl` process for a sample) on generated property texts and
specification files, valid and invalid, with / without -p and -o json, including unbounded patterns and INF / NAN / PI / E
constants. Judged: exit status 0 iff the text parses (parse_property / parse_specification called directly); no JSON
document on failure; standard output is ONE strictly valid JSON document (no NaN / Infinity, no duplicate keys) equal to an
independent serialisation of the AST (attrs.fields walk written here) and to the Lean model's document (`cli`)."""
import io, os, sys, json, math, tempfile, contextlib, subprocess, enum
from fractions import Fraction
from sexp import Sym, dumps, loads
from propgen import PropGen, render_property
from gen import Gen, BOOL
from raw import render
from dump import classify_exception, canon_str
from layout import mutate
from clash import inject

S = Sym
PROPERTY = 'C19'
PROPS_MODULES = ['C19']
ASSUMPTIONS = ['argparse behaviour (unknown options, missing argument: exit status 2) is outside the statement and not exercised',
               'float numbers are compared as the decimal their shortest representation denotes (12 significant digits)']


class Dup(Exception):
    pass


def strict_loads(text):
    def pairs(kvs):
        keys = [k for k, _ in kvs]
        if len(keys) != len(set(keys)):
            raise Dup('duplicate key')
        return _Obj(kvs)

    def const(c):
        raise ValueError('non-finite constant ' + c)
    return json.loads(text, object_pairs_hook=pairs, parse_constant=const)


class _Obj(list):
    pass


def json_to_wire(v):
    if v is None:
        return [S('null')]
    if v is True or v is False:
        return [S('b'), 1 if v else 0]
    if isinstance(v, int):
        return [S('i'), v]
    if isinstance(v, float):
        f = Fraction(repr(v))
        return [S('f'), '%.11e' % v]
    if isinstance(v, str):
        return [S('s'), v]
    if isinstance(v, _Obj):
        # members by key: the order of keys in a JSON object carries no information ("mirrors the AST field for field")
        return [S('obj')] + sorted([[k, json_to_wire(x)] for k, x in v], key=lambda kv: kv[0])
    if isinstance(v, list):
        return [S('arr')] + [json_to_wire(x) for x in v]
    raise TypeError(type(v))


def model_json_canon(x):
    """the model's wire -> same canonical form (floats by value)"""
    if isinstance(x, list) and x and x[0] == 'f' and len(x) == 3:
        return [S('f'), '%.11e' % (int(x[1]) / int(x[2]))]
    if isinstance(x, list) and x and str(x[0]) == 'obj':
        return [x[0]] + sorted([[kv[0], model_json_canon(kv[1])] for kv in x[1:]], key=lambda kv: str(kv[0]))
    if isinstance(x, list):
        return [model_json_canon(y) for y in x]
    return x


def independent(obj):
    """what `-o json` should print for an AST object, written against attrs.fields only (no asdict, no serializer hook)"""
    import attrs
    if attrs.has(type(obj)):
        return _Obj([(f.name, independent(getattr(obj, f.name))) for f in attrs.fields(type(obj))])
    if isinstance(obj, enum.Enum):
        return obj.value
    if isinstance(obj, float) and (math.isinf(obj) or math.isnan(obj)):
        return None
    if isinstance(obj, (tuple, list)):
        return [independent(x) for x in obj]
    if isinstance(obj, dict):
        return _Obj([(str(k), independent(v)) for k, v in obj.items()])
    if isinstance(obj, str):
        return str(obj)
    return obj


def run_main(argv):
    from hpl.cli import main
    o, e = io.StringIO(), io.StringIO()
    with contextlib.redirect_stdout(o), contextlib.redirect_stderr(e):
        try:
            rc = main(argv)
        except SystemExit as x:
            rc = ('SystemExit', x.code)
        except BaseException as x:      # noqa
            rc = ('raised', type(x).__name__)
    return rc, o.getvalue(), e.getvalue()


def run(ctx):
    rng = ctx.rng
    from hpl.parser import parse_property, parse_specification
    n = 160 if ctx.quick else 2500
    pg = PropGen(rng, max_depth=2)
    texts = []     # (kind, text, is_file)
    for i in range(n):
        p = pg.prop()
        k = rng.random()
        if k < 0.15:
            # force the constants and unbounded / bounded patterns
            c = rng.choice(['INF', 'NAN', 'PI', 'E', '-INF'])
            ev = ('ev', 'zz', None, ('bin', rng.choice(['<', '=', '!=']), ('field', ('this',), 'x'), ('lit', c.lstrip('-'), 0.0) if not c.startswith('-') else ('un', '-', ('lit', 'INF', 0.0))))
            p['pattern'] = (p['pattern'][0], ev, p['pattern'][2], rng.choice([None, '100 ms', '1.5 s']))
        txt = render_property(p, rng, 'min')
        if k > 0.7:
            r = rng.random()
            if r < 0.4:
                txt = mutate(txt, rng, 1)
            elif r < 0.7:
                cl, _ = inject(rng)
                q = dict(p)
                q['pattern'] = (p['pattern'][0], ('ev', 'zz', None, cl), p['pattern'][2], p['pattern'][3])
                txt = render_property(q, rng, 'min')
            else:
                txt = txt.replace(':', ': (a or a) causes b within 1 s #', 1) if rng.random() < 0.5 else '# id: a\n# id: b\n' + txt
        texts.append(txt)
    cases = []
    for txt in texts:
        cases.append(('-p', txt))
    # specification files
    for i in range(n // 3):
        k = rng.randrange(1, 4)
        parts = rng.sample(texts, k)
        cases.append(('file', '\n\n'.join(parts) + rng.choice(['', '\n'])))
    # files whose members share an `# id` annotation, or repeat a member verbatim (a specification is a sequence, ids are not keys)
    plain = [t for t in texts if '# id' not in t]
    for i in range(n // 8):
        k = rng.randrange(2, 4)
        parts = rng.sample(plain, min(k, len(plain))) if plain else []
        if parts:
            if rng.random() < 0.7:
                parts = ['# id: shared_id\n' + t for t in parts]
            else:
                parts = parts + [parts[0]]
            cases.append(('file', '\n\n'.join(parts) + '\n'))
    # `-p` takes ONE property: several well-formed properties in one argument do not parse as a property (they are a specification)
    for i in range(max(6, n // 10)):
        k = rng.randrange(2, 4)
        parts = rng.sample(plain, min(k, len(plain))) if plain else []
        if len(parts) >= 2:
            cases.append(('-p', rng.choice([' ', '\n', '\n\n']).join(parts)))
    cases.append(('file', ''))
    cases.append(('missing-file', None))
    cases.append(('-p', ''))

    violations, disagreements = [], []
    lines = []
    records = []
    stats = {'exit0': 0, 'exit1': 0, 'json_documents': 0, 'with_nonfinite_constants': 0, 'with_unbounded_pattern': 0, 'subprocess_runs': 0}
    tmpdir = tempfile.mkdtemp(prefix='c19_', dir=os.path.dirname(os.path.abspath(__file__)))
    try:
        for j, (mode, txt) in enumerate(cases):
            want_json = rng.random() < 0.75
            if mode == '-p':
                argv = ['-p'] + (['-o', 'json'] if want_json else []) + [txt]
                if rng.random() < 0.3:
                    argv = (['--output', 'json'] if want_json else []) + ['--property', txt]

                def direct():
                    return parse_property(txt)
            else:
                path = os.path.join(tmpdir, f'spec{j}.hpl')
                if mode == 'file':
                    with open(path, 'w', encoding='utf-8') as f:
                        f.write(txt)
                argv = (['-o', 'json'] if want_json else []) + [path]

                def direct():
                    if mode == 'missing-file':
                        raise FileNotFoundError(path)
                    return parse_specification(txt)
            try:
                ast = direct()
                parses = True
            except Exception as e:
                ast, parses = None, False
            rc, out, err = run_main(argv)
            inp = {'argv': [a if len(a) < 300 else a[:300] + '…' for a in argv], 'mode': mode, 'text': (txt or '')[:400]}
            stats['exit0' if rc == 0 else 'exit1'] += 1
            if (rc == 0) != parses or rc not in (0, 1):
                violations.append({'input': inp, 'exit': rc, 'parses': parses, 'what': 'exit status is not 0-iff-the-argument-parses', 'signature': f'exit:{rc}:parses={parses}'})
            doc = None
            if rc == 0 and want_json:
                try:
                    doc = strict_loads(out)
                    stats['json_documents'] += 1
                    if any(c in (txt or '') for c in ('INF', 'NAN')):
                        stats['with_nonfinite_constants'] += 1
                    if ' within ' not in (txt or ''):
                        stats['with_unbounded_pattern'] += 1
                except Exception as e:
                    violations.append({'input': inp, 'stdout': out[:300], 'what': f'standard output is not one strictly valid JSON document ({type(e).__name__}: {e})',
                                       'signature': 'invalid-json:' + type(e).__name__})
                if doc is not None:
                    exp = independent(ast)
                    if canon_str(json_to_wire(doc)) != canon_str(json_to_wire(exp)):
                        violations.append({'input': inp, 'what': 'the JSON document does not mirror the AST field for field', 'signature': 'json-differs-from-ast',
                                           'first_difference': _first_diff(json_to_wire(doc), json_to_wire(exp))})
            elif rc == 0 and out.strip():
                violations.append({'input': inp, 'stdout': out[:200], 'what': 'output on standard output although no format was requested', 'signature': 'unexpected-stdout'})
            elif rc != 0:
                try:
                    strict_loads(out)
                    if out.strip():
                        violations.append({'input': inp, 'stdout': out[:200], 'what': 'a JSON document was written although the exit status is not 0', 'signature': 'json-on-failure'})
                except Exception:
                    pass
                if not (out.strip() or err.strip()):
                    violations.append({'input': inp, 'what': 'exit status 1 without any diagnostic', 'signature': 'no-diagnostic'})
            records.append((inp, rc, doc, want_json))
            lines.append(dumps([S('cli'), 1 if mode == '-p' else 0, 1 if want_json else 0, txt if txt is not None else S('_')]))
        # the real process for a sample
        for (mode, txt) in rng.sample([c for c in cases if c[0] == '-p'], 4 if ctx.quick else 40):
            pr = subprocess.run([sys.executable, '-m', 'hpl', '-p', '-o', 'json', txt], capture_output=True, text=True,
                                env=dict(os.environ, PYTHONPATH=os.path.join(os.environ.get('HPL_REPO', '/repo'), 'src')), timeout=120)
            rc2, out2, _ = run_main(['-p', '-o', 'json', txt])
            stats['subprocess_runs'] += 1
            if pr.returncode != rc2 or (rc2 == 0 and pr.stdout != out2):
                violations.append({'input': {'argv': ['-p', '-o', 'json', txt[:300]]}, 'process': pr.returncode, 'in_process': rc2,
                                   'what': 'the process exit status / output differs from main(argv)', 'signature': 'process-differs'})
    finally:
        for f in os.listdir(tmpdir):
            os.unlink(os.path.join(tmpdir, f))
        os.rmdir(tmpdir)
    if ctx.driver is not None:
        ans = ctx.driver.run_parallel(lines)
        for (inp, rc, doc, want_json), a in zip(records, ans):
            x = loads(a)
            mexit = int(str(x[1]))
            mdoc = x[2]
            if mexit != rc:
                disagreements.append({'input': inp, 'impl': ['exit', rc], 'model': ['exit', mexit]})
                continue
            if (doc is None) != (str(mdoc) == '_'):
                disagreements.append({'input': inp, 'impl': 'json' if doc is not None else 'no json', 'model': 'json' if str(mdoc) != '_' else 'no json'})
            elif doc is not None:
                a1, a2 = canon_str(json_to_wire(doc)), canon_str(model_json_canon(mdoc))
                if a1 != a2:
                    disagreements.append({'input': inp, 'what': 'JSON documents differ', 'first_difference': _first_diff(json_to_wire(doc), model_json_canon(mdoc))})
    return {
        'evaluations': len(cases),
        'distinct_nontrivial': len(set((m, t) for m, t in cases)),
        'rule': 'generated properties (15% with INF / NAN / PI / E / -INF constants and bounded or unbounded patterns), 30% made invalid (one token '
                'edit, an injected type clash, a duplicate channel, a duplicate annotation); specification files of 1..3 of those texts, the empty '
                'file and a missing file; each with -p / --property or as a file, with -o json (75%) or without; a sample also through the real '
                '`python -m hpl` process.',
        'samples': [{'argv': r[0]['argv'], 'exit': r[1], 'json': r[2] is not None} for r in records[:5]],
        'violations': violations,
        'disagreements': disagreements,
        'coverage_extra': stats,
    }


def _first_diff(a, b, path=''):
    if type(a) != type(b) or (not isinstance(a, list) and str(a) != str(b)):
        return {'at': path, 'impl': str(a)[:120], 'other': str(b)[:120]}
    if isinstance(a, list):
        if len(a) != len(b):
            return {'at': path, 'impl_len': len(a), 'other_len': len(b), 'impl': str(a)[:160], 'other': str(b)[:160]}
        for i, (x, y) in enumerate(zip(a, b)):
            d = _first_diff(x, y, f'{path}/{i}')
            if d:
                return d
    return None


def matches_known(v, k):
    return v.get('signature') == k.get('signature')


def replay(ctx, payload):
    return None
