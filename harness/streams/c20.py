"""C20 — correspondence (exhaustive) between hpl.types.DataType.{cast,can_be,union,can_be_*} and the Lean model,
and the spec judgement (set intersection on the seven-bit universe) of every implementation answer."""
from sexp import Sym, dumps, loads

PROPERTY = 'C20'
PROPS_MODULES = ['C20']
ASSUMPTIONS = ['Python Flag `&`/`|` on DataType pseudo-members is bitwise and/or on the member values (observed exhaustively, not proved)']


def _impl_pair(DataType, a, b):
    A, B = DataType(a), DataType(b)
    try:
        c = ('ok', int(A.cast(B).value))
    except TypeError:
        c = ('err', 'type')
    except Exception as e:  # undocumented failure
        c = ('err', 'internal:' + type(e).__name__)
    cb = A.can_be(B)
    u = int(DataType.union([A, B]).value)
    return c, cb, u


def _spec_pair(a, b):
    """the property itself: intersection / non-empty intersection / union, on bit masks"""
    r = a & b
    return (('ok', r) if r else ('err', 'type')), bool(r), a | b


def _model_lines(pairs):
    lines = []
    for a, b in pairs:
        lines.append(dumps([Sym('cast'), a, b]))
        lines.append(dumps([Sym('canbe'), a, b]))
        lines.append(dumps([Sym('union'), a, b]))
    return lines


def _decode(ans):
    x = loads(ans)
    if x[0] == 'ok':
        return ('ok', int(x[1]))
    return ('err', str(x[1]))


def run(ctx):
    from hpl.types import DataType
    n = int(DataType.ANY.value) + 1
    pairs = [(a, b) for a in range(n) for b in range(n)]
    disagreements, violations, samples = [], [], []
    impl = {}
    for a, b in pairs:
        impl[(a, b)] = _impl_pair(DataType, a, b)
    # named predicates can_be_<base>
    named = {'bool': 'BOOL', 'number': 'NUMBER', 'string': 'STRING', 'array': 'ARRAY', 'set': 'SET', 'range': 'RANGE', 'message': 'MESSAGE'}
    evaluations = 0
    for a in range(n):
        for prop, member in named.items():
            got = getattr(DataType(a), 'can_be_' + prop)
            want = bool(a & int(DataType[member].value))
            evaluations += 1
            if got != want:
                violations.append({'input': {'op': 'can_be_' + prop, 'a': a}, 'impl': got, 'spec': want,
                                   'what': f'DataType({a}).can_be_{prop} is {got}, intersection with {member} says {want}', 'signature': 'can_be_' + prop})
    # spec judgement of every implementation answer
    for (a, b), (c, cb, u) in impl.items():
        sc, scb, su = _spec_pair(a, b)
        evaluations += 3
        if c != sc:
            violations.append({'input': {'op': 'cast', 'a': a, 'b': b}, 'impl': c, 'spec': sc,
                               'what': f'DataType({a}).cast(DataType({b})) gives {c}, set intersection gives {sc}', 'signature': 'cast'})
        if cb != scb:
            violations.append({'input': {'op': 'can_be', 'a': a, 'b': b}, 'impl': cb, 'spec': scb,
                               'what': f'DataType({a}).can_be(DataType({b})) gives {cb}, non-empty intersection says {scb}', 'signature': 'can_be'})
        if u != su:
            violations.append({'input': {'op': 'union', 'a': a, 'b': b}, 'impl': u, 'spec': su,
                               'what': f'DataType.union([{a},{b}]) gives {u}, least upper bound is {su}', 'signature': 'union'})
    # correspondence with the Lean model
    if ctx.driver is not None:
        answers = ctx.driver.run_parallel(_model_lines(pairs))
        for i, (a, b) in enumerate(pairs):
            c, cb, u = impl[(a, b)]
            mc = _decode(answers[3 * i])
            mcb = _decode(answers[3 * i + 1])
            mu = _decode(answers[3 * i + 2])
            if mc != c:
                disagreements.append({'input': {'op': 'cast', 'a': a, 'b': b}, 'impl': c, 'model': mc})
            if mcb != ('ok', int(cb)):
                disagreements.append({'input': {'op': 'can_be', 'a': a, 'b': b}, 'impl': cb, 'model': mcb})
            if mu != ('ok', u):
                disagreements.append({'input': {'op': 'union', 'a': a, 'b': b}, 'impl': u, 'model': mu})
    # longer unions (lists of length 0..4, sampled) — union is a fold, the pair case does not cover the empty list
    rng = ctx.rng
    lists = [[]] + [[rng.randrange(n) for _ in range(rng.randrange(1, 5))] for _ in range(300 if ctx.quick else 5000)]
    lines = []
    for ts in lists:
        got = int(DataType.union([DataType(t) for t in ts]).value)
        want = 0
        for t in ts:
            want |= t
        evaluations += 1
        if got != want:
            violations.append({'input': {'op': 'union', 'ts': ts}, 'impl': got, 'spec': want,
                               'what': f'DataType.union({ts}) gives {got}, least upper bound is {want}', 'signature': 'union'})
        lines.append(dumps([Sym('union')] + ts))
    if ctx.driver is not None:
        for ts, ans in zip(lists, ctx.driver.run(lines)):
            got = int(DataType.union([DataType(t) for t in ts]).value)
            if _decode(ans) != ('ok', got):
                disagreements.append({'input': {'op': 'union', 'ts': ts}, 'impl': got, 'model': _decode(ans)})
    triples = 0
    if not ctx.quick:
        # associativity / monotonicity on the real code, all 128^3 triples
        for a in range(n):
            A = DataType(a)
            for b in range(n):
                ab = a & b
                for c in range(n):
                    triples += 1
                    want = ab & c
                    # (a cast b) cast c
                    try:
                        r1 = int(A.cast(DataType(b)).cast(DataType(c)).value)
                    except TypeError:
                        r1 = 0
                    try:
                        r2 = int(A.cast(DataType(b).cast(DataType(c))).value)
                    except TypeError:
                        r2 = 0
                    if r1 != want or r2 != want:
                        violations.append({'input': {'op': 'assoc', 'a': a, 'b': b, 'c': c}, 'impl': [r1, r2], 'spec': want,
                                           'what': f'narrowing {a} by {b} and {c} gives {r1} / {r2}, intersection is {want}', 'signature': 'assoc'})
        evaluations += triples
    nontrivial = sum(1 for (a, b) in pairs if a and b and a != b)
    samples = [{'op': 'cast', 'a': a, 'b': b, 'impl': impl[(a, b)][0]} for (a, b) in [(7, 10), (1, 2), (71, 64), (127, 56), (0, 5)]]
    return {
        'evaluations': evaluations,
        'distinct_nontrivial': nontrivial,
        'rule': 'every pair (a, b) of the 128 type sets over the seven base types through cast / can_be / union, every set through '
                'can_be_<base>, sampled unions of 0..4 sets, and (thorough) every triple for associativity; a pair is non-trivial when '
                'both sets are non-empty and different; each implementation answer is judged by bit-mask intersection (the spec) '
                'and compared with the Lean model answer',
        'samples': samples,
        'exhaustive': True,
        'violations': violations,
        'disagreements': disagreements,
        'coverage_extra': {'pairs': len(pairs), 'triples': triples},
    }


def matches_known(v, k):
    return v.get('signature') == k.get('signature')


def replay(ctx, payload):
    from hpl.types import DataType
    inp = payload.get('input') or {}
    op = inp.get('op')
    if op in ('cast', 'can_be', 'union') and 'a' in inp:
        c, cb, u = _impl_pair(DataType, inp['a'], inp['b'])
        sc, scb, su = _spec_pair(inp['a'], inp['b'])
        got, want = {'cast': (c, sc), 'can_be': (cb, scb), 'union': (u, su)}[op]
        return None if got == want else {'impl': got, 'spec': want}
    return None
