-- root of the `Hpl` library: generated tables, model, spec and property theorems
import Hpl.Model.TableTypes
import Hpl.Generated.Tables
import Hpl.Model.DataType
import Hpl.Model.Ast
import Hpl.Model.Printer
import Hpl.Model.Query
import Hpl.Model.Build
import Hpl.Model.BuildProp
import Hpl.Spec.Typing
import Hpl.Wire.Sexp
import Hpl.Wire.Codec
import Hpl.Lemmas.Except
import Hpl.Props.C20
import Hpl.Props.C15
import Hpl.Props.C03
