-- root of the `Hpl` library: model, spec and property theorems
import Hpl.Model.TableTypes
import Hpl.Generated.Tables
import Hpl.Model.DataType
import Hpl.Wire.Sexp
import Hpl.Props.C20
