import Hpl.Lemmas.Eval
/-! Equation lemmas for `binOp` / `unOp`, one per operator token (the definition is a chain of string comparisons). -/
namespace Hpl

theorem binOp_and (a b : Value) : binOp "and" a b = (do let x ← asBool a; let y ← asBool b; pure (Value.bool (x && y))) := by
  simp [binOp, Gen.AND_OPERATOR]
theorem binOp_or (a b : Value) : binOp "or" a b = (do let x ← asBool a; let y ← asBool b; pure (Value.bool (x || y))) := by
  simp [binOp, Gen.AND_OPERATOR, Gen.OR_OPERATOR]
theorem binOp_implies (a b : Value) : binOp "implies" a b = (do let x ← asBool a; let y ← asBool b; pure (Value.bool (!x || y))) := by
  simp [binOp, Gen.AND_OPERATOR, Gen.OR_OPERATOR, Gen.IMPLIES_OPERATOR]
theorem binOp_iff (a b : Value) : binOp "iff" a b = (do let x ← asBool a; let y ← asBool b; pure (Value.bool (x == y))) := by
  simp [binOp, Gen.AND_OPERATOR, Gen.OR_OPERATOR, Gen.IMPLIES_OPERATOR, Gen.IFF_OPERATOR]
theorem binOp_eq (a b : Value) : binOp "=" a b = (do let x ← asPrim a; let y ← asPrim b; let r ← Prim.eq x y; pure (Value.bool r)) := by
  simp [binOp, Gen.AND_OPERATOR, Gen.OR_OPERATOR, Gen.IMPLIES_OPERATOR, Gen.IFF_OPERATOR]
theorem binOp_ne (a b : Value) : binOp "!=" a b = (do let x ← asPrim a; let y ← asPrim b; let r ← Prim.eq x y; pure (Value.bool (!r))) := by
  simp [binOp, Gen.AND_OPERATOR, Gen.OR_OPERATOR, Gen.IMPLIES_OPERATOR, Gen.IFF_OPERATOR]
theorem binOp_lt (a b : Value) : binOp "<" a b = (do let x ← asPrim a; let y ← asPrim b; let r ← Prim.lt x y; pure (Value.bool r)) := by
  simp [binOp, Gen.AND_OPERATOR, Gen.OR_OPERATOR, Gen.IMPLIES_OPERATOR, Gen.IFF_OPERATOR]
theorem binOp_gt (a b : Value) : binOp ">" a b = (do let x ← asPrim a; let y ← asPrim b; let r ← Prim.lt y x; pure (Value.bool r)) := by
  simp [binOp, Gen.AND_OPERATOR, Gen.OR_OPERATOR, Gen.IMPLIES_OPERATOR, Gen.IFF_OPERATOR]
theorem binOp_le (a b : Value) : binOp "<=" a b = (do let x ← asPrim a; let y ← asPrim b; let r ← Prim.lt y x; pure (Value.bool (!r))) := by
  simp [binOp, Gen.AND_OPERATOR, Gen.OR_OPERATOR, Gen.IMPLIES_OPERATOR, Gen.IFF_OPERATOR]
theorem binOp_ge (a b : Value) : binOp ">=" a b = (do let x ← asPrim a; let y ← asPrim b; let r ← Prim.lt x y; pure (Value.bool (!r))) := by
  simp [binOp, Gen.AND_OPERATOR, Gen.OR_OPERATOR, Gen.IMPLIES_OPERATOR, Gen.IFF_OPERATOR]
theorem binOp_add (a b : Value) : binOp "+" a b = (do let x ← asNum a; let y ← asNum b; pure (Value.num (x + y))) := by
  simp [binOp, Gen.AND_OPERATOR, Gen.OR_OPERATOR, Gen.IMPLIES_OPERATOR, Gen.IFF_OPERATOR]
theorem binOp_sub (a b : Value) : binOp "-" a b = (do let x ← asNum a; let y ← asNum b; pure (Value.num (x - y))) := by
  simp [binOp, Gen.AND_OPERATOR, Gen.OR_OPERATOR, Gen.IMPLIES_OPERATOR, Gen.IFF_OPERATOR]
theorem binOp_mul (a b : Value) : binOp "*" a b = (do let x ← asNum a; let y ← asNum b; pure (Value.num (x * y))) := by
  simp [binOp, Gen.AND_OPERATOR, Gen.OR_OPERATOR, Gen.IMPLIES_OPERATOR, Gen.IFF_OPERATOR]
theorem binOp_div (a b : Value) : binOp "/" a b = (do
    let x ← asNum a; let y ← asNum b
    if y = 0 then .error .arith else pure (Value.num (x / y))) := by
  simp [binOp, Gen.AND_OPERATOR, Gen.OR_OPERATOR, Gen.IMPLIES_OPERATOR, Gen.IFF_OPERATOR]
theorem binOp_pow (a b : Value) : binOp "**" a b = (do
    let x ← asNum a; let y ← asNum b
    if isInt y then do let r ← ratPow x y.num; pure (Value.num r) else .error .arith) := by
  simp [binOp, Gen.AND_OPERATOR, Gen.OR_OPERATOR, Gen.IMPLIES_OPERATOR, Gen.IFF_OPERATOR]
theorem binOp_in (a b : Value) : binOp "in" a b = (do let x ← asPrim a; let r ← memOf x b; pure (Value.bool r)) := by
  simp [binOp, Gen.AND_OPERATOR, Gen.OR_OPERATOR, Gen.IMPLIES_OPERATOR, Gen.IFF_OPERATOR, Gen.IN_OPERATOR]

theorem unOp_not (v : Value) : unOp "not" v = (do let b ← asBool v; pure (Value.bool (!b))) := by
  simp [unOp, Gen.NOT_OPERATOR]
theorem unOp_neg (v : Value) : unOp "-" v = (do let q ← asNum v; pure (Value.num (-q))) := by
  simp [unOp, Gen.NOT_OPERATOR]

end Hpl
