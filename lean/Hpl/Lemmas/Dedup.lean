/-! First-occurrence de-duplication (`List.eraseDups`) commutes with mapping: the value of a set literal does not change
    when syntactically repeated members are dropped. -/
namespace Hpl

variable {α β : Type} [BEq α] [LawfulBEq α] [BEq β] [LawfulBEq β]

/-- structural first-occurrence de-duplication -/
def dd : List α → List α
  | [] => []
  | a :: l => a :: (dd l).filter (fun b => !b == a)

theorem filter_ne_of_not {p : α → Bool} {x : α} (hx : p x = false) (l : List α) :
    (l.filter p).filter (fun b => !b == x) = l.filter p := by
  induction l with
  | nil => rfl
  | cons y l ih =>
    simp only [List.filter]
    cases hy : p y with
    | false => simpa using ih
    | true =>
      have : (y == x) = false := by
        cases hyx : y == x with
        | false => rfl
        | true => have := eq_of_beq hyx; subst this; rw [hx] at hy; cases hy
      simp only [List.filter, this, Bool.not_false]
      rw [ih]

theorem filter_comm (p q : α → Bool) (l : List α) : (l.filter p).filter q = (l.filter q).filter p := by
  simp only [List.filter_filter, Bool.and_comm]

theorem filter_dd (p : α → Bool) : ∀ l : List α, (dd l).filter p = dd (l.filter p)
  | [] => rfl
  | x :: l => by
      have ih := filter_dd p l
      cases hx : p x with
      | true =>
        simp only [dd, List.filter, hx]
        rw [← ih, filter_comm]
      | false =>
        simp only [dd, List.filter, hx]
        rw [← ih, filter_comm, filter_ne_of_not hx]

theorem eraseDups_eq_dd : ∀ (n : Nat) (l : List α), l.length ≤ n → l.eraseDups = dd l
  | _, [], _ => by simp [dd]
  | 0, _ :: _, h => by simp at h
  | n+1, a :: l, h => by
      rw [List.eraseDups_cons]
      have hlen : (l.filter (fun b => !b == a)).length ≤ n := Nat.le_trans (List.length_filter_le _ _) (by simpa using h)
      rw [eraseDups_eq_dd n _ hlen, ← filter_dd]
      rfl

theorem eraseDups_dd (l : List α) : l.eraseDups = dd l := eraseDups_eq_dd l.length l (Nat.le_refl _)

theorem filter_map_filter (f : α → β) (a : α) (l : List α) :
    ((l.filter (fun b => !b == a)).map f).filter (fun c => !c == f a) = (l.map f).filter (fun c => !c == f a) := by
  induction l with
  | nil => rfl
  | cons y l ih =>
    cases hy : y == a with
    | true =>
      have := eq_of_beq hy; subst this
      simp only [List.filter, hy, Bool.not_true, List.map, BEq.rfl]
      exact ih
    | false =>
      simp only [List.filter, hy, Bool.not_false, List.map]
      cases hf : f y == f a with
      | true => simpa [hf] using ih
      | false => simp only [hf, Bool.not_false]; rw [ih]

/-- mapping after de-duplication and de-duplicating again is de-duplicating the mapped list -/
theorem dd_map_dd (f : α → β) : ∀ l : List α, dd ((dd l).map f) = dd (l.map f)
  | [] => rfl
  | a :: l => by
      have ih := dd_map_dd f l
      simp only [dd, List.map]
      congr 1
      rw [filter_dd, filter_map_filter, ← filter_dd, ih]

theorem eraseDups_map_eraseDups (f : α → β) (l : List α) : (l.eraseDups.map f).eraseDups = (l.map f).eraseDups := by
  rw [eraseDups_dd, eraseDups_dd, eraseDups_dd, dd_map_dd]

theorem mem_dd {x : α} : ∀ {l : List α}, x ∈ dd l → x ∈ l
  | [], h => by simp [dd] at h
  | a :: l, h => by
      simp only [dd, List.mem_cons, List.mem_filter] at h
      rcases h with rfl | ⟨h, _⟩
      · simp
      · exact List.mem_cons_of_mem _ (mem_dd h)

theorem mem_eraseDups {x : α} {l : List α} (h : x ∈ l.eraseDups) : x ∈ l := by
  rw [eraseDups_dd] at h; exact mem_dd h

end Hpl
