import Hpl.Spec.Eval
import Hpl.Model.Rewrite.Refactor
import Hpl.Props.C03
/-! Lemmas about the reference evaluator used by C08–C10 and C13:
    * evaluation ignores the stored types, so narrowing (`castE`) and the smart constructors evaluate like the raw node;
    * in `Option` (all errors collapsed) strict evaluation is compositional and order-independent;
    * coincidence: the value depends only on the variables that occur. -/
namespace Hpl

section
variable (opq : Opaque)

/-! ### evaluation ignores stored types -/
theorem eval_withTy (ρ : Env) (t : DataType) (e : Expr) : eval opq ρ (e.withTy t) = eval opq ρ e := by
  cases e <;> simp [Expr.withTy, eval]

theorem castE_eval {e e' : Expr} {t : DataType} (h : castE e t = .ok e') (ρ : Env) : eval opq ρ e' = eval opq ρ e := by
  obtain ⟨_, _, rfl⟩ := castE_ok h
  exact eval_withTy opq ρ _ e

theorem castList_evalList : ∀ {t : DataType} {vs vs' : ExprList}, castList t vs = .ok vs' → ∀ ρ, evalList opq ρ vs' = evalList opq ρ vs
  | _, .nil, vs', h, ρ => by simp only [castList] at h; cases h; rfl
  | t, .cons e es, vs', h, ρ => by
      simp only [castList] at h
      obtain ⟨e', he', h⟩ := bind_ok h
      obtain ⟨es', hes', h⟩ := bind_ok h
      cases h
      simp only [evalList, castE_eval opq he', castList_evalList hes']

theorem castArgs_evalList : ∀ {args : ExprList} {ts : List DataType} {args' : ExprList},
    castArgs args ts = .ok args' → args.length ≤ ts.length → ∀ ρ, evalList opq ρ args' = evalList opq ρ args
  | .nil, ts, args', h, _, ρ => by cases ts <;> (simp only [castArgs] at h; cases h; rfl)
  | .cons e es, [], args', h, hl, ρ => by simp [ExprList.length] at hl
  | .cons e es, t :: ts, args', h, hl, ρ => by
      simp only [castArgs] at h
      obtain ⟨e', he', h⟩ := bind_ok h
      obtain ⟨es', hes', h⟩ := bind_ok h
      cases h
      have := castArgs_evalList hes' (by simp [ExprList.length] at hl; omega) ρ
      simp only [evalList, castE_eval opq he', this]

/-! ### the smart constructors evaluate like the raw node -/
theorem mkUn_eval {op : String} {a e : Expr} (h : mkUn op a = .ok e) (ρ : Env) :
    eval opq ρ e = (do let v ← eval opq ρ a; unOp op v) := by
  unfold mkUn at h
  split at h
  · cases h
  · obtain ⟨a', ha', h⟩ := bind_ok h
    cases h
    simp only [eval, castE_eval opq ha']

theorem mkBin_eval {op : String} {a b e : Expr} (h : mkBin op a b = .ok e) (ρ : Env) :
    eval opq ρ e = (do let x ← eval opq ρ a; let y ← eval opq ρ b; binOp op x y) := by
  unfold mkBin at h
  split at h
  · cases h
  · obtain ⟨a1, ha1, h⟩ := bind_ok h
    obtain ⟨b1, hb1, h⟩ := bind_ok h
    split at h
    · obtain ⟨a2, ha2, h⟩ := bind_ok h
      obtain ⟨b2, hb2, h⟩ := bind_ok h
      cases h
      simp only [eval, castE_eval opq ha2, castE_eval opq hb2, castE_eval opq ha1, castE_eval opq hb1]
    · cases h
      simp only [eval, castE_eval opq ha1, castE_eval opq hb1]

theorem mkBin_shape {op : String} {a b e : Expr} (h : mkBin op a b = .ok e) : ∃ t a' b', e = .bin t op a' b' := by
  unfold mkBin at h
  split at h
  · cases h
  · obtain ⟨a1, _, h⟩ := bind_ok h
    obtain ⟨b1, _, h⟩ := bind_ok h
    split at h
    · obtain ⟨a2, _, h⟩ := bind_ok h
      obtain ⟨b2, _, h⟩ := bind_ok h
      cases h; exact ⟨_, _, _, rfl⟩
    · cases h; exact ⟨_, _, _, rfl⟩

theorem mkQuant_eval {q : Quant} {x : String} {d b e : Expr} (h : mkQuant q x d b = .ok e) (ρ : Env) :
    eval opq ρ e = eval opq ρ (.quant T.BOOL q x d b) := by
  unfold mkQuant at h
  obtain ⟨d', hd', h⟩ := bind_ok h
  obtain ⟨b', hb', h⟩ := bind_ok h
  split at h
  · cases h
  · obtain ⟨used, _, h⟩ := bind_ok h
    split at h
    · cases h
    · cases h
      simp only [eval, castE_eval opq hd']
      have : ∀ ρ', eval opq ρ' b' = eval opq ρ' b := fun ρ' => castE_eval opq hb' ρ'
      simp only [this]

theorem mkCall_eval {f : String} {args : ExprList} {e : Expr} (h : mkCall f args = .ok e) (ρ : Env) :
    eval opq ρ e = (do let xs ← evalList opq ρ args; applyFun opq f xs) := by
  unfold mkCall at h
  split at h
  · cases h
  · rename_i d hd
    split at h
    · cases h
    · rename_i s hs
      obtain ⟨args', hargs', h⟩ := bind_ok h
      cases h
      have hmem : s ∈ d.overloads.filter (·.accepts args.tys) := by rw [hs]; simp
      obtain ⟨_, hs2⟩ := List.mem_filter.1 hmem
      obtain ⟨har1, _⟩ := accepts_arity hs2
      rw [ExprList.tys_length] at har1
      have hlen : (s.paramsFor args.length).length = args.length := paramsFor_length s _ har1
      simp only [eval, castArgs_evalList opq hargs' (by omega)]
    · cases h; simp only [eval]

end
end Hpl

namespace Hpl
/-! ### Option-level (error-collapsed) semantics -/

theorem toOption_bind {ε α β : Type} (x : Except ε α) (f : α → Except ε β) :
    (x >>= f).toOption = x.toOption.bind (fun a => (f a).toOption) := by
  cases x <;> rfl

theorem toOption_ok {ε α : Type} (a : α) : (Except.ok a : Except ε α).toOption = some a := rfl
theorem toOption_error {ε α : Type} (e : ε) : (Except.error e : Except ε α).toOption = none := rfl
theorem toOption_pure {ε α : Type} (a : α) : (pure a : Except ε α).toOption = some a := rfl

theorem toOption_eq_some {ε α : Type} {x : Except ε α} {a : α} : x.toOption = some a ↔ x = .ok a := by
  cases x <;> simp [Except.toOption]

theorem toOption_mapM {ε α β : Type} (f : α → Except ε β) : ∀ (l : List α),
    (l.mapM f).toOption = l.mapM (fun a => (f a).toOption)
  | [] => rfl
  | a :: l => by
      have ih := toOption_mapM f l
      rw [List.mapM_cons, List.mapM_cons, ← ih]
      cases h : f a with
      | error e => rfl
      | ok b => cases hl : l.mapM f <;> rfl

section
variable (opq : Opaque)

def evalO (ρ : Env) (e : Expr) : Option Value := (eval opq ρ e).toOption
/-- truth value of a boolean expression, `none` when evaluation fails or the value is not a boolean -/
def truth (ρ : Env) (e : Expr) : Option Bool := (eval opq ρ e >>= asBool).toOption

theorem truth_eq (ρ : Env) (e : Expr) : truth opq ρ e = (evalO opq ρ e).bind (fun v => (asBool v).toOption) := by
  unfold truth evalO; rw [toOption_bind]

theorem asBool_toOption_bool (b : Bool) : (asBool (Value.bool b)).toOption = some b := rfl

theorem truth_eq_some {ρ : Env} {e : Expr} {b : Bool} : truth opq ρ e = some b ↔ eval opq ρ e = .ok (Value.bool b) := by
  unfold truth
  rw [toOption_eq_some]
  cases h : eval opq ρ e with
  | error x => simp [bind, Except.bind]
  | ok v =>
    simp only [bind, Except.bind]
    cases v with
    | prim p => cases p <;> simp [asBool, Value.bool]
    | _ => simp [asBool, Value.bool]

/-! #### connectives -/
theorem not_ne_minus : (Gen.NOT_OPERATOR == "-") = false := by decide

theorem truth_not (ρ : Env) (t : DataType) (p : Expr) :
    truth opq ρ (.un t Gen.NOT_OPERATOR p) = (truth opq ρ p).map (!·) := by
  unfold truth
  simp only [eval, unOp, beq_self_eq_true, ↓reduceIte]
  cases eval opq ρ p with
  | error x => rfl
  | ok v =>
    cases v with
    | prim pr => cases pr <;> rfl
    | _ => rfl

/-- the four boolean connectives, as a function on truth values -/
def boolOp (op : String) : Option (Bool → Bool → Bool) :=
  if op == Gen.AND_OPERATOR then some (· && ·)
  else if op == Gen.OR_OPERATOR then some (· || ·)
  else if op == Gen.IMPLIES_OPERATOR then some (fun a b => !a || b)
  else if op == Gen.IFF_OPERATOR then some (fun a b => a == b)
  else none

theorem binOp_bool {op : String} {f : Bool → Bool → Bool} (h : boolOp op = some f) (a b : Value) :
    binOp op a b = (do let x ← asBool a; let y ← asBool b; pure (Value.bool (f x y))) := by
  unfold boolOp at h
  unfold binOp
  split at h
  · rename_i h1; cases h; simp only [h1, ↓reduceIte]
  · rename_i h1
    split at h
    · rename_i h2; cases h; simp only [h1, h2, ↓reduceIte]; rfl
    · rename_i h2
      split at h
      · rename_i h3; cases h; simp only [h1, h2, h3, ↓reduceIte]; rfl
      · rename_i h3
        split at h
        · rename_i h4; cases h; simp only [h1, h2, h3, h4, ↓reduceIte]; rfl
        · cases h

theorem truth_boolOp {op : String} {f : Bool → Bool → Bool} (h : boolOp op = some f) (ρ : Env) (t : DataType) (p q : Expr) :
    truth opq ρ (.bin t op p q) = (do let a ← truth opq ρ p; let b ← truth opq ρ q; pure (f a b)) := by
  unfold truth
  simp only [eval]
  cases hp : eval opq ρ p with
  | error x => cases eval opq ρ q <;> rfl
  | ok v =>
    cases hq : eval opq ρ q with
    | error x =>
      simp only [bind, Except.bind, Except.toOption]
      cases asBool v <;> rfl
    | ok w =>
      simp only [bind, Except.bind]
      rw [binOp_bool h]
      cases hv : asBool v with
      | error x => simp [bind, Except.bind, Except.toOption, Option.bind]
      | ok a =>
        cases hw : asBool w with
        | error x => simp [bind, Except.bind, Except.toOption, Option.bind]
        | ok b => simp [bind, Except.bind, Except.toOption, Option.bind, pure, Except.pure, asBool, Value.bool]

theorem boolOp_and : boolOp Gen.AND_OPERATOR = some (· && ·) := by simp [boolOp]
theorem boolOp_or : boolOp Gen.OR_OPERATOR = some (· || ·) := by simp [boolOp, Gen.OR_OPERATOR, Gen.AND_OPERATOR]
theorem boolOp_implies : boolOp Gen.IMPLIES_OPERATOR = some (fun a b => !a || b) := by simp [boolOp, Gen.OR_OPERATOR, Gen.AND_OPERATOR, Gen.IMPLIES_OPERATOR]
theorem boolOp_iff : boolOp Gen.IFF_OPERATOR = some (fun a b => a == b) := by simp [boolOp, Gen.OR_OPERATOR, Gen.AND_OPERATOR, Gen.IMPLIES_OPERATOR, Gen.IFF_OPERATOR]

theorem truth_and (ρ : Env) (t : DataType) (p q : Expr) :
    truth opq ρ (.bin t Gen.AND_OPERATOR p q) = (do let a ← truth opq ρ p; let b ← truth opq ρ q; pure (a && b)) :=
  truth_boolOp opq boolOp_and ρ t p q
theorem truth_or (ρ : Env) (t : DataType) (p q : Expr) :
    truth opq ρ (.bin t Gen.OR_OPERATOR p q) = (do let a ← truth opq ρ p; let b ← truth opq ρ q; pure (a || b)) :=
  truth_boolOp opq boolOp_or ρ t p q
theorem truth_implies (ρ : Env) (t : DataType) (p q : Expr) :
    truth opq ρ (.bin t Gen.IMPLIES_OPERATOR p q) = (do let a ← truth opq ρ p; let b ← truth opq ρ q; pure (!a || b)) :=
  truth_boolOp opq boolOp_implies ρ t p q

theorem truth_lit_bool (ρ : Env) (t : DataType) (k : String) (b : Bool) : truth opq ρ (.lit t k (.bool b)) = some b := rfl

/-! #### quantifiers -/
/-- the elements a domain expression ranges over -/
def domElems (ρ : Env) (d : Expr) : Option (List Value) := (evalO opq ρ d).bind (fun dv => (elems dv).toOption)

theorem quant_do_toOption (X : EM Value) (F : Value → EM (List Value)) (G : List Value → EM (List Bool)) (q : Quant) :
    ((do let dv ← X; let es ← F dv; let bs ← G es; pure (Value.bool (quantResult q bs)) : EM Value) >>= asBool).toOption
      = ((X.toOption.bind fun dv => (F dv).toOption).bind fun es => (G es).toOption.bind fun bs => some (quantResult q bs)) := by
  cases X with
  | error e => rfl
  | ok dv =>
    simp only [bind, Except.bind, Except.toOption, Option.bind]
    cases F dv with
    | error e => rfl
    | ok es =>
      simp only []
      cases G es with
      | error e => rfl
      | ok bs => rfl

theorem truth_quant (ρ : Env) (t : DataType) (q : Quant) (x : String) (d b : Expr) :
    truth opq ρ (.quant t q x d b) =
      (do let es ← domElems opq ρ d
          let bs ← es.mapM (fun v => truth opq (ρ.bind x v) b)
          pure (quantResult q bs)) := by
  unfold truth domElems evalO
  simp only [eval]
  refine (quant_do_toOption _ _ _ q).trans ?_
  simp only [toOption_mapM]
  rfl

end
end Hpl

namespace Hpl
section
variable (opq : Opaque)

/-! ### coincidence: the value depends only on the current message and the variables that occur -/
theorem mapM_congr {α β : Type} {m : Type → Type} [Monad m] (f g : α → m β) (l : List α) (h : ∀ a, f a = g a) :
    l.mapM f = l.mapM g := by
  have : f = g := funext h
  rw [this]

theorem lookup_bind (ρ : Env) (x y : String) (v : Value) :
    (ρ.bind x v).vars.lookup y = if y == x then some v else ρ.vars.lookup y := by
  simp only [Env.bind, List.lookup_cons]
  cases y == x <;> rfl

mutual
theorem eval_agree : ∀ (e : Expr) (ρ ρ' : Env), ρ.this = ρ'.this →
    (∀ y, e.containsRef y = true → ρ.vars.lookup y = ρ'.vars.lookup y) → eval opq ρ e = eval opq ρ' e
  | .lit .., ρ, ρ', _, _ => by simp only [eval]
  | .this _, ρ, ρ', ht, _ => by simp only [eval, ht]
  | .var _ x, ρ, ρ', _, h => by
      simp only [eval, lookupVar, h x (by simp [Expr.containsRef])]
  | .set _ vs, ρ, ρ', ht, h => by
      simp only [eval, evalList_agree vs ρ ρ' ht (fun y hy => h y (by simpa [Expr.containsRef] using hy))]
  | .range _ lo hi _ _, ρ, ρ', ht, h => by
      simp only [eval, eval_agree lo ρ ρ' ht (fun y hy => h y (by simp [Expr.containsRef, hy])),
        eval_agree hi ρ ρ' ht (fun y hy => h y (by simp [Expr.containsRef, hy]))]
  | .quant _ q x d b, ρ, ρ', ht, h => by
      simp only [eval, eval_agree d ρ ρ' ht (fun y hy => h y (by simp [Expr.containsRef, hy]))]
      have hb : ∀ v, eval opq (ρ.bind x v) b = eval opq (ρ'.bind x v) b := by
        intro v
        apply eval_agree b _ _ (by simpa [Env.bind] using ht)
        intro y hy
        rw [lookup_bind, lookup_bind]
        cases hyx : y == x with
        | true => rfl
        | false => simpa using h y (by simp [Expr.containsRef, hy])
      simp only [hb]
  | .un _ _ a, ρ, ρ', ht, h => by
      simp only [eval, eval_agree a ρ ρ' ht (fun y hy => h y (by simpa [Expr.containsRef] using hy))]
  | .bin _ _ a b, ρ, ρ', ht, h => by
      simp only [eval, eval_agree a ρ ρ' ht (fun y hy => h y (by simp [Expr.containsRef, hy])),
        eval_agree b ρ ρ' ht (fun y hy => h y (by simp [Expr.containsRef, hy]))]
  | .call _ _ as, ρ, ρ', ht, h => by
      simp only [eval, evalList_agree as ρ ρ' ht (fun y hy => h y (by simpa [Expr.containsRef] using hy))]
  | .field _ m _, ρ, ρ', ht, h => by
      simp only [eval, eval_agree m ρ ρ' ht (fun y hy => h y (by simpa [Expr.containsRef] using hy))]
  | .index _ a i, ρ, ρ', ht, h => by
      simp only [eval, eval_agree a ρ ρ' ht (fun y hy => h y (by simp [Expr.containsRef, hy])),
        eval_agree i ρ ρ' ht (fun y hy => h y (by simp [Expr.containsRef, hy]))]
theorem evalList_agree : ∀ (es : ExprList) (ρ ρ' : Env), ρ.this = ρ'.this →
    (∀ y, es.containsRef y = true → ρ.vars.lookup y = ρ'.vars.lookup y) → evalList opq ρ es = evalList opq ρ' es
  | .nil, _, _, _, _ => by simp only [evalList]
  | .cons e es, ρ, ρ', ht, h => by
      simp only [evalList, eval_agree e ρ ρ' ht (fun y hy => h y (by simp [ExprList.containsRef, hy])),
        evalList_agree es ρ ρ' ht (fun y hy => h y (by simp [ExprList.containsRef, hy]))]
end

/-- binding a variable that does not occur changes nothing -/
theorem eval_bind_unused (ρ : Env) (x : String) (v : Value) (e : Expr) (h : e.containsRef x = false) :
    eval opq (ρ.bind x v) e = eval opq ρ e := by
  apply eval_agree opq e (ρ.bind x v) ρ rfl
  intro y hy
  rw [lookup_bind]
  cases hyx : y == x with
  | false => rfl
  | true =>
    have : y = x := by simpa using hyx
    subst this; rw [hy] at h; cases h

theorem truth_bind_unused (ρ : Env) (x : String) (v : Value) (e : Expr) (h : e.containsRef x = false) :
    truth opq (ρ.bind x v) e = truth opq ρ e := by
  unfold truth; rw [eval_bind_unused opq ρ x v e h]

/-! ### `len(d) = 0` is true exactly on an empty domain -/
theorem binOp_eq_len (n : Nat) :
    binOp "=" (Value.num ((n : Nat) : Rat)) (Value.num ((0 : Int) : Rat)) = .ok (Value.bool (n == 0)) := by
  have h1 : ("=" == Gen.AND_OPERATOR) = false := by decide
  have h2 : ("=" == Gen.OR_OPERATOR) = false := by decide
  have h3 : ("=" == Gen.IMPLIES_OPERATOR) = false := by decide
  have h4 : ("=" == Gen.IFF_OPERATOR) = false := by decide
  simp only [binOp, h1, h2, h3, h4, Bool.false_eq_true, ↓reduceIte, beq_self_eq_true, Value.num, Value.bool, asPrim, Prim.eq,
    Prim.isNumeric, Bool.and_self, bind, Except.bind, pure, Except.pure]
  congr 3
  cases n with
  | zero => simp
  | succ m =>
    have hne : ((m : Rat) + 1 = 0) → False := by
      intro hc
      have h' : ((m + 1 : Nat) : Rat) = ((0 : Nat) : Rat) := by simpa using hc
      have := Rat.natCast_inj.1 h'
      omega
    simp
    exact hne

theorem emptyTest_value (dv : Value) :
    (((do let es ← elems dv; pure (Value.num ((es.length : Nat) : Rat)) : EM Value) >>= fun x => binOp "=" x (Value.num ((0 : Int) : Rat)))
        >>= asBool).toOption = (elems dv).toOption.map List.isEmpty := by
  cases elems dv with
  | error e => rfl
  | ok es =>
    simp only [bind, Except.bind, pure, Except.pure]
    rw [binOp_eq_len]
    cases es <;> rfl

theorem truth_emptyTest {d te : Expr} (h : emptyTest d = .ok te) (ρ : Env) :
    truth opq ρ te = (domElems opq ρ d).map List.isEmpty := by
  unfold emptyTest at h
  obtain ⟨c, hc, h⟩ := bind_ok h
  unfold truth domElems evalO
  rw [mkBin_eval opq h, mkCall_eval opq hc]
  simp only [evalList, eval, litValue]
  cases eval opq ρ d with
  | error e => rfl
  | ok dv =>
    have := emptyTest_value dv
    simp only [bind, Except.bind, pure, Except.pure, applyFun, Except.toOption, Option.bind] at this ⊢
    exact this

end
end Hpl
