import Hpl.Model.Build
/-! Helper lemmas about the `Except Err` monad used by the model. -/
namespace Hpl

theorem bind_ok {α β : Type} {x : M α} {f : α → M β} {b : β}
    (h : (x >>= f) = .ok b) : ∃ a, x = .ok a ∧ f a = .ok b := by
  cases x with
  | error e => simp [bind, Except.bind] at h
  | ok a => exact ⟨a, rfl, by simpa [bind, Except.bind] using h⟩

theorem bind_ok' {α β : Type} {x : M α} {f : α → M β} {b : β}
    (h : (do let a ← x; f a) = .ok b) : ∃ a, x = .ok a ∧ f a = .ok b := bind_ok h

theorem bind_err {α β : Type} {x : M α} {f : α → M β} {e : Err}
    (h : (x >>= f) = .error e) : x = .error e ∨ ∃ a, x = .ok a ∧ f a = .error e := by
  cases x with
  | error e' => left; simpa [bind, Except.bind] using h
  | ok a => right; exact ⟨a, rfl, by simpa [bind, Except.bind] using h⟩

@[simp] theorem ok_bind {α β : Type} (a : α) (f : α → M β) : ((Except.ok a : M α) >>= f) = f a := rfl
@[simp] theorem error_bind {α β : Type} (e : Err) (f : α → M β) : ((Except.error e : M α) >>= f) = .error e := rfl
@[simp] theorem pure_eq_ok {α : Type} (a : α) : (pure a : M α) = .ok a := rfl

end Hpl
