/-! Strict universal / existential quantification over a list in `Option` (one error value, so strict conjunction
    commutes with everything). Used for quantifier rules (C08–C10). -/
namespace Hpl

def allO {α : Type} (xs : List α) (f : α → Option Bool) : Option Bool := (xs.mapM f).map (·.all id)
def anyO {α : Type} (xs : List α) (f : α → Option Bool) : Option Bool := (xs.mapM f).map (·.any id)

theorem allO_nil {α : Type} (f : α → Option Bool) : allO [] f = some true := rfl
theorem anyO_nil {α : Type} (f : α → Option Bool) : anyO [] f = some false := rfl

theorem allO_cons {α : Type} (x : α) (xs : List α) (f : α → Option Bool) :
    allO (x :: xs) f = (do let a ← f x; let b ← allO xs f; pure (a && b)) := by
  unfold allO
  rw [List.mapM_cons]
  cases f x <;> cases xs.mapM f <;> rfl

theorem anyO_cons {α : Type} (x : α) (xs : List α) (f : α → Option Bool) :
    anyO (x :: xs) f = (do let a ← f x; let b ← anyO xs f; pure (a || b)) := by
  unfold anyO
  rw [List.mapM_cons]
  cases f x <;> cases xs.mapM f <;> rfl

theorem allO_congr {α : Type} (xs : List α) (f g : α → Option Bool) (h : ∀ v, f v = g v) : allO xs f = allO xs g := by
  have : f = g := funext h
  rw [this]

theorem allO_and {α : Type} (xs : List α) (f g : α → Option Bool) :
    allO xs (fun v => do let a ← f v; let b ← g v; pure (a && b)) =
      (do let a ← allO xs f; let b ← allO xs g; pure (a && b)) := by
  induction xs with
  | nil => rfl
  | cons x xs ih =>
    rw [allO_cons, allO_cons, allO_cons, ih]
    cases f x <;> cases g x <;> cases allO xs f <;> cases allO xs g <;>
      simp [bind, Option.bind, pure, Bool.and_assoc, Bool.and_left_comm]

theorem allO_const {α : Type} (xs : List α) (b : Bool) : allO xs (fun _ => some b) = some (xs.isEmpty || b) := by
  induction xs with
  | nil => rfl
  | cons x xs ih =>
    rw [allO_cons, ih]
    cases xs <;> simp [bind, Option.bind, pure]

theorem anyO_not {α : Type} (xs : List α) (f : α → Option Bool) :
    (anyO xs f).map (!·) = allO xs (fun v => (f v).map (!·)) := by
  induction xs with
  | nil => rfl
  | cons x xs ih =>
    rw [allO_cons, anyO_cons, ← ih]
    cases f x <;> cases anyO xs f <;> simp [bind, Option.bind, pure, Option.map]

theorem allO_mono {α : Type} (xs : List α) (f' f : α → Option Bool)
    (h : ∀ v r, f' v = some r → f v = some r) : ∀ r, allO xs f' = some r → allO xs f = some r := by
  induction xs with
  | nil => intro r hr; exact hr
  | cons x xs ih =>
    intro r hr
    rw [allO_cons] at hr ⊢
    cases hfx : f' x with
    | none => simp [hfx, bind, Option.bind] at hr
    | some a =>
      cases hxs : allO xs f' with
      | none => simp [hfx, hxs, bind, Option.bind] at hr
      | some b =>
        simp [hfx, hxs, bind, Option.bind, pure] at hr
        simp [h x a hfx, ih b hxs, bind, Option.bind, pure, hr]

theorem anyO_mono {α : Type} (xs : List α) (f' f : α → Option Bool)
    (h : ∀ v r, f' v = some r → f v = some r) : ∀ r, anyO xs f' = some r → anyO xs f = some r := by
  induction xs with
  | nil => intro r hr; exact hr
  | cons x xs ih =>
    intro r hr
    rw [anyO_cons] at hr ⊢
    cases hfx : f' x with
    | none => simp [hfx, bind, Option.bind] at hr
    | some a =>
      cases hxs : anyO xs f' with
      | none => simp [hfx, hxs, bind, Option.bind] at hr
      | some b =>
        simp [hfx, hxs, bind, Option.bind, pure] at hr
        simp [h x a hfx, ih b hxs, bind, Option.bind, pure, hr]

/-- permutation invariance of strict conjunction -/
theorem allO_append {α : Type} (xs ys : List α) (f : α → Option Bool) :
    allO (xs ++ ys) f = (do let a ← allO xs f; let b ← allO ys f; pure (a && b)) := by
  induction xs with
  | nil => simp only [List.nil_append, allO_nil]; cases allO ys f <;> rfl
  | cons x xs ih =>
    rw [List.cons_append, allO_cons, allO_cons, ih]
    cases f x <;> cases allO xs f <;> cases allO ys f <;> simp [bind, Option.bind, pure, Bool.and_assoc]

end Hpl
