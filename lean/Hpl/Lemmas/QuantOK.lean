import Hpl.Model.BuildProp
import Hpl.Props.C15
import Hpl.Props.C02
import Hpl.Props.C03
/-! The constructors establish the quantifier invariant `quantOK` (every quantifier's variable occurs free below it)
    that C15's `externalRefs_eq` and C02's `sanityCheck_ok_iff` assume: `build_quantOK`, `buildEvent_EvOK`. -/
namespace Hpl

theorem withTy_quantOK (t : DataType) (e : Expr) : (e.withTy t).quantOK ↔ e.quantOK := by
  cases e <;> simp [Expr.withTy, Expr.quantOK]

theorem castE_quantOK {e e' : Expr} {t : DataType} (h : castE e t = .ok e') (hq : e.quantOK) : e'.quantOK := by
  obtain ⟨_, _, rfl⟩ := castE_ok h
  exact (withTy_quantOK _ _).2 hq

theorem withTy_freeVars (t : DataType) (e : Expr) : (e.withTy t).freeVars = e.freeVars := by
  cases e <;> simp [Expr.withTy, Expr.freeVars]

theorem withTy_preorder_tail (t : DataType) (e : Expr) : (e.withTy t).preorder.tail = e.preorder.tail := by
  cases e <;> simp [Expr.withTy, Expr.preorder]

mutual
/-- a variable that occurs and is nowhere re-bound occurs free -/
theorem occurs_free (x : String) : ∀ e : Expr, (∀ v ∈ e.preorder, bindsName x v = false) →
    e.preorder.any (isVarNamed x) = true → x ∈ e.freeVars
  | .lit .., _, h => by simp [Expr.preorder, isVarNamed] at h
  | .this .., _, h => by simp [Expr.preorder, isVarNamed] at h
  | .var _ y, _, h => by
      simp only [Expr.preorder, List.any_cons, isVarNamed, List.any_nil, Bool.or_false, beq_iff_eq] at h
      simp [Expr.freeVars, h]
  | .set _ vs, hb, h => by
      simp only [Expr.preorder, List.any_cons, isVarNamed, Bool.false_or] at h
      exact occurs_freeL x vs (fun v hv => hb v (by simp [Expr.preorder, hv])) h
  | .range _ lo hi _ _, hb, h => by
      simp only [Expr.preorder, List.any_cons, isVarNamed, Bool.false_or, List.any_append, Bool.or_eq_true] at h
      simp only [Expr.freeVars, List.mem_append]
      rcases h with h | h
      · left; exact occurs_free x lo (fun v hv => hb v (by simp [Expr.preorder, hv])) h
      · right; exact occurs_free x hi (fun v hv => hb v (by simp [Expr.preorder, hv])) h
  | .quant ty q y d b, hb, h => by
      have hxy : x ≠ y := by
        have := hb (.quant ty q y d b) (by simp [Expr.preorder])
        simpa [bindsName] using this
      simp only [Expr.preorder, List.any_cons, isVarNamed, Bool.false_or, List.any_append, Bool.or_eq_true] at h
      simp only [Expr.freeVars, List.mem_filter, List.mem_append, ne_eq, decide_eq_true_eq]
      refine ⟨?_, hxy⟩
      rcases h with h | h
      · left; exact occurs_free x d (fun v hv => hb v (by simp [Expr.preorder, hv])) h
      · right; exact occurs_free x b (fun v hv => hb v (by simp [Expr.preorder, hv])) h
  | .un _ _ a, hb, h => by
      simp only [Expr.preorder, List.any_cons, isVarNamed, Bool.false_or] at h
      exact occurs_free x a (fun v hv => hb v (by simp [Expr.preorder, hv])) h
  | .bin _ _ a b, hb, h => by
      simp only [Expr.preorder, List.any_cons, isVarNamed, Bool.false_or, List.any_append, Bool.or_eq_true] at h
      simp only [Expr.freeVars, List.mem_append]
      rcases h with h | h
      · left; exact occurs_free x a (fun v hv => hb v (by simp [Expr.preorder, hv])) h
      · right; exact occurs_free x b (fun v hv => hb v (by simp [Expr.preorder, hv])) h
  | .call _ _ as, hb, h => by
      simp only [Expr.preorder, List.any_cons, isVarNamed, Bool.false_or] at h
      exact occurs_freeL x as (fun v hv => hb v (by simp [Expr.preorder, hv])) h
  | .field _ m _, hb, h => by
      simp only [Expr.preorder, List.any_cons, isVarNamed, Bool.false_or] at h
      exact occurs_free x m (fun v hv => hb v (by simp [Expr.preorder, hv])) h
  | .index _ a i, hb, h => by
      simp only [Expr.preorder, List.any_cons, isVarNamed, Bool.false_or, List.any_append, Bool.or_eq_true] at h
      simp only [Expr.freeVars, List.mem_append]
      rcases h with h | h
      · left; exact occurs_free x a (fun v hv => hb v (by simp [Expr.preorder, hv])) h
      · right; exact occurs_free x i (fun v hv => hb v (by simp [Expr.preorder, hv])) h
theorem occurs_freeL (x : String) : ∀ es : ExprList, (∀ v ∈ es.preorder, bindsName x v = false) →
    es.preorder.any (isVarNamed x) = true → x ∈ es.freeVars
  | .nil, _, h => by simp [ExprList.preorder] at h
  | .cons e es, hb, h => by
      simp only [ExprList.preorder, List.any_append, Bool.or_eq_true] at h
      simp only [ExprList.freeVars, List.mem_append]
      rcases h with h | h
      · left; exact occurs_free x e (fun v hv => hb v (by simp [ExprList.preorder, hv])) h
      · right; exact occurs_freeL x es (fun v hv => hb v (by simp [ExprList.preorder, hv])) h
end

theorem mkQuant_quantOK {q : Quant} {x : String} {dom body e : Expr} (h : mkQuant q x dom body = .ok e)
    (hd : dom.quantOK) (hb : body.quantOK) : e.quantOK := by
  obtain ⟨d, b, rfl, _, hnb, huse⟩ := mkQuant_hygiene h
  unfold mkQuant at h
  obtain ⟨d', hd', h⟩ := bind_ok h
  obtain ⟨b', hb', h⟩ := bind_ok h
  split at h
  · cases h
  · obtain ⟨used, _, h⟩ := bind_ok h
    split at h
    · cases h
    · cases h
      refine ⟨?_, castE_quantOK hd' hd, castE_quantOK hb' hb⟩
      exact List.mem_append.2 (Or.inr (occurs_free x _ hnb huse))

theorem castList_quantOK : ∀ {t : DataType} {vs vs' : ExprList}, castList t vs = .ok vs' → vs.quantOK → vs'.quantOK
  | _, .nil, vs', h, _ => by simp only [castList] at h; cases h; trivial
  | t, .cons e es, vs', h, hq => by
      simp only [castList] at h
      obtain ⟨e', he', h⟩ := bind_ok h
      obtain ⟨es', hes', h⟩ := bind_ok h
      cases h
      exact ⟨castE_quantOK he' hq.1, castList_quantOK hes' hq.2⟩

theorem castArgs_quantOK : ∀ {args : ExprList} {ts : List DataType} {args' : ExprList},
    castArgs args ts = .ok args' → args.quantOK → args'.quantOK
  | .nil, ts, args', h, _ => by cases ts <;> (simp only [castArgs] at h; cases h; trivial)
  | .cons e es, [], args', h, _ => by simp only [castArgs] at h; cases h; trivial
  | .cons e es, t :: ts, args', h, hq => by
      simp only [castArgs] at h
      obtain ⟨e', he', h⟩ := bind_ok h
      obtain ⟨es', hes', h⟩ := bind_ok h
      cases h
      exact ⟨castE_quantOK he' hq.1, castArgs_quantOK hes' hq.2⟩

theorem mkCall_quantOK {f : String} {args : ExprList} {e : Expr} (h : mkCall f args = .ok e) (ha : args.quantOK) : e.quantOK := by
  unfold mkCall at h
  split at h
  · cases h
  · split at h
    · cases h
    · obtain ⟨args', hargs', h⟩ := bind_ok h
      cases h
      exact castArgs_quantOK hargs' ha
    · cases h; exact ha

theorem mkUn_quantOK {op : String} {a e : Expr} (h : mkUn op a = .ok e) (ha : a.quantOK) : e.quantOK := by
  unfold mkUn at h
  split at h
  · cases h
  · obtain ⟨a', ha', h⟩ := bind_ok h
    cases h; simp only [Expr.quantOK]; exact castE_quantOK ha' ha

theorem mkBin_quantOK {op : String} {a b e : Expr} (h : mkBin op a b = .ok e) (ha : a.quantOK) (hb : b.quantOK) : e.quantOK := by
  unfold mkBin at h
  split at h
  · cases h
  · obtain ⟨a1, ha1, h⟩ := bind_ok h
    obtain ⟨b1, hb1, h⟩ := bind_ok h
    split at h
    · obtain ⟨a2, ha2, h⟩ := bind_ok h
      obtain ⟨b2, hb2, h⟩ := bind_ok h
      cases h
      exact ⟨castE_quantOK ha2 (castE_quantOK ha1 ha), castE_quantOK hb2 (castE_quantOK hb1 hb)⟩
    · cases h
      exact ⟨castE_quantOK ha1 ha, castE_quantOK hb1 hb⟩

theorem mkFieldT_quantOK {t : DataType} {m e : Expr} {n : String} (h : mkFieldT t m n = .ok e) (hm : m.quantOK) : e.quantOK := by
  unfold mkFieldT at h
  split at h
  · cases h
  · obtain ⟨m', hm', h⟩ := bind_ok h
    cases h; simp only [Expr.quantOK]; exact castE_quantOK hm' hm

theorem mkIndexT_quantOK {t : DataType} {a i e : Expr} (h : mkIndexT t a i = .ok e) (ha : a.quantOK) (hi : i.quantOK) : e.quantOK := by
  unfold mkIndexT at h
  split at h
  · cases h
  · obtain ⟨a', ha', h⟩ := bind_ok h
    obtain ⟨i', hi', h⟩ := bind_ok h
    cases h; exact ⟨castE_quantOK ha' ha, castE_quantOK hi' hi⟩

mutual
/-- every tree the parser builds satisfies the quantifier invariant -/
theorem build_quantOK : ∀ (r : Raw) (e : Expr), build r = .ok e → e.quantOK
  | .lit .., e, h => by simp only [build] at h; cases h; trivial
  | .this, e, h => by simp only [build] at h; cases h; trivial
  | .var _, e, h => by simp only [build] at h; cases h; trivial
  | .set vs, e, h => by
      simp only [build] at h
      obtain ⟨es, hes, h⟩ := bind_ok h
      unfold mkSet at h
      obtain ⟨vs', hvs', h⟩ := bind_ok h
      cases h
      exact castList_quantOK hvs' (buildList_quantOK vs es hes)
  | .range lo hi a b, e, h => by
      simp only [build] at h
      obtain ⟨lo', hlo, h⟩ := bind_ok h
      obtain ⟨hi', hhi, h⟩ := bind_ok h
      unfold mkRange at h
      obtain ⟨lo'', hlo', h⟩ := bind_ok h
      obtain ⟨hi'', hhi', h⟩ := bind_ok h
      cases h
      exact ⟨castE_quantOK hlo' (build_quantOK lo lo' hlo), castE_quantOK hhi' (build_quantOK hi hi' hhi)⟩
  | .quant q x d b, e, h => by
      simp only [build] at h
      obtain ⟨d', hd, h⟩ := bind_ok h
      obtain ⟨b', hb, h⟩ := bind_ok h
      exact mkQuant_quantOK h (build_quantOK d d' hd) (build_quantOK b b' hb)
  | .un op a, e, h => by
      simp only [build] at h
      obtain ⟨a', ha, h⟩ := bind_ok h
      exact mkUn_quantOK h (build_quantOK a a' ha)
  | .bin op a b, e, h => by
      simp only [build] at h
      obtain ⟨a', ha, h⟩ := bind_ok h
      obtain ⟨b', hb, h⟩ := bind_ok h
      exact mkBin_quantOK h (build_quantOK a a' ha) (build_quantOK b b' hb)
  | .call f args, e, h => by
      simp only [build] at h
      obtain ⟨as, has, h⟩ := bind_ok h
      exact mkCall_quantOK h (buildList_quantOK args as has)
  | .field m n, e, h => by
      simp only [build] at h
      obtain ⟨m', hm, h⟩ := bind_ok h
      exact mkFieldT_quantOK h (build_quantOK m m' hm)
  | .index a i, e, h => by
      simp only [build] at h
      obtain ⟨a', ha, h⟩ := bind_ok h
      obtain ⟨i', hi, h⟩ := bind_ok h
      exact mkIndexT_quantOK h (build_quantOK a a' ha) (build_quantOK i i' hi)
theorem buildList_quantOK : ∀ (rs : RawList) (es : ExprList), buildList rs = .ok es → es.quantOK
  | .nil, es, h => by simp only [buildList] at h; cases h; trivial
  | .cons r rs, es, h => by
      simp only [buildList] at h
      obtain ⟨e', he, h⟩ := bind_ok h
      obtain ⟨es', hes, h⟩ := bind_ok h
      cases h
      exact ⟨build_quantOK r e' he, buildList_quantOK rs es' hes⟩
end

mutual
/-- `replace` keeps the invariant (every changed parent is re-built by its constructor) -/
theorem substE_quantOK (test : Expr → Bool) (other : Expr) (ho : other.quantOK) :
    ∀ (e e' : Expr), substE test other e = .ok e' → e.quantOK → e'.quantOK
  | .lit .., e', h, hq => by simp only [substE] at h; split at h <;> cases h <;> first | exact ho | exact hq
  | .this .., e', h, hq => by simp only [substE] at h; split at h <;> cases h <;> first | exact ho | exact hq
  | .var .., e', h, hq => by simp only [substE] at h; split at h <;> cases h <;> first | exact ho | exact hq
  | .set t vs, e', h, hq => by
      simp only [substE] at h
      split at h
      · cases h; exact ho
      · obtain ⟨vs', hvs', h⟩ := bind_ok h
        split at h
        · cases h; exact hq
        · obtain ⟨vs'', hvs'', h⟩ := bind_ok h
          cases h
          exact castList_quantOK hvs'' (substL_quantOK test other ho vs vs' hvs' hq)
  | .range t lo hi a b, e', h, hq => by
      simp only [substE] at h
      split at h
      · cases h; exact ho
      · obtain ⟨lo', hlo', h⟩ := bind_ok h
        obtain ⟨hi', hhi', h⟩ := bind_ok h
        split at h
        · cases h; exact hq
        · obtain ⟨lo'', hlo'', h⟩ := bind_ok h
          obtain ⟨hi'', hhi'', h⟩ := bind_ok h
          cases h
          exact ⟨castE_quantOK hlo'' (substE_quantOK test other ho lo lo' hlo' hq.1),
                 castE_quantOK hhi'' (substE_quantOK test other ho hi hi' hhi' hq.2)⟩
  | .quant _ q x d b, e', h, hq => by
      simp only [substE] at h
      split at h
      · cases h; exact ho
      · obtain ⟨d', hd', h⟩ := bind_ok h
        obtain ⟨b', hb', h⟩ := bind_ok h
        split at h
        · cases h; exact hq
        · exact mkQuant_quantOK h (substE_quantOK test other ho d d' hd' hq.2.1) (substE_quantOK test other ho b b' hb' hq.2.2)
  | .un _ op a, e', h, hq => by
      simp only [substE] at h
      split at h
      · cases h; exact ho
      · obtain ⟨a', ha', h⟩ := bind_ok h
        split at h
        · cases h; exact hq
        · exact mkUn_quantOK h (substE_quantOK test other ho a a' ha' hq)
  | .bin _ op a b, e', h, hq => by
      simp only [substE] at h
      split at h
      · cases h; exact ho
      · obtain ⟨a', ha', h⟩ := bind_ok h
        obtain ⟨b', hb', h⟩ := bind_ok h
        split at h
        · cases h; exact hq
        · exact mkBin_quantOK h (substE_quantOK test other ho a a' ha' hq.1) (substE_quantOK test other ho b b' hb' hq.2)
  | .call _ f as, e', h, hq => by
      simp only [substE] at h
      split at h
      · cases h; exact ho
      · obtain ⟨as', has', h⟩ := bind_ok h
        split at h
        · cases h; exact hq
        · exact mkCall_quantOK h (substL_quantOK test other ho as as' has' hq)
  | .field t m n, e', h, hq => by
      simp only [substE] at h
      split at h
      · cases h; exact ho
      · obtain ⟨m', hm', h⟩ := bind_ok h
        split at h
        · cases h; exact hq
        · exact mkFieldT_quantOK h (substE_quantOK test other ho m m' hm' hq)
  | .index t a i, e', h, hq => by
      simp only [substE] at h
      split at h
      · cases h; exact ho
      · obtain ⟨a', ha', h⟩ := bind_ok h
        obtain ⟨i', hi', h⟩ := bind_ok h
        split at h
        · cases h; exact hq
        · exact mkIndexT_quantOK h (substE_quantOK test other ho a a' ha' hq.1) (substE_quantOK test other ho i i' hi' hq.2)
theorem substL_quantOK (test : Expr → Bool) (other : Expr) (ho : other.quantOK) :
    ∀ (es es' : ExprList), substL test other es = .ok es' → es.quantOK → es'.quantOK
  | .nil, es', h, _ => by simp only [substL] at h; cases h; trivial
  | .cons e es, es', h, hq => by
      simp only [substL] at h
      obtain ⟨e', he', h⟩ := bind_ok h
      obtain ⟨es'', hes', h⟩ := bind_ok h
      cases h
      exact ⟨substE_quantOK test other ho e e' he' hq.1, substL_quantOK test other ho es es'' hes' hq.2⟩
end

mutual
/-- the capture-avoiding variable replacement keeps the invariant -/
theorem substV_quantOK (a : String) (other : Expr) (ho : other.quantOK) :
    ∀ (e e' : Expr), substV a other e = .ok e' → e.quantOK → e'.quantOK
  | .lit .., e', h, hq => by simp only [substV] at h; cases h; exact hq
  | .this .., e', h, hq => by simp only [substV] at h; cases h; exact hq
  | .var .., e', h, hq => by simp only [substV] at h; cases h; split <;> first | exact ho | exact hq
  | .set t vs, e', h, hq => by
      simp only [substV] at h
      obtain ⟨vs', hvs', h⟩ := bind_ok h
      split at h
      · cases h; exact hq
      · obtain ⟨vs'', hvs'', h⟩ := bind_ok h
        cases h
        exact castList_quantOK hvs'' (substVL_quantOK a other ho vs vs' hvs' hq)
  | .range t lo hi ex1 ex2, e', h, hq => by
      simp only [substV] at h
      obtain ⟨lo', hlo', h⟩ := bind_ok h
      obtain ⟨hi', hhi', h⟩ := bind_ok h
      split at h
      · cases h; exact hq
      · obtain ⟨lo'', hlo'', h⟩ := bind_ok h
        obtain ⟨hi'', hhi'', h⟩ := bind_ok h
        cases h
        exact ⟨castE_quantOK hlo'' (substV_quantOK a other ho lo lo' hlo' hq.1),
               castE_quantOK hhi'' (substV_quantOK a other ho hi hi' hhi' hq.2)⟩
  | .quant _ q x d b, e', h, hq => by
      simp only [substV] at h
      split at h
      · cases h; exact hq
      obtain ⟨d', hd', h⟩ := bind_ok h
      obtain ⟨b', hb', h⟩ := bind_ok h
      split at h
      · cases h; exact hq
      · exact mkQuant_quantOK h (substV_quantOK a other ho d d' hd' hq.2.1) (substV_quantOK a other ho b b' hb' hq.2.2)
  | .un _ op u, e', h, hq => by
      simp only [substV] at h
      obtain ⟨u', hu', h⟩ := bind_ok h
      split at h
      · cases h; exact hq
      · exact mkUn_quantOK h (substV_quantOK a other ho u u' hu' hq)
  | .bin _ op u v, e', h, hq => by
      simp only [substV] at h
      obtain ⟨u', hu', h⟩ := bind_ok h
      obtain ⟨v', hv', h⟩ := bind_ok h
      split at h
      · cases h; exact hq
      · exact mkBin_quantOK h (substV_quantOK a other ho u u' hu' hq.1) (substV_quantOK a other ho v v' hv' hq.2)
  | .call _ f as, e', h, hq => by
      simp only [substV] at h
      obtain ⟨as', has', h⟩ := bind_ok h
      split at h
      · cases h; exact hq
      · exact mkCall_quantOK h (substVL_quantOK a other ho as as' has' hq)
  | .field t m n, e', h, hq => by
      simp only [substV] at h
      obtain ⟨m', hm', h⟩ := bind_ok h
      split at h
      · cases h; exact hq
      · exact mkFieldT_quantOK h (substV_quantOK a other ho m m' hm' hq)
  | .index t u i, e', h, hq => by
      simp only [substV] at h
      obtain ⟨u', hu', h⟩ := bind_ok h
      obtain ⟨i', hi', h⟩ := bind_ok h
      split at h
      · cases h; exact hq
      · exact mkIndexT_quantOK h (substV_quantOK a other ho u u' hu' hq.1) (substV_quantOK a other ho i i' hi' hq.2)
theorem substVL_quantOK (a : String) (other : Expr) (ho : other.quantOK) :
    ∀ (es es' : ExprList), substVL a other es = .ok es' → es.quantOK → es'.quantOK
  | .nil, es', h, _ => by simp only [substVL] at h; cases h; trivial
  | .cons e es, es', h, hq => by
      simp only [substVL] at h
      obtain ⟨e', he', h⟩ := bind_ok h
      obtain ⟨es'', hes', h⟩ := bind_ok h
      cases h
      exact ⟨substV_quantOK a other ho e e' he' hq.1, substVL_quantOK a other ho es es'' hes' hq.2⟩
end


theorem mkPred_quantOK {e : Expr} {p : Pred} (h : mkPred e = .ok p) (hq : e.quantOK) : p.quantOK := by
  unfold mkPred at h
  obtain ⟨e', he', h⟩ := bind_ok h
  split at h
  · cases h; exact castE_quantOK he' hq
  · cases h

theorem predFromExpr_quantOK {e : Expr} {p : Pred} (h : predFromExpr e = .ok p) (hq : e.quantOK) : p.quantOK := by
  unfold predFromExpr at h
  split at h
  · cases h
  · split at h
    · cases h; split <;> trivial
    · cases h
    · exact mkPred_quantOK h hq

theorem Pred.replaceVar_quantOK {p p' : Pred} {a : String} {other : Expr} (ho : other.quantOK)
    (h : p.replaceVar a other = .ok p') (hq : p.quantOK) : p'.quantOK := by
  cases p with
  | expr e =>
    simp only [Pred.replaceVar] at h
    obtain ⟨e', he', h⟩ := bind_ok h
    split at h
    · cases h; exact hq
    · exact mkPred_quantOK h (substV_quantOK _ _ ho e e' he' hq)
  | vtrue => simp only [Pred.replaceVar] at h; cases h; trivial
  | vfalse => simp only [Pred.replaceVar] at h; cases h; trivial

/-- a simple event built by the parser callback satisfies `EvOK` when its alias (if any) is a non-empty name -/
theorem buildSimple_EvOK {s : RawSimple} {e : Event} (h : buildSimple s = .ok e) (ha : ∀ a, s.alias = some a → a ≠ "") : EvOK e := by
  unfold buildSimple at h
  obtain ⟨p, hp, h⟩ := bind_ok h
  have hpq : p.quantOK := by
    cases hs : s.pred with
    | none => rw [hs] at hp; cases hp; trivial
    | some r =>
      rw [hs] at hp
      obtain ⟨e0, he0, hp⟩ := bind_ok hp
      exact predFromExpr_quantOK hp (build_quantOK r e0 he0)
  unfold mkSimpleEvent at h
  cases hal : s.alias with
  | none => rw [hal] at h; cases h; exact ⟨hpq, by simp [Event.aliases]⟩
  | some a =>
    rw [hal] at h
    simp only at h
    split at h
    · obtain ⟨p', hp', h⟩ := bind_ok h
      cases h
      exact ⟨Pred.replaceVar_quantOK (by trivial) hp' hpq, by simpa [Event.aliases] using ha a hal⟩
    · exact absurd (ha a hal) (by simpa using ‹¬ a ≠ ""›)

end Hpl
