import Hpl.Model.Rewrite.Refactor
import Hpl.Props.C03
/-! Occurrence of `@a` is invariant under narrowing and is computed compositionally by the smart constructors. -/
namespace Hpl

theorem withTy_containsRef (t : DataType) (a : String) (e : Expr) : (e.withTy t).containsRef a = e.containsRef a := by
  cases e <;> simp [Expr.withTy, Expr.containsRef]

theorem castE_containsRef {e e' : Expr} {t : DataType} (h : castE e t = .ok e') (a : String) :
    e'.containsRef a = e.containsRef a := by
  obtain ⟨_, _, rfl⟩ := castE_ok h
  exact withTy_containsRef _ a e

theorem castArgs_containsRef : ∀ {args : ExprList} {ts : List DataType} {args' : ExprList},
    castArgs args ts = .ok args' → args.length ≤ ts.length → ∀ a, args'.containsRef a = args.containsRef a
  | .nil, ts, args', h, _, a => by cases ts <;> (simp only [castArgs] at h; cases h; rfl)
  | .cons e es, [], args', h, hl, a => by simp [ExprList.length] at hl
  | .cons e es, t :: ts, args', h, hl, a => by
      simp only [castArgs] at h
      obtain ⟨e', he', h⟩ := bind_ok h
      obtain ⟨es', hes', h⟩ := bind_ok h
      cases h
      simp only [ExprList.containsRef, castE_containsRef he',
        castArgs_containsRef hes' (by simp [ExprList.length] at hl; omega)]

theorem mkUn_containsRef {op : String} {x e : Expr} (h : mkUn op x = .ok e) (a : String) : e.containsRef a = x.containsRef a := by
  unfold mkUn at h
  split at h
  · cases h
  · obtain ⟨x', hx', h⟩ := bind_ok h
    cases h; simp only [Expr.containsRef, castE_containsRef hx']

theorem mkBin_containsRef {op : String} {x y e : Expr} (h : mkBin op x y = .ok e) (a : String) :
    e.containsRef a = (x.containsRef a || y.containsRef a) := by
  unfold mkBin at h
  split at h
  · cases h
  · obtain ⟨x1, hx1, h⟩ := bind_ok h
    obtain ⟨y1, hy1, h⟩ := bind_ok h
    split at h
    · obtain ⟨x2, hx2, h⟩ := bind_ok h
      obtain ⟨y2, hy2, h⟩ := bind_ok h
      cases h
      simp only [Expr.containsRef, castE_containsRef hx2, castE_containsRef hy2, castE_containsRef hx1, castE_containsRef hy1]
    · cases h
      simp only [Expr.containsRef, castE_containsRef hx1, castE_containsRef hy1]

/-- the operands the binary constructor stores are the given ones up to narrowing -/
theorem mkBin_operands {op : String} {x y : Expr} {t : DataType} {x' y' : Expr} (h : mkBin op x y = .ok (.bin t op x' y')) (a : String) :
    x'.containsRef a = x.containsRef a ∧ y'.containsRef a = y.containsRef a := by
  unfold mkBin at h
  split at h
  · cases h
  · obtain ⟨x1, hx1, h⟩ := bind_ok h
    obtain ⟨y1, hy1, h⟩ := bind_ok h
    split at h
    · obtain ⟨x2, hx2, h⟩ := bind_ok h
      obtain ⟨y2, hy2, h⟩ := bind_ok h
      cases h
      exact ⟨by rw [castE_containsRef hx2, castE_containsRef hx1], by rw [castE_containsRef hy2, castE_containsRef hy1]⟩
    · cases h
      exact ⟨castE_containsRef hx1 a, castE_containsRef hy1 a⟩

theorem mkQuant_containsRef {q : Quant} {x : String} {d b e : Expr} (h : mkQuant q x d b = .ok e) (a : String) :
    e.containsRef a = (d.containsRef a || b.containsRef a) := by
  unfold mkQuant at h
  obtain ⟨d', hd', h⟩ := bind_ok h
  obtain ⟨b', hb', h⟩ := bind_ok h
  split at h
  · cases h
  · obtain ⟨used, _, h⟩ := bind_ok h
    split at h
    · cases h
    · cases h; simp only [Expr.containsRef, castE_containsRef hd', castE_containsRef hb']

theorem mkCall_containsRef {f : String} {args : ExprList} {e : Expr} (h : mkCall f args = .ok e) (a : String) :
    e.containsRef a = args.containsRef a := by
  unfold mkCall at h
  split at h
  · cases h
  · rename_i d hd
    split at h
    · cases h
    · rename_i s hs
      obtain ⟨args', hargs', h⟩ := bind_ok h
      cases h
      have hmem : s ∈ d.overloads.filter (·.accepts args.tys) := by rw [hs]; simp
      obtain ⟨_, hs2⟩ := List.mem_filter.1 hmem
      obtain ⟨har1, _⟩ := accepts_arity hs2
      rw [ExprList.tys_length] at har1
      have hlen : (s.paramsFor args.length).length = args.length := paramsFor_length s _ har1
      simp only [Expr.containsRef, castArgs_containsRef hargs' (by omega)]
    · cases h; rfl

theorem emptyTest_containsRef {d te : Expr} (h : emptyTest d = .ok te) (a : String) : te.containsRef a = d.containsRef a := by
  unfold emptyTest at h
  obtain ⟨c, hc, h⟩ := bind_ok h
  rw [mkBin_containsRef h, mkCall_containsRef hc]
  simp [ExprList.containsRef, Expr.containsRef]

theorem splitHalf_containsRef {x : String} {d p h : Expr} (hh : splitHalf x d p = .ok h) (a : String) :
    h.containsRef a = (d.containsRef a || p.containsRef a) := by
  unfold splitHalf at hh
  split at hh
  · exact mkQuant_containsRef hh a
  · obtain ⟨te, hte, hh⟩ := bind_ok hh
    rw [mkBin_containsRef hh, emptyTest_containsRef hte]

end Hpl
