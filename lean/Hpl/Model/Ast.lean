import Hpl.Model.TableTypes
/-! The AST of `hpl.ast` as immutable values. One mutual inductive for expressions (every node carries its
    stored `data_type`), plain inductives/structures for predicates, events, scopes, patterns, properties.
    Core Lean only (`Rat` is in core). -/
namespace Hpl

/-- value stored in an `HplLiteral` (`value` field). Python's int/float split is kept: tokens take part in
    AST equality. `flt` carries the exact rational value of the float. -/
inductive LitVal where
  | bool (b : Bool)
  | int (n : Int)
  | flt (q : Rat)
  | inf | ninf | nan
  | str (s : String)
deriving DecidableEq, Repr, Inhabited

inductive Quant | all | some deriving DecidableEq, Repr, Inhabited

mutual
inductive Expr where
  | lit (ty : DataType) (tok : String) (v : LitVal)
  | this (ty : DataType)
  | var (ty : DataType) (name : String)            -- name without the leading "@"
  | set (ty : DataType) (vals : ExprList)
  | range (ty : DataType) (lo hi : Expr) (exLo exHi : Bool)
  | quant (ty : DataType) (q : Quant) (x : String) (dom body : Expr)
  | un (ty : DataType) (op : String) (a : Expr)
  | bin (ty : DataType) (op : String) (a b : Expr)
  | call (ty : DataType) (f : String) (args : ExprList)
  | field (ty : DataType) (msg : Expr) (name : String)
  | index (ty : DataType) (arr idx : Expr)
inductive ExprList where
  | nil
  | cons (e : Expr) (es : ExprList)
end

instance : Inhabited Expr := ⟨.this 0⟩
instance : Inhabited ExprList := ⟨.nil⟩

def ExprList.toList : ExprList → List Expr
  | .nil => []
  | .cons e es => e :: es.toList

def ExprList.ofList : List Expr → ExprList
  | [] => .nil
  | e :: es => .cons e (ExprList.ofList es)

@[simp] theorem ExprList.toList_ofList : ∀ l : List Expr, (ExprList.ofList l).toList = l
  | [] => rfl
  | e :: es => by simp [ExprList.ofList, ExprList.toList, ExprList.toList_ofList es]

@[simp] theorem ExprList.ofList_toList : ∀ l : ExprList, ExprList.ofList l.toList = l
  | .nil => rfl
  | .cons e es => by simp [ExprList.ofList, ExprList.toList, ExprList.ofList_toList es]

def ExprList.length : ExprList → Nat
  | .nil => 0
  | .cons _ es => es.length + 1

def Expr.ty : Expr → DataType
  | .lit t .. | .this t | .var t _ | .set t _ | .range t .. | .quant t .. | .un t .. | .bin t .. | .call t ..
  | .field t .. | .index t .. => t

def Expr.withTy (t : DataType) : Expr → Expr
  | .lit _ a b => .lit t a b | .this _ => .this t | .var _ x => .var t x | .set _ v => .set t v
  | .range _ a b c d => .range t a b c d | .quant _ q x d b => .quant t q x d b
  | .un _ o a => .un t o a | .bin _ o a b => .bin t o a b
  | .call _ f a => .call t f a | .field _ m n => .field t m n | .index _ a i => .index t a i

@[simp] theorem Expr.ty_withTy (t : DataType) (e : Expr) : (e.withTy t).ty = t := by cases e <;> rfl
@[simp] theorem Expr.withTy_ty (e : Expr) : e.withTy e.ty = e := by cases e <;> rfl

def ExprList.tys : ExprList → List DataType
  | .nil => []
  | .cons e es => e.ty :: es.tys

/-- `children()` as overridden per class (source order) -/
def Expr.children : Expr → List Expr
  | .lit .. | .this .. | .var .. => []
  | .set _ vs => vs.toList
  | .range _ lo hi _ _ => [lo, hi]
  | .quant _ _ _ d b => [d, b]
  | .un _ _ a => [a]
  | .bin _ _ a b => [a, b]
  | .call _ _ as => as.toList
  | .field _ m _ => [m]
  | .index _ a i => [a, i]

mutual
def Expr.size : Expr → Nat
  | .lit .. | .this .. | .var .. => 1
  | .set _ vs => 1 + vs.size
  | .range _ lo hi _ _ => 1 + lo.size + hi.size
  | .quant _ _ _ d b => 1 + d.size + b.size
  | .un _ _ a => 1 + a.size
  | .bin _ _ a b => 1 + a.size + b.size
  | .call _ _ as => 1 + as.size
  | .field _ m _ => 1 + m.size
  | .index _ a i => 1 + a.size + i.size
def ExprList.size : ExprList → Nat
  | .nil => 0
  | .cons e es => e.size + es.size
end

theorem Expr.size_pos : ∀ e : Expr, 0 < e.size := by
  intro e; cases e <;> simp [Expr.size] <;> omega

/-! ### decidable equality (attrs `__eq__`: all fields incl. `data_type`, metadata excluded) -/
mutual
def Expr.beq : Expr → Expr → Bool
  | .lit t k v, x => match x with | .lit t' k' v' => t == t' && k == k' && v == v' | _ => false
  | .this t, x => match x with | .this t' => t == t' | _ => false
  | .var t n, x => match x with | .var t' n' => t == t' && n == n' | _ => false
  | .set t vs, x => match x with | .set t' vs' => t == t' && ExprList.beq vs vs' | _ => false
  | .range t lo hi a b, x => match x with
      | .range t' lo' hi' a' b' => t == t' && Expr.beq lo lo' && Expr.beq hi hi' && a == a' && b == b' | _ => false
  | .quant t q v d b, x => match x with
      | .quant t' q' v' d' b' => t == t' && q == q' && v == v' && Expr.beq d d' && Expr.beq b b' | _ => false
  | .un t o a, x => match x with | .un t' o' a' => t == t' && o == o' && Expr.beq a a' | _ => false
  | .bin t o a b, x => match x with
      | .bin t' o' a' b' => t == t' && o == o' && Expr.beq a a' && Expr.beq b b' | _ => false
  | .call t f as, x => match x with | .call t' f' as' => t == t' && f == f' && ExprList.beq as as' | _ => false
  | .field t m n, x => match x with | .field t' m' n' => t == t' && Expr.beq m m' && n == n' | _ => false
  | .index t a i, x => match x with | .index t' a' i' => t == t' && Expr.beq a a' && Expr.beq i i' | _ => false
def ExprList.beq : ExprList → ExprList → Bool
  | .nil, x => match x with | .nil => true | _ => false
  | .cons a as, x => match x with | .cons b bs => Expr.beq a b && ExprList.beq as bs | _ => false
end

mutual
theorem Expr.beq_iff : ∀ a b : Expr, Expr.beq a b = true ↔ a = b
  | .lit t k v, x => by cases x <;> simp [Expr.beq, and_assoc]
  | .this t, x => by cases x <;> simp [Expr.beq]
  | .var t n, x => by cases x <;> simp [Expr.beq]
  | .set t vs, x => by
      cases x with
      | set t' vs' => simp [Expr.beq, ExprList.beq_iff vs vs']
      | _ => simp [Expr.beq]
  | .range t lo hi a b, x => by
      cases x with
      | range t' lo' hi' a' b' => simp [Expr.beq, Expr.beq_iff lo lo', Expr.beq_iff hi hi', and_assoc]
      | _ => simp [Expr.beq]
  | .quant t q v d b, x => by
      cases x with
      | quant t' q' v' d' b' => simp [Expr.beq, Expr.beq_iff d d', Expr.beq_iff b b', and_assoc]
      | _ => simp [Expr.beq]
  | .un t o a, x => by
      cases x with
      | un t' o' a' => simp [Expr.beq, Expr.beq_iff a a', and_assoc]
      | _ => simp [Expr.beq]
  | .bin t o a b, x => by
      cases x with
      | bin t' o' a' b' => simp [Expr.beq, Expr.beq_iff a a', Expr.beq_iff b b', and_assoc]
      | _ => simp [Expr.beq]
  | .call t f as, x => by
      cases x with
      | call t' f' as' => simp [Expr.beq, ExprList.beq_iff as as', and_assoc]
      | _ => simp [Expr.beq]
  | .field t m n, x => by
      cases x with
      | field t' m' n' => simp [Expr.beq, Expr.beq_iff m m', and_assoc]
      | _ => simp [Expr.beq]
  | .index t a i, x => by
      cases x with
      | index t' a' i' => simp [Expr.beq, Expr.beq_iff a a', Expr.beq_iff i i', and_assoc]
      | _ => simp [Expr.beq]
theorem ExprList.beq_iff : ∀ a b : ExprList, ExprList.beq a b = true ↔ a = b
  | .nil, x => by cases x <;> simp [ExprList.beq]
  | .cons a as, x => by
      cases x with
      | nil => simp [ExprList.beq]
      | cons b bs => simp [ExprList.beq, Expr.beq_iff a b, ExprList.beq_iff as bs]
end

instance : DecidableEq Expr := fun a b => decidable_of_iff _ (Expr.beq_iff a b)
instance : DecidableEq ExprList := fun a b => decidable_of_iff _ (ExprList.beq_iff a b)

/-! ### predicates, events, scopes, patterns, properties -/

/-- `HplPredicateExpression | HplVacuousTruth | HplContradiction` -/
inductive Pred where
  | expr (e : Expr)
  | vtrue
  | vfalse
deriving DecidableEq, Inhabited

/-- `HplSimpleEvent | HplEventDisjunction` (event_type is always PUBLISH, message_type always None from the parser) -/
inductive Event where
  | simple (name : String) (alias : Option String) (pred : Pred)
  | disj (a b : Event)
deriving DecidableEq, Inhabited

inductive ScopeKind | global | afterUntil | after | until_ deriving DecidableEq, Repr, Inhabited
inductive PatternKind | absence | existence | requirement | response | prevention deriving DecidableEq, Repr, Inhabited

/-- member names of `PatternType` / `ScopeType` (the key into the regenerated tables G5 / G8) -/
def PatternKind.all : List PatternKind := [.absence, .existence, .requirement, .response, .prevention]
def PatternKind.pyName : PatternKind → String
  | .absence => "ABSENCE" | .existence => "EXISTENCE" | .requirement => "REQUIREMENT" | .response => "RESPONSE" | .prevention => "PREVENTION"
def ScopeKind.all : List ScopeKind := [.global, .afterUntil, .after, .until_]
def ScopeKind.pyName : ScopeKind → String
  | .global => "GLOBAL" | .afterUntil => "AFTER_UNTIL" | .after => "AFTER" | .until_ => "UNTIL"

structure Scope where
  kind : ScopeKind
  activator : Option Event
  terminator : Option Event
deriving DecidableEq, Inhabited

/-- times are exact rationals (seconds); `maxTime = none` is `inf` -/
structure Pattern where
  kind : PatternKind
  behaviour : Event
  trigger : Option Event
  minTime : Rat
  maxTime : Option Rat
deriving DecidableEq, Inhabited

structure Property where
  scope : Scope
  pattern : Pattern
  metadata : List (String × String)
deriving DecidableEq, Inhabited

end Hpl
