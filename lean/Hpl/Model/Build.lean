import Hpl.Model.Ast
import Hpl.Model.Query
import Hpl.Generated.Tables
/-! Model of AST construction: the attrs constructors of `hpl.ast` (converter → validators in field order →
    `__attrs_post_init__`) as smart constructors into `Except Err`, plus `cast`, the `reshape`/`replace` family
    (`but` re-enters the constructor) and the predicate/event/property constructors. Trees are values: the in-place
    narrowing `_type_check(force=True)` coincides with `cast` on values (they differ only in object identity, which
    is the subject of C16 and modelled there). -/
namespace Hpl

/-- outcome classes of the implementation (exceptions mapped to a small enum) -/
inductive Err where
  | syntax | sanity | type | value | zerodiv | undef | index | key
  | internal (what : String)
deriving DecidableEq, Repr, Inhabited

def Err.name : Err → String
  | .syntax => "syntax" | .sanity => "sanity" | .type => "type" | .value => "value" | .zerodiv => "zerodiv"
  | .undef => "undef" | .index => "index" | .key => "key" | .internal _ => "internal"

abbrev M := Except Err

namespace T
abbrev BOOL := Gen.BOOL
abbrev NUMBER := Gen.NUMBER
abbrev STRING := Gen.STRING
abbrev ARRAY := Gen.ARRAY
abbrev RANGE := Gen.RANGE
abbrev SET := Gen.SET
abbrev MESSAGE := Gen.MESSAGE
abbrev PRIMITIVE := Gen.PRIMITIVE
abbrev ITEM := Gen.ITEM
abbrev COMPOUND := Gen.COMPOUND
abbrev ANY := Gen.ANY
/-- `HplDataAccess.default_data_type = ITEM | ARRAY` -/
abbrev ACCESS := Gen.ITEM ||| Gen.ARRAY
end T

def LitVal.ty : LitVal → DataType
  | .bool _ => T.BOOL
  | .str _ => T.STRING
  | _ => T.NUMBER

/-- `HplExpression.cast` (and `_type_check(force=True)` on values) -/
def castE (e : Expr) (t : DataType) : M Expr :=
  let r := e.ty &&& t
  if r = 0 then .error .type else if r = e.ty then .ok e else .ok (e.withTy r)

/-- `_type_check(force=False)`: compatibility only -/
def compatE (e : Expr) (t : DataType) : M Unit :=
  if e.ty &&& t = 0 then .error .type else .ok ()

def Sig.accepts (s : Sig) (args : List DataType) : Bool :=
  let np := s.params.length
  if np > args.length then false
  else if np < args.length && s.variadic.isNone then false
  else (List.zip args s.params).all (fun p => p.1 &&& p.2 != 0) &&
       match s.variadic with
       | none => true
       | some v => (args.drop np).all (fun a => a &&& v != 0)

def unionTy (ts : List DataType) : DataType := ts.foldl (· ||| ·) Gen.NONE

def FunDef.result (d : FunDef) : DataType := unionTy (d.overloads.map (·.res))

def findUn (op : String) : Option UnDef := Gen.unOps.find? (·.token == op)
def findBin (op : String) : Option BinDef := Gen.binOps.find? (·.token == op)
def findFun (f : String) : Option FunDef := Gen.funs.find? (·.name == f)

/-- `HplUnaryOperator(op, a)` -/
def mkUn (op : String) (a : Expr) : M Expr :=
  match findUn op with
  | none => .error .value
  | some d => do let a' ← castE a d.param; pure (.un d.res op a')

/-- `HplBinaryOperator(op, a, b)` -/
def mkBin (op : String) (a b : Expr) : M Expr :=
  match findBin op with
  | none => .error .value
  | some d => do
      let a1 ← castE a d.p1
      let b1 ← castE b d.p2
      if d.p1 &&& d.p2 ≠ 0 then
        let a2 ← castE a1 b1.ty
        let b2 ← castE b1 a2.ty
        pure (.bin d.res op a2 b2)
      else pure (.bin d.res op a1 b1)

/-- parameter types an overload offers to `n` arguments: its parameters, then the variadic type repeated -/
def Sig.paramsFor (s : Sig) (n : Nat) : List DataType :=
  s.params ++ List.replicate (n - s.params.length) (s.variadic.getD Gen.NONE)

/-- `tuple(arg.cast(t) for arg, t in zip(arguments, params))` -/
def castArgs : ExprList → List DataType → M ExprList
  | .cons e es, t :: ts => do let e' ← castE e t; let es' ← castArgs es ts; pure (.cons e' es')
  | _, _ => .ok .nil

/-- `HplFunctionCall(f, args)`: the arguments must be compatible with some overload; when exactly one overload
    accepts them they are narrowed to its parameter types (post-init) -/
def mkCall (f : String) (args : ExprList) : M Expr :=
  match findFun f with
  | none => .error .value
  | some d =>
      match d.overloads.filter (·.accepts args.tys) with
      | [] => .error .type
      | [s] => do let args' ← castArgs args (s.paramsFor args.length); pure (.call d.result f args')
      | _ => .ok (.call d.result f args)

/-- `HplFieldAccess(m, name)` keeping / setting the node's own type `t` (`T.ACCESS` when fresh) -/
def mkFieldT (t : DataType) (m : Expr) (name : String) : M Expr :=
  if T.ACCESS &&& t = 0 then .error .type
  else do let m' ← castE m T.MESSAGE; pure (.field t m' name)
def mkField (m : Expr) (name : String) : M Expr := mkFieldT T.ACCESS m name

def mkIndexT (t : DataType) (a i : Expr) : M Expr :=
  if T.ACCESS &&& t = 0 then .error .type
  else do let a' ← castE a T.ARRAY; let i' ← castE i T.NUMBER; pure (.index t a' i')
def mkIndex (a i : Expr) : M Expr := mkIndexT T.ACCESS a i

def castList (t : DataType) : ExprList → M ExprList
  | .nil => .ok .nil
  | .cons e es => do let e' ← castE e t; let es' ← castList t es; pure (.cons e' es')

/-- `HplSet(values)`: converter casts each member to PRIMITIVE -/
def mkSet (vs : ExprList) : M Expr := do
  let vs' ← castList T.PRIMITIVE vs; pure (.set T.SET vs')

/-- `HplRange(lo, hi, exLo, exHi)`: converter casts both bounds to NUMBER -/
def mkRange (lo hi : Expr) (exLo exHi : Bool) : M Expr := do
  let lo' ← castE lo T.NUMBER; let hi' ← castE hi T.NUMBER; pure (.range T.RANGE lo' hi' exLo exHi)

/-- `HplSet.subtypes` / `HplRange.subtypes`, else PRIMITIVE -/
def domainElemType : Expr → DataType
  | .set _ vs => unionTy vs.tys
  | .range .. => T.NUMBER
  | _ => T.PRIMITIVE

/-- the loop of `_check_condition_is_bool` over `condition.iterate()` -/
def quantBodyCheck (x : String) (t : DataType) : List Expr → Nat → M Nat
  | [], used => .ok used
  | (.quant _ _ y _ _) :: rest, used => if y == x then .error .sanity else quantBodyCheck x t rest used
  | (.var ty y) :: rest, used =>
      if y == x then (if ty &&& t = 0 then .error .type else quantBodyCheck x t rest (used + 1))
      else quantBodyCheck x t rest used
  | _ :: rest, used => quantBodyCheck x t rest used

/-- `HplQuantifier(q, x, dom, body)` -/
def mkQuant (q : Quant) (x : String) (dom body : Expr) : M Expr := do
  let d ← castE dom T.COMPOUND
  let b ← castE body T.BOOL
  if d.preorder.any (isVarNamed x) then .error .sanity
  else do
    let used ← quantBodyCheck x (domainElemType d) b.preorder 0
    if used = 0 then .error .sanity else pure (.quant T.BOOL q x d b)

/-! ### untyped syntax trees (what the grammar assigns to a text) and `build` -/
mutual
inductive Raw where
  | lit (tok : String) (v : LitVal)
  | this
  | var (x : String)
  | set (vs : RawList)
  | range (lo hi : Raw) (exLo exHi : Bool)
  | quant (q : Quant) (x : String) (dom body : Raw)
  | un (op : String) (a : Raw)
  | bin (op : String) (a b : Raw)
  | call (f : String) (args : RawList)
  | field (m : Raw) (name : String)
  | index (a i : Raw)
inductive RawList where
  | nil
  | cons (e : Raw) (es : RawList)
end

instance : Inhabited Raw := ⟨.this⟩

mutual
/-- parser callbacks + constructors, bottom-up -/
def build : Raw → M Expr
  | .lit tok v => .ok (.lit v.ty tok v)
  | .this => .ok (.this T.MESSAGE)
  | .var x => .ok (.var T.ITEM x)
  | .set vs => do let es ← buildList vs; mkSet es
  | .range lo hi a b => do let lo' ← build lo; let hi' ← build hi; mkRange lo' hi' a b
  | .quant q x d b => do let d' ← build d; let b' ← build b; mkQuant q x d' b'
  | .un op a => do let a' ← build a; mkUn op a'
  | .bin op a b => do let a' ← build a; let b' ← build b; mkBin op a' b'
  | .call f args => do let as ← buildList args; mkCall f as
  | .field m n => do let m' ← build m; mkField m' n
  | .index a i => do let a' ← build a; let i' ← build i; mkIndex a' i'
def buildList : RawList → M ExprList
  | .nil => .ok .nil
  | .cons e es => do let e' ← build e; let es' ← buildList es; pure (.cons e' es')
end

/-! ### predicates -/

/-- `_all_refs_same_type` over `_get_reference_table`: the type sets of all occurrences of one reference (same printed
    form and, for a quantified variable, same binding quantifier) intersect -/
def refsOk (e : Expr) : Bool :=
  let occs := e.refOccs []
  occs.all (fun r => (occs.filter (sameRef r)).foldl (fun acc s => acc &&& s.2.ty) T.ANY != 0)

/-- `HplPredicateExpression(e)` -/
def mkPred (e : Expr) : M Pred := do
  let e' ← castE e T.BOOL
  if refsOk e' then pure (.expr e') else .error .type

def isBoolLit : Expr → Option Bool
  | .lit _ _ (.bool b) => some b
  | _ => none

/-- `predicate_from_expression(e)` -/
def predFromExpr (e : Expr) : M Pred :=
  if e.ty &&& T.BOOL = 0 then .error .type
  else match e with
    | .lit _ _ (.bool b) => .ok (if b then .vtrue else .vfalse)
    | .lit .. => .error (.internal "assert isinstance(expr.value, bool)")
    | _ => mkPred e

/-! ### `replace` / `reshape(deep=True)`: `but(...)` re-enters the constructor of the parent of every changed child -/
mutual
def substE (test : Expr → Bool) (other : Expr) : Expr → M Expr
  | e@(.lit ..) | e@(.this ..) | e@(.var ..) => .ok (if test e then other else e)
  | e@(.set t vs) => if test e then .ok other else do
      let vs' ← substL test other vs
      if vs' = vs then pure e else do let vs'' ← castList T.PRIMITIVE vs'; pure (.set t vs'')
  | e@(.range t lo hi a b) => if test e then .ok other else do
      let lo' ← substE test other lo; let hi' ← substE test other hi
      if lo' = lo ∧ hi' = hi then pure e else do
        let lo'' ← castE lo' T.NUMBER; let hi'' ← castE hi' T.NUMBER; pure (.range t lo'' hi'' a b)
  | e@(.quant _ q x d b) => if test e then .ok other else do
      let d' ← substE test other d; let b' ← substE test other b
      if d' = d ∧ b' = b then pure e else mkQuant q x d' b'
  | e@(.un _ op a) => if test e then .ok other else do
      let a' ← substE test other a
      if a' = a then pure e else mkUn op a'
  | e@(.bin _ op a b) => if test e then .ok other else do
      let a' ← substE test other a; let b' ← substE test other b
      if a' = a ∧ b' = b then pure e else mkBin op a' b'
  | e@(.call _ f as) => if test e then .ok other else do
      let as' ← substL test other as
      if as' = as then pure e else mkCall f as'
  | e@(.field t m n) => if test e then .ok other else do
      let m' ← substE test other m
      if m' = m then pure e else mkFieldT t m' n
  | e@(.index t a i) => if test e then .ok other else do
      let a' ← substE test other a; let i' ← substE test other i
      if a' = a ∧ i' = i then pure e else mkIndexT t a' i'
def substL (test : Expr → Bool) (other : Expr) : ExprList → M ExprList
  | .nil => .ok .nil
  | .cons e es => do let e' ← substE test other e; let es' ← substL test other es; pure (.cons e' es')
end

mutual
/-- `replace_var_reference(alias, other)`: child by child; a quantifier that binds `alias` keeps its own occurrences (the rest is
    `replace` / `reshape` as in `substE`) -/
def substV (a : String) (other : Expr) : Expr → M Expr
  | e@(.lit ..) | e@(.this ..) => .ok e
  | e@(.var _ x) => .ok (if a == x then other else e)
  | e@(.set t vs) => do
      let vs' ← substVL a other vs
      if vs' = vs then pure e else do let vs'' ← castList T.PRIMITIVE vs'; pure (.set t vs'')
  | e@(.range t lo hi x y) => do
      let lo' ← substV a other lo; let hi' ← substV a other hi
      if lo' = lo ∧ hi' = hi then pure e else do
        let lo'' ← castE lo' T.NUMBER; let hi'' ← castE hi' T.NUMBER; pure (.range t lo'' hi'' x y)
  | e@(.quant _ q x d b) => if x == a then .ok e else do
      let d' ← substV a other d; let b' ← substV a other b
      if d' = d ∧ b' = b then pure e else mkQuant q x d' b'
  | e@(.un _ op x) => do
      let x' ← substV a other x
      if x' = x then pure e else mkUn op x'
  | e@(.bin _ op x y) => do
      let x' ← substV a other x; let y' ← substV a other y
      if x' = x ∧ y' = y then pure e else mkBin op x' y'
  | e@(.call _ f as) => do
      let as' ← substVL a other as
      if as' = as then pure e else mkCall f as'
  | e@(.field t m n) => do
      let m' ← substV a other m
      if m' = m then pure e else mkFieldT t m' n
  | e@(.index t x i) => do
      let x' ← substV a other x; let i' ← substV a other i
      if x' = x ∧ i' = i then pure e else mkIndexT t x' i'
def substVL (a : String) (other : Expr) : ExprList → M ExprList
  | .nil => .ok .nil
  | .cons e es => do let e' ← substV a other e; let es' ← substVL a other es; pure (.cons e' es')
end

/-- `replace_var_reference(alias, other)` -/
def Expr.replaceVar (e : Expr) (a : String) (other : Expr) : M Expr := substV a other e
/-- `replace_self_reference(other)` -/
def Expr.replaceSelf (e : Expr) (other : Expr) : M Expr := substE isThis other e

def Pred.replaceVar (p : Pred) (a : String) (other : Expr) : M Pred :=
  match p with
  | .expr e => do let e' ← e.replaceVar a other; if e' = e then pure (.expr e) else mkPred e'
  | p => .ok p
def Pred.replaceSelf (p : Pred) (other : Expr) : M Pred :=
  match p with
  | .expr e => do let e' ← e.replaceSelf other; if e' = e then pure (.expr e) else mkPred e'
  | p => .ok p

/-! ### events, scopes, patterns, properties -/

/-- `HplSimpleEvent(name, pred, PUBLISH, alias)`: post-init rewrites `@alias` to the message itself -/
def mkSimpleEvent (name : String) (alias : Option String) (p : Pred) : M Event :=
  match alias with
  | some a => if a ≠ "" then do let p' ← p.replaceVar a (.this T.MESSAGE); pure (.simple name alias p')
              else .ok (.simple name alias p)
  | none => .ok (.simple name alias p)

/-- `HplEventDisjunction(e1, e2)`: post-init rejects a channel that appears twice among the flattened alternatives -/
def mkDisj (a b : Event) : M Event :=
  let names := a.names ++ b.names
  if names.Nodup then .ok (.disj a b) else .error .sanity

def ScopeKind.hasActivator : ScopeKind → Bool
  | .after | .afterUntil => true | _ => false
def ScopeKind.hasTerminator : ScopeKind → Bool
  | .until_ | .afterUntil => true | _ => false
def PatternKind.hasTrigger : PatternKind → Bool
  | .requirement | .response | .prevention => true | _ => false
def PatternKind.isSafety : PatternKind → Bool
  | .absence | .requirement | .prevention => true | _ => false
def PatternKind.isLiveness : PatternKind → Bool
  | .existence | .response => true | _ => false

/-- `HplScope(kind, activator, terminator)` -/
def mkScope (k : ScopeKind) (act term : Option Event) : M Scope :=
  if k.hasActivator != act.isSome then .error .value
  else if k.hasTerminator != term.isSome then .error .value
  else .ok ⟨k, act, term⟩

/-- `HplPattern(kind, behaviour, trigger, min, max)` -/
def mkPattern (k : PatternKind) (b : Event) (trig : Option Event) (mn : Rat) (mx : Option Rat) : M Pattern :=
  if k.hasTrigger != trig.isSome then .error .value
  else if mn < 0 then .error .value
  else match mx with
    | some t => if t < mn then .error .value else .ok ⟨k, b, trig, mn, mx⟩
    | none => .ok ⟨k, b, trig, mn, mx⟩

def qerr {α : Type} : Except QErr α → M α
  | .ok a => .ok a
  | .error (.keyError _) => .error .key

/-- `_check_refs_defined` -/
def checkRefsDefined (e : Event) (avail : List String) : M Unit := do
  let refs ← qerr e.externalRefs
  if refs.all (fun r => avail.contains r) then pure () else .error .sanity
/-- `_check_duplicates` -/
def checkDuplicates (aliases avail : List String) : M Unit :=
  if aliases.any (fun a => avail.contains a) then .error .sanity else .ok ()

/-- `_check_activator`: no references allowed; returns the activator's aliases -/
def checkActivator (s : Scope) : M (List String) :=
  match s.activator with
  | some a => do checkRefsDefined a []; pure a.aliases
  | none => pure []
/-- `_check_trigger` / `_check_behaviour` -/
def checkEvent (e : Event) (avail : List String) : M (List String) := do
  checkRefsDefined e avail
  checkDuplicates e.aliases avail
  pure (e.aliases ++ avail)
/-- `_check_terminator` -/
def checkTerminator (s : Scope) (avail : List String) : M Unit :=
  match s.terminator with
  | some q => do checkRefsDefined q avail; checkDuplicates q.aliases avail
  | none => pure ()

/-- the pattern dispatch of `sanity_check` (binding order: trigger before behaviour, reversed for `requires`) -/
def patternCheck (p : Pattern) (initial : List String) : M Unit :=
  match p.kind, p.trigger with
  | .absence, _ | .existence, _ => do let _ ← checkEvent p.behaviour initial; pure ()
  | .requirement, some t => do
      let als ← checkEvent p.behaviour initial
      let _ ← checkEvent t als; pure ()
  | .response, some t | .prevention, some t => do
      let als ← checkEvent t initial
      let _ ← checkEvent p.behaviour als; pure ()
  | _, none => .error (.internal "assert a is not None")

/-- `HplProperty.sanity_check` -/
def sanityCheck (s : Scope) (p : Pattern) : M Unit := do
  let initial ← checkActivator s
  patternCheck p initial
  checkTerminator s initial

/-- `HplProperty(scope, pattern)` (metadata is attached afterwards) -/
def mkProperty (s : Scope) (p : Pattern) (md : List (String × String) := []) : M Property := do
  sanityCheck s p
  pure ⟨s, p, md⟩

end Hpl
