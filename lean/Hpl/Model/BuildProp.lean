import Hpl.Model.Build
/-! Model of the property-level parser callbacks (`PropertyTransformer.event`, `event_disjunction`, scopes, patterns,
    `time_amount`, `metadata`, `hpl_property`, `hpl_file`) on untyped property trees. -/
namespace Hpl

structure RawSimple where
  name : String
  alias : Option String
  pred : Option Raw
deriving Inhabited

/-- an event as written: one simple event, or a flat parenthesised list of ≥ 2 alternatives -/
inductive RawEvent where
  | simple (s : RawSimple)
  | disj (alts : List RawSimple)
deriving Inhabited

inductive TimeUnit | s | ms deriving DecidableEq, Repr, Inhabited

structure RawProperty where
  scopeKind : ScopeKind
  activator : Option RawEvent
  terminator : Option RawEvent
  patternKind : PatternKind
  behaviour : RawEvent
  trigger : Option RawEvent
  /-- `within <number> <unit>`; `none` = no time bound (`max_time = inf`) -/
  maxTime : Option (Rat × TimeUnit)
  metadata : List (String × String)
deriving Inhabited

/-- `PropertyTransformer.event`: a missing predicate is the vacuous truth -/
def buildSimple (s : RawSimple) : M Event := do
  let p ← (match s.pred with
    | none => pure Pred.vtrue
    | some r => do let e ← build r; predFromExpr e)
  mkSimpleEvent s.name s.alias p

/-- `event_disjunction`: right-nested binary disjunctions -/
def nestDisj : List Event → M Event
  | [] => .error (.internal "assert len(children) >= 2")
  | [e] => .ok e
  | [a, b] => mkDisj a b
  | a :: rest => do let r ← nestDisj rest; mkDisj a r

def buildEvent : RawEvent → M Event
  | .simple s => buildSimple s
  | .disj alts => do
      let evs ← alts.mapM buildSimple
      if evs.length < 2 then .error (.internal "assert len(children) >= 2") else nestDisj evs

def buildOptEvent : Option RawEvent → M (Option Event)
  | none => .ok none
  | some e => do let e' ← buildEvent e; pure (some e')

/-- `time_amount`: seconds; `ms` divides by 1000 (exactly here, by float division in the code) -/
def timeSeconds : Rat × TimeUnit → Rat
  | (n, .s) => n
  | (n, .ms) => n / 1000

/-- `metadata`: a repeated key is a syntax error -/
def checkMetadata (md : List (String × String)) : M Unit :=
  if (md.map Prod.fst).Nodup then .ok () else .error .syntax

def buildProperty (r : RawProperty) : M Property := do
  checkMetadata r.metadata
  let act ← buildOptEvent r.activator
  let term ← buildOptEvent r.terminator
  let scope ← mkScope r.scopeKind act term
  -- the grammar puts the first written event first: trigger for response/prevention, behaviour otherwise
  let (beh, trig) ← (match r.patternKind with
    | .response | .prevention => do
        let t ← buildOptEvent r.trigger; let b ← buildEvent r.behaviour; pure (b, t)
    | _ => do
        let b ← buildEvent r.behaviour; let t ← buildOptEvent r.trigger; pure (b, t))
  let pat ← mkPattern r.patternKind beh trig 0 (r.maxTime.map timeSeconds)
  mkProperty scope pat r.metadata

/-- `hpl_file`: one or more properties -/
def buildSpec (rs : List RawProperty) : M (List Property) :=
  if rs.isEmpty then .error .syntax else rs.mapM buildProperty

end Hpl
