import Hpl.Model.Build
/-! Model of `hpl.rewrite.canonical_form` (`_canonical_form_scopes`, `_canonical_form_safety/_liveness`). -/
namespace Hpl

/-- `scope.but(activator=event) for event in scope.activator.simple_events()` for after / after-until scopes -/
def canonicalScopes (s : Scope) : List Scope :=
  match s.kind, s.activator with
  | .after, some a | .afterUntil, some a => a.simpleEvents.map fun e => { s with activator := some e }
  | _, _ => [s]

/-- safety patterns split the behaviour; of the liveness patterns only response is split, on its trigger -/
def canonicalPatterns (p : Pattern) : List Pattern :=
  if p.kind.isSafety then p.behaviour.simpleEvents.map fun e => { p with behaviour := e }
  else match p.kind, p.trigger with
    | .response, some t => t.simpleEvents.map fun e => { p with trigger := some e }
    | _, _ => [p]

/-- `property.but(scope=…, pattern=…)`: a new `HplProperty` (sanity check re-run) carrying a copy of the metadata -/
def butProp (p : Property) (s : Scope) (q : Pattern) : M Property := do
  sanityCheck s q
  pure { p with scope := s, pattern := q }

def canonical (p : Property) : M (List Property) :=
  let scopes := canonicalScopes p.scope
  let pats := canonicalPatterns p.pattern
  if scopes.length = 1 ∧ pats.length = 1 then .ok [p]
  else (scopes.flatMap fun s => pats.map fun q => (s, q)).mapM fun sq => butProp p sq.1 sq.2

/-- the event position that `canonical_form` splits -/
def splitEvent (p : Pattern) : Option Event :=
  if p.kind.isSafety then some p.behaviour
  else match p.kind with | .response => p.trigger | _ => none

end Hpl
