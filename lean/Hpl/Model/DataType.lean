import Hpl.Generated.Tables
/-! Model of `hpl.types.DataType` (`cast`, `can_be`, `union`) over the member values extracted from the code. -/
namespace Hpl
namespace DataType

inductive Err | typeError deriving DecidableEq, Repr

/-- model of `DataType.cast`: `r = self & t; if not r: raise TypeError; return r` -/
def cast (a t : DataType) : Except Err DataType :=
  if a &&& t = 0 then .error .typeError else .ok (a &&& t)
/-- model of `DataType.can_be` -/
def canBe (a t : DataType) : Bool := a &&& t != 0
/-- model of `DataType.union`: fold of `|` starting from `NONE` -/
def union (ts : List DataType) : DataType := ts.foldl (· ||| ·) Gen.NONE

/-- spec vocabulary: membership of the i-th base type, inclusion -/
def mem (i : Nat) (a : DataType) : Prop := a.testBit i = true
def sub (a b : DataType) : Prop := a &&& b = a

end DataType
end Hpl
