import Hpl.Model.Build
import Hpl.Model.Parser
/-!
# Model of `hpl.cli`: exit status and the JSON document of `-o json`

`attrs.asdict(result, value_serializer=_ast_object_serializer)` followed by `json.dumps`: every attrs object becomes an
object with its fields in declaration order, tuples become arrays, enums their values, non-finite floats `null`.
The JSON value type below has no non-finite numbers, so "strictly valid JSON" holds of the model by construction; the
correspondence stream parses the implementation's standard output with a strict parser and compares the values.
-/
namespace Hpl

inductive Json where
  | null
  | bool (b : Bool)
  | int (n : Int)
  | num (q : Rat)            -- a finite float
  | str (s : String)
  | arr (xs : List Json)
  | obj (kvs : List (String × Json))
deriving Inhabited

def Json.ofOptStr : Option String → Json
  | some s => .str s
  | none => .null

def Json.keys : Json → Option (List String)
  | .obj kvs => some (kvs.map (·.1))
  | _ => none

/-- `value_serializer` on a literal value -/
def LitVal.toJson : LitVal → Json
  | .bool b => .bool b
  | .int n => .int n
  | .flt q => .num q
  | .inf | .ninf | .nan => .null
  | .str s => .str s

def emptyMeta : Json := .obj []

def UnDef.toJson (d : UnDef) : Json :=
  .obj [("token", .str d.token), ("parameter", .int d.param), ("result", .int d.res)]

def BinDef.toJson (d : BinDef) : Json :=
  .obj [("token", .str d.token), ("parameter1", .int d.p1), ("parameter2", .int d.p2), ("result", .int d.res),
        ("infix", .bool d.isInfix), ("commutative", .bool d.comm), ("associative", .bool d.assoc)]

def Sig.toJson (s : Sig) : Json :=
  .obj [("parameters", .arr (s.params.map (fun (t : DataType) => Json.int (Int.ofNat t)))), ("result", .int s.res),
        ("variadic", match s.variadic with | some v => .int v | none => .null)]

def FunDef.toJson (d : FunDef) : Json :=
  .obj [("name", .str d.name), ("overloads", .arr (d.overloads.map Sig.toJson))]

def quantValue : Quant → String
  | .all => Gen.ALL_OPERATOR
  | .some => Gen.SOME_OPERATOR

mutual
/-- an operator / function the tables do not know cannot be in an AST (`build` rejects it); `null` marks it -/
def Expr.toJson : Expr → Json
  | .lit t tok v => .obj [("metadata", emptyMeta), ("data_type", .int t), ("token", .str tok), ("value", v.toJson)]
  | .this t => .obj [("metadata", emptyMeta), ("data_type", .int t)]
  | .var t x => .obj [("metadata", emptyMeta), ("data_type", .int t), ("token", .str ("@" ++ x))]
  | .set t vs => .obj [("metadata", emptyMeta), ("data_type", .int t), ("values", .arr (ExprList.toJsons vs))]
  | .range t lo hi a b => .obj [("metadata", emptyMeta), ("data_type", .int t), ("min_value", lo.toJson), ("max_value", hi.toJson),
      ("exclude_min", .bool a), ("exclude_max", .bool b)]
  | .quant t q x d b => .obj [("metadata", emptyMeta), ("data_type", .int t), ("quantifier", .str (quantValue q)), ("variable", .str x),
      ("domain", d.toJson), ("condition", b.toJson)]
  | .un t op a => .obj [("metadata", emptyMeta), ("data_type", .int t),
      ("operator", match findUn op with | some d => d.toJson | none => .null), ("operand", a.toJson)]
  | .bin t op a b => .obj [("metadata", emptyMeta), ("data_type", .int t),
      ("operator", match findBin op with | some d => d.toJson | none => .null), ("operand1", a.toJson), ("operand2", b.toJson)]
  | .call t f as => .obj [("metadata", emptyMeta), ("data_type", .int t),
      ("function", match findFun f with | some d => d.toJson | none => .null), ("arguments", .arr (ExprList.toJsons as))]
  | .field t m n => .obj [("metadata", emptyMeta), ("data_type", .int t), ("message", m.toJson), ("field", .str n)]
  | .index t a i => .obj [("metadata", emptyMeta), ("data_type", .int t), ("array", a.toJson), ("index", i.toJson)]
def ExprList.toJsons : ExprList → List Json
  | .nil => []
  | .cons e es => e.toJson :: ExprList.toJsons es
end

def Pred.toJson : Pred → Json
  | .expr e => .obj [("metadata", emptyMeta), ("expression", e.toJson)]
  | .vtrue | .vfalse => .obj [("metadata", emptyMeta)]

def Event.toJson : Event → Json
  | .simple n a p => .obj [("metadata", emptyMeta), ("name", .str n), ("predicate", p.toJson), ("event_type", .int ((Gen.eventTypeValues.lookup "PUBLISH").getD 0 : Nat)),
      ("alias", Json.ofOptStr a), ("message_type", .null)]
  | .disj a b => .obj [("metadata", emptyMeta), ("event1", a.toJson), ("event2", b.toJson)]

def optEventJson : Option Event → Json
  | some e => e.toJson
  | none => .null

/-- the value the enum member carries now (regenerated table G8; the numbering is an implementation detail of the enum) -/
def scopeTypeValue (k : ScopeKind) : Int := ((Gen.scopeTypeValues.lookup k.pyName).getD 0 : Nat)
def patternTypeValue (k : PatternKind) : Int := ((Gen.patternTypeValues.lookup k.pyName).getD 0 : Nat)

def Scope.toJson (s : Scope) : Json :=
  .obj [("metadata", emptyMeta), ("scope_type", .int (scopeTypeValue s.kind)), ("activator", optEventJson s.activator),
        ("terminator", optEventJson s.terminator)]

def Pattern.toJson (p : Pattern) : Json :=
  .obj [("metadata", emptyMeta), ("pattern_type", .int (patternTypeValue p.kind)), ("behaviour", p.behaviour.toJson),
        ("trigger", optEventJson p.trigger), ("min_time", .num p.minTime),
        ("max_time", match p.maxTime with | some t => .num t | none => .null)]

def Property.toJson (p : Property) : Json :=
  .obj [("metadata", .obj (p.metadata.map (fun kv => (kv.1, Json.str kv.2)))), ("scope", p.scope.toJson), ("pattern", p.pattern.toJson)]

def specToJson (ps : List Property) : Json :=
  .obj [("metadata", emptyMeta), ("properties", .arr (ps.map Property.toJson))]

/-! ### `main(argv)`: exit status and standard output -/

structure CliResult where
  exit : Nat
  json : Option Json          -- the JSON document on standard output, if any

/-- `input = none`: the file could not be read (`Path.resolve(strict=True)` / `read_text` raised) -/
def cliMain (asProperty wantJson : Bool) (input : Option String) : CliResult :=
  match input with
  | none => ⟨1, none⟩
  | some text =>
      let doc : M Json := if asProperty then (parseProperty text).map Property.toJson else (parseSpecification text).map specToJson
      match doc with
      | .ok j => ⟨0, if wantJson then some j else none⟩
      | .error _ => ⟨1, none⟩

end Hpl
