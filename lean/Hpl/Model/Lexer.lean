import Hpl.Model.Ast
/-! Model of lexing (Lark's contextual lexer over `tokens.lark`, after the word-boundary fix): a context-free
    maximal-munch scanner producing words, numbers, strings and punctuation; *the parser* decides in context whether
    a word is a keyword (which is what the contextual lexer amounts to when keywords end at a word boundary). Each token
    records whether it is glued to the previous character (no whitespace) and whether that character is a word character
    (`\b` of a keyword terminal fails right after a digit or letter). Two scanning modes: at property level a word may be a
    channel name (`/`, `~` allowed); inside braces `/` is an operator. -/
namespace Hpl

inductive TokKind where
  | word      -- identifier-like ([A-Za-z_][A-Za-z0-9_]*, or a channel name at property level)
  | var       -- @ident (text = name without @)
  | num       -- NUMBER
  | str       -- ESCAPED_STRING (text includes the quotes)
  | sym       -- punctuation / operator
deriving DecidableEq, Repr, Inhabited

structure Tok where
  kind : TokKind
  text : String
  /-- no whitespace between this token and the previous character -/
  glued : Bool
  /-- the previous character is a word character (letter, digit, underscore) -/
  afterWord : Bool
deriving DecidableEq, Repr, Inhabited

def isWs (c : Char) : Bool := c == ' ' || c == '\t' || c == '\x0c' || c == '\r' || c == '\n'
def isAlphaA (c : Char) : Bool := ('a' ≤ c && c ≤ 'z') || ('A' ≤ c && c ≤ 'Z')
def isDigitA (c : Char) : Bool := '0' ≤ c && c ≤ '9'
def isIdStart (c : Char) : Bool := isAlphaA c || c == '_'
def isIdChar (c : Char) : Bool := isAlphaA c || isDigitA c || c == '_'

def takeWhileC (p : Char → Bool) : List Char → List Char × List Char
  | [] => ([], [])
  | c :: cs => if p c then let (a, b) := takeWhileC p cs; (c :: a, b) else ([], c :: cs)

/-- channel-name continuation: `(/[a-zA-Z][0-9a-zA-Z_]*)*` -/
def chanSegments : Nat → List Char → List Char × List Char
  | 0, cs => ([], cs)
  | f+1, '/' :: c :: cs =>
      if isAlphaA c then
        let (seg, rest) := takeWhileC isIdChar cs
        let (more, rest') := chanSegments f rest
        ('/' :: c :: seg ++ more, rest')
      else ([], '/' :: c :: cs)
  | _, cs => ([], cs)

/-- NUMBER: INT | INT "." INT? EXP? | "." INT EXP? | INT EXP   (EXP = [eE][+-]?INT) -/
def scanExp (cs : List Char) : List Char × List Char :=
  match cs with
  | e :: rest =>
    if e == 'e' || e == 'E' then
      match rest with
      | s :: d :: rest' =>
        if (s == '+' || s == '-') && isDigitA d then
          let (ds, r) := takeWhileC isDigitA rest'
          (e :: s :: d :: ds, r)
        else if isDigitA s then
          let (ds, r) := takeWhileC isDigitA (d :: rest')
          (e :: s :: ds, r)
        else ([], cs)
      | [d] => if isDigitA d then ([e, d], []) else ([], cs)
      | [] => ([], cs)
    else ([], cs)
  | [] => ([], [])

def scanNumber (cs : List Char) : Option (List Char × List Char) :=
  let (ip, r1) := takeWhileC isDigitA cs
  match r1 with
  | '.' :: r2 =>
    let (fp, r3) := takeWhileC isDigitA r2
    if ip.isEmpty && fp.isEmpty then none
    else
      let (ex, r4) := scanExp r3
      some (ip ++ '.' :: fp ++ ex, r4)
  | _ =>
    if ip.isEmpty then none
    else
      let (ex, r4) := scanExp r1
      some (ip ++ ex, r4)

/-- ESCAPED_STRING body after the opening quote: up to the first unescaped quote, no raw newline -/
def scanString : List Char → List Char → Option (List Char × List Char)
  | [], _ => none
  | '"' :: rest, acc => some (acc.reverse ++ ['"'], rest)
  | '\\' :: c :: rest, acc => if c == '\n' then none else scanString rest (c :: '\\' :: acc)
  | '\n' :: _, _ => none
  | c :: rest, acc => scanString rest (c :: acc)

inductive LexErr | unexpectedChar deriving DecidableEq, Repr

/-- the scanner; `depth` = number of open braces (0 = property level) -/
def scan : Nat → List Char → Nat → Bool → Bool → List Tok → Except LexErr (List Tok)
  | 0, _, _, _, _, _ => .error .unexpectedChar
  | f+1, cs, depth, glued, afterWord, acc =>
    match cs with
    | [] => .ok acc.reverse
    | c :: rest =>
      if isWs c then scan f rest depth false false acc
      else
        let mk (k : TokKind) (t : List Char) : Tok := ⟨k, String.ofList t, glued, afterWord⟩
        if c == '@' then
          match rest with
          | d :: _ =>
            if isIdStart d then
              let (w, r) := takeWhileC isIdChar rest
              scan f r depth true true (mk .var w :: acc)
            else .error .unexpectedChar
          | [] => .error .unexpectedChar
        else if c == '"' then
          match scanString rest ['"'] with
          | some (s, r) => scan f r depth true false (mk .str s :: acc)
          | none => .error .unexpectedChar
        else if isDigitA c || (c == '.' && (match rest with | d :: _ => isDigitA d | [] => false)) then
          match scanNumber cs with
          -- `\b` before a following keyword: a number such as `10.` ends in a non-word character
          | some (n, r) => scan f r depth true (n.getLast? != some '.') (mk .num n :: acc)
          | none => .error .unexpectedChar
        else if isIdStart c then
          let (w, r) := takeWhileC isIdChar cs
          if depth == 0 && isAlphaA c then
            let (more, r') := chanSegments (r.length + 1) r
            scan f r' depth true true (mk .word (w ++ more) :: acc)
          else scan f r depth true true (mk .word w :: acc)
        else if depth == 0 && (c == '/' || c == '~') then
          -- a channel name with a leading / or ~
          match rest with
          | d :: _ =>
            if isAlphaA d then
              let (w, r) := takeWhileC isIdChar rest
              let (more, r') := chanSegments (r.length + 1) r
              scan f r' depth true true (mk .word (c :: w ++ more) :: acc)
            else .error .unexpectedChar
          | [] => .error .unexpectedChar
        else
          -- punctuation: maximal munch for ** <= >= != ![ ]!  (after an atom the LALR lookahead sets are merged over all
          -- contexts, so `]!` is taken even where only `]` can follow: `xs[0]!= 3` is a syntax error in Lark too)
          let two : Option (List Char) := match c, rest with
            | '*', '*' :: _ => some ['*', '*']
            | '<', '=' :: _ => some ['<', '=']
            | '>', '=' :: _ => some ['>', '=']
            | '!', '=' :: _ => some ['!', '=']
            | '!', '[' :: _ => some ['!', '[']
            | ']', '!' :: _ => some [']', '!']
            | _, _ => none
          match two with
          | some t => scan f (rest.drop 1) depth true false (mk .sym t :: acc)
          | none =>
            if c == '{' then scan f rest (depth + 1) true false (mk .sym [c] :: acc)
            else if c == '}' then scan f rest (depth - 1) true false (mk .sym [c] :: acc)
            else if "()[],:.#=!<>+-*/".toList.contains c then scan f rest depth true false (mk .sym [c] :: acc)
            else .error .unexpectedChar

def lex (s : String) : Except LexErr (List Tok) :=
  let cs := s.toList
  scan (cs.length + 1) cs 0 false false []

/-- `lex` for the predicate / expression entry points (everything is "inside braces": `/` is division) -/
def lexExpr (s : String) : Except LexErr (List Tok) :=
  let cs := s.toList
  scan (cs.length + 1) cs 1 false false []

end Hpl
