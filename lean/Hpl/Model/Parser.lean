import Hpl.Model.Lexer
import Hpl.Model.BuildProp
/-! Model of parsing: recursive descent over the token list, one function per grammar rule of `predicates.lark` /
    `properties.lark` / `files.lark` (left recursion as loops), producing the untyped trees (`Raw`, `RawProperty`) that
    `build` / `buildProperty` turn into ASTs. Keywords are recognised in context (see `Hpl/Model/Lexer.lean`). -/
namespace Hpl

abbrev PR := Except Unit     -- the only parse failure is a syntax error

def perr {α : Type} : PR α := .error ()

def isSym (t : Tok) (s : String) : Bool := t.kind == .sym && t.text == s
/-- a keyword terminal written `/\bword\b/`: the word exactly, not right after a word character -/
def isKw (t : Tok) (s : String) : Bool := t.kind == .word && t.text == s && !t.afterWord
/-- a plain string terminal (`"True"`, `"s"`, `"id"`, …) -/
def isWordS (t : Tok) (s : String) : Bool := t.kind == .word && t.text == s

def isCName (s : String) : Bool :=
  match s.toList with
  | c :: cs => isIdStart c && cs.all isIdChar
  | [] => false

/-- `[/~]?[a-zA-Z][0-9a-zA-Z_]*(/[a-zA-Z][0-9a-zA-Z_]*)*` -/
def isChannelName (s : String) : Bool :=
  let cs := s.toList
  let cs := match cs with | '/' :: r => r | '~' :: r => r | r => r
  let segs := (String.ofList cs).splitOn "/"
  !segs.isEmpty && segs.all (fun seg => match seg.toList with | c :: r => isAlphaA c && r.all isIdChar | [] => false)

/-- value of a NUMBER token: `int(token)` if it is all digits, else `float(token)` (exact decimal) -/
def pow10 (n : Nat) : Rat := ((10 ^ n : Nat) : Rat)
def decimalValue (s : String) : Option LitVal :=
  let cs := s.toList
  if !cs.isEmpty && cs.all isDigitA then (String.ofList cs).toNat?.map (fun n => LitVal.int n)
  else
    let (mant, ex) := match cs.span (fun c => c != 'e' && c != 'E') with
      | (m, _ :: e) => (m, e)
      | (m, []) => (m, [])
    let (ip, fp) := match mant.span (· != '.') with
      | (i, _ :: f) => (i, f)
      | (i, []) => (i, [])
    let digits := ip ++ fp
    if digits.isEmpty || !digits.all isDigitA then none
    else
      let m : Nat := (String.ofList digits).toNat?.getD 0
      let e : Int := match ex with
        | [] => 0
        | '+' :: r => ((String.ofList r).toNat?.getD 0 : Nat)
        | '-' :: r => -(((String.ofList r).toNat?.getD 0 : Nat) : Int)
        | r => ((String.ofList r).toNat?.getD 0 : Nat)
      let sh : Int := e - (fp.length : Nat)
      let q : Rat := if sh ≥ 0 then (m : Rat) * pow10 sh.toNat else (m : Rat) / pow10 (-sh).toNat
      some (.flt q)

def numberConstant (s : String) : Option LitVal :=
  if s == "INF" then some .inf
  else if s == "NAN" then some .nan
  else if s == "PI" then some (.flt (884279719003555 / 281474976710656))
  else if s == "E" then some (.flt (6121026514868073 / 2251799813685248))
  else none

def relOps : List String := ["=", "!=", "<", "<=", ">", ">="]

mutual
/-- `condition: (condition IF_OPERATOR)? disjunction` -/
def pCondition : Nat → List Tok → PR (Raw × List Tok)
  | 0, _ => perr
  | f+1, ts => do
      let (a, ts) ← pDisjunction f ts
      pCondLoop f a ts
def pCondLoop : Nat → Raw → List Tok → PR (Raw × List Tok)
  | 0, _, _ => perr
  | f+1, a, ts =>
    match ts with
    | t :: rest =>
      if isKw t "implies" || isKw t "iff" then do
        let (b, ts') ← pDisjunction f rest
        pCondLoop f (.bin t.text a b) ts'
      else .ok (a, ts)
    | [] => .ok (a, ts)
def pDisjunction : Nat → List Tok → PR (Raw × List Tok)
  | 0, _ => perr
  | f+1, ts => do
      let (a, ts) ← pConjunction f ts
      pDisjLoop f a ts
def pDisjLoop : Nat → Raw → List Tok → PR (Raw × List Tok)
  | 0, _, _ => perr
  | f+1, a, ts =>
    match ts with
    | t :: rest =>
      if isKw t "or" then do
        let (b, ts') ← pConjunction f rest
        pDisjLoop f (.bin "or" a b) ts'
      else .ok (a, ts)
    | [] => .ok (a, ts)
def pConjunction : Nat → List Tok → PR (Raw × List Tok)
  | 0, _ => perr
  | f+1, ts => do
      let (a, ts) ← pLogic f ts
      pConjLoop f a ts
def pConjLoop : Nat → Raw → List Tok → PR (Raw × List Tok)
  | 0, _, _ => perr
  | f+1, a, ts =>
    match ts with
    | t :: rest =>
      if isKw t "and" then do
        let (b, ts') ← pLogic f rest
        pConjLoop f (.bin "and" a b) ts'
      else .ok (a, ts)
    | [] => .ok (a, ts)
/-- `_logic_expr: negation | quantification | atomic_condition` -/
def pLogic : Nat → List Tok → PR (Raw × List Tok)
  | 0, _ => perr
  | f+1, ts =>
    match ts with
    | t :: rest =>
      if isKw t "not" then do
        let (a, ts') ← pLogic f rest
        pure (.un "not" a, ts')
      else if isKw t "forall" || isKw t "exists" then
        match rest with
        | v :: kin :: rest2 =>
          if v.kind == .word && isCName v.text && isKw kin "in" then do
            let (d, ts2) ← pAtomicValue f rest2
            match ts2 with
            | c :: rest3 =>
              if isSym c ":" then do
                let (b, ts3) ← pLogic f rest3
                pure (.quant (if t.text == "forall" then .all else .some) v.text d b, ts3)
              else perr
            | [] => perr
          else perr
        | _ => perr
      else pAtomicCondition f ts
    | [] => perr
/-- `atomic_condition: expr (RELATIONAL_OPERATOR expr)?` -/
def pAtomicCondition : Nat → List Tok → PR (Raw × List Tok)
  | 0, _ => perr
  | f+1, ts => do
      let (a, ts) ← pExpr f ts
      match ts with
      | t :: rest =>
        if t.kind == .sym && relOps.contains t.text then do
          let (b, ts') ← pExpr f rest
          pure (.bin t.text a b, ts')
        else if isKw t "in" then do
          let (b, ts') ← pExpr f rest
          pure (.bin "in" a b, ts')
        else pure (a, ts)
      | [] => pure (a, ts)
/-- `expr: (expr ADD_OPERATOR)? term` -/
def pExpr : Nat → List Tok → PR (Raw × List Tok)
  | 0, _ => perr
  | f+1, ts => do
      let (a, ts) ← pTerm f ts
      pExprLoop f a ts
def pExprLoop : Nat → Raw → List Tok → PR (Raw × List Tok)
  | 0, _, _ => perr
  | f+1, a, ts =>
    match ts with
    | t :: rest =>
      if isSym t "+" || isSym t "-" then do
        let (b, ts') ← pTerm f rest
        pExprLoop f (.bin t.text a b) ts'
      else .ok (a, ts)
    | [] => .ok (a, ts)
def pTerm : Nat → List Tok → PR (Raw × List Tok)
  | 0, _ => perr
  | f+1, ts => do
      let (a, ts) ← pFactor f ts
      pTermLoop f a ts
def pTermLoop : Nat → Raw → List Tok → PR (Raw × List Tok)
  | 0, _, _ => perr
  | f+1, a, ts =>
    match ts with
    | t :: rest =>
      if isSym t "*" || isSym t "/" then do
        let (b, ts') ← pFactor f rest
        pTermLoop f (.bin t.text a b) ts'
      else .ok (a, ts)
    | [] => .ok (a, ts)
def pFactor : Nat → List Tok → PR (Raw × List Tok)
  | 0, _ => perr
  | f+1, ts => do
      let (a, ts) ← pExponent f ts
      pFactorLoop f a ts
def pFactorLoop : Nat → Raw → List Tok → PR (Raw × List Tok)
  | 0, _, _ => perr
  | f+1, a, ts =>
    match ts with
    | t :: rest =>
      if isSym t "**" then do
        let (b, ts') ← pExponent f rest
        pFactorLoop f (.bin "**" a b) ts'
      else .ok (a, ts)
    | [] => .ok (a, ts)
/-- `_exponent: _atomic_value | negative_number | "(" condition ")"` -/
def pExponent : Nat → List Tok → PR (Raw × List Tok)
  | 0, _ => perr
  | f+1, ts =>
    match ts with
    | t :: rest =>
      if isSym t "-" then do
        let (a, ts') ← pExponent f rest
        pure (.un "-" a, ts')
      else if isSym t "(" then do
        let (a, ts') ← pCondition f rest
        match ts' with
        | c :: rest2 => if isSym c ")" then pure (a, rest2) else perr
        | [] => perr
      else pAtomicValue f ts
    | [] => perr
/-- `_atomic_value` -/
def pAtomicValue : Nat → List Tok → PR (Raw × List Tok)
  | 0, _ => perr
  | f+1, ts =>
    match ts with
    | t :: rest =>
      match t.kind with
      | .str => .ok (.lit t.text (.str t.text), rest)
      | .num => match decimalValue t.text with
          | some v => .ok (.lit t.text v, rest)
          | none => perr
      | .var => pRefTail f (.var t.text) rest
      | .word =>
          if !isCName t.text then perr
          else if t.text == "True" then .ok (.lit "True" (.bool true), rest)
          else if t.text == "False" then .ok (.lit "False" (.bool false), rest)
          else if !t.afterWord && (numberConstant t.text).isSome then
            match numberConstant t.text with
            | some v => .ok (.lit t.text v, rest)
            | none => perr
          else
            match rest with
            | o :: rest2 =>
              if isSym o "(" then do
                -- function_call: CNAME "(" expr ")"
                let (a, ts') ← pExpr f rest2
                match ts' with
                | c :: rest3 => if isSym c ")" then pure (.call t.text (.cons a .nil), rest3) else perr
                | [] => perr
              else pRefTail f (.field .this t.text) rest
            | [] => .ok (.field .this t.text, rest)
      | .sym =>
          if t.text == "{" then do
            -- enum_literal
            let (a, ts') ← pExpr f rest
            pSetTail f [a] ts'
          else if t.text == "[" then pRangeBody f false rest
          else if t.text == "![" then pRangeBody f true rest
          else perr
    | [] => perr
def pSetTail : Nat → List Raw → List Tok → PR (Raw × List Tok)
  | 0, _, _ => perr
  | f+1, acc, ts =>
    match ts with
    | t :: rest =>
      if isSym t "}" then .ok (.set (acc.reverse.foldr (fun e es => RawList.cons e es) .nil), rest)
      else if isSym t "," then do
        let (a, ts') ← pExpr f rest
        pSetTail f (a :: acc) ts'
      else perr
    | [] => perr
/-- `range_literal` after its opening bracket -/
def pRangeBody : Nat → Bool → List Tok → PR (Raw × List Tok)
  | 0, _, _ => perr
  | f+1, exLo, ts => do
      let (lo, ts1) ← pExpr f ts
      match ts1 with
      | t :: rest =>
        if isKw t "to" then do
          let (hi, ts2) ← pExpr f rest
          match ts2 with
          | c :: rest2 =>
            if isSym c "]" then pure (.range lo hi exLo false, rest2)
            else if isSym c "]!" then pure (.range lo hi exLo true, rest2)
            else perr
          | [] => perr
        else perr
      | [] => perr
/-- `_reference` continuation: `.CNAME` and `[expr]` chains -/
def pRefTail : Nat → Raw → List Tok → PR (Raw × List Tok)
  | 0, _, _ => perr
  | f+1, r, ts =>
    match ts with
    | t :: rest =>
      if isSym t "." then
        match rest with
        | n :: rest2 => if n.kind == .word && isCName n.text then pRefTail f (.field r n.text) rest2 else perr
        | [] => perr
      else if isSym t "[" then do
        let (i, ts') ← pExpr f rest
        match ts' with
        | c :: rest2 => if isSym c "]" then pRefTail f (.index r i) rest2 else perr
        | [] => perr
      else .ok (r, ts)
    | [] => .ok (r, ts)
end

def parseFuel (ts : List Tok) : Nat := 20 * ts.length + 20

/-- `hpl_expression: condition` -/
def parseExpressionToks (ts : List Tok) : Except Unit Raw := do
  let (r, rest) ← pCondition (parseFuel ts) ts
  if rest.isEmpty then pure r else .error ()

/-- `hpl_predicate: "{" condition "}"` -/
def pPredicate (ts : List Tok) : PR (Raw × List Tok) :=
  match ts with
  | t :: rest =>
    if isSym t "{" then do
      let (r, ts') ← pCondition (parseFuel ts) rest
      match ts' with
      | c :: rest2 => if isSym c "}" then pure (r, rest2) else perr
      | [] => perr
    else perr
  | [] => perr

def parsePredicateToks (ts : List Tok) : Except Unit Raw := do
  let (r, rest) ← pPredicate ts
  if rest.isEmpty then pure r else .error ()

/-! ### property level -/
/-- `event: channel_name [alias] [hpl_predicate]` -/
def pEvent (ts : List Tok) : PR (RawSimple × List Tok) :=
  match ts with
  | n :: rest =>
    if n.kind == .word && isChannelName n.text then
      let (alias, rest1) : Option String × List Tok := match rest with
        | a :: v :: r => if isKw a "as" && v.kind == .word && isCName v.text then (some v.text, r) else (none, rest)
        | _ => (none, rest)
      -- `as` must be followed by a CNAME
      match rest, alias with
      | a :: _, none => if isKw a "as" then perr else
          (match rest1 with
           | b :: _ => if isSym b "{" then do let (p, r) ← pPredicate rest1; pure (⟨n.text, none, some p⟩, r) else .ok (⟨n.text, none, none⟩, rest1)
           | [] => .ok (⟨n.text, none, none⟩, rest1))
      | _, _ =>
          (match rest1 with
           | b :: _ => if isSym b "{" then do let (p, r) ← pPredicate rest1; pure (⟨n.text, alias, some p⟩, r) else .ok (⟨n.text, alias, none⟩, rest1)
           | [] => .ok (⟨n.text, alias, none⟩, rest1))
    else perr
  | [] => perr

/-- `event_disjunction: "(" (event _KW_OR)+ event ")"` after the opening parenthesis -/
def pDisjTail : Nat → List RawSimple → List Tok → PR (RawEvent × List Tok)
  | 0, _, _ => perr
  | f+1, acc, ts => do
      let (e, ts1) ← pEvent ts
      match ts1 with
      | t :: rest =>
        if isKw t "or" then pDisjTail f (e :: acc) rest
        else if isSym t ")" then
          (if acc.isEmpty then perr else pure (.disj (e :: acc).reverse, rest))
        else perr
      | [] => perr

/-- `_any_event` -/
def pAnyEvent (ts : List Tok) : PR (RawEvent × List Tok) :=
  match ts with
  | t :: rest =>
    if isSym t "(" then pDisjTail (ts.length + 1) [] rest
    else do let (e, r) ← pEvent ts; pure (.simple e, r)
  | [] => perr

/-- `_time_bound: [_KW_WITHIN time_amount]` -/
def pTimeBound (ts : List Tok) : PR (Option (Rat × TimeUnit) × List Tok) :=
  match ts with
  | w :: rest =>
    if isKw w "within" then
      match rest with
      | n :: u :: rest2 =>
        if n.kind == .num then
          match decimalValue n.text with
          | some v =>
            let q : Rat := match v with | .int i => i | .flt q => q | _ => 0
            if isWordS u "ms" then .ok (some (q, .ms), rest2)
            else if isWordS u "s" then .ok (some (q, .s), rest2)
            else perr
          | none => perr
        else perr
      | _ => perr
    else .ok (none, ts)
  | [] => .ok (none, ts)

/-- `metadata: ("#" item)+` -/
def pMetadata : Nat → List (String × String) → List Tok → PR (List (String × String) × List Tok)
  | 0, _, _ => perr
  | f+1, acc, ts =>
    match ts with
    | h :: k :: c :: v :: rest =>
      if isSym h "#" then
        if isSym c ":" then
          if isWordS k "id" && v.kind == .word && isCName v.text then pMetadata f (acc ++ [("id", v.text)]) rest
          else if isWordS k "title" && v.kind == .str then pMetadata f (acc ++ [("title", v.text)]) rest
          else if isWordS k "description" && v.kind == .str then pMetadata f (acc ++ [("description", v.text)]) rest
          else perr
        else perr
      else .ok (acc, ts)
    | h :: _ => if isSym h "#" then perr else .ok (acc, ts)
    | [] => .ok (acc, ts)

/-- `_scope` -/
def pScope (ts : List Tok) : PR (ScopeKind × Option RawEvent × Option RawEvent × List Tok) :=
  match ts with
  | t :: rest =>
    if isKw t "globally" then pure (ScopeKind.global, (none : Option RawEvent), (none : Option RawEvent), rest)
    else if isKw t "after" then do
      let (a, r) ← pAnyEvent rest
      match r with
      | u :: r2 =>
        if isKw u "until" then do
          let (q, r3) ← pAnyEvent r2
          pure (ScopeKind.afterUntil, some a, some q, r3)
        else pure (ScopeKind.after, some a, none, r)
      | [] => pure (ScopeKind.after, some a, none, r)
    else if isKw t "until" then do
      let (q, r) ← pAnyEvent rest
      pure (ScopeKind.until_, none, some q, r)
    else perr
  | [] => perr

/-- `_pattern` (with its optional time bound), given the scope and annotations already read -/
def pPattern (sk : ScopeKind) (act term : Option RawEvent) (md : List (String × String)) (ts : List Tok) : PR (RawProperty × List Tok) :=
  match ts with
  | t :: rest =>
    if isKw t "some" then do
      let (b, r) ← pAnyEvent rest
      let (tb, r) ← pTimeBound r
      pure (⟨sk, act, term, .existence, b, none, tb, md⟩, r)
    else if isKw t "no" then do
      let (b, r) ← pAnyEvent rest
      let (tb, r) ← pTimeBound r
      pure (⟨sk, act, term, .absence, b, none, tb, md⟩, r)
    else do
      let (e1, r) ← pAnyEvent ts
      match r with
      | k :: r2 =>
        if isKw k "causes" then do
          let (e2, r3) ← pAnyEvent r2
          let (tb, r4) ← pTimeBound r3
          pure (⟨sk, act, term, .response, e2, some e1, tb, md⟩, r4)
        else if isKw k "forbids" then do
          let (e2, r3) ← pAnyEvent r2
          let (tb, r4) ← pTimeBound r3
          pure (⟨sk, act, term, .prevention, e2, some e1, tb, md⟩, r4)
        else if isKw k "requires" then do
          let (e2, r3) ← pAnyEvent r2
          let (tb, r4) ← pTimeBound r3
          pure (⟨sk, act, term, .requirement, e1, some e2, tb, md⟩, r4)
        else perr
      | [] => perr
  | [] => perr

/-- `hpl_property: [metadata] _scope ":" _pattern` -/
def pProperty (ts : List Tok) : PR (RawProperty × List Tok) := do
  let (md, ts) ← pMetadata (ts.length + 1) [] ts
  let (sk, act, term, ts) ← pScope ts
  match ts with
  | c :: ts => if !isSym c ":" then perr else pPattern sk act term md ts
  | [] => perr

def parsePropertyToks (ts : List Tok) : Except Unit RawProperty := do
  let (p, rest) ← pProperty ts
  if rest.isEmpty then pure p else .error ()

/-- `hpl_file: hpl_property+` -/
def pFile : Nat → List RawProperty → List Tok → Except Unit (List RawProperty)
  | 0, _, _ => .error ()
  | f+1, acc, ts => do
      let (p, rest) ← pProperty ts
      if rest.isEmpty then pure (acc ++ [p]) else pFile f (acc ++ [p]) rest

def parseFileToks (ts : List Tok) : Except Unit (List RawProperty) := pFile (ts.length + 1) [] ts

/-! ### entry points: text to AST -/
def synErr {α : Type} : M α := .error .syntax

def parseExpression (s : String) : M Expr :=
  match lexExpr s with
  | .error _ => synErr
  | .ok ts => match parseExpressionToks ts with
    | .error _ => synErr
    | .ok r => build r

def parsePredicate (s : String) : M Pred :=
  match lex s with
  | .error _ => synErr
  | .ok ts => match parsePredicateToks ts with
    | .error _ => synErr
    | .ok r => do let e ← build r; predFromExpr e

def parseProperty (s : String) : M Property :=
  match lex s with
  | .error _ => synErr
  | .ok ts => match parsePropertyToks ts with
    | .error _ => synErr
    | .ok r => buildProperty r

def parseSpecification (s : String) : M (List Property) :=
  match lex s with
  | .error _ => synErr
  | .ok ts => match parseFileToks ts with
    | .error _ => synErr
    | .ok rs => buildSpec rs

end Hpl
