import Hpl.Model.Ast
import Hpl.Generated.Tables
/-! Model of `__str__` for expressions, predicates and events (`hpl.ast.expressions/predicates/events`).
    The printed form of an accessor or variable is the key of `_get_reference_table`. -/
namespace Hpl

/-- `op[-1].isalpha()` for the ASCII operator tokens of the tables -/
def lastIsAlpha (s : String) : Bool :=
  match s.toList.getLast? with
  | some c => c.isAlpha
  | none => false

mutual
def Expr.print : Expr → String
  | .lit _ tok _ => tok
  | .this _ => ""
  | .var _ x => "@" ++ x
  | .set _ vs => "{" ++ ExprList.printSep vs ++ "}"
  | .range _ lo hi exLo exHi =>
      (if exLo then "![" else "[") ++ lo.print ++ " to " ++ hi.print ++ (if exHi then "]!" else "]")
  | .quant _ q x d b =>
      "(" ++ (match q with | .all => Gen.ALL_OPERATOR | .some => Gen.SOME_OPERATOR) ++ " " ++ x ++ " in " ++ d.print ++ ": " ++ b.print ++ ")"
  | .un _ op a => "(" ++ (if lastIsAlpha op then op ++ " " else op) ++ a.print ++ ")"
  | .bin _ op a b => "(" ++ a.print ++ " " ++ op ++ " " ++ b.print ++ ")"
  | .call _ f as => f ++ "(" ++ ExprList.printSep as ++ ")"
  | .field _ m n => let s := m.print; if s == "" then n else s ++ "." ++ n
  | .index _ a i => a.print ++ "[" ++ i.print ++ "]"
/-- `', '.join(str(v) for v in values)` -/
def ExprList.printSep : ExprList → String
  | .nil => ""
  | .cons e .nil => e.print
  | .cons e es => e.print ++ ", " ++ ExprList.printSep es
end

def Pred.print : Pred → String
  | .expr e => "{ " ++ e.print ++ " }"
  | .vtrue => "{ True }"
  | .vfalse => "{ False }"

/-- `simple_events()`: flattened alternatives in source order -/
def Event.simpleEvents : Event → List Event
  | e@(.simple ..) => [e]
  | .disj a b => a.simpleEvents ++ b.simpleEvents

def Event.printSimple : Event → String
  | .simple n a p => n ++ (match a with | some a => " as " ++ a | none => "") ++ " " ++ p.print
  | .disj _ _ => ""

def Event.print (e : Event) : String :=
  match e with
  | .simple .. => e.printSimple
  | .disj .. => "(" ++ " or ".intercalate (e.simpleEvents.map Event.printSimple) ++ ")"

end Hpl
