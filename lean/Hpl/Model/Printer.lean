import Hpl.Model.Ast
import Hpl.Generated.Tables
/-! Model of `__str__` for expressions, predicates and events (`hpl.ast.expressions/predicates/events`).
    The printed form of an accessor or variable is the key of `_get_reference_table`. -/
namespace Hpl

/-- `op[-1].isalpha()` for the ASCII operator tokens of the tables -/
def lastIsAlpha (s : String) : Bool :=
  match s.toList.getLast? with
  | some c => c.isAlpha
  | none => false

mutual
def Expr.print : Expr → String
  | .lit _ tok _ => tok
  | .this _ => ""
  | .var _ x => "@" ++ x
  | .set _ vs => "{" ++ ExprList.printSep vs ++ "}"
  | .range _ lo hi exLo exHi =>
      (if exLo then "![" else "[") ++ lo.print ++ " to " ++ hi.print ++ (if exHi then "]!" else "]")
  | .quant _ q x d b =>
      "(" ++ (match q with | .all => Gen.ALL_OPERATOR | .some => Gen.SOME_OPERATOR) ++ " " ++ x ++ " in " ++ d.print ++ ": " ++ b.print ++ ")"
  | .un _ op a => "(" ++ (if lastIsAlpha op then op ++ " " else op) ++ a.print ++ ")"
  | .bin _ op a b => "(" ++ a.print ++ " " ++ op ++ " " ++ b.print ++ ")"
  | .call _ f as => f ++ "(" ++ ExprList.printSep as ++ ")"
  | .field _ m n => let s := m.print; if s == "" then n else s ++ "." ++ n
  | .index _ a i => a.print ++ "[" ++ i.print ++ "]"
/-- `', '.join(str(v) for v in values)` -/
def ExprList.printSep : ExprList → String
  | .nil => ""
  | .cons e .nil => e.print
  | .cons e es => e.print ++ ", " ++ ExprList.printSep es
end

def Pred.print : Pred → String
  | .expr e => "{ " ++ e.print ++ " }"
  | .vtrue => "{ True }"
  | .vfalse => "{ False }"

/-- `simple_events()`: flattened alternatives in source order -/
def Event.simpleEvents : Event → List Event
  | e@(.simple ..) => [e]
  | .disj a b => a.simpleEvents ++ b.simpleEvents

def Event.printSimple : Event → String
  | .simple n a p => n ++ (match a with | some a => " as " ++ a | none => "") ++ " " ++ p.print
  | .disj _ _ => ""

def Event.print (e : Event) : String :=
  match e with
  | .simple .. => e.printSimple
  | .disj .. => "(" ++ " or ".intercalate (e.simpleEvents.map Event.printSimple) ++ ")"

end Hpl

namespace Hpl
/-! ### scopes, patterns, properties, specifications (`__str__` of `hpl.ast.properties` / `specs`) -/

/-- `repr` of a Python float (see `Hpl.floatReprS`): supplied as a parameter so that the printer does not depend on it -/
def Scope.print (s : Scope) : String :=
  match s.kind, s.activator, s.terminator with
  | .global, _, _ => "globally"
  | .after, some a, _ => "after " ++ a.print
  | .until_, _, some q => "until " ++ q.print
  | .afterUntil, some a, some q => "after " ++ a.print ++ " until " ++ q.print
  | .after, none, _ => "after None"
  | .until_, _, none => "until None"
  | .afterUntil, _, _ => "after None until None"

/-- the time bound as printed: milliseconds below one second, seconds otherwise (`fmt` = Python float formatting) -/
def timeSuffix (fmt : Rat → String) : Option Rat → String
  | none => ""
  | some t => if t < 1 then " within " ++ fmt (t * 1000) ++ "ms" else " within " ++ fmt t ++ "s"

def Pattern.print (fmt : Rat → String) (p : Pattern) : String :=
  let t := timeSuffix fmt p.maxTime
  let trig := match p.trigger with | some e => e.print | none => "None"
  match p.kind with
  | .existence => "some " ++ p.behaviour.print ++ t
  | .absence => "no " ++ p.behaviour.print ++ t
  | .response => trig ++ " causes " ++ p.behaviour.print ++ t
  | .requirement => p.behaviour.print ++ " requires " ++ trig ++ t
  | .prevention => trig ++ " forbids " ++ p.behaviour.print ++ t

def Property.print (fmt : Rat → String) (p : Property) : String := p.scope.print ++ ": " ++ p.pattern.print fmt

def printSpec (fmt : Rat → String) (ps : List Property) : String := "\n".intercalate (ps.map (Property.print fmt))

end Hpl
