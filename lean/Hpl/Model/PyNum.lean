import Hpl.Model.Build
/-! Python value semantics needed by the constant folding of `hpl.rewrite.simplify`, on `LitVal`:
    int/float arithmetic (floats as exact rationals — IEEE rounding is not modelled), comparisons, truthiness, `str()`
    of ints, `int()`, `abs`, `floor`, `ceil`. Operations whose Python result the model does not reproduce (anything
    involving `inf`/`nan` beyond comparison and negation, irrational or complex powers, `repr` of a non-terminating
    float, the `math` functions) answer `unmodelled`; the correspondence stream counts and skips those cases. -/
namespace Hpl

def unmodelled {α : Type} : M α := .error (.internal "unmodelled")

def LitVal.isNumber : LitVal → Bool
  | .int _ | .flt _ | .inf | .ninf | .nan => true
  | _ => false

/-- finite numeric value (bools count as 0/1, as in Python) -/
def LitVal.toRat? : LitVal → Option Rat
  | .int n => some n
  | .flt q => some q
  | .bool b => some (if b then 1 else 0)
  | _ => none

def LitVal.isFloat : LitVal → Bool
  | .flt _ | .inf | .ninf | .nan => true
  | _ => false

/-- Python `==` on literal values -/
def pyEq : LitVal → LitVal → Bool
  | .str a, .str b => a == b
  | .str _, _ | _, .str _ => false
  | .nan, _ | _, .nan => false
  | .inf, .inf => true
  | .ninf, .ninf => true
  | a, b => match a.toRat?, b.toRat? with
    | some x, some y => x == y
    | _, _ => false

/-- Python `<` on numbers (and bools) -/
def pyLt : LitVal → LitVal → M Bool
  | .nan, _ | _, .nan => .ok false
  | .str a, .str b => .ok (a < b)
  | .str _, _ | _, .str _ => .error .type
  | .ninf, .ninf => .ok false
  | .ninf, _ => .ok true
  | _, .ninf => .ok false
  | .inf, _ => .ok false
  | _, .inf => .ok true
  | a, b => match a.toRat?, b.toRat? with
    | some x, some y => .ok (x < y)
    | _, _ => .error .type

def isZero (v : LitVal) : Bool := pyEq v (.int 0)
def isOne (v : LitVal) : Bool := pyEq v (.int 1)
def isMinusOne (v : LitVal) : Bool := pyEq v (.int (-1))

/-- result kind of `+ - *`: int when both are ints (bools count as ints) -/
def bothInt : LitVal → LitVal → Bool
  | .int _, .int _ | .int _, .bool _ | .bool _, .int _ | .bool _, .bool _ => true
  | _, _ => false

def mkNumVal (isInt : Bool) (q : Rat) : LitVal := if isInt && q.den == 1 then .int q.num else .flt q

def pyArith (f : Rat → Rat → Rat) (a b : LitVal) : M LitVal :=
  match a.toRat?, b.toRat? with
  | some x, some y => .ok (mkNumVal (bothInt a b) (f x y))
  | _, _ => unmodelled

def pyAdd := pyArith (· + ·)
def pySub := pyArith (· - ·)
def pyMul := pyArith (· * ·)

/-- true division: always a float; the caller has excluded a zero divisor -/
def pyDiv (a b : LitVal) : M LitVal :=
  match a.toRat?, b.toRat? with
  | some x, some y => if y = 0 then .error .zerodiv else .ok (.flt (x / y))
  | _, _ => unmodelled

/-- `**`: integer exponents only (anything else is irrational, complex or an overflow in Python) -/
def pyPow (a b : LitVal) : M LitVal :=
  match a.toRat?, b with
  | some x, .int n =>
      if n ≥ 0 then
        if n > 64 then unmodelled else .ok (mkNumVal (bothInt a b) (x ^ n.toNat))
      else if x = 0 then .error .zerodiv
      else if n < -64 then unmodelled else .ok (.flt ((x ^ (-n).toNat)⁻¹))
  | _, _ => unmodelled

def pyNeg : LitVal → M LitVal
  | .int n => .ok (.int (-n))
  | .flt q => .ok (.flt (-q))
  | .inf => .ok .ninf
  | .ninf => .ok .inf
  | .nan => .ok .nan
  | .bool b => .ok (.int (if b then -1 else 0))
  | .str _ => .error .type

def pyAbs : LitVal → M LitVal
  | .int n => .ok (.int n.natAbs)
  | .flt q => .ok (.flt (if q < 0 then -q else q))
  | .inf | .ninf => .ok .inf
  | .nan => .ok .nan
  | .bool b => .ok (.int (if b then 1 else 0))
  | .str _ => .error .type

def truncRatI (q : Rat) : Int := if 0 ≤ q then q.floor else q.ceil

def isDigitC (c : Char) : Bool := '0' ≤ c && c ≤ '9'
def isOddSpelling (cs : List Char) : Bool := cs.any (fun c => c == '_' || c == ' ' || c == '\t' || c == '\n' || c == 'e' || c == 'E')

/-- `int(s)` on a string value: an optional sign and decimal digits (what `str()` of an int gives). A string literal of the
    text keeps its quotes in `value`, so it is never numeric. Spellings Python also accepts (underscores, surrounding
    whitespace) are not modelled. -/
def pyIntOfStr (s : String) : M Int :=
  let cs := s.toList
  let (neg, ds) : Bool × List Char := match cs with | '-' :: r => (true, r) | '+' :: r => (false, r) | r => (false, r)
  if !ds.isEmpty && ds.all isDigitC then
    match (String.ofList ds).toNat? with
    | some n => .ok (if neg then -(n : Int) else (n : Int))
    | none => unmodelled
  else if isOddSpelling cs then unmodelled
  else .error .value

/-- `float(s)` on a string value: `inf` / `-inf` / `nan`, or sign digits [. digits] (what `str()` of a number gives) -/
def pyFloatOfStr (s : String) : M LitVal :=
  if s == "inf" || s == "+inf" then .ok .inf
  else if s == "-inf" then .ok .ninf
  else if s == "nan" then .ok .nan
  else
    let cs := s.toList
    let (neg, body) : Bool × List Char := match cs with | '-' :: r => (true, r) | '+' :: r => (false, r) | r => (false, r)
    let (ip, fp) : List Char × List Char := match body.span (· != '.') with
      | (i, _ :: f) => (i, f)
      | (i, []) => (i, [])
    let digits := ip ++ fp
    if !digits.isEmpty && digits.all isDigitC then
      match (String.ofList digits).toNat? with
      | some m =>
          let q : Rat := (m : Rat) / ((10 ^ fp.length : Nat) : Rat)
          .ok (.flt (if neg then -q else q))
      | none => unmodelled
    else if isOddSpelling cs then unmodelled
    else .error .value

/-- `int(value)` -/
def pyInt : LitVal → M Int
  | .int n => .ok n
  | .flt q => .ok (truncRatI q)
  | .bool b => .ok (if b then 1 else 0)
  | .str s => pyIntOfStr s
  | .nan => .error .value
  | .inf | .ninf => unmodelled       -- OverflowError

/-- `bool(value)` -/
def pyTruthy : LitVal → Bool
  | .bool b => b
  | .int n => n != 0
  | .flt q => q != 0
  | .str s => s != ""
  | _ => true

/-! ### `str()` of numbers -/
def digitsOf (n : Nat) : String := toString n

/-- decimal expansion of a terminating non-negative rational with `k` fractional digits -/
def fracDigits (num den : Nat) : Nat → List Nat
  | 0 => []
  | k+1 => let r := (num * 10); (r / den) :: fracDigits (r % den) den k

def stripTrailingZeros (ds : List Nat) : List Nat :=
  (ds.reverse.dropWhile (· == 0)).reverse

/-- Python `repr` of a float whose value is a terminating decimal with few digits in [1e-4, 1e16), or 0 -/
def floatRepr (q : Rat) : Option String :=
  let neg := q < 0
  let a := if neg then -q else q
  if a = 0 then some "0.0"
  else if a < (1 : Rat) / 10000 || a ≥ 10000000000000000 then none
  else
    let ip := a.floor.toNat
    let fr := a - (ip : Rat)
    let ds := fracDigits fr.num.toNat fr.den 17
    -- terminating within 17 digits iff re-assembling the digits gives the fraction back
    let approx : Rat := (ds.foldl (fun (acc : Rat × Rat) (d : Nat) => (acc.1 + ((d : Nat) : Rat) * acc.2, acc.2 / 10)) ((0 : Rat), (1 : Rat) / 10)).1
    if approx != fr then none
    else
      let ds' := stripTrailingZeros ds
      let ds'' := if ds'.isEmpty then [0] else ds'
      if (digitsOf ip).length + ds''.length > 16 then none
      else some ((if neg then "-" else "") ++ digitsOf ip ++ "." ++ String.join (ds''.map digitsOf))

/-- `str(value)` for the values `HplLiteral.number` / `.boolean` / `.string` are built from -/
def pyStr : LitVal → M String
  | .int n => .ok (toString n)
  | .bool b => .ok (if b then "True" else "False")
  | .str s => .ok s
  | .inf => .ok "inf"
  | .ninf => .ok "-inf"
  | .nan => .ok "nan"
  | .flt q => match floatRepr q with
      | some s => .ok s
      | none => .ok "<float>"     -- compared by value only (tokens of float literals are canonicalised away)

/-- `HplLiteral.number(v)` -/
def litNumber (v : LitVal) : M Expr := do
  if !v.isNumber && !(match v with | .bool _ => true | _ => false) then .error (.internal "TypeCheckError")
  else do let s ← pyStr v; pure (.lit T.NUMBER s v)

/-- `HplLiteral.boolean(b)` -/
def litBool (b : Bool) : Expr := .lit T.BOOL (if b then "True" else "False") (.bool b)

/-- `HplLiteral.string(s)` -/
def litString (s : String) : Expr := .lit T.STRING s (.str s)

end Hpl
