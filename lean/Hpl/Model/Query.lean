import Hpl.Model.Ast
import Hpl.Model.Printer
/-! Model of the traversal and reference queries of `hpl.ast` (`children`, `iterate`, `external_references`,
    `contains_reference`, `contains_self_reference`, `contains_definition`, `aliases`), written per class exactly as
    the overrides are; and the declarative vocabulary the C15 theorems are stated in (`preorder`, `freeVars`). -/
namespace Hpl

/-! ### spec: pre-order listing, free variables -/
mutual
def Expr.preorder : Expr → List Expr
  | e@(.lit ..) | e@(.this ..) | e@(.var ..) => [e]
  | e@(.set _ vs) => e :: vs.preorder
  | e@(.range _ lo hi _ _) => e :: (lo.preorder ++ hi.preorder)
  | e@(.quant _ _ _ d b) => e :: (d.preorder ++ b.preorder)
  | e@(.un _ _ a) => e :: a.preorder
  | e@(.bin _ _ a b) => e :: (a.preorder ++ b.preorder)
  | e@(.call _ _ as) => e :: as.preorder
  | e@(.field _ m _) => e :: m.preorder
  | e@(.index _ a i) => e :: (a.preorder ++ i.preorder)
def ExprList.preorder : ExprList → List Expr
  | .nil => []
  | .cons e es => e.preorder ++ es.preorder
end

mutual
/-- free `@`-variables: the standard definition -/
def Expr.freeVars : Expr → List String
  | .lit .. | .this .. => []
  | .var _ x => [x]
  | .set _ vs => vs.freeVars
  | .range _ lo hi _ _ => lo.freeVars ++ hi.freeVars
  | .quant _ _ x d b => (d.freeVars ++ b.freeVars).filter (· ≠ x)
  | .un _ _ a => a.freeVars
  | .bin _ _ a b => a.freeVars ++ b.freeVars
  | .call _ _ as => as.freeVars
  | .field _ m _ => m.freeVars
  | .index _ a i => a.freeVars ++ i.freeVars
def ExprList.freeVars : ExprList → List String
  | .nil => []
  | .cons e es => e.freeVars ++ es.freeVars
end

def isVarNamed (a : String) : Expr → Bool | .var _ x => a == x | _ => false
def isThis : Expr → Bool | .this _ => true | _ => false
def bindsName (a : String) : Expr → Bool | .quant _ _ x _ _ => a == x | _ => false

/-! ### model: `iterate()` of base.py — explicit stack, children pushed reversed -/
def iterLoop : Nat → List Expr → List Expr → List Expr
  | 0, _, acc => acc.reverse
  | _, [], acc => acc.reverse
  | fuel+1, obj :: stack, acc => iterLoop fuel (obj.children ++ stack) (obj :: acc)

/-- the real loop has no fuel; the model's fuel is the total size, proved sufficient (C15 `iterate_eq_preorder`) -/
def Expr.iterate (e : Expr) : List Expr := iterLoop (e.size + 1) [e] []

/-! ### model: reference queries, per class -/
inductive QErr | keyError (x : String) deriving DecidableEq, Repr

mutual
/-- `external_references()`: default = union over children(); atomic values: ∅; variable: {name}; unary operator /
    field access: delegate to the single child; quantifier: (dom ∪ body).remove(x) — KeyError if absent -/
def Expr.externalRefs : Expr → Except QErr (List String)
  | .lit .. | .this .. => .ok []
  | .var _ x => .ok [x]
  | .set _ vs => vs.externalRefs
  | .range _ lo hi _ _ => do let a ← lo.externalRefs; let b ← hi.externalRefs; pure (a ++ b)
  | .quant _ _ x d b => do
      let rd ← d.externalRefs; let rb ← b.externalRefs
      let refs := rd ++ rb
      if x ∈ refs then pure (refs.filter (· ≠ x)) else .error (.keyError x)
  | .un _ _ a => a.externalRefs
  | .bin _ _ a b => do let ra ← a.externalRefs; let rb ← b.externalRefs; pure (ra ++ rb)
  | .call _ _ as => as.externalRefs
  | .field _ m _ => m.externalRefs
  | .index _ a i => do let ra ← a.externalRefs; let ri ← i.externalRefs; pure (ra ++ ri)
def ExprList.externalRefs : ExprList → Except QErr (List String)
  | .nil => .ok []
  | .cons e es => do let a ← e.externalRefs; let b ← es.externalRefs; pure (a ++ b)
end

mutual
def Expr.containsRef (a : String) : Expr → Bool
  | .lit .. | .this .. => false
  | .var _ x => a == x
  | .set _ vs => vs.containsRef a
  | .range _ lo hi _ _ => lo.containsRef a || hi.containsRef a
  | .quant _ _ _ d b => d.containsRef a || b.containsRef a
  | .un _ _ e => e.containsRef a
  | .bin _ _ l r => l.containsRef a || r.containsRef a
  | .call _ _ as => as.containsRef a
  | .field _ m _ => m.containsRef a
  | .index _ l i => l.containsRef a || i.containsRef a
def ExprList.containsRef (a : String) : ExprList → Bool
  | .nil => false
  | .cons e es => e.containsRef a || es.containsRef a
end

mutual
def Expr.containsSelf : Expr → Bool
  | .lit .. | .var .. => false
  | .this .. => true
  | .set _ vs => vs.containsSelf
  | .range _ lo hi _ _ => lo.containsSelf || hi.containsSelf
  | .quant _ _ _ d b => d.containsSelf || b.containsSelf
  | .un _ _ e => e.containsSelf
  | .bin _ _ l r => l.containsSelf || r.containsSelf
  | .call _ _ as => as.containsSelf
  | .field _ m _ => m.containsSelf
  | .index _ l i => l.containsSelf || i.containsSelf
def ExprList.containsSelf : ExprList → Bool
  | .nil => false
  | .cons e es => e.containsSelf || es.containsSelf
end

mutual
def Expr.containsDef (a : String) : Expr → Bool
  | .lit .. | .this .. | .var .. => false
  | .set _ vs => vs.containsDef a
  | .range _ lo hi _ _ => lo.containsDef a || hi.containsDef a
  | .quant _ _ x d b => a == x || d.containsDef a || b.containsDef a
  | .un _ _ e => e.containsDef a
  | .bin _ _ l r => l.containsDef a || r.containsDef a
  | .call _ _ as => as.containsDef a
  | .field _ m _ => m.containsDef a
  | .index _ l i => l.containsDef a || i.containsDef a
def ExprList.containsDef (a : String) : ExprList → Bool
  | .nil => false
  | .cons e es => e.containsDef a || es.containsDef a
end

/-! ### predicates -/
/-- `HplPredicate.condition` (vacuous predicates answer with a fresh literal) -/
def Pred.condition : Pred → Expr
  | .expr e => e
  | .vtrue => .lit Gen.BOOL "True" (.bool true)
  | .vfalse => .lit Gen.BOOL "False" (.bool false)

def Pred.externalRefs : Pred → Except QErr (List String)
  | .expr e => e.externalRefs
  | _ => .ok []
def Pred.containsRef (a : String) : Pred → Bool
  | .expr e => e.containsRef a
  | _ => false
def Pred.containsSelf : Pred → Bool
  | .expr e => e.containsSelf
  | _ => false
def Pred.freeVars : Pred → List String
  | .expr e => e.freeVars
  | _ => []

/-- `_some_field_refs` over `_get_reference_table`: some group has a member that is a field access directly on the
    current message, and every member before it in that group also is (the loop `break`s on the first other shape) -/
def isRefNode : Expr → Bool
  | .var .. | .field .. | .index .. => true
  | _ => false
def isOwnField : Expr → Bool
  | .field _ (.this _) _ => true
  | _ => false
/-- the quantifier binding `x` at this point, if any (`binders` of `_collect_references`, innermost first) -/
def lookupBinder (x : String) : List (String × Expr) → Option Expr
  | [] => none
  | (y, q) :: rest => if y == x then some q else lookupBinder x rest

mutual
/-- `_collect_references`: the reference nodes in pre-order, each with the quantifier that binds it when it is an
    occurrence of a quantified variable (the implementation keys by `id(quantifier)`; two structurally equal
    quantifiers give structurally equal occurrence lists, so keying by value decides the same intersections) -/
def Expr.refOccs (scope : List (String × Expr)) : Expr → List (Option Expr × Expr)
  | .lit .. | .this .. => []
  | e@(.var _ x) => [(lookupBinder x scope, e)]
  | .set _ vs => vs.refOccs scope
  | .range _ lo hi _ _ => lo.refOccs scope ++ hi.refOccs scope
  | q@(.quant _ _ x d b) => d.refOccs scope ++ b.refOccs ((x, q) :: scope)
  | .un _ _ a => a.refOccs scope
  | .bin _ _ a b => a.refOccs scope ++ b.refOccs scope
  | .call _ _ as => as.refOccs scope
  | e@(.field _ m _) => (none, e) :: m.refOccs scope
  | e@(.index _ a i) => (none, e) :: (a.refOccs scope ++ i.refOccs scope)
def ExprList.refOccs (scope : List (String × Expr)) : ExprList → List (Option Expr × Expr)
  | .nil => []
  | .cons e es => e.refOccs scope ++ es.refOccs scope
end

/-- two occurrences belong to the same group of the reference table -/
def sameRef (a b : Option Expr × Expr) : Bool := a.1 == b.1 && a.2.print == b.2.print

def Expr.refKeys (e : Expr) : List String := ((e.preorder.filter isRefNode).map Expr.print).eraseDups
def Expr.refGroup (e : Expr) (k : String) : List Expr := (e.preorder.filter isRefNode).filter (fun r => r.print == k)
/-- the check passes iff the first member of some group is an own-field access -/
def Expr.someFieldRefs (e : Expr) : Bool :=
  e.refKeys.any (fun k => match e.refGroup k with | r :: _ => isOwnField r | [] => false)

/-! ### events -/
def Event.aliases : Event → List String
  | .simple _ (some a) _ => [a]
  | .simple _ none _ => []
  | .disj a b => a.aliases ++ b.aliases

/-- `HplSimpleEvent.external_references`: predicate's, minus the own alias (if it is truthy, i.e. non-empty) -/
def Event.externalRefs : Event → Except QErr (List String)
  | .simple _ a p => do
      let refs ← p.externalRefs
      match a with
      | some a => if a ≠ "" then pure (refs.filter (· ≠ a)) else pure refs
      | none => pure refs
  | .disj a b => do let ra ← a.externalRefs; let rb ← b.externalRefs; pure (ra ++ rb)

def Event.containsRef (x : String) : Event → Bool
  | .simple _ _ p => p.containsRef x
  | .disj a b => a.containsRef x || b.containsRef x

/-- `contains_self_reference` of events: predicate's, or (alias and predicate mentions the alias) -/
def Event.containsSelf : Event → Bool
  | .simple _ a p => p.containsSelf || (match a with | some a => a ≠ "" && p.containsRef a | none => false)
  | .disj a b => a.containsSelf || b.containsSelf

/-- spec: free references of an event = free variables of its alternatives' predicates minus each one's own alias -/
def Event.freeRefs : Event → List String
  | .simple _ a p => match a with
      | some a => p.freeVars.filter (· ≠ a)
      | none => p.freeVars
  | .disj a b => a.freeRefs ++ b.freeRefs

def Event.names : Event → List String
  | .simple n _ _ => [n]
  | .disj a b => a.names ++ b.names

def Event.isDisj : Event → Bool
  | .disj .. => true
  | _ => false

end Hpl

namespace Hpl
/-! ### `iterate()` on properties, scopes, patterns, events and predicates (the same loop of `base.py` over `children()`) -/

inductive Node where
  | prop (p : Property) | scope (s : Scope) | pattern (p : Pattern) | event (e : Event) | pred (p : Pred) | expr (e : Expr)
deriving Inhabited

def optL {α : Type} : Option α → List α
  | some a => [a]
  | none => []

/-- `children()` per class, in source order -/
def Node.children : Node → List Node
  | .prop p => [.scope p.scope, .pattern p.pattern]
  | .scope s => (optL s.activator ++ optL s.terminator).map .event
  | .pattern p => (optL p.trigger ++ [p.behaviour]).map .event
  | .event (.simple _ _ p) => [.pred p]
  | .event (.disj a b) => [.event a, .event b]
  | .pred (.expr e) => [.expr e]
  | .pred _ => []
  | .expr e => e.children.map .expr

def Event.nsize : Event → Nat
  | .simple _ _ p => 2 + (match p with | .expr e => e.size | _ => 0)
  | .disj a b => 1 + a.nsize + b.nsize

def Node.size : Node → Nat
  | .prop p => 3 + ((optL p.scope.activator ++ optL p.scope.terminator).map Event.nsize).sum + ((optL p.pattern.trigger ++ [p.pattern.behaviour]).map Event.nsize).sum
  | .scope s => 1 + ((optL s.activator ++ optL s.terminator).map Event.nsize).sum
  | .pattern p => 1 + ((optL p.trigger ++ [p.behaviour]).map Event.nsize).sum
  | .event e => e.nsize
  | .pred p => 1 + (match p with | .expr e => e.size | _ => 0)
  | .expr e => e.size

def nodeIterLoop : Nat → List Node → List Node → List Node
  | 0, _, acc => acc.reverse
  | _, [], acc => acc.reverse
  | fuel+1, obj :: stack, acc => nodeIterLoop fuel (obj.children ++ stack) (obj :: acc)

/-- `obj.iterate()` for any AST object below a property -/
def Node.iterate (n : Node) : List Node := nodeIterLoop (n.size + 1) [n] []

/-- a short tag per visited node (what the correspondence compares) -/
def Node.tag : Node → String
  | .prop _ => "property" | .scope _ => "scope" | .pattern _ => "pattern"
  | .event (.simple ..) => "simple_event" | .event (.disj ..) => "disjunction"
  | .pred (.expr _) => "predicate" | .pred .vtrue => "true" | .pred .vfalse => "false"
  | .expr (.lit ..) => "lit" | .expr (.this ..) => "this" | .expr (.var ..) => "var" | .expr (.set ..) => "set" | .expr (.range ..) => "range"
  | .expr (.quant ..) => "quant" | .expr (.un ..) => "un" | .expr (.bin ..) => "bin" | .expr (.call ..) => "call"
  | .expr (.field ..) => "field" | .expr (.index ..) => "index"

end Hpl
