import Hpl.Model.Rewrite.Split
/-! Model of `hpl.rewrite.refactor_reference` (`_refactor_ref_pred`, `_refactor_ref_expr`, `_split_ref_quantifier`,
    `_split_ref_operator`, `_split_ref_negation`), of the predicate combinators `negate` / `join`, and of
    `replace_this_with_var` / `replace_var_with_this`. -/
namespace Hpl

def Expr.isValueKind : Expr → Bool
  | .lit .. | .this .. | .var .. | .set .. | .range .. => true
  | _ => false
def Expr.isAccessor : Expr → Bool
  | .field .. | .index .. => true
  | _ => false
def Expr.isCall : Expr → Bool
  | .call .. => true
  | _ => false

/-- the universal-quantifier case of `_split_ref_quantifier`, on the (possibly De-Morganed) body `a and b` -/
def refQuantAnd (alias x : String) (quant d a b : Expr) : M (Expr × Expr) := do
  let ra := a.containsRef alias
  let rb := b.containsRef alias
  if ra && !rb then do
    let qa ← splitHalf x d a; let qb ← splitHalf x d b; pure (qb, qa)
  else if rb && !ra then do
    let qa ← splitHalf x d a; let qb ← splitHalf x d b; pure (qa, qb)
  else if ra && rb then pure (trueLit, quant)
  else .error (.internal "assert a and b")

/-- `_split_ref_quantifier` -/
def refQuant (alias : String) (quant : Expr) : M (Expr × Expr) :=
  match quant with
  | .quant _ q x d body =>
    if d.containsRef alias then .ok (trueLit, quant)
    else if !body.containsRef alias then .error (.internal "assert expr.contains_reference(alias)")
    else match q with
      | .all =>
        match body with
        | .un _ op (.bin _ op2 a b) =>
            if op == Gen.NOT_OPERATOR && op2 == Gen.OR_OPERATOR then do
              let na ← mkNot a; let nb ← mkNot b
              let e ← mkAnd na nb
              match e with
              | .bin _ _ a' b' => refQuantAnd alias x quant d a' b'
              | _ => .error (.internal "And did not return a binary operator")
            else .ok (trueLit, quant)
        | .bin _ op a b => if op == Gen.AND_OPERATOR then refQuantAnd alias x quant d a b else .ok (trueLit, quant)
        | _ => .ok (trueLit, quant)
      | .some => .ok (trueLit, quant)
  | _ => .error (.internal "not a quantifier")

/-- `_split_ref_operator` on a conjunction -/
def refAnd (alias : String) (op a b : Expr) : M (Expr × Expr) :=
  let ra := a.containsRef alias
  let rb := b.containsRef alias
  if ra && !rb then .ok (b, a)
  else if rb && !ra then .ok (a, b)
  else if ra && rb then .ok (trueLit, op)
  else .error (.internal "assert a and b")

mutual
/-- `_refactor_ref_expr` -/
def refExpr (alias : String) : Nat → Expr → M (Expr × Expr)
  | 0, _ => .error (.internal "fuel")
  | f+1, e =>
    if !e.containsRef alias then .ok (e, trueLit)
    else if e.ty &&& T.BOOL = 0 then .ok (trueLit, e)
    else if e.isValueKind || e.isAccessor || e.isCall then .ok (trueLit, e)
    else match e with
      | .quant .. => refQuant alias e
      | .un _ op a => if op == Gen.NOT_OPERATOR then refNeg alias f e a else .error (.internal "assert op.operator.is_not")
      | .bin _ op a b => if op == Gen.AND_OPERATOR then refAnd alias e a b else .ok (trueLit, e)
      | _ => .error (.type)
/-- `_split_ref_negation` (`neg` is the whole negation, `e` its operand) -/
def refNeg (alias : String) : Nat → Expr → Expr → M (Expr × Expr)
  | 0, _, _ => .error (.internal "fuel")
  | f+1, neg, e =>
    if !(e.ty &&& T.BOOL ≠ 0 && e.containsRef alias) then .error (.internal "assert expr.can_be_bool and expr.contains_reference(alias)")
    else if e.isValueKind || e.isAccessor || e.isCall then .ok (trueLit, neg)
    else match e with
      | .quant _ .some x d p => do
          let np ← mkNot p
          if np.containsRef x then do let q ← mkForall x d np; refQuant alias q
          else .error (.internal "assert p.contains_reference(expr.variable)")
      | .quant _ .all _ _ _ => .ok (trueLit, neg)
      | .un _ op a => if op == Gen.NOT_OPERATOR then refExpr alias f a else .ok (trueLit, neg)
      | .bin _ op a b =>
          if op == Gen.IMPLIES_OPERATOR then do
            let nb ← mkNot b; let c ← mkAnd a nb
            match c with
            | .bin _ _ a' b' => refAnd alias c a' b'
            | _ => .error (.internal "And did not return a binary operator")
          else if op == Gen.OR_OPERATOR then do
            let na ← mkNot a; let nb ← mkNot b; let c ← mkAnd na nb
            match c with
            | .bin _ _ a' b' => refAnd alias c a' b'
            | _ => .error (.internal "And did not return a binary operator")
          else .ok (trueLit, neg)
      | _ => .error .type
end

/-- `refactor_reference(expression, alias)` -/
def refactorExpr (e : Expr) (alias : String) : M (Expr × Expr) := refExpr alias (e.size + 1) e

/-- `refactor_reference(predicate, alias)` -/
def refactorPred (p : Pred) (alias : String) : M (Pred × Pred) :=
  match p with
  | .expr e => do
      let (e1, e2) ← refactorExpr e alias
      let p1 ← predFromExpr e1
      let p2 ← predFromExpr e2
      pure (p1, p2)
  | p => .ok (p, .vtrue)

/-! ### predicate combinators -/
/-- `HplPredicate.negate` -/
def Pred.negate : Pred → M Pred
  | .expr e => match e with
      | .un _ op a => if op == Gen.NOT_OPERATOR then mkPred a else do let n ← mkNot e; mkPred n
      | _ => do let n ← mkNot e; mkPred n
  | .vtrue => .ok .vfalse
  | .vfalse => .ok .vtrue

/-- `HplPredicate.join` -/
def Pred.join : Pred → Pred → M Pred
  | .expr e, .expr e' => do let c ← mkAnd e e'; mkPred c
  | .expr e, .vtrue => .ok (.expr e)
  | .expr _, .vfalse => .ok .vfalse
  | .vtrue, other => .ok other
  | .vfalse, _ => .ok .vfalse

/-! ### `replace_this_with_var` / `replace_var_with_this` -/
def replaceThisWithVarE (e : Expr) (alias : String) : M Expr := e.replaceSelf (.var T.ITEM alias)
def replaceVarWithThisE (e : Expr) (alias : String) : M Expr := e.replaceVar alias (.this T.MESSAGE)
def replaceThisWithVarP (p : Pred) (alias : String) : M Pred := p.replaceSelf (.var T.ITEM alias)
def replaceVarWithThisP (p : Pred) (alias : String) : M Pred := p.replaceVar alias (.this T.MESSAGE)

end Hpl
