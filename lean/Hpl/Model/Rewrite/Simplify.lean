import Hpl.Model.PyNum
import Hpl.Model.Rewrite.Split
/-! Model of `hpl.rewrite.simplify` (`_simplify` and all its rule functions, as written after the `fix:` commits of
    /repo). Every new node is built through the smart constructors. The Python recursion re-enters `_simplify` on
    newly built terms, so the model carries explicit fuel. Where the code takes `list(set(...))` (arbitrary order) the
    model keeps first-occurrence order; outputs are compared modulo that order. -/
namespace Hpl

def baseObject : Expr → Expr
  | .field _ m _ => baseObject m
  | .index _ a _ => baseObject a
  | e => e

/-- `is_self_or_field(expr, deep=True)` -/
def isSelfOrField : Expr → Bool
  | .un _ _ a => isSelfOrField a
  | .call _ _ (.cons a .nil) => isSelfOrField a
  | e@(.field ..) => isThis (baseObject e)
  | e@(.index ..) => isThis (baseObject e)
  | .this _ => true
  | _ => false

def isLit : Expr → Bool | .lit .. => true | _ => false
def litVal? : Expr → Option LitVal | .lit _ _ v => some v | _ => none
/-- `is_number_literal` -/
def numLit? : Expr → Option LitVal
  | .lit t _ v => if t &&& T.NUMBER ≠ 0 then some v else none
  | _ => none
def isNegNumber : Expr → Bool | .un _ op _ => op == "-" | _ => false

def mkMinus (a : Expr) : M Expr := mkUn "-" a
def mkAdd (a b : Expr) : M Expr := mkBin "+" a b
def mkMul (a b : Expr) : M Expr := mkBin "*" a b

/-- `_obvious_negatives` -/
def obviousNegatives (a b : Expr) : Bool :=
  match a with
  | .un _ op x => if op == Gen.NOT_OPERATOR || op == "-" then x == b
                  else (match b with | .un _ op2 y => (op2 == Gen.NOT_OPERATOR || op2 == "-") && y == a | _ => false)
  | _ => match b with
    | .un _ op2 y => (op2 == Gen.NOT_OPERATOR || op2 == "-") && y == a
    | _ => false

/-- `_obviously_different` -/
def obviouslyDifferent (a b : Expr) : Bool :=
  match a with
  | .un _ op x =>
      if op == Gen.NOT_OPERATOR then x == b
      else (match b with | .un _ op2 y => op2 == Gen.NOT_OPERATOR && y == a | _ => false)
  | .bin _ op x k =>
      (match b with | .un _ op2 y => op2 == Gen.NOT_OPERATOR && y == a | _ => false) ||
      ((op == "+" || op == "-") && x == b && (match k with | .lit _ _ v => !isZero v | _ => false))
  | _ => match b with
    | .un _ op2 y => op2 == Gen.NOT_OPERATOR && y == a
    | _ => false

/-- `get_conjuncts` / `get_disjuncts`: explicit stack, `operand2` is popped first -/
def flattenOp (op : String) : Nat → List Expr → List Expr → List Expr
  | 0, _, acc => acc
  | _, [], acc => acc
  | f+1, e :: stack, acc =>
    match e with
    | .bin _ o a b => if o == op then flattenOp op f (b :: a :: stack) acc else flattenOp op f stack (acc ++ [e])
    | _ => flattenOp op f stack (acc ++ [e])
def getJuncts (op : String) (e : Expr) : List Expr := flattenOp op (2 * e.size + 2) [e] []

def dedupe (es : List Expr) : List Expr := es.eraseDups

/-- `psi = Op(c[0], c[1]); for i in 2..: psi = Op(c[i], psi)` -/
def chain (mk : Expr → Expr → M Expr) : List Expr → M Expr
  | [] => .error (.internal "IndexError")
  | [c] => .ok c
  | c0 :: c1 :: rest => do
      let psi ← mk c0 c1
      rest.foldlM (fun acc c => mk c acc) psi

/-- the shared tail of `_simplify_conjunction` / `_simplify_disjunction` after the unit / idempotence / complement tests -/
def dedupeJuncts (op : String) (mk : Expr → Expr → M Expr) (phi p q : Expr) : M Expr :=
  let js := getJuncts op p ++ getJuncts op q
  let u := dedupe js
  if js.length != u.length then
    (if u.length == 1 then .ok (js.headD phi) else chain mk u)
  else mk p q

/-- `_simplify_conjunction` (operands already simplified) -/
def simpConjunction (phi p q : Expr) : M Expr :=
  if isFalseLit p then .ok p
  else if isFalseLit q then .ok q
  else if isTrueLit p then .ok q
  else if isTrueLit q then .ok p
  else if p == q then .ok p
  else if obviouslyDifferent p q then .ok falseLit
  else dedupeJuncts Gen.AND_OPERATOR mkAnd phi p q

/-- `_simplify_disjunction` -/
def simpDisjunction (phi p q : Expr) : M Expr :=
  if isTrueLit p then .ok p
  else if isTrueLit q then .ok q
  else if isFalseLit p then .ok q
  else if isFalseLit q then .ok p
  else if p == q then .ok p
  else if obviouslyDifferent p q then .ok trueLit
  else dedupeJuncts Gen.OR_OPERATOR mkOr phi p q

/-- `_simplify_comparison` -/
def simpComparison (phi : Expr) (op : String) (a b : Expr) : M Expr :=
  match litVal? a, litVal? b with
  | some x, some y =>
      if op == "=" then .ok (litBool (pyEq x y))
      else if op == "<" then do let r ← pyLt x y; pure (litBool r)
      else if op == "<=" then do let r ← pyLt y x; pure (litBool (!r && !(x matches .nan) && !(y matches .nan)))
      else if op == ">" then do let r ← pyLt y x; pure (litBool r)
      else if op == ">=" then do let r ← pyLt x y; pure (litBool (!r && !(x matches .nan) && !(y matches .nan)))
      else .ok (litBool (!pyEq x y))
  | _, _ =>
      if obviouslyDifferent a b then
        (if op == "=" then .ok falseLit else if op == "!=" then .ok trueLit else .ok phi)
      else .ok phi

/-- `_simplify_addition` -/
def simpAddition (expr a b : Expr) : M Expr :=
  match litVal? b with
  | some y =>
      if isZero y then .ok a
      else (match litVal? a with
        | some x => if isZero x then .ok b else do let v ← pyAdd x y; litNumber v
        | none => if obviousNegatives a b then litNumber (.int 0) else .ok expr)
  | none => if obviousNegatives a b then litNumber (.int 0) else .ok expr

/-- `_simplify_subtraction` -/
def simpSubtraction (expr a b : Expr) : M Expr :=
  let rest : M Expr :=
    if a == b then litNumber (.int 0)
    else match b with
      | .un _ op x => if op == "-" then do let e ← mkAdd a x; (match e with | .bin _ _ a' b' => simpAddition e a' b' | _ => .ok e) else .ok expr
      | _ => .ok expr
  match litVal? b with
  | some y =>
      if isZero y then .ok a
      else (match litVal? a with
        | some x => do let v ← pySub x y; litNumber v
        | none => rest)
  | none => rest

/-- `_simplify_division` -/
def simpDivision (expr a b : Expr) : M Expr :=
  let rest : M Expr :=
    if a == b then litNumber (.int 1)
    else if obviousNegatives a b then litNumber (.int (-1))
    else .ok expr
  match litVal? b with
  | some y =>
      if isZero y then .error .zerodiv
      else if isOne y then .ok a
      else (match litVal? a with
        | some x => if isZero x then .ok a else do let v ← pyDiv x y; litNumber v
        | none => rest)
  | none => rest

/-- `_simplify_exponentiation` -/
def simpExponentiation (expr a b : Expr) : M Expr :=
  match litVal? b with
  | some y =>
      if isOne y then .ok a
      else if isZero y then litNumber (.int 1)
      else (match litVal? a with
        | some x => if isOne x || isZero x then .ok a else do let v ← pyPow x y; litNumber v
        | none => .ok expr)
  | none => .ok expr

def isDivision : Expr → Option (Expr × Expr) | .bin _ op x y => if op == "/" then some (x, y) else none | _ => none

/-- integers of a literal range as the code enumerates them: `range(int(lo) + exLo, int(hi) + (0 if exHi else 1))` -/
def rangeBounds (lo hi : LitVal) (exLo exHi : Bool) : M (Int × Int) := do
  let l ← pyInt lo; let h ← pyInt hi
  pure (l + (if exLo then 1 else 0), h + (if exHi then 0 else 1))

def intRange (lb ub : Int) : List Int := (List.range (ub - lb).toNat).map (fun (i : Nat) => lb + Int.ofNat i)

def distinctVals (vs : List LitVal) : List LitVal :=
  vs.foldl (fun acc v => if acc.any (pyEq v) then acc else acc ++ [v]) []

def litVals? : ExprList → Option (List LitVal)
  | .nil => some []
  | .cons e es => match litVal? e, litVals? es with
    | some v, some vs => some (v :: vs)
    | _, _ => none

def numLitVals? : ExprList → Option (List LitVal)
  | .nil => some []
  | .cons e es => match numLit? e, numLitVals? es with
    | some v, some vs => some (v :: vs)
    | _, _ => none

def sumVals (vs : List LitVal) : M LitVal := vs.foldlM pyAdd (.int 0)
def prodVals (vs : List LitVal) : M LitVal := vs.foldlM pyMul (.int 1)

def maxVal (vs : List LitVal) : M LitVal :=
  match vs with
  | [] => .error (.internal "max of nothing")
  | v :: rest => rest.foldlM (fun acc x => do let lt ← pyLt acc x; pure (if lt then x else acc)) v
def minVal (vs : List LitVal) : M LitVal :=
  match vs with
  | [] => .error (.internal "min of nothing")
  | v :: rest => rest.foldlM (fun acc x => do let lt ← pyLt x acc; pure (if lt then x else acc)) v

/-- split `values` into non-literals and number-literal values (`_simplify_function_max/min`) -/
def splitLits : List Expr → List Expr × List LitVal
  | [] => ([], [])
  | e :: es =>
    let (vs, ls) := splitLits es
    match numLit? e with
    | some v => (vs, v :: ls)
    | none => (e :: vs, ls)

/-- `_simplify_function_max/min` on a list of values: fold the number literals (when there are at least two) -/
def foldMinMax (call : Expr) (fn : String) (isMax : Bool) (values : List Expr) : M Expr :=
  let (vars, lits) := splitLits values
  if lits.length < 2 then pure call
  else do
    let m ← (if isMax then maxVal lits else minVal lits)
    let n ← litNumber m
    if vars.isEmpty then pure n else mkCall fn (ExprList.ofList (vars ++ [n]))

def opaqueFuns : List String := ["sqrt", "sin", "cos", "tan", "asin", "acos", "atan", "deg", "rad"]

/-- the operands of `z` when it is an application of `op` -/
def sameOp (op : String) : Expr → Option (Expr × Expr)
  | .bin _ o p q => if o == op then some (p, q) else none
  | _ => none

/-- the re-association step of `_pre_simplify_binop` for an associative (and commutative) operator; `sb` is the recursive
    call `_simplify_binary_operator` on the regrouped operands -/
def reassoc (op : String) (sb : Expr → M Expr) (a b : Expr) : M Expr :=
  match sameOp op a, sameOp op b with
  | some (a1, a2), some (b1, b2) => do
      -- first swap: a literal on the right of the left operand goes to the far right
      let (a1, a2, b1, b2, a, b) ← (if isLit a2 then do
          let na ← mkBin op a1 b1
          let a' ← sb na
          let nb ← mkBin op b2 a2
          let b' ← sb nb
          pure (a1, b1, b2, a2, a', b')
        else pure (a1, a2, b1, b2, a, b))
      -- second swap: a self reference heading the right operand goes to the far left
      if isSelfOrField b1 then do
        let na ← mkBin op b1 a1
        let a' ← sb na
        let nb ← mkBin op a2 b2
        let b' ← sb nb
        mkBin op a' b'
      else mkBin op a b
  | some (a1, a2), none =>
      if isLit a2 then do
        let na ← mkBin op a1 b
        let a' ← sb na
        mkBin op a' a2
      else mkBin op a b
  | none, some (b1, b2) =>
      if isSelfOrField b1 then do
        let nb ← mkBin op a b2
        let b' ← sb nb
        mkBin op b1 b'
      else mkBin op a b
  | none, none => mkBin op a b

mutual
/-- `_simplify` -/
def simp : Nat → Expr → M Expr
  | 0, _ => .error (.internal "fuel")
  | f+1, e =>
    match e with
    | .un _ op a =>
        if op == Gen.NOT_OPERATOR then do
          -- _simplify_negation
          let p ← simp f a
          if isTrueLit p then pure falseLit
          else if isFalseLit p then pure trueLit
          else match p with
            | .un _ op2 x => if op2 == Gen.NOT_OPERATOR then pure x else mkNot p
            | _ => mkNot p
        else if op == "-" then simpNeg f e a
        else .ok e
    | .bin _ _ _ _ => simpBinop f e
    | .call _ fn args => simpCall f e fn args
    | .set _ vs => do
        let vs' ← simpList f vs
        let l := vs'.toList
        let u := dedupe l
        if u.length != l.length then mkSet (ExprList.ofList u)
        else mkSet vs'
    | .range _ lo hi a b => do
        let lo' ← simp f lo; let hi' ← simp f hi
        mkRange lo' hi' a b
    | _ => .ok e
def simpList : Nat → ExprList → M ExprList
  | 0, _ => .error (.internal "fuel")
  | _, .nil => .ok .nil
  | f+1, .cons e es => do let e' ← simp f e; let es' ← simpList f es; pure (.cons e' es')
/-- `_simplify_negative_number` (`expr` is the whole `-a`) -/
def simpNeg : Nat → Expr → Expr → M Expr
  | 0, _, _ => .error (.internal "fuel")
  | f+1, _, a => do
    let a' ← simp f a
    match numLit? a' with
    | some v => do let n ← pyNeg v; litNumber n
    | none =>
      match a' with
      | .un _ op x => if op == "-" then pure x else mkMinus a'
      | _ => mkMinus a'
/-- `_simplify_binary_operator` -/
def simpBinop : Nat → Expr → M Expr
  | 0, _ => .error (.internal "fuel")
  | f+1, e => do
    let e' ← preBinop f e
    match e' with
    | .bin _ op a b =>
        if op == Gen.AND_OPERATOR then simpConjunction e' a b
        else if op == Gen.OR_OPERATOR then simpDisjunction e' a b
        else if op == Gen.IMPLIES_OPERATOR then
          (if a == b then pure trueLit else do let na ← mkNot a; let d ← mkOr na b; simp f d)
        else if op == Gen.IFF_OPERATOR then
          (if a == b then pure trueLit
           else if obviouslyDifferent a b then pure falseLit
           else do
             let i1 ← mkImplies a b; let i2 ← mkImplies b a
             let c ← mkAnd i1 i2
             simp f c)
        else if op == "=" || op == "!=" || op == "<" || op == "<=" || op == ">" || op == ">=" then simpComparison e' op a b
        else if op == "+" then simpAddition e' a b
        else if op == "-" then simpSubtraction e' a b
        else if op == "*" then simpMultiplication f e' a b
        else if op == "/" then simpDivision e' a b
        else if op == "**" then simpExponentiation e' a b
        else pure e'
    | _ => .error (.internal "_pre_simplify_binop did not return a binary operator")
/-- `_simplify_multiplication` -/
def simpMultiplication : Nat → Expr → Expr → Expr → M Expr
  | 0, _, _, _ => .error (.internal "fuel")
  | f+1, expr, a, b =>
    let divRules : M Expr :=
      match isDivision a with
      | some (x, y) => if y == b then .ok x else
          (match isDivision b with | some (x', y') => if y' == a then .ok x' else .ok expr | none => .ok expr)
      | none => match isDivision b with | some (x', y') => if y' == a then .ok x' else .ok expr | none => .ok expr
    match litVal? b with
    | some y =>
        if isOne y then .ok a
        else if isZero y then .ok b
        else (match litVal? a with
          | some x =>
              if isOne x then .ok b
              else if isZero x then .ok a
              else do let v ← pyMul x y; litNumber v
          | none =>
              if isMinusOne y then do
                let m ← mkMinus a
                match m with
                | .un _ _ a' => simpNeg f m a'
                | _ => .ok m
              else divRules)
    | none => divRules
/-- `_pre_simplify_binop` -/
def preBinop : Nat → Expr → M Expr
  | 0, _ => .error (.internal "fuel")
  | f+1, e =>
    match e with
    | .bin _ op x y => do
      let a ← simp f x
      let b ← simp f y
      if isLit b then mkBin op a b
      else if isSelfOrField a then mkBin op a b
      else if isLit a || isSelfOrField b then
        match findBin op with
        | none => .error .value
        | some d =>
          if d.comm then mkBin op b a
          else match Gen.inverseOps.lookup op with
            | none => mkBin op a b
            | some inv => mkBin inv b a
      else
        match findBin op with
        | none => .error .value
        | some d =>
          if d.assoc then reassoc op (simpBinop f) a b
          else mkBin op a b
    | _ => .error (.internal "not a binary operator")
/-- `_simplify_function_call` and its helpers -/
def simpCall : Nat → Expr → String → ExprList → M Expr
  | 0, _, _, _ => .error (.internal "fuel")
  | f+1, call, fn, args =>
    let arg0 : M Expr := match args with | .cons a _ => simp f a | .nil => .error .index
    if fn == "abs" then do
      let a ← arg0
      match numLit? a with | some v => do let r ← pyAbs v; litNumber r | none => pure call
    else if fn == "bool" then do
      let a ← arg0
      match litVal? a with | some v => pure (litBool (pyTruthy v)) | none => pure call
    else if fn == "int" then do
      let a ← arg0
      match litVal? a with | some v => do let n ← pyInt v; litNumber (.int n) | none => pure call
    else if fn == "float" then do
      let a ← arg0
      match litVal? a with
      | some (.str sv) => do let v ← pyFloatOfStr sv; litNumber v
      | some v => (match v.toRat? with | some q => litNumber (.flt q) | none => litNumber v)
      | none => pure call
    else if fn == "str" then do
      let a ← arg0
      match litVal? a with | some v => do let s ← pyStr v; (if s == "<float>" then unmodelled else pure (litString s)) | none => pure call
    else if fn == "len" then do
      let a ← arg0
      match a with
      | .set _ vs => (match litVals? vs with
          | some ls => litNumber (.int (distinctVals ls).length)
          | none => pure call)
      | .range _ lo hi exLo exHi => (match numLit? lo, numLit? hi with
          | some l, some h => do let (lb, ub) ← rangeBounds l h exLo exHi; litNumber (.int (ub - lb).toNat)
          | _, _ => pure call)
      | .lit _ _ (.str s) => litNumber (.int s.length)
      | _ => pure call
    else if fn == "sum" then do
      let a ← arg0
      match a with
      | .set _ vs => (match numLitVals? vs with
          | some ls => do let v ← sumVals (distinctVals ls); litNumber v
          | none => pure call)
      | .range _ lo hi exLo exHi => (match numLit? lo, numLit? hi with
          | some l, some h => do let (lb, ub) ← rangeBounds l h exLo exHi; litNumber (.int ((intRange lb ub).foldl (· + ·) 0))
          | _, _ => pure call)
      | _ => pure call
    else if fn == "prod" then do
      let a ← arg0
      match a with
      | .set _ vs =>
          if vs.toList.any (fun v => match numLit? v with | some x => isZero x | none => false) then litNumber (.int 0)
          else (match numLitVals? vs with
            | some ls => do let v ← prodVals (distinctVals ls); litNumber v
            | none => pure call)
      | .range _ lo hi exLo exHi => (match numLit? lo, numLit? hi with
          | some l, some h => do
              let (lb, ub) ← rangeBounds l h exLo exHi
              if ub - lb > 64 then unmodelled else litNumber (.int ((intRange lb ub).foldl (· * ·) 1))
          | _, _ => pure call)
      | _ => pure call
    else if fn == "max" || fn == "min" then
      let isMax := fn == "max"
      let fold (values : List Expr) : M Expr := foldMinMax call fn isMax values
      match args with
      | .cons a0 .nil => do
          let a ← simp f a0
          match a with
          | .range _ lo hi exLo exHi => (match numLit? lo, numLit? hi with
              | some l, some h => do
                  let li ← pyInt l; let hi' ← pyInt h
                  let lb := li + (if exLo then 1 else 0)
                  let ub := hi' - (if exHi then 1 else 0)
                  if lb < ub then litNumber (.int (if isMax then ub else lb)) else pure call
              | _, _ => pure call)
          | .set _ vs => fold vs.toList
          | _ => pure call
      | _ => fold args.toList
    else if fn == "gcd" then
      match args with
      | .cons a0 (.cons a1 .nil) => do
          let x ← simp f a0; let y ← simp f a1
          match numLit? x, numLit? y with
          | some (.int m), some (.int n) => litNumber (.int (Int.gcd m n))
          | some _, some _ => unmodelled
          | _, _ => pure call
      | _ => pure call
    else if fn == "ceil" then do
      let a ← arg0
      match numLit? a with
      | some v => (match v.toRat? with | some q => litNumber (.int q.ceil) | none => unmodelled)
      | none => pure call
    else if fn == "floor" then do
      let a ← arg0
      match numLit? a with
      | some v => (match v.toRat? with | some q => litNumber (.int q.floor) | none => unmodelled)
      | none => pure call
    else if opaqueFuns.contains fn then do
      let a ← arg0
      match numLit? a with | some _ => unmodelled | none => pure call
    else if fn == "atan2" || fn == "log" then
      match args with
      | .cons a0 (.cons a1 _) => do
          let x ← simp f a0; let y ← simp f a1
          match numLit? x, numLit? y with | some _, some _ => unmodelled | _, _ => pure call
      | _ => .error .index
    else pure call
end

/-- enough fuel: every call consumes one unit and re-entries on rebuilt terms stay small -/
def simpFuel (e : Expr) : Nat := 40 * e.size + 40

/-- `simplify(expression)` -/
def simplifyExpr (e : Expr) : M Expr := simp (simpFuel e) e

/-- `simplify(predicate)` -/
def simplifyPred : Pred → M Pred
  | .expr e => do
      let e' ← simp (simpFuel e) e
      if isTrueLit e' then pure .vtrue
      else if isFalseLit e' then pure .vfalse
      else mkPred e'
  | p => .ok p

end Hpl
