import Hpl.Model.Build
/-! Model of `hpl.rewrite.split_and` (`_split_and_expr`, `_and_presplit_transform`, `_split_and_not`,
    `_split_and_quantifier`, `empty_test`) and of the convenience tests `is_not/is_and/...`. New nodes are created only
    through the constructors of `Hpl.Model.Build` (as the code does with `And`, `Or`, `Not`, `Forall`, …). The Python
    recursion terminates because every recursive call is on a smaller formula; the model carries explicit fuel. -/
namespace Hpl

def isNot : Expr → Bool | .un _ op _ => op == Gen.NOT_OPERATOR | _ => false
def isAnd : Expr → Bool | .bin _ op _ _ => op == Gen.AND_OPERATOR | _ => false
def isOr : Expr → Bool | .bin _ op _ _ => op == Gen.OR_OPERATOR | _ => false
def isImplies : Expr → Bool | .bin _ op _ _ => op == Gen.IMPLIES_OPERATOR | _ => false
def isIff : Expr → Bool | .bin _ op _ _ => op == Gen.IFF_OPERATOR | _ => false
def isTrueLit : Expr → Bool | .lit _ _ (.bool true) => true | _ => false
def isFalseLit : Expr → Bool | .lit _ _ (.bool false) => true | _ => false

def mkNot (e : Expr) : M Expr := mkUn Gen.NOT_OPERATOR e
def mkAnd (a b : Expr) : M Expr := mkBin Gen.AND_OPERATOR a b
def mkOr (a b : Expr) : M Expr := mkBin Gen.OR_OPERATOR a b
def mkImplies (a b : Expr) : M Expr := mkBin Gen.IMPLIES_OPERATOR a b
def mkForall (x : String) (d p : Expr) : M Expr := mkQuant .all x d p
def trueLit : Expr := .lit T.BOOL "True" (.bool true)
def falseLit : Expr := .lit T.BOOL "False" (.bool false)

/-- `empty_test(d)`: `len(d) = 0` -/
def emptyTest (d : Expr) : M Expr := do
  let a ← mkCall "len" (.cons d .nil)
  mkBin "=" a (.lit T.NUMBER "0" (.int 0))

/-- one conjunct of a split universal quantifier: still quantified if it mentions the variable, otherwise hoisted
    behind the empty-domain guard -/
def splitHalf (x : String) (d a : Expr) : M Expr :=
  if a.containsRef x then mkForall x d a
  else do let t ← emptyTest d; mkOr t a

mutual
/-- `_and_presplit_transform` -/
def presplit : Nat → Expr → M Expr
  | 0, _ => .error (.internal "fuel")
  | f+1, e =>
    match e with
    | .un _ op phi => if op == Gen.NOT_OPERATOR then splitNot f e phi else .ok e
    | .quant _ q x d phi => splitQuant f e q x d phi
    | _ => .ok e
/-- `_split_and_not` (`neg` is the whole negation, `phi` its operand) -/
def splitNot : Nat → Expr → Expr → M Expr
  | 0, _, _ => .error (.internal "fuel")
  | f+1, neg, phi =>
    match phi with
    | .un _ op p => if op == Gen.NOT_OPERATOR then presplit f p else .ok neg
    | .bin _ op a b =>
        if op == Gen.OR_OPERATOR then do let na ← mkNot a; let nb ← mkNot b; mkAnd na nb
        else if op == Gen.IMPLIES_OPERATOR then do let nb ← mkNot b; mkAnd a nb
        else .ok neg
    | .quant _ .some x d p => do
        let np ← mkNot p
        if np.containsRef x then do
          let q ← mkForall x d np
          match q with
          | .quant _ q' x' d' phi' => splitQuant f q q' x' d' phi'
          | _ => .error (.internal "Forall did not return a quantifier")
        else .error (.internal "assert p.contains_reference(phi.variable)")
    | _ => .ok neg
/-- `_split_and_quantifier` -/
def splitQuant : Nat → Expr → Quant → String → Expr → Expr → M Expr
  | 0, _, _, _, _, _ => .error (.internal "fuel")
  | f+1, quant, q, x, d, phi =>
    match q with
    | .all => do
        let phi' ← presplit f phi
        match phi' with
        | .bin _ op a b =>
            if op == Gen.AND_OPERATOR then do
              let qa ← splitHalf x d a
              let qb ← splitHalf x d b
              mkAnd qa qb
            else .ok quant
        | _ => .ok quant
    | .some => .ok quant
end

/-- enough fuel for every chain of calls on `e` (each call strictly decreases the size of the formula at hand, and
    a negated existential is re-built once before being split) -/
def splitFuel (e : Expr) : Nat := 3 * e.size + 3

/-- `_split_and_expr`: the work list (`stack.append(a); stack.append(b)` pops `b` first) -/
def splitLoop : Nat → List Expr → List Expr → M (List Expr)
  | 0, _, _ => .error (.internal "fuel")
  | _, [], acc => .ok acc
  | f+1, e :: stack, acc =>
    if isTrueLit e then splitLoop f stack acc
    else if isFalseLit e then .error .value
    else do
      let e' ← presplit (splitFuel e) e
      match e' with
      | .bin _ op a b =>
          if op == Gen.AND_OPERATOR then splitLoop f (b :: a :: stack) acc
          else splitLoop f stack (acc ++ [e'])
      | _ => splitLoop f stack (acc ++ [e'])

/-- `split_and(expression)` -/
def splitAnd (e : Expr) : M (List Expr) := splitLoop (4 * e.size + 4) [e] []

/-- `split_and(predicate)` works on the predicate's condition -/
def splitAndPred (p : Pred) : M (List Expr) := splitAnd p.condition

end Hpl
