import Hpl.Model.Build
/-!
# Model of `hpl.types` type tokens and of `type_check_references`

`src/hpl/types.py`: TypeToken / EnumeratedType / RangedType (only `.type` matters for reference checking), ArrayType
(subtype, length; `-1` = variable length), MessageType (fields, constants — insertion-ordered mappings with unique keys).
`src/hpl/ast/expressions.py`: `HplExpression.type_check_references` (pre-order walk that stops at accessors),
`HplDataAccess.type_check_references` (resolution of an accessor chain from its base outwards, then - since the fix
recorded under C17 - the references inside each index expression), `_get_next_token` of field and array accesses.
`events.py` / `properties.py`: the dispatch per event with the alias -> message type mapping.
-/
namespace Hpl

mutual
inductive TyTok where
  | prim (name : String) (ty : DataType)
  | arr (name : String) (sub : TyTok) (len : Int)
  | msg (name : String) (fields consts : FieldList)
inductive FieldList where
  | nil
  | cons (name : String) (t : TyTok) (rest : FieldList)
end

instance : Inhabited TyTok := ⟨.prim "" 0⟩

def TyTok.ty : TyTok → DataType
  | .prim _ t => t
  | .arr .. => T.ARRAY
  | .msg .. => T.MESSAGE

def TyTok.isMsg : TyTok → Bool
  | .msg .. => true
  | _ => false

/-- `mapping.get(name)` -/
def FieldList.find (name : String) : FieldList → Option TyTok
  | .nil => none
  | .cons n t rest => if n == name then some t else rest.find name

def FieldList.toList : FieldList → List (String × TyTok)
  | .nil => []
  | .cons n t rest => (n, t) :: rest.toList

/-- `HplFieldAccess._get_next_token` -/
def nextField (t : TyTok) (name : String) : M TyTok :=
  match t with
  | .msg _ fs cs =>
      match fs.find name with
      | some t' => .ok t'
      | none => match cs.find name with
        | some t' => .ok t'
        | none => .error .type            -- missing_field(...) is a TypeError
  | _ => .error .type                     -- "expected a message TypeToken"

/-- `ArrayType.contains_index(index)`: `self.length < 0 or self.length > index` on the literal's Python value -/
def containsIndex (len : Int) : LitVal → M Bool
  | .int n => .ok (len < 0 || len > n)
  | .bool b => .ok (len < 0 || len > (if b then 1 else 0))
  | .flt q => .ok (len < 0 || (len : Rat) > q)
  | .inf | .nan => .ok (len < 0)
  | .ninf => .ok true
  | .str _ => if len < 0 then .ok true else .error .type     -- int > str raises TypeError (unreachable: indices are numbers)

/-- `HplArrayAccess._get_next_token` -/
def nextIndex (t : TyTok) (idx : Expr) : M TyTok :=
  match t with
  | .arr _ sub len =>
      match idx with
      | .lit _ _ v => do
          let inside ← containsIndex len v
          if inside then .ok sub else .error .index
      | _ => .ok sub
  | _ => .error .type                     -- "expected an array TypeToken"

/-- alias -> token (`variables.get(name)`) -/
abbrev VarTypes := List (String × TyTok)

def lookupTok (name : String) : VarTypes → Option TyTok
  | [] => none
  | (n, t) :: rest => if n == name then some t else lookupTok name rest

def compatTy (e : DataType) (t : TyTok) : M Unit :=
  if e &&& t.ty = 0 then .error .type else .ok ()

mutual
/-- `HplDataAccess.type_check_references` seen from the base outwards: the token the chain denotes -/
def resolveAcc (this : TyTok) (vars : VarTypes) : Expr → M TyTok
  | .this _ => if this.isMsg then .ok this else .error (.internal "assert t.is_message")
  | .var _ x =>
      match lookupTok x vars with
      | none => .error .sanity                                   -- "no type token for ..."
      | some t => if t.isMsg then .ok t else .error (.internal "assert t.is_message")
  | .field ty m name => do
      let t ← resolveAcc this vars m
      let t' ← nextField t name
      compatTy ty t'
      pure t'
  | .index ty a i => do
      let t ← resolveAcc this vars a
      let t' ← nextIndex t i
      compatTy ty t'
      checkRefs this vars i
      pure t'
  | _ => .error (.internal "assert expr.is_value and (expr.is_this_msg or expr.is_variable)")
/-- `HplExpression.type_check_references`: pre-order, left to right, stopping at accessors -/
def checkRefs (this : TyTok) (vars : VarTypes) : Expr → M Unit
  | .lit .. | .this _ | .var .. => .ok ()
  | .set _ vs => checkRefsL this vars vs
  | .range _ lo hi _ _ => do checkRefs this vars lo; checkRefs this vars hi
  | .quant _ _ _ d b => do checkRefs this vars d; checkRefs this vars b
  | .un _ _ a => checkRefs this vars a
  | .bin _ _ a b => do checkRefs this vars a; checkRefs this vars b
  | .call _ _ args => checkRefsL this vars args
  | .field ty m name => do let _ ← resolveAcc this vars (.field ty m name); pure ()
  | .index ty a i => do let _ ← resolveAcc this vars (.index ty a i); pure ()
def checkRefsL (this : TyTok) (vars : VarTypes) : ExprList → M Unit
  | .nil => .ok ()
  | .cons e es => do checkRefs this vars e; checkRefsL this vars es
end

def refsCheckPred (this : TyTok) (vars : VarTypes) : Pred → M Unit
  | .expr e => checkRefs this vars e
  | .vtrue | .vfalse => .ok ()

/-- channel name -> token (`msg_types[name]`, KeyError when absent) -/
def refsCheckEvent (msgTypes aliases : VarTypes) : Event → M Unit
  | .simple name _ p =>
      match lookupTok name msgTypes with
      | none => .error .key
      | some this => refsCheckPred this aliases p
  | .disj a b => do refsCheckEvent msgTypes aliases a; refsCheckEvent msgTypes aliases b

def Event.simples : Event → List (String × Option String)
  | .simple n a _ => [(n, a)]
  | .disj a b => a.simples ++ b.simples

/-- `HplProperty.events()` -/
def Property.events (p : Property) : List Event :=
  p.scope.activator.toList ++ [p.pattern.behaviour] ++ p.pattern.trigger.toList ++ p.scope.terminator.toList

/-- the alias -> message type mapping built by `HplProperty.type_check_references` (later definitions overwrite) -/
def aliasMap (msgTypes : VarTypes) : List (String × Option String) → VarTypes → M VarTypes
  | [], acc => .ok acc
  | (_, none) :: rest, acc => aliasMap msgTypes rest acc
  | (n, some a) :: rest, acc =>
      match lookupTok n msgTypes with
      | none => .error .key
      | some t => aliasMap msgTypes rest ((a, t) :: acc)

def refsCheckEvents (msgTypes aliases : VarTypes) : List Event → M Unit
  | [] => .ok ()
  | e :: es => do refsCheckEvent msgTypes aliases e; refsCheckEvents msgTypes aliases es

/-- `HplProperty.type_check_references(msg_types)` -/
def refsCheckProperty (msgTypes : VarTypes) (p : Property) : M Unit := do
  let aliases ← aliasMap msgTypes (p.events.flatMap Event.simples) []
  refsCheckEvents msgTypes aliases p.events

/-! ### navigation helpers of `MessageType` -/

def containsName (t : TyTok) (name : String) : Bool :=
  match t with
  | .msg _ fs cs => (fs.find name).isSome || (cs.find name).isSome
  | _ => false

/-- `get_type_of`: fields first, then constants (`KeyError` when in neither) -/
def getTypeOf (t : TyTok) (name : String) : M TyTok :=
  match t with
  | .msg _ fs cs =>
      match fs.find name with
      | some t' => .ok t'
      | none => match cs.find name with
        | some t' => .ok t'
        | none => .error .key
  | _ => .error (.internal "not a message type")

mutual
/-- `leaf_fields()`: dotted paths to the non-message fields, in declaration order (constants are not fields) -/
def leafFields : TyTok → List (String × TyTok)
  | .msg _ fs _ => leafFieldsL fs
  | _ => []
def leafFieldsL : FieldList → List (String × TyTok)
  | .nil => []
  | .cons n (.msg _ fs _) rest => (leafFieldsL fs).map (fun p => (n ++ "." ++ p.1, p.2)) ++ leafFieldsL rest
  | .cons n (.prim a b) rest => (n, .prim a b) :: leafFieldsL rest
  | .cons n (.arr a b c) rest => (n, .arr a b c) :: leafFieldsL rest
end

/-! ### validators of the token constructors -/

/-- `RangedType(name, type, min_value, max_value)`: `_check_max_value` -/
def mkRanged (ty : DataType) (lo hi : Rat) : M Unit :=
  if ty ∉ [T.BOOL, T.NUMBER, T.STRING, T.ARRAY, T.SET, T.MESSAGE] then .error .value       -- in_(BASE_TYPES)
  else if hi < lo then .error .value else .ok ()

/-- `ArrayType(name, subtype, length)`: `ge(-1)` -/
def mkArray (len : Int) : M Unit := if len < -1 then .error .value else .ok ()

end Hpl
