/-! Shapes of the tables that `harness/extract_tables.py` regenerates from the live Python objects
    of /repo on every run (`Hpl/Generated/Tables.lean`). Core Lean only. -/
namespace Hpl

/-- a type set is a bit mask over the base types of `hpl.types.DataType` -/
abbrev DataType := Nat

structure UnDef where
  token : String
  param : DataType
  res : DataType
deriving Repr, DecidableEq

structure BinDef where
  token : String
  p1 : DataType
  p2 : DataType
  res : DataType
  isInfix : Bool
  comm : Bool
  assoc : Bool
deriving Repr, DecidableEq

structure Sig where
  params : List DataType
  res : DataType
  variadic : Option DataType
deriving Repr, DecidableEq

structure FunDef where
  name : String
  overloads : List Sig
deriving Repr, DecidableEq

structure Tables where
  un : List UnDef
  bin : List BinDef
  fn : List FunDef
deriving Repr

end Hpl
