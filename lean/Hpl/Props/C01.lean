import Hpl.Model.Parser
/-! # C01 — parsing builds exactly the tree the grammar assigns (model parser; theorems in progress) -/
namespace Hpl

/-- a word is a keyword only when it is that word exactly and does not directly follow a word character: a name that
    merely begins with a keyword is one name (the scanner takes identifiers by longest match, see `scan`) -/
theorem isKw_exact (t : Tok) (s : String) (h : isKw t s = true) : t.kind = .word ∧ t.text = s ∧ t.afterWord = false := by
  simp only [isKw, Bool.and_eq_true, beq_iff_eq, Bool.not_eq_true'] at h
  exact ⟨h.1.1, h.1.2, h.2⟩

end Hpl
