import Hpl.Spec.Grammar
import Hpl.Props.C06b
/-!
# C01 — the parser returns the tree the grammar assigns

`parse_complete`: for every token sequence that the declarative grammar (`Renders`, `Spec/Grammar.lean`: left-recursive
rules, optional and redundant parentheses) reads as a `condition` with tree `e`, the recursive-descent parser model returns
exactly `e` and consumes all tokens.  By induction on the derivation, with a continuation invariant for the loops that
implement left recursion.
-/
namespace Hpl

/-- the parser function of a grammar level -/
def pL (k : Nat) : PFun :=
  match k with
  | 0 => pCondition | 1 => pDisjunction | 2 => pConjunction | 3 => pLogic | 4 => pAtomicCondition
  | 5 => pExpr | 6 => pTerm | 7 => pFactor | 8 => pExponent | _ => pAtomicValue

/-- the loop that implements the left recursion of a level -/
def loopL (k : Nat) : Nat → Raw → List Tok → PR (Raw × List Tok) :=
  match k with
  | 0 => pCondLoop | 1 => pDisjLoop | 2 => pConjLoop | 5 => pExprLoop | 6 => pTermLoop | 7 => pFactorLoop
  | _ => fun _ a ts => .ok (a, ts)

theorem pL_loop_eq {k : Nat} (hk : isLoopLevel k = true) (F : Nat) (ts : List Tok) :
    pL k (F + 1) ts = (do let (a, ts') ← pL (k + 1) F ts; loopL k F a ts') := by
  simp only [isLoopLevel, Bool.or_eq_true, beq_iff_eq] at hk
  rcases hk with ((((rfl | rfl) | rfl) | rfl) | rfl) | rfl <;>
    simp only [pL, loopL, pCondition, pDisjunction, pConjunction, pExpr, pTerm, pFactor]

theorem opTest_text {k : Nat} {t : Tok} (hk : isLoopLevel k = true) (h : opTest k t = true) :
    (k = 1 → t.text = "or") ∧ (k = 2 → t.text = "and") ∧ (k = 7 → t.text = "**") := by
  refine ⟨?_, ?_, ?_⟩ <;> (intro hk'; subst hk'; simp [opTest, isKw, isSym] at h; simp [h])

theorem loopL_eq {k : Nat} (hk : isLoopLevel k = true) (F : Nat) (a : Raw) (ts : List Tok) :
    loopL k (F + 1) a ts = (match ts with
      | t :: rest => if opTest k t then (do let (b, ts') ← pL (k + 1) F rest; loopL k F (.bin t.text a b) ts') else .ok (a, ts)
      | [] => .ok (a, ts)) := by
  simp only [isLoopLevel, Bool.or_eq_true, beq_iff_eq] at hk
  rcases hk with ((((rfl | rfl) | rfl) | rfl) | rfl) | rfl
  · cases ts <;> simp only [loopL, pL, pCondLoop, opTest]
  · cases ts with
    | nil => simp only [loopL, pL, pDisjLoop]
    | cons t rest =>
      simp only [loopL, pL, pDisjLoop, opTest]
      split
      · rename_i h; have : t.text = "or" := by simp [isKw] at h; exact h.1.2
        rw [this]
      · rfl
  · cases ts with
    | nil => simp only [loopL, pL, pConjLoop]
    | cons t rest =>
      simp only [loopL, pL, pConjLoop, opTest]
      split
      · rename_i h; have : t.text = "and" := by simp [isKw] at h; exact h.1.2
        rw [this]
      · rfl
  · cases ts <;> simp only [loopL, pL, pExprLoop, opTest]
  · cases ts <;> simp only [loopL, pL, pTermLoop, opTest]
  · cases ts with
    | nil => simp only [loopL, pL, pFactorLoop]
    | cons t rest =>
      simp only [loopL, pL, pFactorLoop, opTest]
      split
      · rename_i h; have : t.text = "**" := by simp [isSym] at h; exact h.2
        rw [this]
      · rfl

/-! ## what may follow a phrase -/

/-- `t` is not an infix operator of level `k` or tighter and does not continue a reference or a call -/
def stopTok (k : Nat) (t : Tok) : Prop :=
  (∀ j, k ≤ j → opTest j t = false) ∧ (k ≤ 4 → relTest t = false) ∧ isSym t "." = false ∧ isSym t "[" = false ∧ isSym t "(" = false

def stopsK (k : Nat) (rest : List Tok) : Prop := ∀ t ts, rest = t :: ts → stopTok k t

theorem stopsK_mono {k k' : Nat} (h : k ≤ k') {rest : List Tok} (hs : stopsK k rest) : stopsK k' rest := by
  intro t ts hr
  obtain ⟨h1, h2, h3⟩ := hs t ts hr
  exact ⟨fun j hj => h1 j (Nat.le_trans h hj), fun h4 => h2 (Nat.le_trans h h4), h3⟩

theorem stopsK_nil (k : Nat) : stopsK k [] := by intro t ts h; cases h

/-- after a phrase of a left-recursive level the next token may be an operator of that very level -/
def bound (k : Nat) : Nat := if isLoopLevel k then k + 1 else k

theorem bound_le (k : Nat) : bound k ≤ k + 1 := by unfold bound; split <;> omega
theorem le_bound (k : Nat) : k ≤ bound k := by unfold bound; split <;> omega

/-- what the parser does after having read a level-`k` phrase with tree `e` -/
def cont (G k : Nat) (e : Raw) (rest : List Tok) : PR (Raw × List Tok) :=
  if isLoopLevel k then loopL k G e rest else .ok (e, rest)

theorem loop_stop {k : Nat} (hk : isLoopLevel k = true) (G : Nat) (e : Raw) (rest : List Tok) (hs : stopsK k rest) :
    loopL k (G + 1) e rest = .ok (e, rest) := by
  rw [loopL_eq hk]
  cases rest with
  | nil => rfl
  | cons t ts =>
    have := (hs t ts rfl).1 k (Nat.le_refl _)
    simp only [this, Bool.false_eq_true, ↓reduceIte]

theorem cont_stop (G k : Nat) (e : Raw) (rest : List Tok) (hs : stopsK k rest) : cont (G + 1) k e rest = .ok (e, rest) := by
  unfold cont
  split
  · rename_i hk; exact loop_stop hk G e rest hs
  · rfl

/-! ## how a phrase starts -/

theorem notLogic_of_kind {t : Tok} (h : t.kind ≠ .word) : isLogicKw t = false := by
  simp [isLogicKw, isKw, h]

theorem notSym_of_kind {t : Tok} (h : t.kind ≠ .sym) (s : String) : isSym t s = false := by
  simp [isSym, h]

theorem notLogic_of_sym {t : Tok} {s : String} (h : isSym t s = true) : isLogicKw t = false := by
  simp only [isSym, Bool.and_eq_true, beq_iff_eq] at h
  exact notLogic_of_kind (by rw [h.1]; decide)

theorem notLogic_of_name {t : Tok} (h : isName t.text = true) : isLogicKw t = false := by
  obtain ⟨_, _, _, _, h1, h2, h3⟩ := isName_spec h
  simp [isLogicKw, isKw, h1, h2, h3]

theorem isNameTok_spec {t : Tok} (h : isNameTok t = true) :
    isCName t.text = true ∧ t.text ≠ "True" ∧ t.text ≠ "False" ∧ (!t.afterWord && (numberConstant t.text).isSome) = false := by
  simp only [isNameTok, Bool.and_eq_true, bne_iff_ne, ne_eq, Bool.not_eq_true'] at h
  exact ⟨h.1.1.1, h.1.1.2, h.1.2, h.2⟩

theorem isNameTok_of_isName {t : Tok} (h : isName t.text = true) : isNameTok t = true := by
  obtain ⟨hc, ht, hf, hn, _⟩ := isName_spec h
  simp [isNameTok, hc, ht, hf, hn]

/-- atomic values and references do not start with `-` or `(` -/
theorem renders_head {k : Nat} {e : Raw} {ts : List Tok} (h : Renders k e ts) : 9 ≤ k → k ≤ 10 →
    ∃ t ts', ts = t :: ts' ∧ isSym t "-" = false ∧ isSym t "(" = false := by
  induction h with
  | up hk _ _ _ => intro h9; omega
  | binL t hl _ _ _ _ _ => intro h9; simp [isLoopLevel] at hl; omega
  | rel t _ _ _ _ _ => intro h9; omega
  | not t _ _ _ => intro h9; omega
  | quant t v kin c _ _ _ _ _ _ _ _ _ => intro h9; omega
  | neg t ht _ _ => intro h9; omega
  | paren o c ho _ _ _ => intro h9; omega
  | str t hk => intro _ _; exact ⟨t, [], rfl, notSym_of_kind (by rw [hk]; decide) _, notSym_of_kind (by rw [hk]; decide) _⟩
  | num t v hk _ => intro _ _; exact ⟨t, [], rfl, notSym_of_kind (by rw [hk]; decide) _, notSym_of_kind (by rw [hk]; decide) _⟩
  | true_ t hk ht => intro _ _; exact ⟨t, [], rfl, notSym_of_kind (by rw [hk]; decide) _, notSym_of_kind (by rw [hk]; decide) _⟩
  | false_ t hk ht => intro _ _; exact ⟨t, [], rfl, notSym_of_kind (by rw [hk]; decide) _, notSym_of_kind (by rw [hk]; decide) _⟩
  | const t v hk _ hc => intro _ _; exact ⟨t, [], rfl, notSym_of_kind (by rw [hk]; decide) _, notSym_of_kind (by rw [hk]; decide) _⟩
  | call f o c hk hn _ _ _ _ => intro _ _; exact ⟨f, _, rfl, notSym_of_kind (by rw [hk]; decide) _, notSym_of_kind (by rw [hk]; decide) _⟩
  | range o kto c ho _ _ _ _ _ _ =>
    intro _ _
    have hk : o.kind = .sym ∧ (o.text = "[" ∨ o.text = "![") := by
      simp only [isSym, Bool.or_eq_true, Bool.and_eq_true, beq_iff_eq] at ho
      rcases ho with h | h
      · exact ⟨h.1, Or.inl h.2⟩
      · exact ⟨h.1, Or.inr h.2⟩
    refine ⟨o, _, rfl, ?_⟩
    rcases hk.2 with h | h <;> simp [isSym, h]
  | setOne _ _ => intro _ h10; omega
  | setMore c _ _ _ _ _ => intro _ h10; omega
  | set o c ho _ _ _ =>
    intro _ _
    have hk : o.kind = .sym ∧ o.text = "{" := by simpa [isSym] using ho
    refine ⟨o, _, rfl, ?_⟩
    simp [isSym, hk.2]
  | var t hk => intro _ _; exact ⟨t, [], rfl, notSym_of_kind (by rw [hk]; decide) _, notSym_of_kind (by rw [hk]; decide) _⟩
  | own t hk hn => intro _ _; exact ⟨t, [], rfl, notSym_of_kind (by rw [hk]; decide) _, notSym_of_kind (by rw [hk]; decide) _⟩
  | field d n _ _ _ _ ih =>
    intro _ _
    obtain ⟨t, ts', rfl, h2⟩ := ih (by omega) (by omega)
    exact ⟨t, _, rfl, h2⟩
  | index o c _ _ _ _ iha _ =>
    intro _ _
    obtain ⟨t, ts', rfl, h2⟩ := iha (by omega) (by omega)
    exact ⟨t, _, rfl, h2⟩
  | ref _ ih =>
    intro _ _
    obtain ⟨t, ts', rfl, h2⟩ := ih (by omega) (by omega)
    exact ⟨t, _, rfl, h2⟩

/-! ## token facts -/

theorem isSym_spec {t : Tok} {s : String} : isSym t s = true ↔ t.kind = .sym ∧ t.text = s := by
  simp [isSym]
theorem isKw_spec {t : Tok} {s : String} : isKw t s = true ↔ t.kind = .word ∧ t.text = s ∧ t.afterWord = false := by
  simp [isKw, and_assoc]

theorem isSym_other {t : Tok} {a b : String} (h : isSym t a = true) (hab : a ≠ b) : isSym t b = false := by
  obtain ⟨hk, ht⟩ := isSym_spec.1 h
  simp [isSym, hk, ht, hab]
theorem isKw_of_sym {t : Tok} {a b : String} (h : isSym t a = true) : isKw t b = false := by
  obtain ⟨hk, _⟩ := isSym_spec.1 h
  simp [isKw, hk]
theorem isSym_of_kw {t : Tok} {a b : String} (h : isKw t a = true) : isSym t b = false := by
  obtain ⟨hk, _⟩ := isKw_spec.1 h
  simp [isSym, hk]
theorem isKw_other {t : Tok} {a b : String} (h : isKw t a = true) (hab : a ≠ b) : isKw t b = false := by
  obtain ⟨hk, ht, _⟩ := isKw_spec.1 h
  simp [isKw, hk, ht, hab]

/-- a punctuation token that is not an operator stops every level -/
theorem stopTok_sym {t : Tok} {s : String} (h : isSym t s = true)
    (hs : s = ")" ∨ s = "]" ∨ s = "]!" ∨ s = "}" ∨ s = "," ∨ s = ":") (k : Nat) : stopTok k t := by
  obtain ⟨hk, ht⟩ := isSym_spec.1 h
  refine ⟨fun j _ => ?_, fun _ => ?_, ?_, ?_, ?_⟩
  · rcases hs with rfl | rfl | rfl | rfl | rfl | rfl <;>
      (unfold opTest; split <;> simp [isKw, isSym, hk, ht])
  · rcases hs with rfl | rfl | rfl | rfl | rfl | rfl <;> simp [relTest, isKw, hk, ht, relOps]
  · rcases hs with rfl | rfl | rfl | rfl | rfl | rfl <;> simp [isSym, hk, ht]
  · rcases hs with rfl | rfl | rfl | rfl | rfl | rfl <;> simp [isSym, hk, ht]
  · rcases hs with rfl | rfl | rfl | rfl | rfl | rfl <;> simp [isSym, hk, ht]

theorem stopTok_to {t : Tok} (h : isKw t "to" = true) (k : Nat) : stopTok k t := by
  obtain ⟨hk, ht, ha⟩ := isKw_spec.1 h
  refine ⟨fun j _ => ?_, fun _ => ?_, ?_, ?_, ?_⟩
  · unfold opTest; split <;> simp [isKw, isSym, hk, ht]
  · simp [relTest, isKw, hk, ht]
  · simp [isSym, hk]
  · simp [isSym, hk]
  · simp [isSym, hk]

/-- kind and text of the operator token of a level -/
theorem opTest_facts {k : Nat} {t : Tok} (hk : isLoopLevel k = true) (h : opTest k t = true) :
    (k = 0 ∧ t.kind = .word ∧ (t.text = "implies" ∨ t.text = "iff")) ∨ (k = 1 ∧ t.kind = .word ∧ t.text = "or") ∨
    (k = 2 ∧ t.kind = .word ∧ t.text = "and") ∨ (k = 5 ∧ t.kind = .sym ∧ (t.text = "+" ∨ t.text = "-")) ∨
    (k = 6 ∧ t.kind = .sym ∧ (t.text = "*" ∨ t.text = "/")) ∨ (k = 7 ∧ t.kind = .sym ∧ t.text = "**") := by
  simp only [isLoopLevel, Bool.or_eq_true, beq_iff_eq] at hk
  rcases hk with ((((rfl | rfl) | rfl) | rfl) | rfl) | rfl
  · simp only [opTest, Bool.or_eq_true] at h
    rcases h with h | h <;> obtain ⟨h1, h2, _⟩ := isKw_spec.1 h
    · exact Or.inl ⟨rfl, h1, Or.inl h2⟩
    · exact Or.inl ⟨rfl, h1, Or.inr h2⟩
  · simp only [opTest] at h; obtain ⟨h1, h2, _⟩ := isKw_spec.1 h; exact Or.inr (Or.inl ⟨rfl, h1, h2⟩)
  · simp only [opTest] at h; obtain ⟨h1, h2, _⟩ := isKw_spec.1 h; exact Or.inr (Or.inr (Or.inl ⟨rfl, h1, h2⟩))
  · simp only [opTest, Bool.or_eq_true] at h
    rcases h with h | h <;> obtain ⟨h1, h2⟩ := isSym_spec.1 h
    · exact Or.inr (Or.inr (Or.inr (Or.inl ⟨rfl, h1, Or.inl h2⟩)))
    · exact Or.inr (Or.inr (Or.inr (Or.inl ⟨rfl, h1, Or.inr h2⟩)))
  · simp only [opTest, Bool.or_eq_true] at h
    rcases h with h | h <;> obtain ⟨h1, h2⟩ := isSym_spec.1 h
    · exact Or.inr (Or.inr (Or.inr (Or.inr (Or.inl ⟨rfl, h1, Or.inl h2⟩))))
    · exact Or.inr (Or.inr (Or.inr (Or.inr (Or.inl ⟨rfl, h1, Or.inr h2⟩))))
  · simp only [opTest] at h; obtain ⟨h1, h2⟩ := isSym_spec.1 h; exact Or.inr (Or.inr (Or.inr (Or.inr (Or.inr ⟨rfl, h1, h2⟩))))

/-- the operator of a level is not an operator of a tighter level, not relational (for the logical levels), not an accessor -/
theorem opTest_stop {k : Nat} {t : Tok} (hk : isLoopLevel k = true) (h : opTest k t = true) : stopTok (k + 1) t := by
  have close : ∀ (kd : TokKind) (s : String), t.kind = kd → t.text = s →
      (kd = .word ∧ (s = "implies" ∨ s = "iff" ∨ s = "or" ∨ s = "and") ∧ ((s = "implies" ∨ s = "iff") → k = 0) ∧ (s = "or" → k = 1) ∧ (s = "and" → k = 2)) ∨
      (kd = .sym ∧ (s = "+" ∨ s = "-" ∨ s = "*" ∨ s = "/" ∨ s = "**") ∧ 5 ≤ k ∧ ((s = "+" ∨ s = "-") → k = 5) ∧ ((s = "*" ∨ s = "/") → k = 6) ∧ (s = "**" → k = 7)) →
      stopTok (k + 1) t := by
    intro kd s hkd hs hcase
    rcases hcase with ⟨rfl, hs', h0, h1, h2⟩ | ⟨rfl, hs', h5, ha, hm, hp⟩
    · refine ⟨fun j hj => ?_, fun _ => ?_, ?_, ?_, ?_⟩
      · rcases hs' with rfl | rfl | rfl | rfl <;>
          (unfold opTest; split <;> first | (simp [isKw, isSym, hkd, hs]; done) | omega | (simp_all; done) | (exfalso; simp_all; omega))
      · rcases hs' with rfl | rfl | rfl | rfl <;> simp [relTest, isKw, hkd, hs]
      · simp [isSym, hkd]
      · simp [isSym, hkd]
      · simp [isSym, hkd]
    · refine ⟨fun j hj => ?_, fun h4 => by omega, ?_, ?_, ?_⟩
      · rcases hs' with rfl | rfl | rfl | rfl | rfl <;>
          (unfold opTest; split <;> first | (simp [isKw, isSym, hkd, hs]; done) | omega | (simp_all; done) | (exfalso; simp_all; omega))
      · rcases hs' with rfl | rfl | rfl | rfl | rfl <;> simp [isSym, hkd, hs]
      · rcases hs' with rfl | rfl | rfl | rfl | rfl <;> simp [isSym, hkd, hs]
      · rcases hs' with rfl | rfl | rfl | rfl | rfl <;> simp [isSym, hkd, hs]
  rcases opTest_facts hk h with ⟨rfl, h1, h2⟩ | ⟨rfl, h1, h2⟩ | ⟨rfl, h1, h2⟩ | ⟨rfl, h1, h2⟩ | ⟨rfl, h1, h2⟩ | ⟨rfl, h1, h2⟩
  · rcases h2 with h2 | h2 <;> exact close _ _ h1 h2 (Or.inl ⟨rfl, by simp, by simp, by simp, by simp⟩)
  · exact close _ _ h1 h2 (Or.inl ⟨rfl, by simp, by simp, by simp, by simp⟩)
  · exact close _ _ h1 h2 (Or.inl ⟨rfl, by simp, by simp, by simp, by simp⟩)
  · rcases h2 with h2 | h2 <;> exact close _ _ h1 h2 (Or.inr ⟨rfl, by simp, by omega, by simp, by simp, by simp⟩)
  · rcases h2 with h2 | h2 <;> exact close _ _ h1 h2 (Or.inr ⟨rfl, by simp, by omega, by simp, by simp, by simp⟩)
  · exact close _ _ h1 h2 (Or.inr ⟨rfl, by simp, by omega, by simp, by simp, by simp⟩)

/-- a relational operator (or `in`) ends an `expr` -/
theorem relTest_stop {t : Tok} (h : relTest t = true) : stopTok 5 t := by
  simp only [relTest, Bool.or_eq_true, Bool.and_eq_true, beq_iff_eq] at h
  rcases h with ⟨hk, hr⟩ | h
  · have hr' : t.text = "=" ∨ t.text = "!=" ∨ t.text = "<" ∨ t.text = "<=" ∨ t.text = ">" ∨ t.text = ">=" := by
      simpa [relOps] using hr
    refine ⟨fun j hj => ?_, fun h4 => by omega, ?_, ?_, ?_⟩
    · rcases hr' with h | h | h | h | h | h <;> (unfold opTest; split <;> first | omega | simp [isKw, isSym, hk, h])
    · rcases hr' with h | h | h | h | h | h <;> simp [isSym, hk, h]
    · rcases hr' with h | h | h | h | h | h <;> simp [isSym, hk, h]
    · rcases hr' with h | h | h | h | h | h <;> simp [isSym, hk, h]
  · obtain ⟨hk, ht, _⟩ := isKw_spec.1 h
    refine ⟨fun j hj => ?_, fun h4 => by omega, ?_, ?_, ?_⟩
    · unfold opTest; split <;> first | omega | simp [isKw, isSym, hk, ht]
    · simp [isSym, hk]
    · simp [isSym, hk]
    · simp [isSym, hk]

theorem stopsK_cons {k : Nat} {t : Tok} (h : stopTok k t) (ts : List Tok) : stopsK k (t :: ts) := by
  intro t' ts' he; cases he; exact h

/-! ## the invariants (with explicit fuel: 12 units per token, plus one per grammar level still to descend) -/

/-- level `k ≤ 9`: whatever the parser does after a level-`k` phrase denoting `e` (`cont`), reading `ts` first leads there -/
def CPS (k : Nat) (e : Raw) (ts : List Tok) : Prop :=
  ∀ rest r g0, 1 ≤ g0 → stopsK (bound k) rest → (∀ G, g0 ≤ G → cont G k e rest = .ok r) →
    ∀ F, g0 + 12 * ts.length + (10 - k) ≤ F → pL k F (ts ++ rest) = .ok r

/-- a reference read so far: the accessor loop continues from it -/
def RefGoal (x : Raw) (ts : List Tok) : Prop :=
  ∀ rest r g0, 1 ≤ g0 → headIs rest (fun t => isSym t "(") = false → (∀ G, g0 ≤ G → pRefTail G x rest = .ok r) →
    ∀ F, g0 + 12 * ts.length + 1 ≤ F → pAtomicValue F (ts ++ rest) = .ok r

def setStart (F : Nat) (toks : List Tok) : PR (Raw × List Tok) := do let (a, ts') ← pExpr F toks; pSetTail F [a] ts'

/-- the members of a set literal read so far: the member loop continues with them (in reverse, as the parser keeps them) -/
def SetGoal (e : Raw) (ts : List Tok) : Prop :=
  ∀ es, e = .set es → ∀ rest r g0, 1 ≤ g0 → (∀ G, g0 ≤ G → pSetTail G es.toList.reverse rest = .ok r) →
    ∀ F, g0 + 12 * ts.length + 6 ≤ F → setStart F (ts ++ rest) = .ok r

def Goal (k : Nat) (e : Raw) (ts : List Tok) : Prop :=
  if k = 10 then RefGoal e ts else if k = 11 then SetGoal e ts else CPS k e ts

theorem goal_low {k : Nat} (hk : k ≤ 9) (e : Raw) (ts : List Tok) : Goal k e ts = CPS k e ts := by
  unfold Goal; rw [if_neg (by omega), if_neg (by omega)]

theorem bound_nonloop {k : Nat} (h : isLoopLevel k = false) : bound k = k := by simp [bound, h]
theorem bound_loop {k : Nat} (h : isLoopLevel k = true) : bound k = k + 1 := by simp [bound, h]

theorem cont_nonloop {k : Nat} (h : isLoopLevel k = false) (G : Nat) (e : Raw) (rest : List Tok) : cont G k e rest = .ok (e, rest) := by
  simp [cont, h]

/-- at a level without left recursion the continuation is the identity: the expected result is the phrase itself -/
theorem result_nonloop {k : Nat} (h : isLoopLevel k = false) {e : Raw} {rest : List Tok} {r : Raw × List Tok} {g0 : Nat}
    (hc : ∀ G, g0 ≤ G → cont G k e rest = .ok r) : r = (e, rest) := by
  have := hc g0 (Nat.le_refl _)
  rw [cont_nonloop h] at this
  exact (Except.ok.inj this).symm

/-- reading a phrase with nothing to continue -/
theorem cps_plain {k : Nat} {e : Raw} {ts : List Tok} (h : CPS k e ts) (rest : List Tok) (hs : stopsK k rest) :
    ∀ F, 1 + 12 * ts.length + (10 - k) ≤ F → pL k F (ts ++ rest) = .ok (e, rest) :=
  h rest (e, rest) 1 (Nat.le_refl _) (stopsK_mono (le_bound k) hs) (fun G hG => by
    obtain ⟨g, rfl⟩ : ∃ g, G = g + 1 := ⟨G - 1, by omega⟩
    exact cont_stop g k e rest hs)

/-! ## the rules of the grammar, one by one -/

theorem exists_succ' {F n : Nat} (h : n + 1 ≤ F) : ∃ f, F = f + 1 ∧ n ≤ f := ⟨F - 1, by omega, by omega⟩

theorem up_cps {k : Nat} {e : Raw} {ts : List Tok} (hk : k < 9) (hh : k = 3 → ∀ t ts', ts = t :: ts' → isLogicKw t = false)
    (hne : ts ≠ []) (hr : Renders (k + 1) e ts) (ih : CPS (k + 1) e ts) : CPS k e ts := by
  intro rest r g0 hg hs hc F hF
  obtain ⟨f, rfl, hf⟩ := exists_succ' (n := g0 + 12 * ts.length + (10 - k) - 1) (show g0 + 12 * ts.length + (10 - k) - 1 + 1 ≤ F by omega)
  by_cases hl : isLoopLevel k = true
  · rw [bound_loop hl] at hs
    have h1 := cps_plain ih rest hs f (by omega)
    rw [pL_loop_eq hl, h1]
    have := hc f (by omega)
    simp only [cont, hl, ↓reduceIte] at this
    simpa [bind, Except.bind] using this
  · have hl' : isLoopLevel k = false := by simpa using hl
    rw [bound_nonloop hl'] at hs
    have hr' := result_nonloop hl' hc
    subst hr'
    have hk3 : k = 3 ∨ k = 4 ∨ k = 8 := by
      simp only [isLoopLevel, Bool.or_eq_false_iff, beq_eq_false_iff_ne, ne_eq] at hl'
      omega
    rcases hk3 with rfl | rfl | rfl
    · obtain ⟨t, ts', rfl⟩ : ∃ t ts', ts = t :: ts' := by
        cases ts with
        | nil => exact absurd rfl hne
        | cons t ts' => exact ⟨t, ts', rfl⟩
      have hlog := hh rfl t ts' rfl
      have h1 := cps_plain ih rest (stopsK_mono (by omega) hs) f (by omega)
      simp only [isLogicKw, Bool.or_eq_false_iff] at hlog
      simp only [pL, List.cons_append] at h1 ⊢
      simp only [pLogic, hlog.1.1, hlog.1.2, hlog.2, Bool.false_eq_true, ↓reduceIte, Bool.or_self]
      exact h1
    · have h1 := cps_plain ih rest (stopsK_mono (by omega) hs) f (by omega)
      simp only [pL] at h1 ⊢
      simp only [pAtomicCondition, h1, bind, Except.bind]
      cases rest with
      | nil => rfl
      | cons t ts' =>
        have hrel := (hs t ts' rfl).2.1 (Nat.le_refl _)
        simp only [relTest, Bool.or_eq_false_iff] at hrel
        simp only [hrel.1, hrel.2, Bool.false_eq_true, ↓reduceIte, pure, Except.pure]
    · obtain ⟨t, ts', rfl, h1', h2'⟩ := renders_head hr (by omega) (by omega)
      have h1 := cps_plain ih rest (stopsK_mono (by omega) hs) f (by omega)
      simp only [pL, List.cons_append] at h1 ⊢
      simp only [pExponent, h1', h2', Bool.false_eq_true, ↓reduceIte]
      exact h1

theorem binL_cps {k : Nat} {a b : Raw} {ta tb : List Tok} (t : Tok) (hl : isLoopLevel k = true) (ht : opTest k t = true)
    (iha : CPS k a ta) (ihb : CPS (k + 1) b tb) : CPS k (.bin t.text a b) (ta ++ t :: tb) := by
  intro rest r g0 hg hs hc F hF
  rw [bound_loop hl] at hs
  have hk7 : k ≤ 7 := by simp only [isLoopLevel, Bool.or_eq_true, beq_iff_eq] at hl; omega
  have hnb := cps_plain ihb rest hs
  have hca : ∀ G, max (1 + 12 * tb.length + (10 - (k + 1))) g0 + 1 ≤ G → cont G k a (t :: (tb ++ rest)) = .ok r := by
    intro G hG
    obtain ⟨g, rfl, hg'⟩ := exists_succ' (n := max (1 + 12 * tb.length + (10 - (k + 1))) g0) hG
    have := hc g (by omega)
    simp only [cont, hl, ↓reduceIte] at this ⊢
    rw [loopL_eq hl]
    simp only [ht, ↓reduceIte, hnb g (by omega), bind, Except.bind]
    exact this
  have hst : stopsK (bound k) (t :: (tb ++ rest)) := by
    rw [bound_loop hl]; exact stopsK_cons (opTest_stop hl ht) _
  have := iha (t :: (tb ++ rest)) r _ (by omega) hst hca F (by
    simp only [List.length_append, List.length_cons] at hF; omega)
  simpa [List.append_assoc] using this

theorem rel_cps {a b : Raw} {ta tb : List Tok} (t : Tok) (ht : relTest t = true) (iha : CPS 5 a ta) (ihb : CPS 5 b tb) :
    CPS 4 (.bin t.text a b) (ta ++ t :: tb) := by
  intro rest r g0 hg hs hc F hF
  have h4 : isLoopLevel 4 = false := by decide
  rw [bound_nonloop h4] at hs
  have hr := result_nonloop h4 hc
  subst hr
  simp only [List.length_append, List.length_cons] at hF
  obtain ⟨f, rfl, hf⟩ := exists_succ' (n := 12 * ta.length + 12 * tb.length + 17) (show 12 * ta.length + 12 * tb.length + 17 + 1 ≤ F by omega)
  have h1 := cps_plain iha (t :: (tb ++ rest)) (stopsK_cons (relTest_stop ht) _) f (by omega)
  have h2 := cps_plain ihb rest (stopsK_mono (by omega) hs) f (by omega)
  simp only [pL, List.append_assoc, List.cons_append] at h1 h2 ⊢
  simp only [pAtomicCondition, h1, bind, Except.bind]
  simp only [relTest, Bool.or_eq_true] at ht
  rcases ht with ht | ht
  · simp only [ht, ↓reduceIte, h2, pure, Except.pure]
  · have hk : (t.kind == TokKind.sym && relOps.contains t.text) = false := by
      obtain ⟨h1', _, _⟩ := isKw_spec.1 ht
      simp [h1']
    have htext : t.text = "in" := (isKw_spec.1 ht).2.1
    simp only [hk, Bool.false_eq_true, ↓reduceIte, ht, h2, pure, Except.pure, htext, ite_self]

theorem not_cps {a : Raw} {ta : List Tok} (t : Tok) (ht : isKw t "not" = true) (iha : CPS 3 a ta) : CPS 3 (.un "not" a) (t :: ta) := by
  intro rest r g0 hg hs hc F hF
  have h3 : isLoopLevel 3 = false := by decide
  rw [bound_nonloop h3] at hs
  have hr := result_nonloop h3 hc
  subst hr
  simp only [List.length_cons] at hF
  obtain ⟨f, rfl, hf⟩ := exists_succ' (n := 12 * ta.length + 19) (show 12 * ta.length + 19 + 1 ≤ F by omega)
  have h1 := cps_plain iha rest hs f (by omega)
  simp only [pL, List.cons_append] at h1 ⊢
  simp only [pLogic, ht, ↓reduceIte, h1, bind, Except.bind, pure, Except.pure]

theorem quant_cps {d b : Raw} {td tb : List Tok} (t v kin c : Tok) (ht : (isKw t "forall" || isKw t "exists") = true)
    (hvk : v.kind = .word) (hvn : isCName v.text = true) (hkin : isKw kin "in" = true) (hc' : isSym c ":" = true)
    (ihd : CPS 9 d td) (ihb : CPS 3 b tb) :
    CPS 3 (.quant (if t.text == "forall" then .all else .some) v.text d b) (t :: v :: kin :: (td ++ c :: tb)) := by
  intro rest r g0 hg hs hc F hF
  have h3 : isLoopLevel 3 = false := by decide
  rw [bound_nonloop h3] at hs
  have hr := result_nonloop h3 hc
  subst hr
  simp only [List.length_append, List.length_cons] at hF
  obtain ⟨f, rfl, hf⟩ := exists_succ' (n := 12 * td.length + 12 * tb.length + 50) (show 12 * td.length + 12 * tb.length + 50 + 1 ≤ F by omega)
  have h1 := cps_plain ihd (c :: (tb ++ rest)) (stopsK_cons (stopTok_sym hc' (by simp) 9) _) f (by omega)
  have h2 := cps_plain ihb rest hs f (by omega)
  have hnot : isKw t "not" = false := by
    simp only [Bool.or_eq_true] at ht
    rcases ht with h | h
    · exact isKw_other h (by decide)
    · exact isKw_other h (by decide)
  simp only [pL, List.append_assoc, List.cons_append] at h1 h2 ⊢
  simp only [pLogic, hnot, ht, Bool.false_eq_true, ↓reduceIte, hvk, beq_self_eq_true, hvn, hkin, Bool.and_self, h1, bind, Except.bind, hc', h2,
    pure, Except.pure]

theorem neg_cps {a : Raw} {ta : List Tok} (t : Tok) (ht : isSym t "-" = true) (iha : CPS 8 a ta) : CPS 8 (.un "-" a) (t :: ta) := by
  intro rest r g0 hg hs hc F hF
  have h8 : isLoopLevel 8 = false := by decide
  rw [bound_nonloop h8] at hs
  have hr := result_nonloop h8 hc
  subst hr
  simp only [List.length_cons] at hF
  obtain ⟨f, rfl, hf⟩ := exists_succ' (n := 12 * ta.length + 14) (show 12 * ta.length + 14 + 1 ≤ F by omega)
  have h1 := cps_plain iha rest hs f (by omega)
  simp only [pL, List.cons_append] at h1 ⊢
  simp only [pExponent, ht, ↓reduceIte, h1, bind, Except.bind, pure, Except.pure]

theorem paren_cps {e : Raw} {ts : List Tok} (o c : Tok) (ho : isSym o "(" = true) (hc' : isSym c ")" = true) (ih : CPS 0 e ts) :
    CPS 8 e (o :: (ts ++ [c])) := by
  intro rest r g0 hg hs hc F hF
  have h8 : isLoopLevel 8 = false := by decide
  have hr := result_nonloop h8 hc
  subst hr
  simp only [List.length_append, List.length_cons, List.length_nil] at hF
  obtain ⟨f, rfl, hf⟩ := exists_succ' (n := 12 * ts.length + 26) (show 12 * ts.length + 26 + 1 ≤ F by omega)
  have h1 := cps_plain ih (c :: rest) (stopsK_cons (stopTok_sym hc' (by simp) 0) _) f (by omega)
  have hminus : isSym o "-" = false := isSym_other ho (by decide)
  simp only [pL, List.append_assoc, List.cons_append, List.nil_append] at h1 ⊢
  simp only [pExponent, hminus, ho, Bool.false_eq_true, ↓reduceIte, h1, bind, Except.bind, hc', pure, Except.pure]

/-! ### atomic values -/

theorem h9 : isLoopLevel 9 = false := by decide

/-- an atomic value read in one step by `_atomic_value` -/
theorem atom_cps {e : Raw} {t : Tok} (h : ∀ F rest, pAtomicValue (F + 1) (t :: rest) = .ok (e, rest)) : CPS 9 e [t] := by
  intro rest r g0 hg _ hc F hF
  have hr := result_nonloop h9 hc
  subst hr
  obtain ⟨f, rfl, _⟩ := exists_succ' (n := 0) (by omega : 0 + 1 ≤ F)
  exact h f rest

theorem str_cps (t : Tok) (hk : t.kind = .str) : CPS 9 (.lit t.text (.str t.text)) [t] :=
  atom_cps (fun F rest => by simp [pAtomicValue, hk])

theorem num_cps (t : Tok) (v : LitVal) (hk : t.kind = .num) (hv : decimalValue t.text = some v) : CPS 9 (.lit t.text v) [t] :=
  atom_cps (fun F rest => by simp [pAtomicValue, hk, hv])

theorem true_cps (t : Tok) (hk : t.kind = .word) (ht : t.text = "True") : CPS 9 (.lit "True" (.bool true)) [t] :=
  atom_cps (fun F rest => by
    have c1 : isCName "True" = true := by decide
    simp [pAtomicValue, hk, ht, c1])

theorem false_cps (t : Tok) (hk : t.kind = .word) (ht : t.text = "False") : CPS 9 (.lit "False" (.bool false)) [t] :=
  atom_cps (fun F rest => by
    have c1 : isCName "False" = true := by decide
    simp [pAtomicValue, hk, ht, c1])

theorem const_cps (t : Tok) (v : LitVal) (hk : t.kind = .word) (ha : t.afterWord = false) (hv : numberConstant t.text = some v) :
    CPS 9 (.lit t.text v) [t] :=
  atom_cps (fun F rest => by
    have hsome : (numberConstant t.text).isSome = true := by rw [hv]; rfl
    have hc : isCName t.text = true ∧ t.text ≠ "True" ∧ t.text ≠ "False" := by
      rcases numberConstant_some hsome with h | h | h | h <;> (rw [h]; decide)
    simp [pAtomicValue, hk, ha, hv, hc.1, hc.2.1, hc.2.2])

theorem call_cps {a : Raw} {ta : List Tok} (f o c : Tok) (hk : f.kind = .word) (hn : isNameTok f = true) (ho : isSym o "(" = true)
    (hc' : isSym c ")" = true) (iha : CPS 5 a ta) : CPS 9 (.call f.text (.cons a .nil)) (f :: o :: (ta ++ [c])) := by
  intro rest r g0 hg _ hc F hF
  have hr := result_nonloop h9 hc
  subst hr
  obtain ⟨hcn, ht, hfa, hnc⟩ := isNameTok_spec hn
  simp only [List.length_append, List.length_cons, List.length_nil] at hF
  obtain ⟨g, rfl, hg'⟩ := exists_succ' (n := 12 * ta.length + 37) (show 12 * ta.length + 37 + 1 ≤ F by omega)
  have h1 := cps_plain iha (c :: rest) (stopsK_cons (stopTok_sym hc' (by simp) 5) _) g (by omega)
  simp only [pL, List.append_assoc, List.cons_append, List.nil_append] at h1 ⊢
  simp [pAtomicValue, hk, hcn, ht, hfa, hnc, ho, h1, bind, Except.bind, hc', pure, Except.pure]

theorem range_cps {lo hi : Raw} {tl th : List Tok} (o kto c : Tok) (ho : (isSym o "[" || isSym o "![") = true) (hto : isKw kto "to" = true)
    (hc' : (isSym c "]" || isSym c "]!") = true) (ihl : CPS 5 lo tl) (ihh : CPS 5 hi th) :
    CPS 9 (.range lo hi (o.text == "![") (c.text == "]!")) (o :: (tl ++ kto :: (th ++ [c]))) := by
  intro rest r g0 hg _ hc F hF
  have hr := result_nonloop h9 hc
  subst hr
  have hcstop : stopTok 5 c := by
    simp only [Bool.or_eq_true] at hc'
    rcases hc' with h | h
    · exact stopTok_sym h (by simp) 5
    · exact stopTok_sym h (by simp) 5
  simp only [List.length_append, List.length_cons, List.length_nil] at hF
  obtain ⟨f, rfl, hf⟩ := exists_succ' (n := 12 * tl.length + 12 * th.length + 37) (show 12 * tl.length + 12 * th.length + 37 + 1 ≤ F by omega)
  obtain ⟨g, rfl, hg'⟩ := exists_succ' (n := 12 * tl.length + 12 * th.length + 36) hf
  have h1 := cps_plain ihl (kto :: (th ++ c :: rest)) (stopsK_cons (stopTok_to hto 5) _) g (by omega)
  have h2 := cps_plain ihh (c :: rest) (stopsK_cons hcstop _) g (by omega)
  simp only [pL, List.append_assoc, List.cons_append, List.nil_append] at h1 h2 ⊢
  have body : ∀ exLo, pRangeBody (g + 1) exLo (tl ++ kto :: (th ++ c :: rest)) = .ok (.range lo hi exLo (c.text == "]!"), rest) := by
    intro exLo
    simp only [pRangeBody, h1, bind, Except.bind, hto, ↓reduceIte, h2]
    simp only [Bool.or_eq_true] at hc'
    rcases hc' with h | h
    · have : c.text = "]" := (isSym_spec.1 h).2
      simp [h, this, pure, Except.pure]
    · have : c.text = "]!" := (isSym_spec.1 h).2
      have hn : isSym c "]" = false := isSym_other h (by decide)
      simp [h, hn, this, pure, Except.pure]
  simp only [Bool.or_eq_true] at ho
  rcases ho with h | h
  · obtain ⟨hk, ht⟩ := isSym_spec.1 h
    simp [pAtomicValue, hk, ht, body]
  · obtain ⟨hk, ht⟩ := isSym_spec.1 h
    simp [pAtomicValue, hk, ht, body]

/-! ### set literals -/

theorem rawSnoc_toList : ∀ (es : RawList) (e : Raw), (rawSnoc es e).toList = es.toList ++ [e]
  | .nil, e => rfl
  | .cons x xs, e => by simp [rawSnoc, RawList.toList, rawSnoc_toList xs e]

/-- what the member loop accepts next -/
theorem pSetTail_head {G : Nat} {acc : List Raw} {rest : List Tok} {r : Raw × List Tok} (h : pSetTail (G + 1) acc rest = .ok r) :
    ∃ t ts, rest = t :: ts ∧ (isSym t "}" = true ∨ isSym t "," = true) := by
  cases rest with
  | nil => simp [pSetTail, perr] at h
  | cons t ts =>
    refine ⟨t, ts, rfl, ?_⟩
    simp only [pSetTail] at h
    split at h
    · left; assumption
    · split at h
      · right; assumption
      · simp [perr] at h

theorem setTail_stops {acc : List Raw} {rest : List Tok} {r : Raw × List Tok} {g0 : Nat}
    (h : ∀ G, g0 ≤ G → pSetTail G acc rest = .ok r) (k : Nat) : stopsK k rest := by
  obtain ⟨t, ts, rfl, ht⟩ := pSetTail_head (h (g0 + 1) (by omega))
  rcases ht with ht | ht
  · exact stopsK_cons (stopTok_sym ht (by simp) k) _
  · exact stopsK_cons (stopTok_sym ht (by simp) k) _

theorem setOne_goal {e : Raw} {te : List Tok} (ihe : CPS 5 e te) : SetGoal (.set (.cons e .nil)) te := by
  intro es hes rest r g0 hg hc F hF
  cases hes
  simp only [RawList.toList, List.reverse_cons, List.reverse_nil, List.nil_append] at hc
  have h1 := cps_plain ihe rest (setTail_stops hc 5) F (by omega)
  simp only [pL] at h1
  simp only [setStart, h1, bind, Except.bind]
  exact hc F (by omega)

theorem setMore_goal {es : RawList} {ts : List Tok} {e : Raw} {te : List Tok} (c : Tok) (hc' : isSym c "," = true)
    (ihs : SetGoal (.set es) ts) (ihe : CPS 5 e te) : SetGoal (.set (rawSnoc es e)) (ts ++ c :: te) := by
  intro es' hes rest r g0 hg hc F hF
  cases hes
  rw [rawSnoc_toList, List.reverse_append] at hc
  simp only [List.reverse_cons, List.reverse_nil, List.nil_append, List.cons_append] at hc
  have hn := cps_plain ihe rest (setTail_stops hc 5)
  have hloop : ∀ G, max (1 + 12 * te.length + 5) g0 + 1 ≤ G → pSetTail G es.toList.reverse (c :: (te ++ rest)) = .ok r := by
    intro G hG
    obtain ⟨g, rfl, hg'⟩ := exists_succ' (n := max (1 + 12 * te.length + 5) g0) hG
    have h1 := hn g (by omega)
    simp only [pL] at h1
    have hclose : isSym c "}" = false := isSym_other hc' (by decide)
    simp only [pSetTail, hclose, hc', Bool.false_eq_true, ↓reduceIte, h1, bind, Except.bind]
    exact hc g (by omega)
  have := ihs es rfl (c :: (te ++ rest)) r _ (by omega) hloop F (by
    simp only [List.length_append, List.length_cons] at hF; omega)
  simpa [List.append_assoc] using this

theorem set_cps {es : RawList} {ts : List Tok} (o c : Tok) (ho : isSym o "{" = true) (hc' : isSym c "}" = true)
    (ihs : SetGoal (.set es) ts) : CPS 9 (.set es) (o :: (ts ++ [c])) := by
  intro rest r g0 hg _ hc F hF
  have hr := result_nonloop h9 hc
  subst hr
  have hclose : ∀ G, 1 ≤ G → pSetTail G es.toList.reverse (c :: rest) = .ok (.set es, rest) := by
    intro G hG
    obtain ⟨g, rfl, _⟩ := exists_succ' (n := 0) hG
    have := rawListOf_toList es
    simp only [pSetTail, hc', ↓reduceIte, List.reverse_reverse]
    unfold rawListOf at this
    rw [this]
  simp only [List.length_append, List.length_cons, List.length_nil] at hF
  obtain ⟨f, rfl, hf⟩ := exists_succ' (n := 12 * ts.length + 25) (show 12 * ts.length + 25 + 1 ≤ F by omega)
  have h1 := ihs es rfl (c :: rest) (.set es, rest) 1 (Nat.le_refl _) hclose f (by omega)
  obtain ⟨hk, ht⟩ := isSym_spec.1 ho
  simp only [setStart, List.append_assoc, List.cons_append, List.nil_append] at h1 ⊢
  simp [pL, pAtomicValue, hk, ht]
  exact h1

/-! ### references -/

theorem var_goal (t : Tok) (hk : t.kind = .var) : RefGoal (.var t.text) [t] := by
  intro rest r g0 hg _ hc F hF
  simp only [List.length_cons, List.length_nil] at hF
  obtain ⟨f, rfl, hf⟩ := exists_succ' (n := g0) (show g0 + 1 ≤ F by omega)
  have := hc f hf
  simp [pAtomicValue, hk, this]

theorem own_goal (t : Tok) (hk : t.kind = .word) (hn : isNameTok t = true) : RefGoal (.field .this t.text) [t] := by
  intro rest r g0 hg hpar hc F hF
  obtain ⟨hcn, ht, hfa, hnc⟩ := isNameTok_spec hn
  simp only [List.length_cons, List.length_nil] at hF
  obtain ⟨f, rfl, hf⟩ := exists_succ' (n := g0 + 1) (show g0 + 1 + 1 ≤ F by omega)
  have h1 := hc f (by omega)
  cases rest with
  | nil =>
    obtain ⟨g, rfl, _⟩ := exists_succ' (n := g0) hf
    simp only [pRefTail] at h1
    simp [pAtomicValue, hk, hcn, ht, hfa, hnc, h1]
  | cons o rest2 =>
    simp only [headIs] at hpar
    simp [pAtomicValue, hk, hcn, ht, hfa, hnc, hpar, h1]

theorem field_goal {m : Raw} {tm : List Tok} (d n : Tok) (hd : isSym d "." = true) (hk : n.kind = .word) (hn : isCName n.text = true)
    (ih : RefGoal m tm) : RefGoal (.field m n.text) (tm ++ [d, n]) := by
  intro rest r g0 hg _ hc F hF
  have hloop : ∀ G, g0 + 1 ≤ G → pRefTail G m (d :: n :: rest) = .ok r := by
    intro G hG
    obtain ⟨g, rfl, hg'⟩ := exists_succ' hG
    simp only [pRefTail, hd, ↓reduceIte, hk, beq_self_eq_true, hn, Bool.and_self]
    exact hc g hg'
  have := ih (d :: n :: rest) r _ (by omega) (by simp only [headIs]; exact isSym_other hd (by decide)) hloop F (by
    simp only [List.length_append, List.length_cons, List.length_nil] at hF; omega)
  simpa [List.append_assoc] using this

theorem index_goal {a i : Raw} {ta ti : List Tok} (o c : Tok) (ho : isSym o "[" = true) (hc' : isSym c "]" = true)
    (iha : RefGoal a ta) (ihi : CPS 5 i ti) : RefGoal (.index a i) (ta ++ o :: (ti ++ [c])) := by
  intro rest r g0 hg _ hc F hF
  have hn := cps_plain ihi (c :: rest) (stopsK_cons (stopTok_sym hc' (by simp) 5) _)
  have hloop : ∀ G, max (1 + 12 * ti.length + 5) g0 + 1 ≤ G → pRefTail G a (o :: (ti ++ c :: rest)) = .ok r := by
    intro G hG
    obtain ⟨g, rfl, hg'⟩ := exists_succ' (n := max (1 + 12 * ti.length + 5) g0) hG
    have h1 := hn g (by omega)
    simp only [pL] at h1
    have hdot : isSym o "." = false := isSym_other ho (by decide)
    simp only [pRefTail, hdot, ho, Bool.false_eq_true, ↓reduceIte, h1, bind, Except.bind, hc']
    exact hc g (by omega)
  have := iha (o :: (ti ++ c :: rest)) r _ (by omega) (by simp only [headIs]; exact isSym_other ho (by decide)) hloop F (by
    simp only [List.length_append, List.length_cons, List.length_nil] at hF; omega)
  simpa [List.append_assoc] using this

theorem ref_cps {x : Raw} {ts : List Tok} (ih : RefGoal x ts) : CPS 9 x ts := by
  intro rest r g0 hg hs hc F hF
  have hr := result_nonloop h9 hc
  subst hr
  rw [bound_nonloop h9] at hs
  have hpar : headIs rest (fun t => isSym t "(") = false := by
    cases rest with
    | nil => rfl
    | cons t ts' => exact (hs t ts' rfl).2.2.2.2
  have hstop : ∀ G, 1 ≤ G → pRefTail G x rest = .ok (x, rest) := by
    intro G hG
    obtain ⟨g, rfl, _⟩ := exists_succ' (n := 0) hG
    cases rest with
    | nil => rfl
    | cons t ts' =>
      obtain ⟨_, _, h1, h2, _⟩ := hs t ts' rfl
      simp only [pRefTail, h1, h2, Bool.false_eq_true, ↓reduceIte]
  exact ih rest (x, rest) 1 (Nat.le_refl _) hpar hstop F (by omega)

/-! ## the induction over derivations -/

theorem renders_ne {k : Nat} {e : Raw} {ts : List Tok} (h : Renders k e ts) : ts ≠ [] := by
  induction h with
  | up _ _ _ ih => exact ih
  | setOne _ ih => exact ih
  | ref _ ih => exact ih
  | _ => simp

theorem renders_goal {k : Nat} {e : Raw} {ts : List Tok} (h : Renders k e ts) : Goal k e ts := by
  induction h with
  | @up k e ts hk hh hr ih =>
    rw [goal_low (by omega)] at ih ⊢
    exact up_cps hk hh (renders_ne hr) hr ih
  | @binL k a b ta tb t hl ht _ _ iha ihb =>
    have hk7 : k ≤ 7 := by simp only [isLoopLevel, Bool.or_eq_true, beq_iff_eq] at hl; omega
    rw [goal_low (by omega)] at iha ihb ⊢
    exact binL_cps t hl ht iha ihb
  | rel t ht _ _ iha ihb =>
    rw [goal_low (by omega)] at iha ihb ⊢
    exact rel_cps t ht iha ihb
  | not t ht _ iha =>
    rw [goal_low (by omega)] at iha ⊢
    exact not_cps t ht iha
  | quant t v kin c ht hvk hvn hkin hc _ _ ihd ihb =>
    rw [goal_low (by omega)] at ihd ihb ⊢
    exact quant_cps t v kin c ht hvk hvn hkin hc ihd ihb
  | neg t ht _ iha =>
    rw [goal_low (by omega)] at iha ⊢
    exact neg_cps t ht iha
  | paren o c ho hc _ ih =>
    rw [goal_low (by omega)] at ih ⊢
    exact paren_cps o c ho hc ih
  | str t hk => rw [goal_low (by omega)]; exact str_cps t hk
  | num t v hk hv => rw [goal_low (by omega)]; exact num_cps t v hk hv
  | true_ t hk ht => rw [goal_low (by omega)]; exact true_cps t hk ht
  | false_ t hk ht => rw [goal_low (by omega)]; exact false_cps t hk ht
  | const t v hk ha hv => rw [goal_low (by omega)]; exact const_cps t v hk ha hv
  | call f o c hk hn ho hc _ iha =>
    rw [goal_low (by omega)] at iha ⊢
    exact call_cps f o c hk hn ho hc iha
  | range o kto c ho hto hc _ _ ihl ihh =>
    rw [goal_low (by omega)] at ihl ihh ⊢
    exact range_cps o kto c ho hto hc ihl ihh
  | setOne _ ihe =>
    rw [goal_low (by omega)] at ihe
    show Goal 11 _ _
    simp only [Goal, show (11 : Nat) ≠ 10 by decide, ↓reduceIte]
    exact setOne_goal ihe
  | setMore c hc _ _ ihs ihe =>
    rw [goal_low (by omega)] at ihe
    simp only [Goal, show (11 : Nat) ≠ 10 by decide, ↓reduceIte] at ihs ⊢
    exact setMore_goal c hc ihs ihe
  | set o c ho hc _ ihs =>
    simp only [Goal, show (11 : Nat) ≠ 10 by decide, ↓reduceIte] at ihs
    rw [goal_low (by omega)]
    exact set_cps o c ho hc ihs
  | var t hk => simp only [Goal, ↓reduceIte]; exact var_goal t hk
  | own t hk hn => simp only [Goal, ↓reduceIte]; exact own_goal t hk hn
  | field d n hd hk hn _ ih =>
    simp only [Goal, ↓reduceIte] at ih ⊢
    exact field_goal d n hd hk hn ih
  | index o c ho hc _ _ iha ihi =>
    rw [goal_low (by omega)] at ihi
    simp only [Goal, ↓reduceIte] at iha ⊢
    exact index_goal o c ho hc iha ihi
  | ref _ ih =>
    simp only [Goal, ↓reduceIte] at ih
    rw [goal_low (by omega)]
    exact ref_cps ih

/-- **C01**: every token sequence the grammar reads as a `condition` with tree `e` is parsed to exactly `e`, all tokens consumed,
    with the fuel the parser model gives itself -/
theorem parse_complete {e : Raw} {ts : List Tok} (h : Renders 0 e ts) : parseExpressionToks ts = .ok e := by
  have hg := renders_goal h
  rw [goal_low (by omega)] at hg
  have := cps_plain hg [] (stopsK_nil 0) (parseFuel ts) (by simp only [parseFuel]; omega)
  simp only [pL, List.append_nil] at this
  simp only [parseExpressionToks, this, bind, Except.bind, List.isEmpty_nil, ↓reduceIte, pure, Except.pure]

/-- the same inside braces (`hpl_predicate`) -/
theorem parse_predicate_complete {e : Raw} {ts : List Tok} (h : Renders 0 e ts) (o c : Tok) (ho : isSym o "{" = true) (hc : isSym c "}" = true) :
    parsePredicateToks (o :: (ts ++ [c])) = .ok e := by
  have hg := renders_goal h
  rw [goal_low (by omega)] at hg
  have := cps_plain hg [c] (stopsK_cons (stopTok_sym hc (by simp) 0) _) (parseFuel (o :: (ts ++ [c]))) (by
    simp only [parseFuel, List.length_cons, List.length_append, List.length_nil]; omega)
  simp only [pL] at this
  simp only [parsePredicateToks, pPredicate, ho, ↓reduceIte, this, bind, Except.bind, hc, pure, Except.pure, List.isEmpty_nil]

/-! ## non-vacuity: renderings with minimal and with redundant parentheses -/

/-- the first token is not one of the keywords that open a logic operand -/
def HeadOk (ts : List Tok) : Prop := ∀ t ts', ts = t :: ts' → isLogicKw t = false

theorem headOk_cons {t0 : Tok} (h : isLogicKw t0 = false) (rest : List Tok) : HeadOk (t0 :: rest) := by
  intro t ts' he
  cases he
  exact h

theorem HeadOk.append {ts : List Tok} (h : HeadOk ts) (hne : ts ≠ []) (more : List Tok) : HeadOk (ts ++ more) := by
  cases ts with
  | nil => exact absurd rfl hne
  | cons t0 r => exact headOk_cons (h t0 r rfl) _

macro "upside" : tactic =>
  `(tactic| first | (intro h1 h2; exfalso; omega) | (intro _ _; assumption) | (intro _ _; apply headOk_cons; decide))

/-- from a tighter level to a looser one; where the step into `_logic_expr` (level 3) is taken the phrase must not start with a logic keyword -/
theorem upTo {e : Raw} {ts : List Tok} : ∀ (d k : Nat), k + d ≤ 9 → Renders (k + d) e ts →
    (hh : k ≤ 3 → 3 < k + d → HeadOk ts := by upside) → Renders k e ts
  | 0, _, _, h, _ => h
  | d + 1, k, hk, h, hh => .up (by omega) (fun h3 => hh (by omega) (by omega))
      (upTo d (k + 1) (by omega) (by rw [Nat.add_assoc, Nat.add_comm 1 d]; exact h) (fun h1 h2 => hh (by omega) (by omega)))

theorem up8 {e : Raw} {ts : List Tok} (h : Renders 9 e ts) : Renders 8 e ts := .up (by omega) (fun h => by omega) h

theorem ownR (n : String) (hn : isName n = true) : Renders 9 (.field .this n) [wordT n] := .ref (.own (wordT n) rfl (isNameTok_of_isName hn))

/-- `a - b - c` is `(a - b) - c` -/
example : parseExpressionToks [wordT "a", symT "-", wordT "b", symT "-", wordT "c"] =
    .ok (.bin "-" (.bin "-" (.field .this "a") (.field .this "b")) (.field .this "c")) := by
  apply parse_complete
  apply upTo 5 0 (by omega)
  have hab : Renders 5 (.bin "-" (.field .this "a") (.field .this "b")) ([wordT "a"] ++ symT "-" :: [wordT "b"]) :=
    .binL (symT "-") (by decide) (by decide) (upTo 4 5 (by omega) (ownR "a" (by decide))) (upTo 3 6 (by omega) (ownR "b" (by decide)))
  exact .binL (symT "-") (by decide) (by decide) hab (upTo 3 6 (by omega) (ownR "c" (by decide)))

/-- `x = y and z or not w` with minimal parentheses, and `((x))` with redundant ones -/
example : parseExpressionToks [wordT "x", symT "=", wordT "y", wordT "and", wordT "z", wordT "or", wordT "not", wordT "w"] =
    .ok (.bin "or" (.bin "and" (.bin "=" (.field .this "x") (.field .this "y")) (.field .this "z")) (.un "not" (.field .this "w"))) := by
  apply parse_complete
  apply upTo 1 0 (by omega)
  have hxy : Renders 4 (.bin "=" (.field .this "x") (.field .this "y")) ([wordT "x"] ++ symT "=" :: [wordT "y"]) :=
    .rel (symT "=") (by decide) (upTo 4 5 (by omega) (ownR "x" (by decide))) (upTo 4 5 (by omega) (ownR "y" (by decide)))
  have hand : Renders 2 (.bin "and" (.bin "=" (.field .this "x") (.field .this "y")) (.field .this "z"))
      (([wordT "x"] ++ symT "=" :: [wordT "y"]) ++ wordT "and" :: [wordT "z"]) :=
    .binL (wordT "and") (by decide) (by decide) (upTo 2 2 (by omega) hxy) (upTo 6 3 (by omega) (ownR "z" (by decide)))
  have hnot : Renders 2 (.un "not" (.field .this "w")) [wordT "not", wordT "w"] :=
    upTo 1 2 (by omega) (.not (wordT "not") (by decide) (upTo 6 3 (by omega) (ownR "w" (by decide))))
  exact .binL (wordT "or") (by decide) (by decide) (upTo 1 1 (by omega) hand) hnot

example : parseExpressionToks [symT "(", symT "(", wordT "x", symT ")", symT ")"] = .ok (.field .this "x") := by
  apply parse_complete
  apply upTo 8 0 (by omega)
  have h1 : Renders 8 (.field .this "x") (symT "(" :: ([wordT "x"] ++ [symT ")"])) :=
    .paren (symT "(") (symT ")") (by decide) (by decide) (upTo 9 0 (by omega) (ownR "x" (by decide)))
  exact .paren (symT "(") (symT ")") (by decide) (by decide) (upTo 8 0 (by omega) h1)

/-! ## the printed form is one of the renderings (so the round trip of C06 is an instance of completeness) -/

theorem opTok_level {op : String} {j : Nat} (h : opLevel op = some j) :
    (opTok op).text = op ∧ ((isLoopLevel j = true ∧ opTest j (opTok op) = true) ∨ (j = 4 ∧ relTest (opTok op) = true)) := by
  have fix : ∀ (s : String) (n : Nat), opLevel s = some n → op = s → opLevel op = some j →
      ((opTok s).text = s ∧ ((isLoopLevel n = true ∧ opTest n (opTok s) = true) ∨ (n = 4 ∧ relTest (opTok s) = true))) →
      (opTok op).text = op ∧ ((isLoopLevel j = true ∧ opTest j (opTok op) = true) ∨ (j = 4 ∧ relTest (opTok op) = true)) := by
    intro s n hs hop hj hgoal
    subst hop
    rw [hs] at hj
    cases hj
    exact hgoal
  rcases opLevel_cases h with h1 | h1 | h1 | h1 | h1 | h1 | h1 | h1 | h1 | h1 | h1 | h1 | h1 | h1 | h1 | h1
  · exact fix "implies" 0 (by decide) h1 h (by decide)
  · exact fix "iff" 0 (by decide) h1 h (by decide)
  · exact fix "or" 1 (by decide) h1 h (by decide)
  · exact fix "and" 2 (by decide) h1 h (by decide)
  · exact fix "=" 4 (by decide) h1 h (by decide)
  · exact fix "!=" 4 (by decide) h1 h (by decide)
  · exact fix "<" 4 (by decide) h1 h (by decide)
  · exact fix "<=" 4 (by decide) h1 h (by decide)
  · exact fix ">" 4 (by decide) h1 h (by decide)
  · exact fix ">=" 4 (by decide) h1 h (by decide)
  · exact fix "in" 4 (by decide) h1 h (by decide)
  · exact fix "+" 5 (by decide) h1 h (by decide)
  · exact fix "-" 5 (by decide) h1 h (by decide)
  · exact fix "*" 6 (by decide) h1 h (by decide)
  · exact fix "/" 6 (by decide) h1 h (by decide)
  · exact fix "**" 7 (by decide) h1 h (by decide)

theorem litTok_renders {tok : String} {v : LitVal} (h : litOk tok v = true) : Renders 9 (.lit tok v) [litTok tok v] := by
  have num : ∀ v : LitVal, (match v with | .str _ => False | .bool _ => False | _ => True) →
      (if (numberConstant tok).isSome then (numberConstant tok == some v && isCName tok) else decimalValue tok == some v) = true →
      Renders 9 (.lit tok v) [if (numberConstant tok).isSome then wordT tok else mkTok .num tok] := by
    intro v _ hv
    split at hv
    · rename_i hc
      simp only [hc, ↓reduceIte, Bool.and_eq_true, beq_iff_eq] at hv ⊢
      exact .const (wordT tok) v rfl rfl hv.1
    · rename_i hc
      simp only [hc, Bool.false_eq_true, ↓reduceIte, beq_iff_eq] at hv ⊢
      exact .num (mkTok .num tok) v rfl hv
  cases v with
  | str s => simp only [litOk, beq_iff_eq] at h; subst h; exact .str (mkTok .str s) rfl
  | bool b =>
    simp only [litOk, beq_iff_eq] at h; subst h
    cases b
    · exact .false_ (wordT "False") rfl rfl
    · exact .true_ (wordT "True") rfl rfl
  | int n => exact num _ trivial h
  | flt q => exact num _ trivial h
  | inf => exact num _ trivial h
  | ninf => exact num _ trivial h
  | nan => exact num _ trivial h

def rawAppend : RawList → RawList → RawList
  | .nil, ys => ys
  | .cons x xs, ys => .cons x (rawAppend xs ys)

theorem rawAppend_snoc : ∀ (pre : RawList) (x : Raw) (xs : RawList), rawAppend (rawSnoc pre x) xs = rawAppend pre (.cons x xs)
  | .nil, x, xs => rfl
  | .cons p ps, x, xs => by simp [rawSnoc, rawAppend, rawAppend_snoc ps x xs]

theorem rawAppend_nil : ∀ (pre : RawList), rawAppend pre .nil = pre
  | .nil => rfl
  | .cons p ps => by simp [rawAppend, rawAppend_nil ps]

/-- the members after a prefix already read -/
theorem members_render : ∀ (es : RawList) (pre : RawList) (tp : List Tok), Renders 11 (.set pre) tp →
    (∀ x ∈ es.toList, Renders 5 x x.toks) → Renders 11 (.set (rawAppend pre es)) (tp ++ tailToks es)
  | .nil, pre, tp, hpre, _ => by simpa [rawAppend_nil, tailToks] using hpre
  | .cons x xs, pre, tp, hpre, hall => by
      have hx := hall x (by simp [RawList.toList])
      have h1 := Renders.setMore (symT ",") (by decide) hpre hx
      have := members_render xs (rawSnoc pre x) (tp ++ symT "," :: x.toks) h1 (fun y hy => hall y (by simp [RawList.toList, hy]))
      rw [rawAppend_snoc] at this
      simpa [tailToks, List.append_assoc] using this

theorem set_members_render (e : Raw) (es : RawList) (hall : ∀ x ∈ (RawList.cons e es).toList, Renders 5 x x.toks) :
    Renders 11 (.set (.cons e es)) (RawList.toksSep (.cons e es)) := by
  have h1 : Renders 11 (.set (.cons e .nil)) e.toks := .setOne (hall e (by simp [RawList.toList]))
  have := members_render es (.cons e .nil) e.toks h1 (fun y hy => hall y (by simp [RawList.toList, hy]))
  rw [toksSep_cons]
  simpa [rawAppend] using this

/-- the printed form of a printable tree never starts with `not` / `forall` / `exists` (operators and quantifiers are parenthesised,
    own fields are not named so) -/
theorem printed_headOk (x : Raw) (hp : x.printable = true) (more : List Tok) : HeadOk (x.toks ++ more) := by
  have sym : ∀ (s : String) (rest : List Tok), HeadOk (symT s :: rest) := fun s rest =>
    headOk_cons (by simp [isLogicKw, isKw, symT, mkTok]) rest
  cases x with
  | lit tok v => exact headOk_cons (litTok_notLogic (by simpa [Raw.printable] using hp)) _
  | this => simp [Raw.printable] at hp
  | var v => exact headOk_cons (by simp [isLogicKw, isKw, mkTok]) _
  | set vs => simp only [Raw.toks, List.append_assoc, List.cons_append, List.nil_append]; exact sym _ _
  | range lo hi a b => simp only [Raw.toks, List.append_assoc, List.cons_append, List.nil_append]; exact sym _ _
  | quant q v d b => simp only [Raw.toks, List.append_assoc, List.cons_append, List.nil_append]; exact sym _ _
  | un op a => simp only [Raw.toks, List.append_assoc, List.cons_append, List.nil_append]; exact sym _ _
  | bin op a b => simp only [Raw.toks, List.append_assoc, List.cons_append, List.nil_append]; exact sym _ _
  | call f args =>
    have hf : isName f = true := by
      match args, hp with
      | .nil, hp => simp [Raw.printable] at hp
      | .cons a .nil, hp => simp only [Raw.printable, Bool.and_eq_true] at hp; exact hp.1
      | .cons _ (.cons _ _), hp => simp [Raw.printable] at hp
    simp only [Raw.toks, List.append_assoc, List.cons_append, List.nil_append]
    exact headOk_cons (word_not_logicKw hf) _
  | field m n =>
    have hr : (Raw.field m n).isRef = true := by
      cases m <;> simp_all [Raw.printable, Raw.isRef]
    obtain ⟨t, ts, h1, _, h3⟩ := ref_head _ hr hp
    rw [h1]; exact headOk_cons h3 _
  | index a i =>
    have hr : (Raw.index a i).isRef = true := by
      simp only [Raw.printable, Bool.and_eq_true] at hp
      simpa [Raw.isRef] using hp.1.1
    obtain ⟨t, ts, h1, _, h3⟩ := ref_head _ hr hp
    rw [h1]; exact headOk_cons h3 _

theorem printed_headOk' (x : Raw) (hp : x.printable = true) : HeadOk x.toks := by
  have := printed_headOk x hp []
  simpa using this

mutual
/-- every printable tree renders as its printed form: as an `_exponent`, and as an atomic value / a reference when it is one -/
theorem printed_renders : ∀ (x : Raw), x.printable = true →
    Renders 8 x x.toks ∧ (x.isAtomic = true → Renders 9 x x.toks) ∧ (x.isRef = true → Renders 10 x x.toks)
  | .lit tok v, hp => by
      have := litTok_renders (by simpa [Raw.printable] using hp : litOk tok v = true)
      exact ⟨up8 this, fun _ => this, fun h => by simp [Raw.isRef] at h⟩
  | .this, hp => by simp [Raw.printable] at hp
  | .var v, _ => by
      have h10 : Renders 10 (.var v) [mkTok .var v] := .var (mkTok .var v) rfl
      exact ⟨up8 (.ref h10), fun _ => .ref h10, fun _ => h10⟩
  | .field m n, hp => by
      have h10 : Renders 10 (.field m n) (Raw.field m n).toks := by
        by_cases hm : m = .this
        · subst hm
          exact .own (wordT n) rfl (isNameTok_of_isName (printable_own hp))
        · have hmr : m.isRef = true := by cases m <;> simp_all [Raw.printable]
          obtain ⟨hn, hpm⟩ := printable_field hmr hp
          rw [toks_field n hmr]
          exact .field (symT ".") (wordT n) (by decide) rfl hn ((printed_renders m hpm).2.2 hmr)
      have hr : (Raw.field m n).isAtomic = true := by
        by_cases hm : m = .this
        · subst hm; rfl
        · have hmr : m.isRef = true := by cases m <;> simp_all [Raw.printable]
          cases m <;> simp_all [Raw.isAtomic, Raw.isRef]
      exact ⟨up8 (.ref h10), fun _ => .ref h10, fun _ => h10⟩
  | .index a i, hp => by
      obtain ⟨ha, hpa, hpi⟩ := printable_index hp
      have h10 : Renders 10 (.index a i) (Raw.index a i).toks := by
        simp only [Raw.toks, List.append_assoc, List.cons_append, List.nil_append]
        exact .index (symT "[") (symT "]") (by decide) (by decide) ((printed_renders a hpa).2.2 ha) (upTo 3 5 (by omega) (printed_renders i hpi).1)
      exact ⟨up8 (.ref h10), fun _ => .ref h10, fun _ => h10⟩
  | .set .nil, hp => by simp [Raw.printable] at hp
  | .set (.cons e es), hp => by
      have hpl : (RawList.cons e es).printable = true := by simpa [Raw.printable] using hp
      have h11 := set_members_render e es (printed_all (.cons e es) hpl)
      have h9 : Renders 9 (.set (.cons e es)) (Raw.set (.cons e es)).toks := by
        simp only [Raw.toks, List.append_assoc, List.cons_append, List.nil_append]
        exact .set (symT "{") (symT "}") (by decide) (by decide) h11
      exact ⟨up8 h9, fun _ => h9, fun h => by simp [Raw.isRef] at h⟩
  | .range lo hi exLo exHi, hp => by
      simp only [Raw.printable, Bool.and_eq_true] at hp
      have hl := upTo 3 5 (by omega) (printed_renders lo hp.1).1
      have hh := upTo 3 5 (by omega) (printed_renders hi hp.2).1
      have h9 : Renders 9 (.range lo hi exLo exHi) (Raw.range lo hi exLo exHi).toks := by
        simp only [Raw.toks, List.append_assoc, List.cons_append, List.nil_append]
        have := Renders.range (symT (if exLo then "![" else "[")) (wordT "to") (symT (if exHi then "]!" else "]"))
          (by cases exLo <;> decide) (by decide) (by cases exHi <;> decide) hl hh
        cases exLo <;> cases exHi <;> simpa [symT, mkTok] using this
      exact ⟨up8 h9, fun _ => h9, fun h => by simp [Raw.isRef] at h⟩
  | .call f (.cons a .nil), hp => by
      simp only [Raw.printable, Bool.and_eq_true] at hp
      have ha := upTo 3 5 (by omega) (printed_renders a hp.2).1
      have h9 : Renders 9 (.call f (.cons a .nil)) (Raw.call f (.cons a .nil)).toks := by
        simp only [Raw.toks, RawList.toksSep, List.append_assoc, List.cons_append, List.nil_append]
        exact .call (wordT f) (symT "(") (symT ")") rfl (isNameTok_of_isName hp.1) (by decide) (by decide) ha
      exact ⟨up8 h9, fun _ => h9, fun h => by simp [Raw.isRef] at h⟩
  | .call f .nil, hp => by simp [Raw.printable] at hp
  | .call f (.cons _ (.cons _ _)), hp => by simp [Raw.printable] at hp
  | .un op a, hp => by
      simp only [Raw.printable, Bool.and_eq_true, Bool.or_eq_true, beq_iff_eq] at hp
      obtain ⟨hop, hpa⟩ := hp
      have ha := (printed_renders a hpa).1
      refine ⟨?_, fun h => by simp [Raw.isAtomic, Raw.isRef] at h, fun h => by simp [Raw.isRef] at h⟩
      rcases hop with rfl | rfl
      · have h3 : Renders 3 (.un "not" a) (wordT "not" :: a.toks) := .not (wordT "not") (by decide) (upTo 5 3 (by omega) ha (fun _ _ => printed_headOk' a hpa))
        have := Renders.paren (symT "(") (symT ")") (by decide) (by decide) (upTo 3 0 (by omega) h3)
        simpa [Raw.toks] using this
      · have h8 : Renders 8 (.un "-" a) (symT "-" :: a.toks) := .neg (symT "-") (by decide) ha
        have := Renders.paren (symT "(") (symT ")") (by decide) (by decide) (upTo 8 0 (by omega) h8)
        simpa [Raw.toks] using this
  | .bin op a b, hp => by
      simp only [Raw.printable, Bool.and_eq_true] at hp
      obtain ⟨⟨hop, hpa⟩, hpb⟩ := hp
      obtain ⟨j, hj⟩ := Option.isSome_iff_exists.1 hop
      have ha := (printed_renders a hpa).1
      have hb := (printed_renders b hpb).1
      refine ⟨?_, fun h => by simp [Raw.isAtomic, Raw.isRef] at h, fun h => by simp [Raw.isRef] at h⟩
      obtain ⟨htext, hcase⟩ := opTok_level hj
      have inner : Renders 0 (.bin op a b) (a.toks ++ opTok op :: b.toks) := by
        rcases hcase with ⟨hl, ht⟩ | ⟨rfl, ht⟩
        · have hj7 : j ≤ 7 := by simp only [isLoopLevel, Bool.or_eq_true, beq_iff_eq] at hl; omega
          have := Renders.binL (opTok op) hl ht (upTo (8 - j) j (by omega) (by rw [show j + (8 - j) = 8 by omega]; exact ha) (fun _ _ => printed_headOk' a hpa))
            (upTo (8 - (j + 1)) (j + 1) (by omega) (by rw [show j + 1 + (8 - (j + 1)) = 8 by omega]; exact hb) (fun _ _ => printed_headOk' b hpb))
          rw [htext] at this
          exact upTo j 0 (by omega) (by rw [Nat.zero_add]; exact this) (fun _ _ => printed_headOk a hpa _)
        · have := Renders.rel (opTok op) ht (upTo 3 5 (by omega) ha) (upTo 3 5 (by omega) hb)
          rw [htext] at this
          exact upTo 4 0 (by omega) this (fun _ _ => printed_headOk a hpa _)
      have := Renders.paren (symT "(") (symT ")") (by decide) (by decide) inner
      simpa [Raw.toks] using this
  | .quant q x d b, hp => by
      simp only [Raw.printable, Bool.and_eq_true] at hp
      obtain ⟨⟨⟨hx, hpd⟩, hda⟩, hpb⟩ := hp
      have hd := (printed_renders d hpd).2.1 hda
      have hb := upTo 5 3 (by omega) (printed_renders b hpb).1 (fun _ _ => printed_headOk' b hpb)
      refine ⟨?_, fun h => by simp [Raw.isAtomic, Raw.isRef] at h, fun h => by simp [Raw.isRef] at h⟩
      cases q with
      | all =>
        have h3 := Renders.quant (wordT "forall") (wordT x) (wordT "in") (symT ":") (by decide) rfl hx (by decide) (by decide) hd hb
        have e1 : ((wordT "forall").text == "forall") = true := by decide
        simp only [e1, ↓reduceIte, show (wordT x).text = x from rfl] at h3
        have := Renders.paren (symT "(") (symT ")") (by decide) (by decide) (upTo 3 0 (by omega) h3)
        simpa [Raw.toks] using this
      | some =>
        have h3 := Renders.quant (wordT "exists") (wordT x) (wordT "in") (symT ":") (by decide) rfl hx (by decide) (by decide) hd hb
        have e1 : ((wordT "exists").text == "forall") = false := by decide
        simp only [e1, Bool.false_eq_true, ↓reduceIte, show (wordT x).text = x from rfl] at h3
        have := Renders.paren (symT "(") (symT ")") (by decide) (by decide) (upTo 3 0 (by omega) h3)
        simpa [Raw.toks] using this
theorem printed_all : ∀ (es : RawList), es.printable = true → ∀ x ∈ es.toList, Renders 5 x x.toks
  | .nil, _ => fun x hx => by simp [RawList.toList] at hx
  | .cons e es, hp => fun x hx => by
      simp only [RawList.printable, Bool.and_eq_true] at hp
      simp only [RawList.toList, List.mem_cons] at hx
      rcases hx with hx | hx
      · exact hx ▸ upTo 3 5 (by omega) (printed_renders e hp.1).1
      · exact printed_all es hp.2 x hx
end

/-- **the grammar is unambiguous**: a token sequence is a `condition` for at most one tree (both trees are what the parser returns) -/
theorem renders_functional {e e' : Raw} {ts : List Tok} (h : Renders 0 e ts) (h' : Renders 0 e' ts) : e = e' := by
  have h1 := parse_complete h
  have h2 := parse_complete h'
  rw [h1] at h2
  exact Except.ok.inj h2

/-- the printed form of a printable tree is a `condition` of the grammar denoting that tree … -/
theorem printed_is_rendering (x : Raw) (hp : x.printable = true) : Renders 0 x x.toks :=
  upTo 8 0 (by omega) (printed_renders x hp).1 (fun _ _ => printed_headOk' x hp)

/-- … so the round trip of C06 (`parse_toks_roundtrip`) is an instance of `parse_complete` -/
theorem roundtrip_from_completeness (x : Raw) (hp : x.printable = true) : parseExpressionToks x.toks = .ok x :=
  parse_complete (printed_is_rendering x hp)

end Hpl
