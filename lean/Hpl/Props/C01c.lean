import Hpl.Props.C01b
/-!
# C01 / C06 — the grammar does not look at layout flags

`Renders` only reads, of each token, its kind, its text, and - for word tokens - whether it directly follows a word
character.  So a token sequence that agrees with a rendering in these respects (`tokKey`) is a rendering of the same tree
(`renders_sim`), and `parse_complete` applies to what the scanner makes of a printed text as soon as the scanner output agrees
with `Raw.toks` on the keys - which is what the driver checks on every generated text (`rtcheck`).
-/
namespace Hpl

theorem key_kind {t t' : Tok} (h : tokKey t' = tokKey t) : t'.kind = t.kind := by
  simp only [tokKey, Prod.mk.injEq] at h; exact h.1
theorem key_text {t t' : Tok} (h : tokKey t' = tokKey t) : t'.text = t.text := by
  simp only [tokKey, Prod.mk.injEq] at h; exact h.2.1
theorem key_isSym {t t' : Tok} (h : tokKey t' = tokKey t) (s : String) : isSym t' s = isSym t s := by
  simp only [isSym, key_kind h, key_text h]
theorem key_isKw {t t' : Tok} (h : tokKey t' = tokKey t) (s : String) : isKw t' s = isKw t s := by
  have hk := key_kind h
  have ht := key_text h
  simp only [tokKey, Prod.mk.injEq] at h
  have h3 := h.2.2
  simp only [isKw, hk, ht]
  cases hw : (t.kind == TokKind.word) with
  | false => simp
  | true =>
    rw [hk, hw] at h3
    simp only [Bool.true_and] at h3
    rw [h3]
theorem key_afterWord {t t' : Tok} (h : tokKey t' = tokKey t) (hw : t.kind = .word) : t'.afterWord = t.afterWord := by
  have hk := key_kind h
  simp only [tokKey, Prod.mk.injEq] at h
  have h3 := h.2.2
  rw [hk, hw] at h3
  simpa using h3
theorem key_opTest {t t' : Tok} (h : tokKey t' = tokKey t) (k : Nat) : opTest k t' = opTest k t := by
  unfold opTest; split <;> simp only [key_isKw h, key_isSym h]
theorem key_relTest {t t' : Tok} (h : tokKey t' = tokKey t) : relTest t' = relTest t := by
  simp only [relTest, key_kind h, key_text h, key_isKw h]

theorem key_isLogicKw {t t' : Tok} (h : tokKey t' = tokKey t) : isLogicKw t' = isLogicKw t := by
  simp only [isLogicKw, key_isKw h]
theorem key_isNameTok {t t' : Tok} (h : tokKey t' = tokKey t) (hw : t.kind = .word) : isNameTok t' = isNameTok t := by
  simp only [isNameTok, key_text h, key_afterWord h hw]

theorem map_cons_inv {ts' : List Tok} {t : Tok} {ts : List Tok} (h : ts'.map tokKey = (t :: ts).map tokKey) :
    ∃ t' r', ts' = t' :: r' ∧ tokKey t' = tokKey t ∧ r'.map tokKey = ts.map tokKey := by
  cases ts' with
  | nil => simp at h
  | cons t' r' =>
    simp only [List.map_cons, List.cons.injEq] at h
    exact ⟨t', r', rfl, h.1, h.2⟩

theorem map_append_inv {ts' a b : List Tok} (h : ts'.map tokKey = (a ++ b).map tokKey) :
    ∃ a' b', ts' = a' ++ b' ∧ a'.map tokKey = a.map tokKey ∧ b'.map tokKey = b.map tokKey := by
  rw [List.map_append] at h
  obtain ⟨a', b', rfl, ha, hb⟩ := List.map_eq_append_iff.1 h
  exact ⟨a', b', rfl, ha, hb⟩

theorem map_single_inv {ts' : List Tok} {t : Tok} (h : ts'.map tokKey = [t].map tokKey) : ∃ t', ts' = [t'] ∧ tokKey t' = tokKey t := by
  obtain ⟨t', r', rfl, hk, hr⟩ := map_cons_inv h
  cases r' with
  | nil => exact ⟨t', rfl, hk⟩
  | cons _ _ => simp at hr

/-- **the grammar reads tokens only through their key** -/
theorem renders_sim {k : Nat} {e : Raw} {ts : List Tok} (h : Renders k e ts) : ∀ ts', ts'.map tokKey = ts.map tokKey → Renders k e ts' := by
  induction h with
  | @up k e ts hk hh _ ih =>
    intro ts' h
    refine .up hk (fun h3 t' r' he => ?_) (ih ts' h)
    subst he
    cases ts with
    | nil => simp at h
    | cons t r =>
      simp only [List.map_cons, List.cons.injEq] at h
      rw [key_isLogicKw h.1]
      exact hh h3 t r rfl
  | @binL k a b ta tb t hl ht _ _ iha ihb =>
    intro ts' h
    obtain ⟨a', r', rfl, ha, hr⟩ := map_append_inv h
    obtain ⟨t', b', rfl, hk, hb⟩ := map_cons_inv hr
    have := Renders.binL t' hl (by rw [key_opTest hk]; exact ht) (iha a' ha) (ihb b' hb)
    rw [key_text hk] at this; exact this
  | @rel a b ta tb t ht _ _ iha ihb =>
    intro ts' h
    obtain ⟨a', r', rfl, ha, hr⟩ := map_append_inv h
    obtain ⟨t', b', rfl, hk, hb⟩ := map_cons_inv hr
    have := Renders.rel t' (by rw [key_relTest hk]; exact ht) (iha a' ha) (ihb b' hb)
    rw [key_text hk] at this; exact this
  | not t ht _ iha =>
    intro ts' h
    obtain ⟨t', a', rfl, hk, ha⟩ := map_cons_inv h
    exact .not t' (by rw [key_isKw hk]; exact ht) (iha a' ha)
  | @quant d b td tb t v kin c ht hvk hvn hkin hc _ _ ihd ihb =>
    intro ts' h
    obtain ⟨t', r1, rfl, hkt, h1⟩ := map_cons_inv h
    obtain ⟨v', r2, rfl, hkv, h2⟩ := map_cons_inv h1
    obtain ⟨kin', r3, rfl, hkk, h3⟩ := map_cons_inv h2
    obtain ⟨d', r4, rfl, hd, h4⟩ := map_append_inv h3
    obtain ⟨c', b', rfl, hkc, hb⟩ := map_cons_inv h4
    have := Renders.quant t' v' kin' c' (by rw [key_isKw hkt, key_isKw hkt]; exact ht) (by rw [key_kind hkv]; exact hvk)
      (by rw [key_text hkv]; exact hvn) (by rw [key_isKw hkk]; exact hkin) (by rw [key_isSym hkc]; exact hc) (ihd d' hd) (ihb b' hb)
    rw [key_text hkt, key_text hkv] at this; exact this
  | neg t ht _ iha =>
    intro ts' h
    obtain ⟨t', a', rfl, hk, ha⟩ := map_cons_inv h
    exact .neg t' (by rw [key_isSym hk]; exact ht) (iha a' ha)
  | @paren e ts o c ho hc _ ih =>
    intro ts' h
    obtain ⟨o', r1, rfl, hko, h1⟩ := map_cons_inv h
    obtain ⟨m', r2, rfl, hm, h2⟩ := map_append_inv h1
    obtain ⟨c', rfl, hkc⟩ := map_single_inv h2
    exact .paren o' c' (by rw [key_isSym hko]; exact ho) (by rw [key_isSym hkc]; exact hc) (ih m' hm)
  | str t hk =>
    intro ts' h
    obtain ⟨t', rfl, hkt⟩ := map_single_inv h
    have := Renders.str t' (by rw [key_kind hkt]; exact hk)
    rw [key_text hkt] at this; exact this
  | num t v hk hv =>
    intro ts' h
    obtain ⟨t', rfl, hkt⟩ := map_single_inv h
    have := Renders.num t' v (by rw [key_kind hkt]; exact hk) (by rw [key_text hkt]; exact hv)
    rw [key_text hkt] at this; exact this
  | true_ t hk ht =>
    intro ts' h
    obtain ⟨t', rfl, hkt⟩ := map_single_inv h
    exact .true_ t' (by rw [key_kind hkt]; exact hk) (by rw [key_text hkt]; exact ht)
  | false_ t hk ht =>
    intro ts' h
    obtain ⟨t', rfl, hkt⟩ := map_single_inv h
    exact .false_ t' (by rw [key_kind hkt]; exact hk) (by rw [key_text hkt]; exact ht)
  | const t v hk ha hv =>
    intro ts' h
    obtain ⟨t', rfl, hkt⟩ := map_single_inv h
    have := Renders.const t' v (by rw [key_kind hkt]; exact hk) (by rw [key_afterWord hkt hk]; exact ha) (by rw [key_text hkt]; exact hv)
    rw [key_text hkt] at this; exact this
  | @call a ta f o c hk hn ho hc _ iha =>
    intro ts' h
    obtain ⟨f', r1, rfl, hkf, h1⟩ := map_cons_inv h
    obtain ⟨o', r2, rfl, hko, h2⟩ := map_cons_inv h1
    obtain ⟨a', r3, rfl, ha, h3⟩ := map_append_inv h2
    obtain ⟨c', rfl, hkc⟩ := map_single_inv h3
    have := Renders.call f' o' c' (by rw [key_kind hkf]; exact hk) (by rw [key_isNameTok hkf hk]; exact hn) (by rw [key_isSym hko]; exact ho)
      (by rw [key_isSym hkc]; exact hc) (iha a' ha)
    rw [key_text hkf] at this; exact this
  | @range lo hi tl th o kto c ho hto hc _ _ ihl ihh =>
    intro ts' h
    obtain ⟨o', r1, rfl, hko, h1⟩ := map_cons_inv h
    obtain ⟨l', r2, rfl, hl, h2⟩ := map_append_inv h1
    obtain ⟨k', r3, rfl, hkk, h3⟩ := map_cons_inv h2
    obtain ⟨h', r4, rfl, hh, h4⟩ := map_append_inv h3
    obtain ⟨c', rfl, hkc⟩ := map_single_inv h4
    have := Renders.range o' k' c' (by rw [key_isSym hko, key_isSym hko]; exact ho) (by rw [key_isKw hkk]; exact hto)
      (by rw [key_isSym hkc, key_isSym hkc]; exact hc) (ihl l' hl) (ihh h' hh)
    rw [key_text hko, key_text hkc] at this; exact this
  | setOne _ ihe => intro ts' h; exact .setOne (ihe ts' h)
  | @setMore es ts e te c hc _ _ ihs ihe =>
    intro ts' h
    obtain ⟨s', r1, rfl, hs, h1⟩ := map_append_inv h
    obtain ⟨c', e', rfl, hkc, he⟩ := map_cons_inv h1
    exact .setMore c' (by rw [key_isSym hkc]; exact hc) (ihs s' hs) (ihe e' he)
  | @set es ts o c ho hc _ ihs =>
    intro ts' h
    obtain ⟨o', r1, rfl, hko, h1⟩ := map_cons_inv h
    obtain ⟨m', r2, rfl, hm, h2⟩ := map_append_inv h1
    obtain ⟨c', rfl, hkc⟩ := map_single_inv h2
    exact .set o' c' (by rw [key_isSym hko]; exact ho) (by rw [key_isSym hkc]; exact hc) (ihs m' hm)
  | var t hk =>
    intro ts' h
    obtain ⟨t', rfl, hkt⟩ := map_single_inv h
    have := Renders.var t' (by rw [key_kind hkt]; exact hk)
    rw [key_text hkt] at this; exact this
  | own t hk hn =>
    intro ts' h
    obtain ⟨t', rfl, hkt⟩ := map_single_inv h
    have := Renders.own t' (by rw [key_kind hkt]; exact hk) (by rw [key_isNameTok hkt hk]; exact hn)
    rw [key_text hkt] at this; exact this
  | @field m tm d n hd hk hn _ ih =>
    intro ts' h
    obtain ⟨m', r1, rfl, hm, h1⟩ := map_append_inv h
    obtain ⟨d', r2, rfl, hkd, h2⟩ := map_cons_inv h1
    obtain ⟨n', rfl, hkn⟩ := map_single_inv h2
    have := Renders.field d' n' (by rw [key_isSym hkd]; exact hd) (by rw [key_kind hkn]; exact hk) (by rw [key_text hkn]; exact hn) (ih m' hm)
    rw [key_text hkn] at this; exact this
  | @index a ta i ti o c ho hc _ _ iha ihi =>
    intro ts' h
    obtain ⟨a', r1, rfl, ha, h1⟩ := map_append_inv h
    obtain ⟨o', r2, rfl, hko, h2⟩ := map_cons_inv h1
    obtain ⟨i', r3, rfl, hi, h3⟩ := map_append_inv h2
    obtain ⟨c', rfl, hkc⟩ := map_single_inv h3
    exact .index o' c' (by rw [key_isSym hko]; exact ho) (by rw [key_isSym hkc]; exact hc) (iha a' ha) (ihi i' hi)
  | ref _ ih => intro ts' h; exact .ref (ih ts' h)

/-- the round trip on what a scanner makes of the printed form: if the tokens agree with `Raw.toks` on the keys the grammar reads
    (the per-text check `rtcheck` of the driver), the parser returns the tree -/
theorem roundtrip_of_scanned (x : Raw) (hp : x.printable = true) (ts : List Tok) (h : ts.map tokKey = x.toks.map tokKey) :
    parseExpressionToks ts = .ok x :=
  parse_complete (renders_sim (printed_is_rendering x hp) ts h)

end Hpl
