import Hpl.Props.C01c
/-!
# C01 — the expression parser reads tokens only through their keys (layout independence at token level)

`parse_key_invariant`: two token sequences that agree on `tokKey` (kind, text, and for words whether they directly follow a word
character) are parsed to the same result — the same tree, or both rejected — by every function of the recursive-descent parser, with
any fuel. In particular the flags recording white space between tokens (`glued`) never influence the tree.
-/
namespace Hpl

/-- agreement on the keys -/
def KEq (ts' ts : List Tok) : Prop := ts'.map tokKey = ts.map tokKey

theorem KEq.nil_left {ts : List Tok} (h : KEq [] ts) : ts = [] := by
  unfold KEq at h; simpa using h.symm
theorem KEq.cons_inv {t' : Tok} {r' ts : List Tok} (h : KEq (t' :: r') ts) : ∃ t r, ts = t :: r ∧ tokKey t' = tokKey t ∧ KEq r' r := by
  unfold KEq at h
  cases ts with
  | nil => simp at h
  | cons t r => simp only [List.map_cons, List.cons.injEq] at h; exact ⟨t, r, rfl, h.1, h.2⟩
theorem KEq.cons {t' t : Tok} {r' r : List Tok} (hk : tokKey t' = tokKey t) (h : KEq r' r) : KEq (t' :: r') (t :: r) := by
  unfold KEq at *; simp [hk, h]
theorem KEq.refl (ts : List Tok) : KEq ts ts := rfl

/-- same outcome: the same tree with key-equal remaining input, or both errors -/
def RRel {α : Type} (x y : PR (α × List Tok)) : Prop :=
  match x, y with
  | .ok (r, rs), .ok (r', rs') => r = r' ∧ KEq rs rs'
  | .error _, .error _ => True
  | _, _ => False

theorem RRel.ok {α : Type} {r : α} {rs rs' : List Tok} (h : KEq rs rs') : RRel (.ok (r, rs)) (.ok (r, rs')) := ⟨rfl, h⟩
theorem RRel.err {α : Type} : RRel (perr : PR (α × List Tok)) perr := trivial

theorem RRel.bind {α β : Type} {x y : PR (α × List Tok)} {k k' : α × List Tok → PR (β × List Tok)} (h : RRel x y)
    (hk : ∀ r rs rs', KEq rs rs' → RRel (k (r, rs)) (k' (r, rs'))) : RRel (x >>= k) (y >>= k') := by
  cases x with
  | error e => cases y with
    | error e' => trivial
    | ok b => exact absurd h (by simp [RRel])
  | ok a => cases y with
    | error e' => exact absurd h (by simp [RRel])
    | ok b =>
      obtain ⟨r, rs⟩ := a; obtain ⟨r', rs'⟩ := b
      obtain ⟨rfl, hrs⟩ := h
      exact hk r rs rs' hrs

end Hpl

namespace Hpl

structure SimAt (f : Nat) : Prop where
  cond : ∀ ts' ts, KEq ts' ts → RRel (pCondition f ts') (pCondition f ts)
  condLoop : ∀ a ts' ts, KEq ts' ts → RRel (pCondLoop f a ts') (pCondLoop f a ts)
  disj : ∀ ts' ts, KEq ts' ts → RRel (pDisjunction f ts') (pDisjunction f ts)
  disjLoop : ∀ a ts' ts, KEq ts' ts → RRel (pDisjLoop f a ts') (pDisjLoop f a ts)
  conj : ∀ ts' ts, KEq ts' ts → RRel (pConjunction f ts') (pConjunction f ts)
  conjLoop : ∀ a ts' ts, KEq ts' ts → RRel (pConjLoop f a ts') (pConjLoop f a ts)
  logic : ∀ ts' ts, KEq ts' ts → RRel (pLogic f ts') (pLogic f ts)
  atomicCond : ∀ ts' ts, KEq ts' ts → RRel (pAtomicCondition f ts') (pAtomicCondition f ts)
  expr : ∀ ts' ts, KEq ts' ts → RRel (pExpr f ts') (pExpr f ts)
  exprLoop : ∀ a ts' ts, KEq ts' ts → RRel (pExprLoop f a ts') (pExprLoop f a ts)
  term : ∀ ts' ts, KEq ts' ts → RRel (pTerm f ts') (pTerm f ts)
  termLoop : ∀ a ts' ts, KEq ts' ts → RRel (pTermLoop f a ts') (pTermLoop f a ts)
  factor : ∀ ts' ts, KEq ts' ts → RRel (pFactor f ts') (pFactor f ts)
  factorLoop : ∀ a ts' ts, KEq ts' ts → RRel (pFactorLoop f a ts') (pFactorLoop f a ts)
  exponent : ∀ ts' ts, KEq ts' ts → RRel (pExponent f ts') (pExponent f ts)
  atomicValue : ∀ ts' ts, KEq ts' ts → RRel (pAtomicValue f ts') (pAtomicValue f ts)
  setTail : ∀ acc ts' ts, KEq ts' ts → RRel (pSetTail f acc ts') (pSetTail f acc ts)
  rangeBody : ∀ ex ts' ts, KEq ts' ts → RRel (pRangeBody f ex ts') (pRangeBody f ex ts)
  refTail : ∀ r ts' ts, KEq ts' ts → RRel (pRefTail f r ts') (pRefTail f r ts)

/-- a left-recursive loop with operator test `test` -/
theorem loop_sim {f : Nat} (loop : Nat → Raw → List Tok → PR (Raw × List Tok)) (sub : Nat → List Tok → PR (Raw × List Tok))
    (test : Tok → Bool) (mk : Tok → Raw → Raw → Raw)
    (hdef : ∀ a ts, loop (f + 1) a ts = (match ts with
      | t :: rest => if test t then (do let (b, ts') ← sub f rest; loop f (mk t a b) ts') else .ok (a, ts)
      | [] => .ok (a, ts)))
    (htest : ∀ t' t, tokKey t' = tokKey t → test t' = test t) (hmk : ∀ t' t a b, tokKey t' = tokKey t → mk t' a b = mk t a b)
    (ihSub : ∀ ts' ts, KEq ts' ts → RRel (sub f ts') (sub f ts))
    (ihLoop : ∀ a ts' ts, KEq ts' ts → RRel (loop f a ts') (loop f a ts)) :
    ∀ a ts' ts, KEq ts' ts → RRel (loop (f + 1) a ts') (loop (f + 1) a ts) := by
  intro a ts' ts h
  rw [hdef, hdef]
  cases ts' with
  | nil => have := h.nil_left; subst this; exact RRel.ok (KEq.refl _)
  | cons t' r' =>
    obtain ⟨t, r, rfl, hk, hr⟩ := h.cons_inv
    simp only [htest t' t hk]
    split
    · refine RRel.bind (ihSub r' r hr) (fun b rs rs' hrs => ?_)
      simp only [hmk t' t a b hk]
      exact ihLoop _ rs rs' hrs
    · exact RRel.ok (KEq.cons hk hr)

end Hpl

namespace Hpl

theorem key_isLogicStart {t' t : Tok} (hk : tokKey t' = tokKey t) : (isKw t' "forall" || isKw t' "exists") = (isKw t "forall" || isKw t "exists") := by
  rw [key_isKw hk, key_isKw hk]

theorem simAt_zero : SimAt 0 := by
  constructor <;> intros <;> simp [pCondition, pCondLoop, pDisjunction, pDisjLoop, pConjunction, pConjLoop, pLogic, pAtomicCondition,
    pExpr, pExprLoop, pTerm, pTermLoop, pFactor, pFactorLoop, pExponent, pAtomicValue, pSetTail, pRangeBody, pRefTail, RRel, perr]

theorem simAt_succ (f : Nat) (ih : SimAt f) : SimAt (f + 1) where
  cond := fun ts' ts h => by
    simp only [pCondition]
    exact RRel.bind (ih.disj ts' ts h) (fun a rs rs' hrs => ih.condLoop a rs rs' hrs)
  condLoop := loop_sim pCondLoop pDisjunction (fun t => isKw t "implies" || isKw t "iff") (fun t a b => .bin t.text a b)
    (fun a ts => by cases ts <;> rfl) (fun t' t hk => by simp only [key_isKw hk]) (fun t' t a b hk => by simp only [key_text hk]) ih.disj ih.condLoop
  disj := fun ts' ts h => by
    simp only [pDisjunction]
    exact RRel.bind (ih.conj ts' ts h) (fun a rs rs' hrs => ih.disjLoop a rs rs' hrs)
  disjLoop := loop_sim pDisjLoop pConjunction (fun t => isKw t "or") (fun _ a b => .bin "or" a b)
    (fun a ts => by cases ts <;> rfl) (fun t' t hk => key_isKw hk _) (fun _ _ _ _ _ => rfl) ih.conj ih.disjLoop
  conj := fun ts' ts h => by
    simp only [pConjunction]
    exact RRel.bind (ih.logic ts' ts h) (fun a rs rs' hrs => ih.conjLoop a rs rs' hrs)
  conjLoop := loop_sim pConjLoop pLogic (fun t => isKw t "and") (fun _ a b => .bin "and" a b)
    (fun a ts => by cases ts <;> rfl) (fun t' t hk => key_isKw hk _) (fun _ _ _ _ _ => rfl) ih.logic ih.conjLoop
  logic := fun ts' ts h => by
    simp only [pLogic]
    cases ts' with
    | nil => have := h.nil_left; subst this; exact RRel.err
    | cons t' r' =>
      obtain ⟨t, r, rfl, hk, hr⟩ := h.cons_inv
      simp only [key_isKw hk]
      split
      · exact RRel.bind (ih.logic r' r hr) (fun a rs rs' hrs => RRel.ok hrs)
      · split
        · cases r' with
          | nil => have := hr.nil_left; subst this; exact RRel.err
          | cons v' r2' =>
            obtain ⟨v, r2, rfl, hkv, hr2⟩ := hr.cons_inv
            cases r2' with
            | nil => have := hr2.nil_left; subst this; exact RRel.err
            | cons k' r3' =>
              obtain ⟨k, r3, rfl, hkk, hr3⟩ := hr2.cons_inv
              simp only [key_kind hkv, key_text hkv, key_isKw hkk]
              split
              · refine RRel.bind (ih.atomicValue r3' r3 hr3) (fun d rs rs' hrs => ?_)
                cases rs with
                | nil => have := hrs.nil_left; subst this; exact RRel.err
                | cons c' r4' =>
                  obtain ⟨c, r4, rfl, hkc, hr4⟩ := hrs.cons_inv
                  simp only [key_isSym hkc]
                  split
                  · refine RRel.bind (ih.logic r4' r4 hr4) (fun b rs2 rs2' hrs2 => ?_)
                    simp only [key_text hk]
                    exact RRel.ok hrs2
                  · exact RRel.err
              · exact RRel.err
        · exact ih.atomicCond _ _ (KEq.cons hk hr)
  atomicCond := fun ts' ts h => by
    simp only [pAtomicCondition]
    refine RRel.bind (ih.expr ts' ts h) (fun a rs rs' hrs => ?_)
    cases rs with
    | nil => have := hrs.nil_left; subst this; exact RRel.ok (KEq.refl _)
    | cons t' r' =>
      obtain ⟨t, r, rfl, hk, hr⟩ := hrs.cons_inv
      simp only [key_kind hk, key_text hk, key_isKw hk]
      split
      · exact RRel.bind (ih.expr r' r hr) (fun b rs2 rs2' hrs2 => RRel.ok hrs2)
      · split
        · exact RRel.bind (ih.expr r' r hr) (fun b rs2 rs2' hrs2 => RRel.ok hrs2)
        · exact RRel.ok (KEq.cons hk hr)
  expr := fun ts' ts h => by
    simp only [pExpr]
    exact RRel.bind (ih.term ts' ts h) (fun a rs rs' hrs => ih.exprLoop a rs rs' hrs)
  exprLoop := loop_sim pExprLoop pTerm (fun t => isSym t "+" || isSym t "-") (fun t a b => .bin t.text a b)
    (fun a ts => by cases ts <;> rfl) (fun t' t hk => by simp only [key_isSym hk]) (fun t' t a b hk => by simp only [key_text hk]) ih.term ih.exprLoop
  term := fun ts' ts h => by
    simp only [pTerm]
    exact RRel.bind (ih.factor ts' ts h) (fun a rs rs' hrs => ih.termLoop a rs rs' hrs)
  termLoop := loop_sim pTermLoop pFactor (fun t => isSym t "*" || isSym t "/") (fun t a b => .bin t.text a b)
    (fun a ts => by cases ts <;> rfl) (fun t' t hk => by simp only [key_isSym hk]) (fun t' t a b hk => by simp only [key_text hk]) ih.factor ih.termLoop
  factor := fun ts' ts h => by
    simp only [pFactor]
    exact RRel.bind (ih.exponent ts' ts h) (fun a rs rs' hrs => ih.factorLoop a rs rs' hrs)
  factorLoop := loop_sim pFactorLoop pExponent (fun t => isSym t "**") (fun _ a b => .bin "**" a b)
    (fun a ts => by cases ts <;> rfl) (fun t' t hk => key_isSym hk _) (fun _ _ _ _ _ => rfl) ih.exponent ih.factorLoop
  exponent := fun ts' ts h => by
    simp only [pExponent]
    cases ts' with
    | nil => have := h.nil_left; subst this; exact RRel.err
    | cons t' r' =>
      obtain ⟨t, r, rfl, hk, hr⟩ := h.cons_inv
      simp only [key_isSym hk]
      split
      · exact RRel.bind (ih.exponent r' r hr) (fun a rs rs' hrs => RRel.ok hrs)
      · split
        · refine RRel.bind (ih.cond r' r hr) (fun a rs rs' hrs => ?_)
          cases rs with
          | nil => have := hrs.nil_left; subst this; exact RRel.err
          | cons c' r2' =>
            obtain ⟨c, r2, rfl, hkc, hr2⟩ := hrs.cons_inv
            simp only [key_isSym hkc]
            split
            · exact RRel.ok hr2
            · exact RRel.err
        · exact ih.atomicValue _ _ (KEq.cons hk hr)
  atomicValue := fun ts' ts h => by
    simp only [pAtomicValue]
    cases ts' with
    | nil => have := h.nil_left; subst this; exact RRel.err
    | cons t' r' =>
      obtain ⟨t, r, rfl, hk, hr⟩ := h.cons_inv
      simp only [key_kind hk, key_text hk]
      cases hkind : t.kind with
      | str => exact RRel.ok hr
      | num =>
        simp only
        cases decimalValue t.text with
        | some v => exact RRel.ok hr
        | none => exact RRel.err
      | var => exact ih.refTail _ _ _ hr
      | word =>
        simp only [key_afterWord hk hkind]
        split
        · exact RRel.err
        · split
          · exact RRel.ok hr
          · split
            · exact RRel.ok hr
            · split
              · cases numberConstant t.text with
                | some v => exact RRel.ok hr
                | none => exact RRel.err
              · cases r' with
                | nil => have := hr.nil_left; subst this; exact RRel.ok (KEq.refl _)
                | cons o' r2' =>
                  obtain ⟨o, r2, rfl, hko, hr2⟩ := hr.cons_inv
                  simp only [key_isSym hko]
                  split
                  · refine RRel.bind (ih.expr r2' r2 hr2) (fun a rs rs' hrs => ?_)
                    cases rs with
                    | nil => have := hrs.nil_left; subst this; exact RRel.err
                    | cons c' r3' =>
                      obtain ⟨c, r3, rfl, hkc, hr3⟩ := hrs.cons_inv
                      simp only [key_isSym hkc]
                      split
                      · exact RRel.ok hr3
                      · exact RRel.err
                  · exact ih.refTail _ _ _ (KEq.cons hko hr2)
      | sym =>
        simp only
        split
        · exact RRel.bind (ih.expr r' r hr) (fun a rs rs' hrs => ih.setTail _ rs rs' hrs)
        · split
          · exact ih.rangeBody _ _ _ hr
          · split
            · exact ih.rangeBody _ _ _ hr
            · exact RRel.err
  setTail := fun acc ts' ts h => by
    simp only [pSetTail]
    cases ts' with
    | nil => have := h.nil_left; subst this; exact RRel.err
    | cons t' r' =>
      obtain ⟨t, r, rfl, hk, hr⟩ := h.cons_inv
      simp only [key_isSym hk]
      split
      · exact RRel.ok hr
      · split
        · exact RRel.bind (ih.expr r' r hr) (fun a rs rs' hrs => ih.setTail _ rs rs' hrs)
        · exact RRel.err
  rangeBody := fun ex ts' ts h => by
    simp only [pRangeBody]
    refine RRel.bind (ih.expr ts' ts h) (fun lo rs rs' hrs => ?_)
    cases rs with
    | nil => have := hrs.nil_left; subst this; exact RRel.err
    | cons t' r' =>
      obtain ⟨t, r, rfl, hk, hr⟩ := hrs.cons_inv
      simp only [key_isKw hk]
      split
      · refine RRel.bind (ih.expr r' r hr) (fun hi rs2 rs2' hrs2 => ?_)
        cases rs2 with
        | nil => have := hrs2.nil_left; subst this; exact RRel.err
        | cons c' r2' =>
          obtain ⟨c, r2, rfl, hkc, hr2⟩ := hrs2.cons_inv
          simp only [key_isSym hkc]
          split
          · exact RRel.ok hr2
          · split
            · exact RRel.ok hr2
            · exact RRel.err
      · exact RRel.err
  refTail := fun x ts' ts h => by
    simp only [pRefTail]
    cases ts' with
    | nil => have := h.nil_left; subst this; exact RRel.ok (KEq.refl _)
    | cons t' r' =>
      obtain ⟨t, r, rfl, hk, hr⟩ := h.cons_inv
      simp only [key_isSym hk]
      split
      · cases r' with
        | nil => have := hr.nil_left; subst this; exact RRel.err
        | cons n' r2' =>
          obtain ⟨n, r2, rfl, hkn, hr2⟩ := hr.cons_inv
          simp only [key_kind hkn, key_text hkn]
          split
          · exact ih.refTail _ _ _ hr2
          · exact RRel.err
      · split
        · refine RRel.bind (ih.expr r' r hr) (fun i rs rs' hrs => ?_)
          cases rs with
          | nil => have := hrs.nil_left; subst this; exact RRel.err
          | cons c' r2' =>
            obtain ⟨c, r2, rfl, hkc, hr2⟩ := hrs.cons_inv
            simp only [key_isSym hkc]
            split
            · exact ih.refTail _ _ _ hr2
            · exact RRel.err
        · exact RRel.ok (KEq.cons hk hr)

end Hpl

namespace Hpl

/-- **every function of the expression parser reads tokens only through their keys**, with any fuel -/
theorem parse_key_invariant : ∀ f, SimAt f
  | 0 => simAt_zero
  | f + 1 => simAt_succ f (parse_key_invariant f)

theorem KEq.length {ts' ts : List Tok} (h : KEq ts' ts) : ts'.length = ts.length := by
  have := congrArg List.length h; simpa using this

theorem KEq.isEmpty {ts' ts : List Tok} (h : KEq ts' ts) : ts'.isEmpty = ts.isEmpty := by
  cases ts' with
  | nil => have := h.nil_left; subst this; rfl
  | cons t' r' => obtain ⟨t, r, rfl, _, _⟩ := h.cons_inv; rfl

/-- **C01 (layout independence at token level)**: token sequences that agree on kind, text and word adjacency parse to the same
    tree, or are both rejected -/
theorem parseExpressionToks_sim {ts' ts : List Tok} (h : KEq ts' ts) : parseExpressionToks ts' = parseExpressionToks ts := by
  unfold parseExpressionToks parseFuel
  rw [h.length]
  have := (parse_key_invariant (20 * ts.length + 20)).cond ts' ts h
  cases h1 : pCondition (20 * ts.length + 20) ts' with
  | error e =>
    cases h2 : pCondition (20 * ts.length + 20) ts with
    | error e' => cases e; cases e'; rfl
    | ok b => rw [h1, h2] at this; exact absurd this (by simp [RRel])
  | ok a =>
    cases h2 : pCondition (20 * ts.length + 20) ts with
    | error e' => rw [h1, h2] at this; exact absurd this (by simp [RRel])
    | ok b =>
      rw [h1, h2] at this
      obtain ⟨r, rs⟩ := a; obtain ⟨r', rs'⟩ := b
      obtain ⟨rfl, hrs⟩ := this
      simp only [bind, Except.bind, hrs.isEmpty]

theorem pPredicate_sim {ts' ts : List Tok} (h : KEq ts' ts) : RRel (pPredicate ts') (pPredicate ts) := by
  unfold pPredicate
  cases ts' with
  | nil => have := h.nil_left; subst this; exact RRel.err
  | cons t' r' =>
    obtain ⟨t, r, rfl, hk, hr⟩ := h.cons_inv
    simp only [key_isSym hk]
    split
    · simp only [parseFuel, List.length_cons, hr.length]
      refine RRel.bind ((parse_key_invariant _).cond r' r hr) (fun a rs rs' hrs => ?_)
      cases rs with
      | nil => have := hrs.nil_left; subst this; exact RRel.err
      | cons c' r2' =>
        obtain ⟨c, r2, rfl, hkc, hr2⟩ := hrs.cons_inv
        simp only [key_isSym hkc]
        split
        · exact RRel.ok hr2
        · exact RRel.err
    · exact RRel.err

end Hpl
