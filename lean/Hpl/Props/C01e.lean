import Hpl.Props.C01b
import Hpl.Props.C18c
/-!
# C01 — the parser is sound for the grammar: whatever it returns, the grammar assigns

The converse of `parse_complete` (`Props/C01b`): if a function of the recursive-descent parser reads a phrase, the tokens it consumed
are a phrase of the corresponding grammar level (`Renders`) with exactly the returned tree.  With completeness:
`parseExpressionToks ts = ok e ↔ Renders 0 e ts` — a token sequence is accepted exactly when the grammar derives it, and then with
the tree the grammar assigns; every other sequence is rejected (`parse_rejects_iff`).
-/
namespace Hpl

/-- the result of a parser function on `ts` is a phrase of level `k` read from a prefix of `ts` -/
def Snd (k : Nat) (ts : List Tok) (x : PR (Raw × List Tok)) : Prop :=
  ∀ r rest, x = .ok (r, rest) → ∃ pre, ts = pre ++ rest ∧ Renders k r pre

/-- a loop that continues the phrase `a` -/
def SndLoop (k : Nat) (a : Raw) (ts : List Tok) (x : PR (Raw × List Tok)) : Prop :=
  ∀ pa, Renders k a pa → ∀ r rest, x = .ok (r, rest) → ∃ pre, ts = pre ++ rest ∧ Renders k r (pa ++ pre)

/-- the members of a set literal read so far, in source order -/
def rlOf (acc : List Raw) : RawList := acc.reverse.foldr (fun e es => RawList.cons e es) .nil

theorem rlOf_cons (a : Raw) (acc : List Raw) : rlOf (a :: acc) = rawSnoc (rlOf acc) a := by
  unfold rlOf
  rw [List.reverse_cons]
  generalize acc.reverse = l
  induction l with
  | nil => rfl
  | cons x xs ih => simp only [List.cons_append, List.foldr_cons, rawSnoc, ih]

structure SndAt (f : Nat) : Prop where
  cond : ∀ ts, Snd 0 ts (pCondition f ts)
  condLoop : ∀ a ts, SndLoop 0 a ts (pCondLoop f a ts)
  disj : ∀ ts, Snd 1 ts (pDisjunction f ts)
  disjLoop : ∀ a ts, SndLoop 1 a ts (pDisjLoop f a ts)
  conj : ∀ ts, Snd 2 ts (pConjunction f ts)
  conjLoop : ∀ a ts, SndLoop 2 a ts (pConjLoop f a ts)
  logic : ∀ ts, Snd 3 ts (pLogic f ts)
  atomicCond : ∀ ts, Snd 4 ts (pAtomicCondition f ts)
  expr : ∀ ts, Snd 5 ts (pExpr f ts)
  exprLoop : ∀ a ts, SndLoop 5 a ts (pExprLoop f a ts)
  term : ∀ ts, Snd 6 ts (pTerm f ts)
  termLoop : ∀ a ts, SndLoop 6 a ts (pTermLoop f a ts)
  factor : ∀ ts, Snd 7 ts (pFactor f ts)
  factorLoop : ∀ a ts, SndLoop 7 a ts (pFactorLoop f a ts)
  exponent : ∀ ts, Snd 8 ts (pExponent f ts)
  atomic : ∀ ts, Snd 9 ts (pAtomicValue f ts)
  setTail : ∀ acc ts pa, Renders 11 (.set (rlOf acc)) pa → ∀ r rest, pSetTail f acc ts = .ok (r, rest) →
    ∃ pre c es, ts = pre ++ c :: rest ∧ isSym c "}" = true ∧ r = .set es ∧ Renders 11 (.set es) (pa ++ pre)
  rangeBody : ∀ exLo ts r rest, pRangeBody f exLo ts = .ok (r, rest) →
    ∃ lo hi tl th kto c, ts = tl ++ kto :: (th ++ c :: rest) ∧ isKw kto "to" = true ∧ (isSym c "]" || isSym c "]!") = true ∧
      Renders 5 lo tl ∧ Renders 5 hi th ∧ r = .range lo hi exLo (c.text == "]!")
  refTail : ∀ r0 ts p0, Renders 10 r0 p0 → ∀ r rest, pRefTail f r0 ts = .ok (r, rest) → ∃ pre, ts = pre ++ rest ∧ Renders 10 r (p0 ++ pre)

theorem sndAt_zero : SndAt 0 where
  cond := fun _ _ _ h => by simp [pCondition, perr] at h
  condLoop := fun _ _ _ _ _ _ h => by simp [pCondLoop, perr] at h
  disj := fun _ _ _ h => by simp [pDisjunction, perr] at h
  disjLoop := fun _ _ _ _ _ _ h => by simp [pDisjLoop, perr] at h
  conj := fun _ _ _ h => by simp [pConjunction, perr] at h
  conjLoop := fun _ _ _ _ _ _ h => by simp [pConjLoop, perr] at h
  logic := fun _ _ _ h => by simp [pLogic, perr] at h
  atomicCond := fun _ _ _ h => by simp [pAtomicCondition, perr] at h
  expr := fun _ _ _ h => by simp [pExpr, perr] at h
  exprLoop := fun _ _ _ _ _ _ h => by simp [pExprLoop, perr] at h
  term := fun _ _ _ h => by simp [pTerm, perr] at h
  termLoop := fun _ _ _ _ _ _ h => by simp [pTermLoop, perr] at h
  factor := fun _ _ _ h => by simp [pFactor, perr] at h
  factorLoop := fun _ _ _ _ _ _ h => by simp [pFactorLoop, perr] at h
  exponent := fun _ _ _ h => by simp [pExponent, perr] at h
  atomic := fun _ _ _ h => by simp [pAtomicValue, perr] at h
  setTail := fun _ _ _ _ _ _ h => by simp [pSetTail, perr] at h
  rangeBody := fun _ _ _ _ h => by simp [pRangeBody, perr] at h
  refTail := fun _ _ _ _ _ _ h => by simp [pRefTail, perr] at h

/-- a level that is a sub-phrase followed by its loop -/
theorem snd_first {f k : Nat} (hk : k < 9) (hk3 : k ≠ 3) (p sub : Nat → List Tok → PR (Raw × List Tok))
    (loop : Nat → Raw → List Tok → PR (Raw × List Tok))
    (hdef : ∀ n ts, p (n + 1) ts = (do let (a, ts1) ← sub n ts; loop n a ts1))
    (ihSub : ∀ ts, Snd (k + 1) ts (sub f ts)) (ihLoop : ∀ a ts, SndLoop k a ts (loop f a ts)) : ∀ ts, Snd k ts (p (f + 1) ts) := by
  intro ts r rest h
  rw [hdef] at h
  obtain ⟨a, ts1, h1, h2⟩ := bind_ok_pair h
  obtain ⟨pre1, rfl, hr1⟩ := ihSub ts a ts1 h1
  obtain ⟨pre2, rfl, hr2⟩ := ihLoop a ts1 pre1 (.up hk (fun h3 => absurd h3 hk3) hr1) r rest h2
  exact ⟨pre1 ++ pre2, by simp, hr2⟩

/-- a left-recursive loop -/
theorem snd_loop {f k : Nat} (hl : isLoopLevel k = true) (loop : Nat → Raw → List Tok → PR (Raw × List Tok))
    (sub : Nat → List Tok → PR (Raw × List Tok)) (test : Tok → Bool) (mk : Tok → Raw → Raw → Raw)
    (hdef : ∀ n a ts, loop (n + 1) a ts = (match ts with
      | t :: rest => if test t then (do let (b, ts') ← sub n rest; loop n (mk t a b) ts') else .ok (a, ts)
      | [] => .ok (a, ts)))
    (htest : ∀ t, test t = true → opTest k t = true) (hmk : ∀ t a b, test t = true → mk t a b = .bin t.text a b)
    (ihSub : ∀ ts, Snd (k + 1) ts (sub f ts)) (ihLoop : ∀ a ts, SndLoop k a ts (loop f a ts)) :
    ∀ a ts, SndLoop k a ts (loop (f + 1) a ts) := by
  intro a ts pa hpa r rest h
  rw [hdef] at h
  cases ts with
  | nil =>
    obtain ⟨rfl, rfl⟩ := ok_pair_inj h
    exact ⟨[], rfl, by simpa using hpa⟩
  | cons t r0 =>
    simp only at h
    split at h
    · rename_i ht
      obtain ⟨b, ts', h1, h2⟩ := bind_ok_pair h
      obtain ⟨pre1, rfl, hr1⟩ := ihSub r0 b ts' h1
      have hbin : Renders k (mk t a b) (pa ++ t :: pre1) := by
        rw [hmk t a b ht]
        exact .binL t hl (htest t ht) hpa hr1
      obtain ⟨pre2, rfl, hr2⟩ := ihLoop (mk t a b) ts' (pa ++ t :: pre1) hbin r rest h2
      exact ⟨t :: (pre1 ++ pre2), by simp, by simpa using hr2⟩
    · obtain ⟨rfl, rfl⟩ := ok_pair_inj h
      exact ⟨[], rfl, by simpa using hpa⟩


theorem isSym_text {t : Tok} {s : String} (h : isSym t s = true) : t.text = s := by
  simp only [isSym, Bool.and_eq_true, beq_iff_eq] at h; exact h.2

theorem isKw_text {t : Tok} {s : String} (h : isKw t s = true) : t.text = s := by
  simp only [isKw, Bool.and_eq_true, beq_iff_eq] at h; exact h.1.2

theorem sndAt_succ (f : Nat) (ih : SndAt f) : SndAt (f + 1) where
  cond := snd_first (by omega) (by omega) pCondition pDisjunction pCondLoop (fun _ _ => rfl) ih.disj ih.condLoop
  condLoop := snd_loop (by decide) pCondLoop pDisjunction (fun t => isKw t "implies" || isKw t "iff") (fun t a b => .bin t.text a b)
    (fun n a ts => by cases ts <;> rfl) (fun t h => h) (fun _ _ _ _ => rfl) ih.disj ih.condLoop
  disj := snd_first (by omega) (by omega) pDisjunction pConjunction pDisjLoop (fun _ _ => rfl) ih.conj ih.disjLoop
  disjLoop := snd_loop (by decide) pDisjLoop pConjunction (fun t => isKw t "or") (fun _ a b => .bin "or" a b)
    (fun n a ts => by cases ts <;> rfl) (fun t h => h) (fun t _ _ h => by rw [isKw_text h]) ih.conj ih.disjLoop
  conj := snd_first (by omega) (by omega) pConjunction pLogic pConjLoop (fun _ _ => rfl) ih.logic ih.conjLoop
  conjLoop := snd_loop (by decide) pConjLoop pLogic (fun t => isKw t "and") (fun _ a b => .bin "and" a b)
    (fun n a ts => by cases ts <;> rfl) (fun t h => h) (fun t _ _ h => by rw [isKw_text h]) ih.logic ih.conjLoop
  logic := by
    intro ts r rest h
    simp only [pLogic] at h
    cases ts with
    | nil => cases h
    | cons t r0 =>
      simp only at h
      split at h
      · rename_i ht
        obtain ⟨a, ts', h1, h2⟩ := bind_ok_pair h
        obtain ⟨rfl, rfl⟩ := pure_pair_inj h2
        obtain ⟨pre, rfl, hr⟩ := ih.logic r0 a ts' h1
        exact ⟨t :: pre, rfl, .not t ht hr⟩
      · rename_i ht
        split at h
        · rename_i hq
          match r0, h with
          | v :: kin :: rest2, h =>
            simp only at h
            split at h
            · rename_i hv
              obtain ⟨d, ts2, h1, h2⟩ := bind_ok_pair h
              match ts2, h1, h2 with
              | c :: rest3, h1, h2 =>
                simp only at h2
                split at h2
                · rename_i hc
                  obtain ⟨b, ts3, h3, h4⟩ := bind_ok_pair h2
                  obtain ⟨rfl, rfl⟩ := pure_pair_inj h4
                  obtain ⟨pd, hpd, hrd⟩ := ih.atomic rest2 d (c :: rest3) h1
                  obtain ⟨pb, rfl, hrb⟩ := ih.logic rest3 b ts3 h3
                  subst hpd
                  simp only [Bool.and_eq_true, beq_iff_eq] at hv
                  exact ⟨t :: v :: kin :: (pd ++ c :: pb), by simp, .quant t v kin c hq hv.1.1 hv.1.2 hv.2 hc hrd hrb⟩
                · cases h2
              | [], _, h2 => cases h2
            · cases h
          | [], h => cases h
          | [_], h => cases h
        · rename_i hq
          obtain ⟨pre, hpre, hr⟩ := ih.atomicCond (t :: r0) r rest h
          refine ⟨pre, hpre, .up (by omega) (fun _ t' ts' he => ?_) hr⟩
          subst he
          simp only [List.cons_append, List.cons.injEq] at hpre
          obtain ⟨rfl, _⟩ := hpre
          simp only [Bool.not_eq_true] at ht hq
          simp only [Bool.or_eq_false_iff] at hq
          simp only [isLogicKw, ht, hq.1, hq.2, Bool.or_self]
  atomicCond := by
    intro ts r rest h
    simp only [pAtomicCondition] at h
    obtain ⟨a, ts1, h1, h2⟩ := bind_ok_pair h
    obtain ⟨pa, rfl, hra⟩ := ih.expr ts a ts1 h1
    match ts1, h2 with
    | [], h2 =>
      obtain ⟨rfl, rfl⟩ := pure_pair_inj h2
      exact ⟨pa, rfl, .up (by omega) (fun h => by omega) hra⟩
    | t :: r1, h2 =>
      simp only at h2
      split at h2
      · rename_i hc
        obtain ⟨b, ts', h3, h4⟩ := bind_ok_pair h2
        obtain ⟨rfl, rfl⟩ := pure_pair_inj h4
        obtain ⟨pb, rfl, hrb⟩ := ih.expr r1 b ts' h3
        exact ⟨pa ++ t :: pb, by simp, .rel t (by simp only [relTest, hc, Bool.true_or]) hra hrb⟩
      · rename_i hc
        split at h2
        · rename_i hi
          obtain ⟨b, ts', h3, h4⟩ := bind_ok_pair h2
          obtain ⟨rfl, rfl⟩ := pure_pair_inj h4
          obtain ⟨pb, rfl, hrb⟩ := ih.expr r1 b ts' h3
          have := Renders.rel t (by simp only [relTest, hi, Bool.or_true]) hra hrb
          rw [isKw_text hi] at this
          exact ⟨pa ++ t :: pb, by simp, this⟩
        · obtain ⟨rfl, rfl⟩ := pure_pair_inj h2
          exact ⟨pa, rfl, .up (by omega) (fun h => by omega) hra⟩
  expr := snd_first (by omega) (by omega) pExpr pTerm pExprLoop (fun _ _ => rfl) ih.term ih.exprLoop
  exprLoop := snd_loop (by decide) pExprLoop pTerm (fun t => isSym t "+" || isSym t "-") (fun t a b => .bin t.text a b)
    (fun n a ts => by cases ts <;> rfl) (fun t h => h) (fun _ _ _ _ => rfl) ih.term ih.exprLoop
  term := snd_first (by omega) (by omega) pTerm pFactor pTermLoop (fun _ _ => rfl) ih.factor ih.termLoop
  termLoop := snd_loop (by decide) pTermLoop pFactor (fun t => isSym t "*" || isSym t "/") (fun t a b => .bin t.text a b)
    (fun n a ts => by cases ts <;> rfl) (fun t h => h) (fun _ _ _ _ => rfl) ih.factor ih.termLoop
  factor := snd_first (by omega) (by omega) pFactor pExponent pFactorLoop (fun _ _ => rfl) ih.exponent ih.factorLoop
  factorLoop := snd_loop (by decide) pFactorLoop pExponent (fun t => isSym t "**") (fun _ a b => .bin "**" a b)
    (fun n a ts => by cases ts <;> rfl) (fun t h => h) (fun t _ _ h => by rw [isSym_text h]) ih.exponent ih.factorLoop
  exponent := by
    intro ts r rest h
    simp only [pExponent] at h
    cases ts with
    | nil => cases h
    | cons t r0 =>
      simp only at h
      split at h
      · rename_i ht
        obtain ⟨a, ts', h1, h2⟩ := bind_ok_pair h
        obtain ⟨rfl, rfl⟩ := pure_pair_inj h2
        obtain ⟨pre, rfl, hr⟩ := ih.exponent r0 a ts' h1
        exact ⟨t :: pre, rfl, .neg t ht hr⟩
      · rename_i ht
        split at h
        · rename_i hp
          obtain ⟨a, ts', h1, h2⟩ := bind_ok_pair h
          obtain ⟨pre, rfl, hr⟩ := ih.cond r0 a ts' h1
          match ts', h2 with
          | [], h2 => cases h2
          | c :: rest2, h2 =>
            simp only at h2
            split at h2
            · rename_i hc
              obtain ⟨rfl, rfl⟩ := pure_pair_inj h2
              exact ⟨t :: (pre ++ [c]), by simp, .paren t c hp hc hr⟩
            · cases h2
        · obtain ⟨pre, hpre, hr⟩ := ih.atomic (t :: r0) r rest h
          exact ⟨pre, hpre, .up (by omega) (fun h => by omega) hr⟩
  atomic := by
    intro ts r rest h
    simp only [pAtomicValue] at h
    cases ts with
    | nil => cases h
    | cons t r0 =>
      simp only at h
      cases hk : t.kind with
      | str =>
        simp only [hk] at h
        obtain ⟨rfl, rfl⟩ := ok_pair_inj h
        exact ⟨[t], rfl, .str t hk⟩
      | num =>
        simp only [hk] at h
        cases hd : decimalValue t.text with
        | none => simp only [hd] at h; cases h
        | some v =>
          simp only [hd] at h
          obtain ⟨rfl, rfl⟩ := ok_pair_inj h
          exact ⟨[t], rfl, .num t v hk hd⟩
      | var =>
        simp only [hk] at h
        obtain ⟨pre, rfl, hr⟩ := ih.refTail (.var t.text) r0 [t] (.var t hk) r rest h
        exact ⟨t :: pre, rfl, .ref hr⟩
      | word =>
        simp only [hk] at h
        split at h
        · cases h
        · rename_i hcn
          split at h
          · rename_i htrue
            obtain ⟨rfl, rfl⟩ := ok_pair_inj h
            exact ⟨[t], rfl, .true_ t hk (by simpa using htrue)⟩
          · rename_i htrue
            split at h
            · rename_i hfalse
              obtain ⟨rfl, rfl⟩ := ok_pair_inj h
              exact ⟨[t], rfl, .false_ t hk (by simpa using hfalse)⟩
            · rename_i hfalse
              split at h
              · rename_i hconst
                simp only [Bool.and_eq_true, Bool.not_eq_true'] at hconst
                cases hv : numberConstant t.text with
                | none => simp only [hv] at h; cases h
                | some v =>
                  simp only [hv] at h
                  obtain ⟨rfl, rfl⟩ := ok_pair_inj h
                  exact ⟨[t], rfl, .const t v hk hconst.1 hv⟩
              · rename_i hconst
                have hname : isNameTok t = true := by
                  simp only [Bool.not_eq_true', Bool.not_eq_false] at hcn
                  simp only [isNameTok, hcn, Bool.true_and, Bool.and_eq_true, bne_iff_ne, ne_eq, Bool.not_eq_true']
                  exact ⟨⟨by simpa using htrue, by simpa using hfalse⟩, by simpa using hconst⟩
                match r0, h with
                | [], h =>
                  obtain ⟨rfl, rfl⟩ := ok_pair_inj h
                  exact ⟨[t], rfl, .ref (.own t hk hname)⟩
                | o :: rest2, h =>
                  simp only at h
                  split at h
                  · rename_i ho
                    obtain ⟨a, ts', h1, h2⟩ := bind_ok_pair h
                    obtain ⟨pa, rfl, hra⟩ := ih.expr rest2 a ts' h1
                    match ts', h2 with
                    | [], h2 => cases h2
                    | c :: rest3, h2 =>
                      simp only at h2
                      split at h2
                      · rename_i hc
                        obtain ⟨rfl, rfl⟩ := pure_pair_inj h2
                        exact ⟨t :: o :: (pa ++ [c]), by simp, .call t o c hk hname ho hc hra⟩
                      · cases h2
                  · obtain ⟨pre, hpre, hr⟩ := ih.refTail (.field .this t.text) (o :: rest2) [t] (.own t hk hname) r rest h
                    exact ⟨t :: pre, by rw [hpre]; rfl, .ref hr⟩
      | sym =>
        simp only [hk] at h
        split at h
        · rename_i hb
          have hsym : isSym t "{" = true := by simp only [isSym, hk, hb, beq_self_eq_true, Bool.and_self]
          obtain ⟨a, ts', h1, h2⟩ := bind_ok_pair h
          obtain ⟨pa, rfl, hra⟩ := ih.expr r0 a ts' h1
          obtain ⟨pre, c, es, rfl, hc, rfl, hres⟩ := ih.setTail [a] ts' pa (.setOne hra) r rest h2
          exact ⟨t :: ((pa ++ pre) ++ [c]), by simp, .set t c hsym hc hres⟩
        · rename_i hb
          split at h
          · rename_i hl
            have ht : t.text = "[" := by simpa using hl
            obtain ⟨lo, hi, tl, th, kto, c, rfl, hto, hc, hlo, hhi, rfl⟩ := ih.rangeBody false r0 r rest h
            have := Renders.range t kto c (by simp only [isSym, hk, ht]; decide) hto hc hlo hhi
            rw [ht] at this
            exact ⟨t :: (tl ++ kto :: (th ++ [c])), by simp, this⟩
          · split at h
            · rename_i hl
              have ht : t.text = "![" := by simpa using hl
              obtain ⟨lo, hi, tl, th, kto, c, rfl, hto, hc, hlo, hhi, rfl⟩ := ih.rangeBody true r0 r rest h
              have := Renders.range t kto c (by simp only [isSym, hk, ht]; decide) hto hc hlo hhi
              rw [ht] at this
              exact ⟨t :: (tl ++ kto :: (th ++ [c])), by simp, this⟩
            · cases h
  setTail := by
    intro acc ts pa hpa r rest h
    simp only [pSetTail] at h
    cases ts with
    | nil => cases h
    | cons t r0 =>
      simp only at h
      split at h
      · rename_i ht
        obtain ⟨rfl, rfl⟩ := ok_pair_inj h
        exact ⟨[], t, rlOf acc, rfl, ht, rfl, by simpa using hpa⟩
      · split at h
        · rename_i hcm
          obtain ⟨a, ts', h1, h2⟩ := bind_ok_pair h
          obtain ⟨pe, rfl, hre⟩ := ih.expr r0 a ts' h1
          have hmore : Renders 11 (.set (rlOf (a :: acc))) (pa ++ t :: pe) := by
            rw [rlOf_cons]; exact .setMore t hcm hpa hre
          obtain ⟨pre, c, es, rfl, hc, rfl, hres⟩ := ih.setTail (a :: acc) ts' _ hmore r rest h2
          exact ⟨t :: (pe ++ pre), c, es, by simp, hc, rfl, by simpa using hres⟩
        · cases h
  rangeBody := by
    intro exLo ts r rest h
    simp only [pRangeBody] at h
    obtain ⟨lo, ts1, h1, h2⟩ := bind_ok_pair h
    obtain ⟨tl, rfl, hlo⟩ := ih.expr ts lo ts1 h1
    match ts1, h2 with
    | [], h2 => cases h2
    | t :: r1, h2 =>
      simp only at h2
      split at h2
      · rename_i hto
        obtain ⟨hi, ts2, h3, h4⟩ := bind_ok_pair h2
        obtain ⟨th, rfl, hhi⟩ := ih.expr r1 hi ts2 h3
        match ts2, h4 with
        | [], h4 => cases h4
        | c :: rest2, h4 =>
          simp only at h4
          split at h4
          · rename_i hc
            obtain ⟨rfl, rfl⟩ := pure_pair_inj h4
            refine ⟨lo, hi, tl, th, t, c, by simp, hto, by simp only [hc, Bool.true_or], hlo, hhi, ?_⟩
            rw [isSym_text hc]; rfl
          · split at h4
            · rename_i hc
              obtain ⟨rfl, rfl⟩ := pure_pair_inj h4
              refine ⟨lo, hi, tl, th, t, c, by simp, hto, by simp only [hc, Bool.or_true], hlo, hhi, ?_⟩
              rw [isSym_text hc]; rfl
            · cases h4
      · cases h2
  refTail := by
    intro r0 ts p0 hp0 r rest h
    simp only [pRefTail] at h
    cases ts with
    | nil =>
      obtain ⟨rfl, rfl⟩ := ok_pair_inj h
      exact ⟨[], rfl, by simpa using hp0⟩
    | cons t r1 =>
      simp only at h
      split at h
      · rename_i hd
        match r1, h with
        | [], h => cases h
        | n :: rest2, h =>
          simp only at h
          split at h
          · rename_i hn
            simp only [Bool.and_eq_true, beq_iff_eq] at hn
            obtain ⟨pre, rfl, hr⟩ := ih.refTail (.field r0 n.text) rest2 (p0 ++ [t, n]) (.field t n hd hn.1 hn.2 hp0) r rest h
            exact ⟨t :: n :: pre, rfl, by simpa using hr⟩
          · cases h
      · split at h
        · rename_i hb
          obtain ⟨i, ts', h1, h2⟩ := bind_ok_pair h
          obtain ⟨pi, rfl, hri⟩ := ih.expr r1 i ts' h1
          match ts', h2 with
          | [], h2 => cases h2
          | c :: rest2, h2 =>
            simp only at h2
            split at h2
            · rename_i hc
              obtain ⟨pre, rfl, hr⟩ := ih.refTail (.index r0 i) rest2 (p0 ++ t :: (pi ++ [c])) (.index t c hb hc hp0 hri) r rest h2
              exact ⟨t :: (pi ++ c :: pre), by simp, by simpa using hr⟩
            · cases h2
        · obtain ⟨rfl, rfl⟩ := ok_pair_inj h
          exact ⟨[], rfl, by simpa using hp0⟩

theorem parse_snd : ∀ f, SndAt f
  | 0 => sndAt_zero
  | f + 1 => sndAt_succ f (parse_snd f)

/-- **C01, soundness**: whatever the expression parser returns, the grammar assigns to the whole token sequence -/
theorem parse_sound {ts : List Tok} {e : Raw} (h : parseExpressionToks ts = .ok e) : Renders 0 e ts := by
  unfold parseExpressionToks at h
  cases hp : pCondition (parseFuel ts) ts with
  | error x => rw [hp] at h; cases h
  | ok v =>
    obtain ⟨r, rest⟩ := v
    rw [hp] at h
    simp only [bind, Except.bind] at h
    cases rest with
    | nil =>
      simp only [List.isEmpty_nil, if_true, pure, Except.pure, Except.ok.injEq] at h
      subst h
      obtain ⟨pre, hpre, hr⟩ := (parse_snd _).cond ts r [] hp
      simp only [List.append_nil] at hpre
      subst hpre
      exact hr
    | cons _ _ => simp [List.isEmpty] at h

/-- **C01: the parser accepts exactly the token sequences the grammar derives, with exactly the tree the grammar assigns** -/
theorem parse_iff_renders (ts : List Tok) (e : Raw) : parseExpressionToks ts = .ok e ↔ Renders 0 e ts :=
  ⟨parse_sound, parse_complete⟩

/-- … so a token sequence that the grammar does not derive is rejected (the only parse failure is the syntax error), never parsed
    into something else -/
theorem parse_rejects_iff (ts : List Tok) : parseExpressionToks ts = .error () ↔ ¬ ∃ e, Renders 0 e ts := by
  constructor
  · rintro h ⟨e, he⟩
    rw [parse_complete he] at h
    cases h
  · intro h
    cases hp : parseExpressionToks ts with
    | error x => rfl
    | ok e => exact absurd ⟨e, parse_sound hp⟩ h

/-- the same for predicates: accepted exactly when the text is `{`, a `condition` of the grammar, `}` -/
theorem parse_predicate_sound {ts : List Tok} {e : Raw} (h : parsePredicateToks ts = .ok e) :
    ∃ o mid c, ts = o :: (mid ++ [c]) ∧ isSym o "{" = true ∧ isSym c "}" = true ∧ Renders 0 e mid := by
  unfold parsePredicateToks at h
  cases hp : pPredicate ts with
  | error x => rw [hp] at h; cases h
  | ok v =>
    obtain ⟨r, rest⟩ := v
    rw [hp] at h
    simp only [bind, Except.bind] at h
    cases rest with
    | cons _ _ => simp [List.isEmpty] at h
    | nil =>
      simp only [List.isEmpty_nil, if_true, pure, Except.pure, Except.ok.injEq] at h
      subst h
      unfold pPredicate at hp
      cases ts with
      | nil => cases hp
      | cons t r0 =>
        simp only at hp
        split at hp
        · rename_i ho
          obtain ⟨a, ts', h1, h2⟩ := bind_ok_pair hp
          obtain ⟨pre, rfl, hr⟩ := (parse_snd _).cond r0 a ts' h1
          match ts', h2 with
          | [], h2 => cases h2
          | c :: rest2, h2 =>
            simp only at h2
            split at h2
            · rename_i hc
              obtain ⟨rfl, rfl⟩ := pure_pair_inj h2
              exact ⟨t, pre, c, rfl, ho, hc, hr⟩
            · cases h2
        · cases hp

theorem parse_predicate_iff (ts : List Tok) (e : Raw) :
    parsePredicateToks ts = .ok e ↔ ∃ o mid c, ts = o :: (mid ++ [c]) ∧ isSym o "{" = true ∧ isSym c "}" = true ∧ Renders 0 e mid :=
  ⟨parse_predicate_sound, fun ⟨o, _, c, hts, ho, hc, hr⟩ => hts ▸ parse_predicate_complete hr o c ho hc⟩

/-- non-vacuity: `x = not + 1` - the word `not` after a relational operator is a field name - is derived by the grammar (and
    therefore parsed); `not = 1` is not derived by the grammar (and therefore rejected) -/
example : parseExpressionToks [wordT "x", symT "=", wordT "not", symT "+", wordT "y"] =
    .ok (.bin "=" (.field .this "x") (.bin "+" (.field .this "not") (.field .this "y"))) := by
  apply parse_complete
  have hx : Renders 5 (.field .this "x") [wordT "x"] := upTo 4 5 (by omega) (.ref (.own (wordT "x") rfl (by decide)))
  have hn : Renders 5 (.field .this "not") [wordT "not"] := upTo 4 5 (by omega) (.ref (.own (wordT "not") rfl (by decide)))
  have hy : Renders 6 (.field .this "y") [wordT "y"] := upTo 3 6 (by omega) (.ref (.own (wordT "y") rfl (by decide)))
  have hsum : Renders 5 (.bin "+" (.field .this "not") (.field .this "y")) ([wordT "not"] ++ symT "+" :: [wordT "y"]) :=
    .binL (symT "+") (by decide) (by decide) hn hy
  have := Renders.rel (symT "=") (by decide) hx hsum
  exact upTo 4 0 (by omega) this

example : ¬ ∃ e, Renders 0 e [wordT "not", symT "=", wordT "y"] := (parse_rejects_iff _).1 (by rfl)

/-- **redundant parentheses never change the result**: a text that parses, put in parentheses, parses to the same tree -/
theorem parens_transparent {ts : List Tok} {e : Raw} (o c : Tok) (ho : isSym o "(" = true) (hc : isSym c ")" = true)
    (h : parseExpressionToks ts = .ok e) : parseExpressionToks (o :: (ts ++ [c])) = .ok e := by
  apply parse_complete
  have h8 : Renders 8 e (o :: (ts ++ [c])) := .paren o c ho hc (parse_sound h)
  exact upTo 8 0 (by omega) h8 (fun _ _ => headOk_cons (notLogic_of_sym ho) _)

end Hpl
