import Hpl.Props.C18e
/-!
# C01 — the scanner loses nothing and invents nothing

`Spaced g aw cs ts`: the text `cs` is the tokens `ts`, in order, each written out in full (`tokChars`), with white space between
them where the text has some; the `glued` / `afterWord` flags of every token say what stands directly before it.
`lex_spaced`: every successfully scanned text is `Spaced` by its tokens.  With `lex_tokOk` (each literal token is a complete token of
its own text) this is what the scanner's output means in terms of the text.
-/
namespace Hpl

/-- the characters a token was read from -/
def tokChars (t : Tok) : List Char := (if t.kind == .var then ['@'] else []) ++ t.text.toList

/-- does a word character end the token (is a keyword directly after it glued to a word)? -/
def awAfter (t : Tok) : Bool :=
  match t.kind with
  | .var | .word => true
  | .num => t.text.toList.getLast? != some '.'
  | _ => false

/-- longest match: a name (word, channel name, variable) is never directly followed by an identifier character - it is the whole
    identifier that stands at its place, whatever keyword it may begin with -/
def NameMax (t : Tok) (cs : List Char) : Prop := (t.kind = .word ∨ t.kind = .var) → ∀ x, cs.head? = some x → isIdChar x = false

inductive Spaced : Bool → Bool → List Char → List Tok → Prop
  | nil (g aw : Bool) : Spaced g aw [] []
  | ws {g aw : Bool} {c : Char} {cs : List Char} {ts : List Tok} : isWs c = true → Spaced false false cs ts → Spaced g aw (c :: cs) ts
  | tok {g aw : Bool} {t : Tok} {cs : List Char} {ts : List Tok} : t.glued = g → t.afterWord = aw → tokChars t ≠ [] → NameMax t cs →
      Spaced true (awAfter t) cs ts → Spaced g aw (tokChars t ++ cs) (t :: ts)

theorem chanSegments_split : ∀ (f : Nat) (cs : List Char), cs = (chanSegments f cs).1 ++ (chanSegments f cs).2
  | 0, cs => by simp [chanSegments]
  | f + 1, cs => by
      match cs with
      | [] => simp [chanSegments]
      | [x] => simp [chanSegments]
      | x :: c :: cs' =>
        by_cases hx : x = '/'
        · subst hx
          by_cases hc : isAlphaA c = true
          · rw [chanSegments_succ_slash _ _ _ hc]
            have h1 := chanSegments_split f (takeWhileC isIdChar cs').2
            have h2 := takeWhileC_split isIdChar cs' _ _ rfl
            simp only [List.cons_append, List.append_assoc, List.cons.injEq, true_and]
            rw [← h1]
            exact h2
          · simp [chanSegments, hc]
        · rw [chanSegments_stop _ _ (by simpa using hx)]
          simp

theorem twoSym_shape {c : Char} {r t : List Char} (h : twoSym c r = some t) : ∃ x tl, r = x :: tl ∧ t = [c, x] := by
  unfold twoSym at h
  split at h <;> simp_all

theorem chanSegments_rest_notId : ∀ (f : Nat) (r : List Char), (∀ x, r.head? = some x → isIdChar x = false) →
    ∀ x, (chanSegments f r).2.head? = some x → isIdChar x = false
  | 0, r, h => by simpa [chanSegments] using h
  | f + 1, r, h => by
      match r, h with
      | [], h => simpa [chanSegments] using h
      | [y], h => simpa [chanSegments] using h
      | y :: c :: cs', h =>
        by_cases hy : y = '/'
        · subst hy
          by_cases hc : isAlphaA c = true
          · rw [chanSegments_succ_slash _ _ _ hc]
            exact chanSegments_rest_notId f _ (takeWhileC_spec isIdChar cs' _ _ rfl).2.2
          · have : chanSegments (f + 1) ('/' :: c :: cs') = ([], '/' :: c :: cs') := by simp [chanSegments, hc]
            rw [this]; exact h
        · rw [chanSegments_stop _ _ (by simpa using hy)]; exact h

theorem nameMax_other {t : Tok} {cs : List Char} (h1 : t.kind ≠ .word) (h2 : t.kind ≠ .var) : NameMax t cs := by
  intro h; rcases h with h | h
  · exact absurd h h1
  · exact absurd h h2

/-- **every scanned text is its tokens, written out in order, with white space in between** -/
theorem scan_spaced : ∀ (f : Nat) (cs : List Char) (d : Nat) (g aw : Bool) (acc ts : List Tok),
    scan f cs d g aw acc = .ok ts → ∃ new, ts = acc.reverse ++ new ∧ Spaced g aw cs new
  | 0, cs, d, g, aw, acc, ts, h => by
      have : scan 0 cs d g aw acc = .error .unexpectedChar := rfl
      rw [this] at h; cases h
  | f + 1, cs, d, g, aw, acc, ts, h => by
      cases cs with
      | nil =>
        rw [scan_succ] at h
        simp only [Except.ok.injEq] at h
        exact ⟨[], by simp [h], .nil g aw⟩
      | cons c rest0 =>
        -- a step that reads the token `tok` from the front of the text
        have fin : ∀ (tok : Tok) (cs' : List Char) (d1 : Nat), tok.glued = g → tok.afterWord = aw → tokChars tok ≠ [] → NameMax tok cs' →
            c :: rest0 = tokChars tok ++ cs' → scan f cs' d1 true (awAfter tok) (tok :: acc) = .ok ts →
            ∃ new, ts = acc.reverse ++ new ∧ Spaced g aw (c :: rest0) new := by
          intro tok cs' d1 hg haw hne hmax hcs h'
          obtain ⟨new', hts, hsp⟩ := scan_spaced f cs' d1 true (awAfter tok) (tok :: acc) ts h'
          exact ⟨tok :: new', by simp [hts], hcs ▸ .tok hg haw hne hmax hsp⟩
        rw [scan_succ'] at h
        by_cases hws : isWs c = true
        · simp only [hws, if_true] at h
          obtain ⟨new', hts, hsp⟩ := scan_spaced f rest0 d false false acc ts h
          exact ⟨new', hts, .ws hws hsp⟩
        · simp only [hws, Bool.false_eq_true, if_false] at h
          by_cases hat : (c == '@') = true
          · simp only [hat, if_true] at h
            have hc : c = '@' := by simpa using hat
            by_cases hid : idNext rest0 = true
            · simp only [hid, if_true] at h
              refine fin ⟨.var, String.ofList (takeWhileC isIdChar rest0).1, g, aw⟩ _ d rfl rfl (by simp [tokChars])
                (fun _ => (takeWhileC_spec isIdChar rest0 _ _ rfl).2.2) ?_ h
              simp only [tokChars, String.toList_ofList, hc]
              exact congrArg (List.cons '@') (takeWhileC_split isIdChar rest0 _ _ rfl)
            · simp only [hid, Bool.false_eq_true, if_false] at h; cases h
          · simp only [hat, Bool.false_eq_true, if_false] at h
            by_cases hq : (c == '"') = true
            · simp only [hq, if_true] at h
              have hc : c = '"' := by simpa using hq
              cases hs : scanString rest0 ['"'] with
              | none => rw [hs] at h; cases h
              | some p =>
                obtain ⟨s, r⟩ := p
                rw [hs] at h
                obtain ⟨body, hb, hsb, _⟩ := scanString_self _ _ _ _ hs
                refine fin ⟨.str, String.ofList s, g, aw⟩ r d rfl rfl (by simp [tokChars, hsb]) (nameMax_other (by simp) (by simp)) ?_ h
                simp only [tokChars, String.toList_ofList, hc, hsb, hb]
                simp
            · simp only [hq, Bool.false_eq_true, if_false] at h
              by_cases hg : numGuard c rest0 = true
              · simp only [hg, if_true] at h
                cases hn : scanNumber (c :: rest0) with
                | none => rw [hn] at h; cases h
                | some p =>
                  obtain ⟨nn, r⟩ := p
                  rw [hn] at h
                  obtain ⟨hcs, hself⟩ := scanNumber_self _ _ _ hn
                  have hne : nn ≠ [] := by intro hh; subst hh; exact absurd hself (by decide)
                  refine fin ⟨.num, String.ofList nn, g, aw⟩ r d rfl rfl (by simpa [tokChars] using hne) (nameMax_other (by simp) (by simp)) ?_ ?_
                  · simpa [tokChars] using hcs
                  · simpa [awAfter] using h
              · simp only [hg, Bool.false_eq_true, if_false] at h
                by_cases hstart : isIdStart c = true
                · simp only [hstart, if_true] at h
                  have hw1 : (takeWhileC isIdChar (c :: rest0)).1 ≠ [] := by
                    simp [takeWhileC, idStart_idChar c hstart]
                  by_cases hch : (d == 0 && isAlphaA c) = true
                  · simp only [hch, if_true] at h
                    refine fin ⟨.word, String.ofList ((takeWhileC isIdChar (c :: rest0)).1 ++ (chanSegments _ (takeWhileC isIdChar (c :: rest0)).2).1), g, aw⟩
                      (chanSegments ((takeWhileC isIdChar (c :: rest0)).2.length + 1) (takeWhileC isIdChar (c :: rest0)).2).2 d rfl rfl
                      (by simp [tokChars, hw1])
                      (fun _ => chanSegments_rest_notId _ _ (takeWhileC_spec isIdChar (c :: rest0) _ _ rfl).2.2) ?_ h
                    simp only [tokChars, String.toList_ofList, List.append_assoc]
                    have h1 := takeWhileC_split isIdChar (c :: rest0) _ _ rfl
                    have h2 := chanSegments_split ((takeWhileC isIdChar (c :: rest0)).2.length + 1) (takeWhileC isIdChar (c :: rest0)).2
                    rw [← h2]
                    exact h1
                  · simp only [hch, Bool.false_eq_true, if_false] at h
                    refine fin ⟨.word, String.ofList (takeWhileC isIdChar (c :: rest0)).1, g, aw⟩ _ d rfl rfl (by simp [tokChars, hw1])
                      (fun _ => (takeWhileC_spec isIdChar (c :: rest0) _ _ rfl).2.2) ?_ h
                    simp only [tokChars, String.toList_ofList]
                    exact takeWhileC_split isIdChar (c :: rest0) _ _ rfl
                · simp only [hstart, Bool.false_eq_true, if_false] at h
                  by_cases hlead : (d == 0 && (c == '/' || c == '~')) = true
                  · simp only [hlead, if_true] at h
                    by_cases han : alphaNext rest0 = true
                    · simp only [han, if_true] at h
                      refine fin ⟨.word, String.ofList (c :: (takeWhileC isIdChar rest0).1 ++ (chanSegments _ (takeWhileC isIdChar rest0).2).1), g, aw⟩
                        (chanSegments ((takeWhileC isIdChar rest0).2.length + 1) (takeWhileC isIdChar rest0).2).2 d rfl rfl (by simp [tokChars])
                        (fun _ => chanSegments_rest_notId _ _ (takeWhileC_spec isIdChar rest0 _ _ rfl).2.2) ?_ h
                      simp only [tokChars, String.toList_ofList, List.cons_append, List.append_assoc]
                      have h1 := takeWhileC_split isIdChar rest0 _ _ rfl
                      have h2 := chanSegments_split ((takeWhileC isIdChar rest0).2.length + 1) (takeWhileC isIdChar rest0).2
                      rw [← h2]
                      exact congrArg (List.cons c) h1
                    · simp only [han, Bool.false_eq_true, if_false] at h; cases h
                  · simp only [hlead, Bool.false_eq_true, if_false] at h
                    cases htwo : twoSym c rest0 with
                    | some t =>
                      rw [htwo] at h
                      obtain ⟨x, tl, rfl, rfl⟩ := twoSym_shape htwo
                      exact fin ⟨.sym, String.ofList [c, x], g, aw⟩ tl d rfl rfl (by simp [tokChars]) (nameMax_other (by simp) (by simp)) (by simp [tokChars]) (by simpa [awAfter] using h)
                    | none =>
                      rw [htwo] at h
                      simp only at h
                      have single : ∀ d1, scan f rest0 d1 true false (⟨.sym, String.ofList [c], g, aw⟩ :: acc) = .ok ts →
                          ∃ new, ts = acc.reverse ++ new ∧ Spaced g aw (c :: rest0) new := fun d1 h' =>
                        fin ⟨.sym, String.ofList [c], g, aw⟩ rest0 d1 rfl rfl (by simp [tokChars]) (nameMax_other (by simp) (by simp)) (by simp [tokChars]) (by simpa [awAfter] using h')
                      by_cases ho : (c == '{') = true
                      · simp only [ho, if_true] at h; exact single _ h
                      · simp only [ho, Bool.false_eq_true, if_false] at h
                        by_cases hcl : (c == '}') = true
                        · simp only [hcl, if_true] at h; exact single _ h
                        · simp only [hcl, Bool.false_eq_true, if_false] at h
                          by_cases hp : ("()[],:.#=!<>+-*/".toList.contains c) = true
                          · simp only [hp, if_true] at h; exact single _ h
                          · simp only [hp, Bool.false_eq_true, if_false] at h; cases h

theorem lex_spaced {s : String} {ts : List Tok} (h : lex s = .ok ts) : Spaced false false s.toList ts := by
  obtain ⟨new, hts, hsp⟩ := scan_spaced _ _ _ _ _ _ _ h
  simp only [List.reverse_nil, List.nil_append] at hts
  exact hts ▸ hsp

theorem lexExpr_spaced {s : String} {ts : List Tok} (h : lexExpr s = .ok ts) : Spaced false false s.toList ts := by
  obtain ⟨new, hts, hsp⟩ := scan_spaced _ _ _ _ _ _ _ h
  simp only [List.reverse_nil, List.nil_append] at hts
  exact hts ▸ hsp

end Hpl
