import Hpl.Spec.GrammarProp
import Hpl.Props.C18f
/-!
# C01 — the property parser is sound for the property grammar

Whatever `parsePropertyToks` returns, the declarative grammar of `Spec/GrammarProp.lean` assigns to the whole token sequence:
annotations in source order, the scope kind with its activator / terminator, the pattern kind with behaviour and trigger in
their places (`requires` swaps them), alternatives of a disjunction in source order, aliases, predicates (by `parse_sound`),
and the time amount with its unit.
-/
namespace Hpl

theorem pPredicate_snd (ts : List Tok) (r : Raw) (rest : List Tok) (h : pPredicate ts = .ok (r, rest)) :
    ∃ pre, ts = pre ++ rest ∧ RPred (some r) pre := by
  obtain ⟨pre, hpre, hp⟩ := pPredicate_trunc ts r rest h
  have : parsePredicateToks pre = .ok r := by simp [parsePredicateToks, hp, bind, Except.bind, pure, Except.pure]
  obtain ⟨o, mid, c, rfl, ho, hc, hr⟩ := parse_predicate_sound this
  exact ⟨_, hpre, .some o c ho hc hr⟩

theorem pEventBody_snd (name : String) (al : Option String) (ts : List Tok) (s : RawSimple) (rest : List Tok)
    (h : pEventBody name al ts = .ok (s, rest)) : ∃ pre pred, ts = pre ++ rest ∧ s = ⟨name, al, pred⟩ ∧ RPred pred pre := by
  unfold pEventBody at h
  cases ts with
  | nil => obtain ⟨rfl, rfl⟩ := ok_pair_inj h; exact ⟨[], none, rfl, rfl, .none⟩
  | cons b y =>
    simp only at h
    split at h
    · obtain ⟨p, r', h1, h2⟩ := bind_ok_pair h
      obtain ⟨rfl, rfl⟩ := pure_pair_inj h2
      obtain ⟨pre, hpre, hp⟩ := pPredicate_snd _ _ _ h1
      exact ⟨pre, some p, hpre, rfl, hp⟩
    · obtain ⟨rfl, rfl⟩ := ok_pair_inj h
      exact ⟨[], none, rfl, rfl, .none⟩

theorem pEvent_snd (ts : List Tok) (s : RawSimple) (rest : List Tok) (h : pEvent ts = .ok (s, rest)) :
    ∃ pre, ts = pre ++ rest ∧ RSimple s pre := by
  rw [pEvent_eq] at h
  unfold pEvent' at h
  cases ts with
  | nil => cases h
  | cons n r0 =>
    simp only at h
    split at h
    · rename_i hn
      simp only [Bool.and_eq_true, beq_iff_eq] at hn
      cases r0 with
      | nil =>
        obtain ⟨pre, pred, hpre, rfl, hp⟩ := pEventBody_snd _ _ _ _ _ h
        have hnil : pre = [] ∧ rest = [] := by
          cases pre with
          | nil => exact ⟨rfl, by simpa using hpre.symm⟩
          | cons _ _ => simp at hpre
        obtain ⟨rfl, rfl⟩ := hnil
        exact ⟨n :: ([] ++ []), rfl, .mk n hn.1 hn.2 .none hp⟩
      | cons a r1 =>
        simp only at h
        split at h
        · rename_i ha
          cases r1 with
          | nil => cases h
          | cons v r2 =>
            simp only at h
            split at h
            · rename_i hv
              simp only [Bool.and_eq_true, beq_iff_eq] at hv
              obtain ⟨pre, pred, hpre, rfl, hp⟩ := pEventBody_snd _ _ _ _ _ h
              exact ⟨n :: ([a, v] ++ pre), by rw [hpre]; rfl, .mk n hn.1 hn.2 (.some a v ha hv.1 hv.2) hp⟩
            · cases h
        · obtain ⟨pre, pred, hpre, rfl, hp⟩ := pEventBody_snd _ _ _ _ _ h
          exact ⟨n :: ([] ++ pre), by rw [hpre]; rfl, .mk n hn.1 hn.2 .none hp⟩
    · cases h

theorem pDisjTail_snd : ∀ (f : Nat) (acc : List RawSimple) (ts : List Tok) (r : RawEvent) (rest : List Tok),
    pDisjTail f acc ts = .ok (r, rest) →
    ∃ pre c alts, ts = pre ++ c :: rest ∧ isSym c ")" = true ∧ RAlts alts pre ∧ r = .disj (acc.reverse ++ alts) ∧
      (acc ≠ [] ∨ 2 ≤ alts.length)
  | 0, _, _, _, _, h => by simp [pDisjTail, perr] at h
  | f + 1, acc, ts, r, rest, h => by
      simp only [pDisjTail] at h
      obtain ⟨e, ts1, h1, h2⟩ := bind_ok_pair h
      obtain ⟨pe, rfl, hpe⟩ := pEvent_snd ts e ts1 h1
      match ts1, h2 with
      | [], h2 => cases h2
      | t :: rest1, h2 =>
        simp only at h2
        split at h2
        · rename_i hor
          obtain ⟨pre1, c, alts, rfl, hc, halts, rfl, _⟩ := pDisjTail_snd f (e :: acc) rest1 r rest h2
          refine ⟨pe ++ t :: pre1, c, e :: alts, by simp, hc, .cons t hpe hor halts, by simp, .inr ?_⟩
          have : 1 ≤ alts.length := by cases halts <;> simp
          simp only [List.length_cons]; omega
        · split at h2
          · rename_i hcl
            split at h2
            · cases h2
            · rename_i hemp
              obtain ⟨rfl, rfl⟩ := pure_pair_inj h2
              refine ⟨pe, t, [e], rfl, hcl, .last hpe, by simp, .inl ?_⟩
              intro hh; subst hh; simp at hemp
          · cases h2

theorem pAnyEvent_snd (ts : List Tok) (e : RawEvent) (rest : List Tok) (h : pAnyEvent ts = .ok (e, rest)) :
    ∃ pre, ts = pre ++ rest ∧ REvent e pre := by
  unfold pAnyEvent at h
  cases ts with
  | nil => cases h
  | cons t r0 =>
    simp only at h
    split at h
    · rename_i hp
      obtain ⟨pre, c, alts, rfl, hc, halts, rfl, hlen⟩ := pDisjTail_snd _ [] r0 e rest h
      have h2 : 2 ≤ alts.length := by rcases hlen with hh | hh; exact absurd rfl hh; exact hh
      exact ⟨t :: (pre ++ [c]), by simp, by simpa using REvent.disj t c hp hc h2 halts⟩
    · obtain ⟨s, r', h1, h2⟩ := bind_ok_pair h
      obtain ⟨rfl, rfl⟩ := pure_pair_inj h2
      obtain ⟨pre, hpre, hs⟩ := pEvent_snd _ _ _ h1
      exact ⟨pre, hpre, .simple hs⟩

theorem pTimeBound_snd (ts : List Tok) (tb : Option (Rat × TimeUnit)) (rest : List Tok) (h : pTimeBound ts = .ok (tb, rest)) :
    ∃ pre, ts = pre ++ rest ∧ RTime tb pre := by
  unfold pTimeBound at h
  cases ts with
  | nil => obtain ⟨rfl, rfl⟩ := ok_pair_inj h; exact ⟨[], rfl, .none⟩
  | cons w r0 =>
    simp only at h
    split at h
    · rename_i hw
      match r0, h with
      | [], h => cases h
      | [_], h => cases h
      | n :: u :: r2, h =>
        simp only at h
        split at h
        · rename_i hn
          have hnk : n.kind = .num := by simpa using hn
          cases hd : decimalValue n.text with
          | none => simp only [hd] at h; cases h
          | some v =>
            simp only [hd] at h
            split at h
            · rename_i hu
              obtain ⟨rfl, rfl⟩ := ok_pair_inj h
              have := RTime.some w n u v .ms hw hnk hd (.inl ⟨hu, rfl⟩)
              exact ⟨[w, n, u], rfl, by cases v <;> exact this⟩
            · split at h
              · rename_i hu2
                obtain ⟨rfl, rfl⟩ := ok_pair_inj h
                have := RTime.some w n u v .s hw hnk hd (.inr ⟨hu2, rfl⟩)
                exact ⟨[w, n, u], rfl, by cases v <;> exact this⟩
              · cases h
        · cases h
    · obtain ⟨rfl, rfl⟩ := ok_pair_inj h
      exact ⟨[], rfl, .none⟩

theorem pEvTb_snd (mk : RawEvent → Option (Rat × TimeUnit) → RawProperty) (ts : List Tok) (p : RawProperty) (rest : List Tok)
    (h : pEvTb mk ts = .ok (p, rest)) : ∃ b tb pb pt, ts = pb ++ pt ++ rest ∧ p = mk b tb ∧ REvent b pb ∧ RTime tb pt := by
  unfold pEvTb at h
  obtain ⟨b, r, h1, h2⟩ := bind_ok_pair h
  obtain ⟨tb, r', h3, h4⟩ := bind_ok_pair h2
  obtain ⟨rfl, rfl⟩ := pure_pair_inj h4
  obtain ⟨pb, rfl, hb⟩ := pAnyEvent_snd ts b r h1
  obtain ⟨pt, rfl, ht⟩ := pTimeBound_snd r tb r' h3
  exact ⟨b, tb, pb, pt, by simp, rfl, hb, ht⟩

theorem pPattern_snd (sk : ScopeKind) (act term : Option RawEvent) (md : List (String × String)) (ts : List Tok) (p : RawProperty)
    (rest : List Tok) (h : pPattern sk act term md ts = .ok (p, rest)) :
    ∃ pk beh trig tb pts tts, ts = pts ++ tts ++ rest ∧ p = ⟨sk, act, term, pk, beh, trig, tb, md⟩ ∧ RPattern pk beh trig pts ∧ RTime tb tts := by
  unfold pPattern at h
  cases ts with
  | nil => cases h
  | cons t r0 =>
    simp only at h
    split at h
    · rename_i h1
      obtain ⟨b, tb, pb, pt, rfl, rfl, hb, ht⟩ := pEvTb_snd (fun b tb => ⟨sk, act, term, .existence, b, none, tb, md⟩) r0 p rest h
      exact ⟨.existence, b, none, tb, t :: pb, pt, by simp, rfl, .existence t h1 hb, ht⟩
    · rename_i h1
      split at h
      · rename_i h2
        obtain ⟨b, tb, pb, pt, rfl, rfl, hb, ht⟩ := pEvTb_snd (fun b tb => ⟨sk, act, term, .absence, b, none, tb, md⟩) r0 p rest h
        exact ⟨.absence, b, none, tb, t :: pb, pt, by simp, rfl, .absence t h2 hb, ht⟩
      · rename_i h2
        obtain ⟨e1, r, ha, hk⟩ := bind_ok_pair h
        obtain ⟨p1, hp1, he1⟩ := pAnyEvent_snd _ _ _ ha
        have hns : notSomeNo p1 := by
          intro t' tl hh
          subst hh
          simp only [List.cons_append, List.cons.injEq] at hp1
          obtain ⟨rfl, _⟩ := hp1
          exact ⟨by simpa using h1, by simpa using h2⟩
        match r, hp1, hk with
        | [], _, hk => cases hk
        | k :: r2, hp1, hk =>
          simp only at hk
          split at hk
          · rename_i hc
            obtain ⟨e2, tb, pb, pt, rfl, rfl, hb, ht⟩ := pEvTb_snd (fun e2 tb => ⟨sk, act, term, .response, e2, some e1, tb, md⟩) r2 p rest hk
            exact ⟨.response, e2, some e1, tb, p1 ++ k :: pb, pt, by rw [hp1]; simp, rfl, .response k hc hns he1 hb, ht⟩
          · split at hk
            · rename_i hc
              obtain ⟨e2, tb, pb, pt, rfl, rfl, hb, ht⟩ := pEvTb_snd (fun e2 tb => ⟨sk, act, term, .prevention, e2, some e1, tb, md⟩) r2 p rest hk
              exact ⟨.prevention, e2, some e1, tb, p1 ++ k :: pb, pt, by rw [hp1]; simp, rfl, .prevention k hc hns he1 hb, ht⟩
            · split at hk
              · rename_i hc
                obtain ⟨e2, tb, pb, pt, rfl, rfl, hb, ht⟩ := pEvTb_snd (fun e2 tb => ⟨sk, act, term, .requirement, e1, some e2, tb, md⟩) r2 p rest hk
                exact ⟨.requirement, e1, some e2, tb, p1 ++ k :: pb, pt, by rw [hp1]; simp, rfl, .requirement k hc hns he1 hb, ht⟩
              · cases hk

theorem pScope_snd (ts : List Tok) (sk : ScopeKind) (a q : Option RawEvent) (rest : List Tok)
    (h : pScope ts = .ok (sk, a, q, rest)) : ∃ pre, ts = pre ++ rest ∧ RScope sk a q pre := by
  unfold pScope at h
  cases ts with
  | nil => cases h
  | cons t r0 =>
    simp only at h
    split at h
    · rename_i h1
      simp only [pure, Except.pure, Except.ok.injEq, Prod.mk.injEq] at h
      obtain ⟨rfl, rfl, rfl, rfl⟩ := h
      exact ⟨[t], rfl, .global t h1⟩
    · split at h
      · rename_i h2
        obtain ⟨e, r1, ha, hk⟩ := bind_ok_pair h
        obtain ⟨pa, rfl, hea⟩ := pAnyEvent_snd _ _ _ ha
        match r1, hk with
        | [], hk =>
          simp only [pure, Except.pure, Except.ok.injEq, Prod.mk.injEq] at hk
          obtain ⟨rfl, rfl, rfl, rfl⟩ := hk
          exact ⟨t :: pa, by simp, .after t h2 hea⟩
        | u :: r2, hk =>
          simp only at hk
          split at hk
          · rename_i hu
            obtain ⟨e2, r3, hb, hk2⟩ := bind_ok_pair hk
            simp only [pure, Except.pure, Except.ok.injEq, Prod.mk.injEq] at hk2
            obtain ⟨rfl, rfl, rfl, rfl⟩ := hk2
            obtain ⟨pq, rfl, heq⟩ := pAnyEvent_snd _ _ _ hb
            exact ⟨t :: (pa ++ u :: pq), by simp, .afterUntil t u h2 hu hea heq⟩
          · simp only [pure, Except.pure, Except.ok.injEq, Prod.mk.injEq] at hk
            obtain ⟨rfl, rfl, rfl, rfl⟩ := hk
            exact ⟨t :: pa, by simp, .after t h2 hea⟩
      · split at h
        · rename_i h3
          obtain ⟨e, r1, ha, hk⟩ := bind_ok_pair h
          simp only [pure, Except.pure, Except.ok.injEq, Prod.mk.injEq] at hk
          obtain ⟨rfl, rfl, rfl, rfl⟩ := hk
          obtain ⟨pa, rfl, hea⟩ := pAnyEvent_snd _ _ _ ha
          exact ⟨t :: pa, rfl, .until_ t h3 hea⟩
        · cases h

theorem pMetadata_snd : ∀ (f : Nat) (acc : List (String × String)) (ts : List Tok) (md : List (String × String)) (rest : List Tok),
    pMetadata f acc ts = .ok (md, rest) → ∃ pre items, ts = pre ++ rest ∧ md = acc ++ items ∧ RMeta items pre
  | 0, _, _, _, _, h => by simp [pMetadata, perr] at h
  | f + 1, acc, ts, md, rest, h => by
      match ts, h with
      | [], h =>
        simp only [pMetadata] at h
        obtain ⟨rfl, rfl⟩ := ok_pair_inj h
        exact ⟨[], [], rfl, by simp, .nil⟩
      | hd :: tl, h =>
        cases hh : isSym hd "#" with
        | false =>
          rw [pMetadata_nohash _ _ _ _ hh] at h
          obtain ⟨rfl, rfl⟩ := ok_pair_inj h
          exact ⟨[], [], rfl, by simp, .nil⟩
        | true =>
          match tl, h with
          | [], h => simp [pMetadata, hh, perr] at h
          | [_], h => simp [pMetadata, hh, perr] at h
          | [_, _], h => simp [pMetadata, hh, perr] at h
          | k :: c :: v :: r0, h =>
            simp only [pMetadata, hh, if_true] at h
            split at h
            · rename_i hc
              have step : ∀ (key : String),
                  ((isWordS k "id" = true ∧ v.kind = .word ∧ isCName v.text = true ∧ key = "id") ∨
                   (isWordS k "title" = true ∧ v.kind = .str ∧ key = "title") ∨
                   (isWordS k "description" = true ∧ v.kind = .str ∧ key = "description")) →
                  pMetadata f (acc ++ [(key, v.text)]) r0 = .ok (md, rest) →
                  ∃ pre items, hd :: k :: c :: v :: r0 = pre ++ rest ∧ md = acc ++ items ∧ RMeta items pre := by
                intro key hk h'
                obtain ⟨pre0, items0, rfl, rfl, hm0⟩ := pMetadata_snd f _ r0 md rest h'
                exact ⟨hd :: k :: c :: v :: pre0, (key, v.text) :: items0, by simp, by simp, .item hd k c v key hh hc hk hm0⟩
              split at h
              · rename_i h1
                simp only [Bool.and_eq_true, beq_iff_eq] at h1
                exact step "id" (.inl ⟨h1.1.1, h1.1.2, h1.2, rfl⟩) h
              · split at h
                · rename_i h2
                  simp only [Bool.and_eq_true, beq_iff_eq] at h2
                  exact step "title" (.inr (.inl ⟨h2.1, h2.2, rfl⟩)) h
                · split at h
                  · rename_i h3
                    simp only [Bool.and_eq_true, beq_iff_eq] at h3
                    exact step "description" (.inr (.inr ⟨h3.1, h3.2, rfl⟩)) h
                  · cases h
            · cases h

theorem pProperty_snd (ts : List Tok) (p : RawProperty) (rest : List Tok) (h : pProperty ts = .ok (p, rest)) :
    ∃ pre, ts = pre ++ rest ∧ RProperty p pre := by
  unfold pProperty at h
  obtain ⟨md, r1, h1, h2⟩ := bind_ok_pair h
  dsimp only at h2
  cases hsc : pScope r1 with
  | error e => rw [hsc] at h2; cases h2
  | ok v =>
    obtain ⟨sk, act, term, r2⟩ := v
    rw [hsc] at h2
    simp only [bind, Except.bind] at h2
    match r2, hsc, h2 with
    | [], _, h2 => cases h2
    | c :: r3, hsc, h2 =>
      cases hc : isSym c ":" with
      | false => simp only [hc, Bool.not_false, if_true] at h2; cases h2
      | true =>
        simp only [hc, Bool.not_true, Bool.false_eq_true, if_false] at h2
        obtain ⟨pm, items, rfl, rfl, hm⟩ := pMetadata_snd _ _ _ _ _ h1
        obtain ⟨ps, rfl, hs⟩ := pScope_snd _ _ _ _ _ hsc
        obtain ⟨pk, beh, trig, tb, pts, tts, rfl, rfl, hp, ht⟩ := pPattern_snd _ _ _ _ _ _ _ h2
        exact ⟨pm ++ (ps ++ c :: (pts ++ tts)), by simp, by simpa using RProperty.mk c hm hs hc hp ht⟩

/-- **C01, property level, soundness**: whatever the property parser returns, the property grammar assigns to the whole text -/
theorem parseProperty_sound {ts : List Tok} {p : RawProperty} (h : parsePropertyToks ts = .ok p) : RProperty p ts := by
  obtain ⟨pre, hpre, hr⟩ := pProperty_snd ts p [] (parsePropertyToks_ok h)
  simp only [List.append_nil] at hpre
  exact hpre ▸ hr

/-! ## completeness: what the property grammar derives, the parser returns -/

theorem rpred_whole {pred : Option Raw} {pr : List Tok} (h : RPred pred pr) (name : String) (al : Option String) :
    pEventBody name al pr = .ok (⟨name, al, pred⟩, []) := by
  cases h with
  | none => rfl
  | some o c ho hc hr =>
    have hp := parsePredicateToks_ok (parse_predicate_complete hr o c ho hc)
    simp only [pEventBody, ho, if_true, hp, bind, Except.bind, pure, Except.pure]

theorem rsimple_whole {s : RawSimple} {pre : List Tok} (h : RSimple s pre) : pEvent pre = .ok (s, []) := by
  cases h with
  | mk n hk hn hal hpr =>
    rw [pEvent_eq]
    have hn' : (n.kind == .word && isChannelName n.text) = true := by simp [hk, hn]
    cases hal with
    | none =>
      simp only [List.nil_append]
      have hb := rpred_whole hpr n.text none
      cases hpr with
      | none => simpa [pEvent', hn'] using hb
      | some o c ho hc hr =>
        simp only [pEvent', hn', if_true, isKw_of_sym ho, Bool.false_eq_true, if_false]
        exact hb
    | some a v ha hvk hvn =>
      have hv : (v.kind == .word && isCName v.text) = true := by simp [hvk, hvn]
      simp only [List.cons_append, List.nil_append, pEvent', hn', if_true, ha, hv]
      exact rpred_whole hpr n.text (some v.text)

theorem rsimple_ne {s : RawSimple} {pre : List Tok} (h : RSimple s pre) : pre ≠ [] := by cases h; simp

theorem rsimple_head {s : RawSimple} {pre : List Tok} (h : RSimple s pre) : ∃ n tl, pre = n :: tl ∧ n.kind = .word := by
  cases h with
  | mk n hk _ _ _ => exact ⟨n, _, rfl, hk⟩

theorem ralts_len {alts : List RawSimple} {ts : List Tok} (h : RAlts alts ts) : alts.length ≤ ts.length := by
  induction h with
  | @last s ts hs =>
    have := rsimple_ne hs
    cases ts with
    | nil => exact absurd rfl this
    | cons _ _ => simp
  | @cons s ts rest ts' k hs _ _ ih =>
    have := rsimple_ne hs
    have h1 : 1 ≤ ts.length := by
      cases ts with
      | nil => exact absurd rfl this
      | cons _ _ => simp
    simp only [List.length_cons, List.length_append]
    omega

theorem ralts_parse {alts : List RawSimple} {ts : List Tok} (h : RAlts alts ts) : ∀ (f : Nat) (acc : List RawSimple) (c : Tok) (more : List Tok),
    isSym c ")" = true → (acc ≠ [] ∨ 2 ≤ alts.length) → alts.length ≤ f →
    pDisjTail f acc (ts ++ c :: more) = .ok (.disj (acc.reverse ++ alts), more) := by
  induction h with
  | @last s ts hs =>
    intro f acc c more hc hacc hf
    obtain ⟨f', rfl⟩ : ∃ n, f = n + 1 := ⟨f - 1, by simp at hf; omega⟩
    have hev := pEvent_extE ts s [] (c :: more) (rsimple_whole hs) (fun _ => stopsEv_sym hc (by decide) _)
    simp only [List.nil_append] at hev
    have hne : acc.isEmpty = false := by
      rcases hacc with h | h
      · cases acc with
        | nil => exact absurd rfl h
        | cons _ _ => rfl
      · simp at h
    simp only [pDisjTail, hev, bind, Except.bind, isKw_of_sym hc, Bool.false_eq_true, if_false, hc, if_true, hne]
    simp [pure, Except.pure]
  | @cons s ts rest ts' k hs hk _ ih =>
    intro f acc c more hc _ hf
    obtain ⟨f', rfl⟩ : ∃ n, f = n + 1 := ⟨f - 1, by simp at hf; omega⟩
    have hev := pEvent_extE ts s [] (k :: (ts' ++ c :: more)) (rsimple_whole hs) (fun _ => stopsEv_kw hk (by decide) _)
    simp only [List.nil_append] at hev
    simp only [List.append_assoc, List.cons_append, pDisjTail, hev, bind, Except.bind, hk, if_true]
    rw [ih f' (s :: acc) c more hc (.inl (by simp)) (by simp only [List.length_cons] at hf; omega)]
    simp

theorem revent_parse {e : RawEvent} {pre : List Tok} (h : REvent e pre) (more : List Tok) (hm : stopsEv more) :
    pAnyEvent (pre ++ more) = .ok (e, more) := by
  cases h with
  | simple hs =>
    obtain ⟨n, tl, rfl, hk⟩ := rsimple_head hs
    have hev := pEvent_extE _ _ [] more (rsimple_whole hs) (fun _ => hm)
    simp only [List.nil_append] at hev
    simp only [List.cons_append] at hev ⊢
    simp only [pAnyEvent, notSym_of_kind (by rw [hk]; decide), Bool.false_eq_true, if_false, hev, bind, Except.bind]
    rfl
  | @disj alts ts o c ho hc hlen halts =>
    simp only [List.cons_append, List.append_assoc, pAnyEvent, ho, if_true]
    have := ralts_parse halts ((o :: (ts ++ ([c] ++ more))).length + 1) [] c more hc (.inr hlen) (by
      have := ralts_len halts
      simp only [List.length_cons, List.length_append]; omega)
    simpa using this

theorem revent_ne {e : RawEvent} {pre : List Tok} (h : REvent e pre) : pre ≠ [] := by
  cases h with
  | simple hs => exact rsimple_ne hs
  | disj => simp

theorem rtime_whole {tb : Option (Rat × TimeUnit)} {pre : List Tok} (h : RTime tb pre) : pTimeBound pre = .ok (tb, []) ∧ stopsEv pre := by
  cases h with
  | none => exact ⟨rfl, trivial⟩
  | some w n u v unit hw hn hd hu =>
    refine ⟨?_, stopsEv_kw hw (by decide) _⟩
    have hnk : (n.kind == .num) = true := by simp [hn]
    rcases hu with ⟨hu, rfl⟩ | ⟨hu, rfl⟩
    · simp only [pTimeBound, hw, if_true, hnk, hd, hu]
      cases v <;> rfl
    · have hms : isWordS u "ms" = false := by
        simp only [isWordS, Bool.and_eq_true, beq_iff_eq] at hu
        simp [isWordS, hu.2]
      simp only [pTimeBound, hw, if_true, hnk, hd, hms, Bool.false_eq_true, if_false, hu]
      cases v <;> rfl

theorem evtb_parse (mk : RawEvent → Option (Rat × TimeUnit) → RawProperty) {b : RawEvent} {pb : List Tok} {tb : Option (Rat × TimeUnit)}
    {pt : List Tok} (hb : REvent b pb) (ht : RTime tb pt) : pEvTb mk (pb ++ pt) = .ok (mk b tb, []) := by
  obtain ⟨htw, hts⟩ := rtime_whole ht
  simp only [pEvTb, revent_parse hb pt hts, bind, Except.bind, htw]
  rfl

theorem rpattern_parse (sk : ScopeKind) (act term : Option RawEvent) (md : List (String × String)) {pk : PatternKind} {beh : RawEvent}
    {trig : Option RawEvent} {pts : List Tok} {tb : Option (Rat × TimeUnit)} {tts : List Tok} (hp : RPattern pk beh trig pts) (ht : RTime tb tts) :
    pPattern sk act term md (pts ++ tts) = .ok (⟨sk, act, term, pk, beh, trig, tb, md⟩, []) := by
  cases hp with
  | existence t h1 hb =>
    simp only [List.cons_append, pPattern, h1, if_true]
    exact evtb_parse (fun b tb => ⟨sk, act, term, .existence, b, none, tb, md⟩) hb ht
  | absence t h1 hb =>
    simp only [List.cons_append, pPattern, isKw_other h1 (by decide : "no" ≠ "some"), Bool.false_eq_true, if_false, h1, if_true]
    exact evtb_parse (fun b tb => ⟨sk, act, term, .absence, b, none, tb, md⟩) hb ht
  | @response e1 e2 t1 t2 k hk hns h1 h2 =>
    obtain ⟨t, tl, rfl⟩ : ∃ t tl, t1 = t :: tl := by
      cases t1 with
      | nil => exact absurd rfl (revent_ne h1)
      | cons t tl => exact ⟨t, tl, rfl⟩
    obtain ⟨hs, hn⟩ := hns t tl rfl
    have hev := revent_parse h1 (k :: (t2 ++ tts)) (stopsEv_kw hk (by decide) _)
    simp only [List.cons_append, List.append_assoc] at hev ⊢
    have := evtb_parse (fun e2 tb => ⟨sk, act, term, .response, e2, some e1, tb, md⟩) h2 ht
    simp only [pEvTb, bind, Except.bind] at this
    simp only [pPattern, hs, hn, Bool.false_eq_true, if_false, hev, bind, Except.bind, hk, if_true]
    exact this
  | @prevention e1 e2 t1 t2 k hk hns h1 h2 =>
    obtain ⟨t, tl, rfl⟩ : ∃ t tl, t1 = t :: tl := by
      cases t1 with
      | nil => exact absurd rfl (revent_ne h1)
      | cons t tl => exact ⟨t, tl, rfl⟩
    obtain ⟨hs, hn⟩ := hns t tl rfl
    have hev := revent_parse h1 (k :: (t2 ++ tts)) (stopsEv_kw hk (by decide) _)
    simp only [List.cons_append, List.append_assoc] at hev ⊢
    simp only [pPattern, hs, hn, Bool.false_eq_true, if_false, hev, bind, Except.bind,
      isKw_other hk (by decide : "forbids" ≠ "causes"), hk, if_true]
    have := evtb_parse (fun e2 tb => ⟨sk, act, term, .prevention, e2, some e1, tb, md⟩) h2 ht
    simp only [pEvTb, bind, Except.bind] at this
    exact this
  | @requirement e1 e2 t1 t2 k hk hns h1 h2 =>
    obtain ⟨t, tl, rfl⟩ : ∃ t tl, t1 = t :: tl := by
      cases t1 with
      | nil => exact absurd rfl (revent_ne h1)
      | cons t tl => exact ⟨t, tl, rfl⟩
    obtain ⟨hs, hn⟩ := hns t tl rfl
    have hev := revent_parse h1 (k :: (t2 ++ tts)) (stopsEv_kw hk (by decide) _)
    simp only [List.cons_append, List.append_assoc] at hev ⊢
    simp only [pPattern, hs, hn, Bool.false_eq_true, if_false, hev, bind, Except.bind,
      isKw_other hk (by decide : "requires" ≠ "causes"), isKw_other hk (by decide : "requires" ≠ "forbids"), hk, if_true]
    have := evtb_parse (fun e2 tb => ⟨sk, act, term, .requirement, beh, some e2, tb, md⟩) h2 ht
    simp only [pEvTb, bind, Except.bind] at this
    exact this

theorem rscope_parse {sk : ScopeKind} {a q : Option RawEvent} {sts : List Tok} (h : RScope sk a q sts) (c : Tok) (more : List Tok)
    (hc : isSym c ":" = true) : pScope (sts ++ c :: more) = .ok (sk, a, q, c :: more) := by
  have hst : stopsEv (c :: more) := stopsEv_sym hc (by decide) _
  cases h with
  | global t h1 => simp only [List.cons_append, List.nil_append, pScope, h1, if_true]; rfl
  | @after e ta t h1 he =>
    simp only [List.cons_append, pScope, isKw_other h1 (by decide : "after" ≠ "globally"), Bool.false_eq_true, if_false, h1, if_true,
      revent_parse he (c :: more) hst, bind, Except.bind, isKw_of_sym hc]
    rfl
  | @afterUntil e1 e2 ta tq t u h1 hu he1 he2 =>
    have hev1 := revent_parse he1 (u :: (tq ++ c :: more)) (stopsEv_kw hu (by decide) _)
    simp only [List.cons_append, List.append_assoc] at hev1 ⊢
    simp only [pScope, isKw_other h1 (by decide : "after" ≠ "globally"), Bool.false_eq_true, if_false, h1, if_true, hev1, bind, Except.bind,
      hu, revent_parse he2 (c :: more) hst]
    rfl
  | @until_ e tq t h1 he =>
    simp only [List.cons_append, pScope, isKw_other h1 (by decide : "until" ≠ "globally"), isKw_other h1 (by decide : "until" ≠ "after"),
      Bool.false_eq_true, if_false, h1, if_true, revent_parse he (c :: more) hst, bind, Except.bind]
    rfl

theorem rscope_head {sk : ScopeKind} {a q : Option RawEvent} {sts : List Tok} (h : RScope sk a q sts) :
    ∃ t tl, sts = t :: tl ∧ isSym t "#" = false := by
  cases h with
  | global t h1 => exact ⟨t, _, rfl, isSym_of_kw h1⟩
  | after t h1 _ => exact ⟨t, _, rfl, isSym_of_kw h1⟩
  | afterUntil t u h1 _ _ _ => exact ⟨t, _, rfl, isSym_of_kw h1⟩
  | until_ t h1 _ => exact ⟨t, _, rfl, isSym_of_kw h1⟩

theorem rmeta_parse {items : List (String × String)} {mts : List Tok} (h : RMeta items mts) : ∀ (f : Nat) (acc : List (String × String))
    (more : List Tok), (∀ t tl, more = t :: tl → isSym t "#" = false) → mts.length < f →
    pMetadata f acc (mts ++ more) = .ok (acc ++ items, more) := by
  induction h with
  | nil =>
    intro f acc more hm hf
    obtain ⟨f', rfl⟩ : ∃ n, f = n + 1 := ⟨f - 1, by omega⟩
    simpa using pMetadata_stop f' acc more hm
  | @item rest ts hd k c v key hh hc hk _ ih =>
    intro f acc more hm hf
    obtain ⟨f', rfl⟩ : ∃ n, f = n + 1 := ⟨f - 1, by omega⟩
    have hrec := ih f' (acc ++ [(key, v.text)]) more hm (by simp only [List.length_cons] at hf; omega)
    simp only [List.cons_append, pMetadata, hh, if_true, hc]
    rcases hk with ⟨h1, h2, h3, rfl⟩ | ⟨h1, h2, rfl⟩ | ⟨h1, h2, rfl⟩
    · have : (isWordS k "id" && v.kind == .word && isCName v.text) = true := by simp [h1, h2, h3]
      simp only [this, if_true]
      simpa using hrec
    · have hid : isWordS k "id" = false := by
        simp only [isWordS, Bool.and_eq_true, beq_iff_eq] at h1
        simp [isWordS, h1.2]
      have : (isWordS k "title" && v.kind == .str) = true := by simp [h1, h2]
      simp only [hid, Bool.false_and, Bool.false_eq_true, if_false, this, if_true]
      simpa using hrec
    · have hid : isWordS k "id" = false := by
        simp only [isWordS, Bool.and_eq_true, beq_iff_eq] at h1
        simp [isWordS, h1.2]
      have hti : isWordS k "title" = false := by
        simp only [isWordS, Bool.and_eq_true, beq_iff_eq] at h1
        simp [isWordS, h1.2]
      have : (isWordS k "description" && v.kind == .str) = true := by simp [h1, h2]
      simp only [hid, hti, Bool.false_and, Bool.false_eq_true, if_false, this, if_true]
      simpa using hrec

/-- **C01, property level, completeness**: every token sequence the property grammar reads as a property with tree `p` is parsed to
    exactly `p`, all tokens consumed -/
theorem parseProperty_complete {p : RawProperty} {ts : List Tok} (h : RProperty p ts) : parsePropertyToks ts = .ok p := by
  cases h with
  | @mk md mts sk act term sts pk beh trig pts tb tts c hm hs hc hp ht =>
    obtain ⟨t0, tl0, hst, hhash⟩ := rscope_head hs
    have hmeta := rmeta_parse hm ((mts ++ (sts ++ c :: (pts ++ tts))).length + 1) [] (sts ++ c :: (pts ++ tts))
      (fun t tl he => by rw [hst] at he; simp only [List.cons_append, List.cons.injEq] at he; exact he.1 ▸ hhash)
      (by simp only [List.length_append]; omega)
    simp only [List.nil_append] at hmeta
    have hscope := rscope_parse hs c (pts ++ tts) hc
    have hpat := rpattern_parse sk act term md hp ht
    simp only [parsePropertyToks, pProperty, hmeta, bind, Except.bind, hscope, hc, Bool.not_true, Bool.false_eq_true, if_false, hpat,
      List.isEmpty_nil, if_true]
    rfl

/-- **C01, property level: the parser accepts exactly what the property grammar derives, with exactly the tree it assigns** -/
theorem parseProperty_iff (ts : List Tok) (p : RawProperty) : parsePropertyToks ts = .ok p ↔ RProperty p ts :=
  ⟨parseProperty_sound, parseProperty_complete⟩

/-- the property grammar is unambiguous -/
theorem rproperty_functional {p p' : RawProperty} {ts : List Tok} (h : RProperty p ts) (h' : RProperty p' ts) : p = p' := by
  have h1 := parseProperty_complete h
  rw [parseProperty_complete h'] at h1
  exact (Except.ok.inj h1).symm

/-- **file level**: `hpl_file: hpl_property+` - a token text parses as a file to `rs` iff it is a concatenation of k ≥ 1 texts that the
    property grammar reads as the members of `rs`, in order -/
theorem parseFile_iff_grammar (ts : List Tok) (rs : List RawProperty) :
    parseFileToks ts = .ok rs ↔
    ∃ chunks : List (List Tok × RawProperty), chunks ≠ [] ∧ ts = fileToks chunks ∧ rs = chunks.map (·.2) ∧ ∀ c ∈ chunks, RProperty c.2 c.1 := by
  rw [parseFileToks_iff]
  constructor
  · rintro ⟨chunks, hne, hts, hrs, hall⟩
    exact ⟨chunks, hne, hts, hrs, fun c hc => parseProperty_sound (hall c hc)⟩
  · rintro ⟨chunks, hne, hts, hrs, hall⟩
    exact ⟨chunks, hne, hts, hrs, fun c hc => parseProperty_complete (hall c hc)⟩

end Hpl
