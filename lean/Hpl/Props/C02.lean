import Hpl.Model.Build
import Hpl.Spec.Scoping
import Hpl.Props.C15
import Hpl.Lemmas.Except
/-!
# C02 — a property is accepted iff every alias reference is bound earlier, once

Model: `sanityCheck` and its helpers, `mkDisj`, `mkQuant`, `mkProperty` in `Hpl/Model/Build.lean`.
Spec: `WellScoped` in `Hpl/Spec/Scoping.lean` (free references per event from `Event.freeRefs`).

Reading of clause (ii): a name bound in two *alternatives of one disjunction* is not "bound a second time along the
chain" (the code accepts it; alternatives are parallel) — `Bound` only compares an event's aliases with the aliases
available *before* it.
-/
namespace Hpl

/-- what the constructors guarantee about an event's predicates (C15 `quantOK`) and aliases (grammar: `CNAME`) -/
def EvOK (e : Event) : Prop := e.quantOK ∧ ∀ a ∈ e.aliases, a ≠ ""

theorem checkRefsDefined_ok (e : Event) (h : EvOK e) (avail : List String) :
    checkRefsDefined e avail = .ok () ↔ ∀ r ∈ e.freeRefs, r ∈ avail := by
  unfold checkRefsDefined
  rw [Event.externalRefs_eq e h.1 h.2]
  simp only [qerr, bind, Except.bind]
  split <;> simp_all [List.all_eq_true, pure, Except.pure]

theorem checkRefsDefined_err (e : Event) (h : EvOK e) (avail : List String) (x : Err)
    (hx : checkRefsDefined e avail = .error x) : x = .sanity := by
  unfold checkRefsDefined at hx
  rw [Event.externalRefs_eq e h.1 h.2] at hx
  simp only [qerr, bind, Except.bind] at hx
  split at hx
  · cases hx
  · cases hx; rfl

theorem checkDuplicates_ok (als avail : List String) :
    checkDuplicates als avail = .ok () ↔ ∀ a ∈ als, a ∉ avail := by
  unfold checkDuplicates; split <;> simp_all [List.any_eq_true]

theorem checkEvent_ok (e : Event) (he : EvOK e) (avail : List String) (r : List String) :
    checkEvent e avail = .ok r ↔ Bound e avail ∧ r = e.aliases ++ avail := by
  unfold checkEvent Bound
  cases h1 : checkRefsDefined e avail with
  | error x =>
    have : ¬ ∀ r ∈ e.freeRefs, r ∈ avail := by
      intro h; rw [(checkRefsDefined_ok e he avail).2 h] at h1; cases h1
    simp [bind, Except.bind, this]
  | ok u =>
    have hr := (checkRefsDefined_ok e he avail).1 (by rw [h1])
    cases h2 : checkDuplicates e.aliases avail with
    | error x =>
      have : ¬ ∀ a ∈ e.aliases, a ∉ avail := by
        intro h; rw [(checkDuplicates_ok _ avail).2 h] at h2; cases h2
      simp [bind, Except.bind, this]
    | ok u' =>
      have hd := (checkDuplicates_ok _ avail).1 (by rw [h2])
      simp only [bind, Except.bind, pure, Except.pure, Except.ok.injEq]
      constructor
      · intro h; exact ⟨⟨hr, hd⟩, h.symm⟩
      · intro h; exact h.2.symm

theorem checkActivator_ok (s : Scope) (hs : ∀ a, s.activator = some a → EvOK a) (r : List String) :
    checkActivator s = .ok r ↔ (∀ a, s.activator = some a → ∀ x ∈ a.freeRefs, False) ∧ r = actAliases s := by
  unfold checkActivator actAliases
  cases h : s.activator with
  | none => simp [pure, Except.pure, eq_comm]
  | some a =>
    have ha := hs a h
    simp only [Option.some.injEq, forall_eq']
    cases h1 : checkRefsDefined a [] with
    | error x =>
      have : ¬ ∀ r ∈ a.freeRefs, r ∈ ([] : List String) := by
        intro hh; rw [(checkRefsDefined_ok a ha []).2 hh] at h1; cases h1
      simp only [bind, Except.bind, reduceCtorEq, false_iff, not_and]
      intro hh; exact absurd (fun r hr => (hh r hr).elim) this
    | ok u =>
      have hr := (checkRefsDefined_ok a ha []).1 (by rw [h1])
      simp only [bind, Except.bind, pure, Except.pure, Except.ok.injEq]
      constructor
      · intro hh; exact ⟨fun x hx => by simpa using hr x hx, hh.symm⟩
      · intro hh; exact hh.2.symm

theorem checkTerminator_ok (s : Scope) (hs : ∀ q, s.terminator = some q → EvOK q) (avail : List String) :
    checkTerminator s avail = .ok () ↔ ∀ q, s.terminator = some q → Bound q avail := by
  unfold checkTerminator Bound
  cases h : s.terminator with
  | none => simp [pure, Except.pure]
  | some q =>
    have hq := hs q h
    simp only [Option.some.injEq, forall_eq']
    cases h1 : checkRefsDefined q avail with
    | error x =>
      have : ¬ ∀ r ∈ q.freeRefs, r ∈ avail := by
        intro hh; rw [(checkRefsDefined_ok q hq avail).2 hh] at h1; cases h1
      simp [bind, Except.bind, this]
    | ok u =>
      have hr := (checkRefsDefined_ok q hq avail).1 (by rw [h1])
      simp only [bind, Except.bind]
      rw [checkDuplicates_ok]
      exact ⟨fun hd => ⟨hr, hd⟩, fun hh => hh.2⟩

theorem checkEvent1_ok (e : Event) (he : EvOK e) (avail : List String) :
    (do let _ ← checkEvent e avail; (pure () : M Unit)) = .ok () ↔ Bound e avail := by
  cases h : checkEvent e avail with
  | error x =>
    have : ¬ Bound e avail := fun hb => by
      rw [(checkEvent_ok e he avail _).2 ⟨hb, rfl⟩] at h; cases h
    simp [bind, Except.bind, this]
  | ok r => simp [bind, Except.bind, pure, Except.pure, ((checkEvent_ok e he avail r).1 h).1]

theorem checkEvent2_ok (e1 e2 : Event) (h1 : EvOK e1) (h2 : EvOK e2) (avail : List String) :
    (do let als ← checkEvent e1 avail; let _ ← checkEvent e2 als; (pure () : M Unit)) = .ok () ↔
      Bound e1 avail ∧ Bound e2 (e1.aliases ++ avail) := by
  cases h : checkEvent e1 avail with
  | error x =>
    have : ¬ Bound e1 avail := fun hb => by
      rw [(checkEvent_ok e1 h1 avail _).2 ⟨hb, rfl⟩] at h; cases h
    simp [bind, Except.bind, this]
  | ok r =>
    obtain ⟨hb, rfl⟩ := (checkEvent_ok e1 h1 avail r).1 h
    have := checkEvent1_ok e2 h2 (e1.aliases ++ avail)
    simp only [bind, Except.bind] at this ⊢
    rw [this]; exact ⟨fun h2 => ⟨hb, h2⟩, fun h2 => h2.2⟩

/-- every event of the pattern satisfies the constructor guarantees -/
def PatOK (p : Pattern) : Prop := EvOK p.behaviour ∧ ∀ t, p.trigger = some t → EvOK t
def ScopeOK (s : Scope) : Prop := (∀ a, s.activator = some a → EvOK a) ∧ (∀ q, s.terminator = some q → EvOK q)

theorem patternCheck_ok (p : Pattern) (hp : PatOK p) (avail : List String) :
    patternCheck p avail = .ok () ↔ PatternScoped p avail := by
  unfold patternCheck PatternScoped
  obtain ⟨hb, ht⟩ := hp
  cases hk : p.kind <;> cases htg : p.trigger <;> simp only []
  all_goals first
    | exact checkEvent1_ok _ hb _
    | exact checkEvent2_ok _ _ hb (ht _ htg) _
    | exact checkEvent2_ok _ _ (ht _ htg) hb _
    | simp

/-- **C02 (i)+(ii)**: the sanity check accepts exactly the well-scoped scope/pattern pairs -/
theorem sanityCheck_ok_iff (s : Scope) (p : Pattern) (hs : ScopeOK s) (hp : PatOK p) :
    sanityCheck s p = .ok () ↔ WellScoped s p := by
  unfold sanityCheck WellScoped
  cases ha : checkActivator s with
  | error x =>
    have hno : ¬ (∀ a, s.activator = some a → ∀ r ∈ a.freeRefs, False) := by
      intro hh
      have := (checkActivator_ok s hs.1 (actAliases s)).2 ⟨hh, rfl⟩
      rw [this] at ha; cases ha
    simp only [bind, Except.bind, reduceCtorEq, false_iff]
    intro hh; exact hno hh.1
  | ok initial =>
    obtain ⟨hact, rfl⟩ := (checkActivator_ok s hs.1 initial).1 ha
    simp only [bind, Except.bind]
    cases hpc : patternCheck p (actAliases s) with
    | error x =>
      have : ¬ PatternScoped p (actAliases s) := fun hh => by
        rw [(patternCheck_ok p hp _).2 hh] at hpc; cases hpc
      simp [this]
    | ok u =>
      have hps := (patternCheck_ok p hp _).1 (by rw [hpc])
      simp only []
      rw [checkTerminator_ok s hs.2]
      exact ⟨fun h => ⟨hact, hps, h⟩, fun h => h.2.2⟩

/-- **C02**: no `Property` value comes into being without passing the check (parser, API and `but` all go through
    `mkProperty` / `butProp`, which run `sanityCheck` first) -/
theorem mkProperty_ok_iff (s : Scope) (p : Pattern) (md : List (String × String)) (r : Property) :
    mkProperty s p md = .ok r ↔ sanityCheck s p = .ok () ∧ r = ⟨s, p, md⟩ := by
  unfold mkProperty
  cases h : sanityCheck s p with
  | error x => simp [bind, Except.bind]
  | ok u => simp [bind, Except.bind, pure, Except.pure, eq_comm]

theorem mkProperty_wellScoped (s : Scope) (p : Pattern) (md : List (String × String)) (r : Property)
    (hs : ScopeOK s) (hp : PatOK p) (h : mkProperty s p md = .ok r) : WellScoped r.scope r.pattern := by
  obtain ⟨h1, rfl⟩ := (mkProperty_ok_iff s p md r).1 h
  exact (sanityCheck_ok_iff s p hs hp).1 h1

/-- **C02 (iii)**: a disjunction is accepted iff no channel occurs twice among its flattened alternatives -/
theorem mkDisj_ok_iff (a b e : Event) : mkDisj a b = .ok e ↔ (a.names ++ b.names).Nodup ∧ e = .disj a b := by
  unfold mkDisj
  simp only
  split <;> simp_all [eq_comm]

theorem mkDisj_err (a b : Event) (x : Err) (h : mkDisj a b = .error x) : x = .sanity := by
  unfold mkDisj at h; simp only at h; split at h <;> cases h; rfl

/-- **C02 (iv)**: an accepted quantifier does not use its variable in its own domain, is not nested over a quantifier
    binding the same name, and uses its variable in its body -/
theorem filter_length_cons {α : Type} (p : α → Bool) (a : α) (l : List α) :
    (List.filter p (a :: l)).length = (if p a = true then 1 else 0) + (List.filter p l).length := by
  by_cases h : p a = true
  · simp [h]; omega
  · simp [h]

theorem quantBodyCheck_no_rebind (x : String) (t : DataType) : ∀ (l : List Expr) (used n : Nat),
    quantBodyCheck x t l used = .ok n → (∀ v ∈ l, bindsName x v = false) ∧ n = used + (l.filter (isVarNamed x)).length := by
  intro l
  induction l with
  | nil => intro used n h; simp only [quantBodyCheck] at h; cases h; simp
  | cons e rest ih =>
    intro used n h
    have step : ∀ (used' : Nat), quantBodyCheck x t rest used' = .ok n → bindsName x e = false →
        used' = used + (if isVarNamed x e = true then 1 else 0) →
        (∀ v ∈ e :: rest, bindsName x v = false) ∧ n = used + ((e :: rest).filter (isVarNamed x)).length := by
      intro used' h' hb hu
      obtain ⟨h1, h2⟩ := ih _ _ h'
      refine ⟨?_, ?_⟩
      · intro v hv
        rcases List.mem_cons.1 hv with rfl | hv'
        · exact hb
        · exact h1 v hv'
      · rw [filter_length_cons, h2, hu]; omega
    cases e with
    | quant ty q y d b =>
      simp only [quantBodyCheck] at h
      split at h
      · cases h
      · rename_i hne
        refine step used h ?_ (by simp [isVarNamed])
        simp only [bindsName]
        cases hxy : x == y with
        | false => rfl
        | true => exact absurd (by rw [eq_of_beq hxy]; exact beq_self_eq_true _) hne
    | var ty y =>
      simp only [quantBodyCheck] at h
      split at h
      · rename_i heq
        split at h
        · cases h
        · refine step (used + 1) h rfl ?_
          have : isVarNamed x (Expr.var ty y) = true := by
            simp only [isVarNamed]; rw [eq_of_beq heq]; exact beq_self_eq_true _
          rw [this]; rfl
      · rename_i hne
        refine step used h rfl ?_
        have : isVarNamed x (Expr.var ty y) = false := by
          simp only [isVarNamed]
          cases hxy : x == y with
          | false => rfl
          | true => exact absurd (by rw [eq_of_beq hxy]; exact beq_self_eq_true _) hne
        rw [this]; rfl
    | lit _ _ _ => simp only [quantBodyCheck] at h; exact step used h rfl (by simp [isVarNamed])
    | this _ => simp only [quantBodyCheck] at h; exact step used h rfl (by simp [isVarNamed])
    | set _ _ => simp only [quantBodyCheck] at h; exact step used h rfl (by simp [isVarNamed])
    | range _ _ _ _ _ => simp only [quantBodyCheck] at h; exact step used h rfl (by simp [isVarNamed])
    | un _ _ _ => simp only [quantBodyCheck] at h; exact step used h rfl (by simp [isVarNamed])
    | bin _ _ _ _ => simp only [quantBodyCheck] at h; exact step used h rfl (by simp [isVarNamed])
    | call _ _ _ => simp only [quantBodyCheck] at h; exact step used h rfl (by simp [isVarNamed])
    | field _ _ _ => simp only [quantBodyCheck] at h; exact step used h rfl (by simp [isVarNamed])
    | index _ _ _ => simp only [quantBodyCheck] at h; exact step used h rfl (by simp [isVarNamed])

theorem mkQuant_hygiene {q : Quant} {x : String} {dom body e : Expr} (h : mkQuant q x dom body = .ok e) :
    ∃ d b, e = .quant T.BOOL q x d b ∧
      d.preorder.any (isVarNamed x) = false ∧           -- not used in its own domain
      (∀ v ∈ b.preorder, bindsName x v = false) ∧       -- not re-bound inside
      b.preorder.any (isVarNamed x) = true := by         -- used in the body
  unfold mkQuant at h
  obtain ⟨d, hd', h⟩ := bind_ok h
  obtain ⟨b, hb', h⟩ := bind_ok h
  split at h
  · cases h
  · rename_i hdom
    obtain ⟨used, hused, h⟩ := bind_ok h
    split at h
    · cases h
    · rename_i hne
      cases h
      obtain ⟨h1, h2⟩ := quantBodyCheck_no_rebind x _ _ _ _ hused
      refine ⟨d, b, rfl, by simpa using hdom, h1, ?_⟩
      have hpos : 0 < (b.preorder.filter (isVarNamed x)).length := by omega
      obtain ⟨v, hv⟩ := List.exists_mem_of_length_pos hpos
      obtain ⟨hv1, hv2⟩ := List.mem_filter.1 hv
      exact List.any_eq_true.2 ⟨v, hv1, hv2⟩

/-- error classes of the property-level checks: only sanity errors on constructor-built events -/
theorem checkDuplicates_err (als avail : List String) (y : Err) (h : checkDuplicates als avail = .error y) : y = .sanity := by
  unfold checkDuplicates at h; split at h <;> cases h; rfl

theorem checkEvent_err (e : Event) (he : EvOK e) (avail : List String) (y : Err) (h : checkEvent e avail = .error y) :
    y = .sanity := by
  unfold checkEvent at h
  rcases bind_err h with h1 | ⟨_, _, h⟩
  · exact checkRefsDefined_err e he avail _ h1
  · rcases bind_err h with h2 | ⟨_, _, h⟩
    · exact checkDuplicates_err _ _ _ h2
    · cases h

theorem patternCheck_err (p : Pattern) (hp : PatOK p) (htrig : p.kind.hasTrigger = p.trigger.isSome)
    (avail : List String) (y : Err) (h : patternCheck p avail = .error y) : y = .sanity := by
  obtain ⟨hb, ht⟩ := hp
  unfold patternCheck at h
  cases hk : p.kind <;> cases htg : p.trigger <;> rw [hk, htg] at h <;> simp only [] at h <;>
    simp only [hk, htg, PatternKind.hasTrigger, Option.isSome] at htrig
  all_goals first
    | (exfalso; revert htrig; simp; done)
    | (rcases bind_err h with h1 | ⟨_, _, h⟩
       · first | exact checkEvent_err _ hb _ _ h1 | exact checkEvent_err _ (ht _ htg) _ _ h1
       · first
           | cases h
           | (rcases bind_err h with h2 | ⟨_, _, h⟩
              · first | exact checkEvent_err _ hb _ _ h2 | exact checkEvent_err _ (ht _ htg) _ _ h2
              · cases h))

theorem sanityCheck_err (s : Scope) (p : Pattern) (hs : ScopeOK s) (hp : PatOK p)
    (htrig : p.kind.hasTrigger = p.trigger.isSome) (x : Err) (h : sanityCheck s p = .error x) : x = .sanity := by
  unfold sanityCheck at h
  rcases bind_err h with h1 | ⟨initial, _, h⟩
  · unfold checkActivator at h1
    cases hact : s.activator with
    | none => rw [hact] at h1; cases h1
    | some a =>
      rw [hact] at h1
      rcases bind_err h1 with h2 | ⟨_, _, h1⟩
      · exact checkRefsDefined_err a (hs.1 a hact) [] _ h2
      · cases h1
  · rcases bind_err h with h2 | ⟨_, _, h⟩
    · exact patternCheck_err p hp htrig _ _ h2
    · unfold checkTerminator at h
      cases hterm : s.terminator with
      | none => rw [hterm] at h; cases h
      | some q =>
        rw [hterm] at h
        rcases bind_err h with h3 | ⟨_, _, h⟩
        · exact checkRefsDefined_err q (hs.2 q hterm) _ _ h3
        · exact checkDuplicates_err _ _ _ h

/-! ## the executable decider used to judge the implementation agrees with the declarative judgement -/
theorem boundB_iff (e : Event) (avail : List String) : boundB e avail = true ↔ Bound e avail := by
  simp [boundB, Bound, List.all_eq_true]

theorem patternScopedB_iff (p : Pattern) (avail : List String) : patternScopedB p avail = true ↔ PatternScoped p avail := by
  unfold patternScopedB PatternScoped
  cases p.kind <;> cases p.trigger <;> simp [boundB_iff]

theorem wellScopedB_iff (s : Scope) (p : Pattern) : wellScopedB s p = true ↔ WellScoped s p := by
  unfold wellScopedB WellScoped
  simp only [Bool.and_eq_true, patternScopedB_iff]
  cases ha : s.activator <;> cases ht : s.terminator <;> simp [boundB_iff, List.isEmpty_iff, List.eq_nil_iff_forall_not_mem, and_assoc]

/-! ## non-vacuity: `after a as X until b {@X.f}: c as Y causes d {@X.f and @Y.f}` -/
def refX : Expr := .field T.BOOL (.var T.MESSAGE "X") "f"
def refY : Expr := .field T.BOOL (.var T.MESSAGE "Y") "f"
def exScope : Scope := ⟨.afterUntil, some (.simple "a" (some "X") .vtrue), some (.simple "b" none (.expr refX))⟩
def exPattern : Pattern := ⟨.response, .simple "d" none (.expr (.bin T.BOOL "and" refX refY)), some (.simple "c" (some "Y") .vtrue), 0, none⟩
example : sanityCheck exScope exPattern = .ok () := by rfl
example : sanityCheck exScope { exPattern with kind := .requirement } = .error .sanity := by rfl
example : ScopeOK exScope ∧ PatOK exPattern := by
  simp [ScopeOK, PatOK, EvOK, exScope, exPattern, Event.quantOK, Pred.quantOK, Expr.quantOK, refX, refY, Event.aliases]

end Hpl
