import Hpl.Model.Build
import Hpl.Spec.Typing
import Hpl.Lemmas.Except
/-!
# C03 — every AST the library hands out is well-typed

Model: `Hpl/Model/Build.lean` (smart constructors = attrs constructors; `build` = parser callbacks).
Spec: `WT` (expression level) and `WTPred` (predicate level), transcribing the statement clause by clause.

History: on the pinned commit the call clause ("every operand of a function call has a type set inside the
parameter type") was false — arguments were only checked for compatibility (`abs(x)` kept `x` at
{bool, number, string, array, message}); repaired in /repo by commit 07c017f (see known_findings.json), after which
`WT` states the clause at full strength and `mkCall_WT` proves it, using the table obligation
`G3_overloads_unambiguous` (no two overloads of a function accept the same number of arguments).
-/
namespace Hpl

theorem atomic_two_pow (n : Nat) : Atomic (2 ^ n) := by
  refine ⟨Nat.ne_of_gt (Nat.two_pow_pos n), fun t => ?_⟩
  cases h : t.testBit n with
  | false =>
    left; apply Nat.eq_of_testBit_eq; intro m
    rw [Nat.testBit_and, Nat.testBit_two_pow]
    by_cases hm : n = m
    · subst hm; simp [h]
    · simp [hm]
  | true =>
    right; apply Nat.eq_of_testBit_eq; intro m
    rw [Nat.testBit_and, Nat.testBit_two_pow]
    by_cases hm : n = m
    · subst hm; simp [h]
    · simp [hm]

theorem sub_refl (a : DataType) : sub a a := Nat.and_self a
theorem and_sub_left (a t : DataType) : sub (a &&& t) a := by
  unfold sub; rw [Nat.and_comm (a &&& t) a, ← Nat.and_assoc, Nat.and_self]
theorem and_sub_right (a t : DataType) : sub (a &&& t) t := by
  unfold sub; rw [Nat.and_assoc, Nat.and_self]
theorem sub_trans {a b c : DataType} (h1 : sub a b) (h2 : sub b c) : sub a c := by
  unfold sub at *; rw [← h1, Nat.and_assoc, h2]

/-! ## generated-table obligations (G1–G3), re-checked on every run against the tables extracted from /repo -/

theorem atomic_of_bit {t : Nat} (h : (List.range 8).any (fun i => t == 2 ^ i) = true) : Atomic t := by
  obtain ⟨i, _, hi⟩ := List.any_eq_true.1 h
  rw [eq_of_beq hi]; exact atomic_two_pow i

theorem G1_atoms : Atomic T.BOOL ∧ Atomic T.NUMBER ∧ Atomic T.STRING ∧ Atomic T.ARRAY ∧ Atomic T.RANGE ∧ Atomic T.SET ∧ Atomic T.MESSAGE :=
  ⟨atomic_of_bit (by decide), atomic_of_bit (by decide), atomic_of_bit (by decide), atomic_of_bit (by decide), atomic_of_bit (by decide),
   atomic_of_bit (by decide), atomic_of_bit (by decide)⟩

theorem atomic_of_isBase {t : DataType} (h : isBase t = true) : Atomic t := by
  simp only [isBase, Bool.or_eq_true, beq_iff_eq] at h
  rcases h with (((((h | h) | h) | h) | h) | h) | h <;> subst h
  · exact G1_atoms.1
  · exact G1_atoms.2.1
  · exact G1_atoms.2.2.1
  · exact G1_atoms.2.2.2.1
  · exact G1_atoms.2.2.2.2.1
  · exact G1_atoms.2.2.2.2.2.1
  · exact G1_atoms.2.2.2.2.2.2

/-- G2/G3: every operator / function result is a single base type; every parameter a non-empty subset of ANY -/
theorem G2_un_results : ∀ d ∈ Gen.unOps, isBase d.res = true ∧ d.param ≠ 0 ∧ d.param &&& T.ANY = d.param := by decide
theorem G2_bin_results : ∀ d ∈ Gen.binOps, isBase d.res = true ∧ d.p1 ≠ 0 ∧ d.p2 ≠ 0 ∧ d.p1 &&& T.ANY = d.p1 ∧ d.p2 &&& T.ANY = d.p2 := by decide
theorem G3_fun_results : ∀ d ∈ Gen.funs, isBase d.result = true := by decide

/-- G2: every binary operator except `in` has overlapping parameter types (its operands are unified); `in` does not -/
theorem G2_similar_parameters : ∀ d ∈ Gen.binOps, (d.p1 &&& d.p2 ≠ 0) = (d.token ≠ Gen.IN_OPERATOR) := by decide

theorem un_res_atomic {op : String} {d : UnDef} (h : findUn op = some d) : Atomic d.res :=
  atomic_of_isBase (G2_un_results d (List.mem_of_find?_eq_some h)).1
theorem bin_res_atomic {op : String} {d : BinDef} (h : findBin op = some d) : Atomic d.res :=
  atomic_of_isBase (G2_bin_results d (List.mem_of_find?_eq_some h)).1
theorem fun_res_atomic {f : String} {d : FunDef} (h : findFun f = some d) : Atomic d.result :=
  atomic_of_isBase (G3_fun_results d (List.mem_of_find?_eq_some h))

/-- every well-typed node has a non-empty type set -/
theorem WT_ne : ∀ e, WT e → e.ty ≠ 0
  | .lit t _ v, h => by cases v <;> simp_all [WT, Expr.ty, LitVal.ty] <;> decide
  | .this _, h => by simp_all [WT, Expr.ty]; decide
  | .var .., h => h.1
  | .set .., h => by simp_all [WT, Expr.ty]; decide
  | .range .., h => by simp_all [WT, Expr.ty]; decide
  | .quant .., h => by simp_all [WT, Expr.ty]; decide
  | .un t op a, h => by obtain ⟨d, hd, rfl, _⟩ := h; exact (un_res_atomic hd).1
  | .bin t op a b, h => by obtain ⟨d, hd, rfl, _⟩ := h; exact (bin_res_atomic hd).1
  | .call t f args, h => by obtain ⟨d, hd, rfl, _⟩ := h; exact (fun_res_atomic hd).1
  | .field .., h => h.1
  | .index .., h => h.1

theorem castE_ok {e e' : Expr} {t : DataType} (h : castE e t = .ok e') :
    e'.ty = e.ty &&& t ∧ e'.ty ≠ 0 ∧ e' = e.withTy (e.ty &&& t) := by
  unfold castE at h; simp only at h
  split at h
  · cases h
  · rename_i h0; split at h
    · rename_i h1; cases h
      refine ⟨h1.symm, by rw [← h1]; exact h0, ?_⟩
      rw [h1]; simp
    · cases h; exact ⟨by simp, by simpa using h0, rfl⟩

theorem castE_sub {e e' : Expr} {t : DataType} (h : castE e t = .ok e') : sub e'.ty t ∧ sub e'.ty e.ty := by
  obtain ⟨hty, _, _⟩ := castE_ok h
  rw [hty]; exact ⟨and_sub_right _ _, and_sub_left _ _⟩

/-- narrowing preserves well-typedness (operators, calls, literals, sets, ranges, quantifiers are never re-typed:
    their type is a single base type, so the intersection is all or nothing) -/
theorem castE_WT {e e' : Expr} {t : DataType} (h : castE e t = .ok e') (hw : WT e) : WT e' := by
  obtain ⟨hty, hne, rfl⟩ := castE_ok h
  have key : ∀ (a : DataType), Atomic a → a &&& t ≠ 0 → a &&& t = a := by
    intro a ha hne; rcases ha.2 t with h0 | h1
    · exact absurd h0 hne
    · exact h1
  simp only [Expr.ty_withTy] at hne
  cases e with
  | lit ty tok v =>
    have : Atomic ty := by
      rw [show ty = v.ty from hw]
      cases v <;> first | exact G1_atoms.1 | exact G1_atoms.2.1 | exact G1_atoms.2.2.1
    simp only [Expr.ty] at hne ⊢
    rw [key ty this hne]; exact hw
  | this ty =>
    have : Atomic ty := by rw [show ty = T.MESSAGE from hw]; exact G1_atoms.2.2.2.2.2.2
    simp only [Expr.ty] at hne ⊢
    rw [key ty this hne]; exact hw
  | var ty x =>
    simp only [Expr.ty] at hne ⊢
    exact ⟨hne, sub_trans (and_sub_left ty t) hw.2⟩
  | set ty vs =>
    have : Atomic ty := by rw [show ty = T.SET from hw.1]; exact G1_atoms.2.2.2.2.2.1
    simp only [Expr.ty] at hne ⊢
    rw [key ty this hne]; exact hw
  | range ty lo hi a b =>
    have : Atomic ty := by rw [show ty = T.RANGE from hw.1]; exact G1_atoms.2.2.2.2.1
    simp only [Expr.ty] at hne ⊢
    rw [key ty this hne]; exact hw
  | quant ty q x d b =>
    have : Atomic ty := by rw [show ty = T.BOOL from hw.1]; exact G1_atoms.1
    simp only [Expr.ty] at hne ⊢
    rw [key ty this hne]; exact hw
  | un ty op a =>
    obtain ⟨d, hd, rfl, rest⟩ := hw
    simp only [Expr.ty] at hne ⊢
    rw [key _ (un_res_atomic hd) hne]; exact ⟨d, hd, rfl, rest⟩
  | bin ty op a b =>
    obtain ⟨d, hd, rfl, rest⟩ := hw
    simp only [Expr.ty] at hne ⊢
    rw [key _ (bin_res_atomic hd) hne]; exact ⟨d, hd, rfl, rest⟩
  | call ty f args =>
    obtain ⟨d, hd, rfl, rest⟩ := hw
    simp only [Expr.ty] at hne ⊢
    rw [key _ (fun_res_atomic hd) hne]; exact ⟨d, hd, rfl, rest⟩
  | field ty m n =>
    simp only [Expr.ty] at hne ⊢
    exact ⟨hne, sub_trans (and_sub_left ty t) hw.2.1, hw.2.2⟩
  | index ty a i =>
    simp only [Expr.ty] at hne ⊢
    exact ⟨hne, sub_trans (and_sub_left ty t) hw.2.1, hw.2.2⟩

/-! ## constructors preserve the invariant -/

theorem mkUn_WT {op : String} {a e : Expr} (h : mkUn op a = .ok e) (ha : WT a) : WT e := by
  unfold mkUn at h
  split at h
  · cases h
  · rename_i d hd
    obtain ⟨a', ha', h2⟩ := bind_ok h
    cases h2
    exact ⟨d, hd, rfl, castE_WT ha' ha, (castE_sub ha').1⟩

theorem mkBin_WT {op : String} {a b e : Expr} (h : mkBin op a b = .ok e) (ha : WT a) (hb : WT b) : WT e := by
  unfold mkBin at h
  split at h
  · cases h
  · rename_i d hd
    obtain ⟨a1, ha1, h⟩ := bind_ok h
    obtain ⟨b1, hb1, h⟩ := bind_ok h
    have wa1 := castE_WT ha1 ha
    have wb1 := castE_WT hb1 hb
    split at h
    · rename_i hov
      obtain ⟨a2, ha2, h⟩ := bind_ok h
      obtain ⟨b2, hb2, h⟩ := bind_ok h
      cases h
      have wa2 := castE_WT ha2 wa1
      have wb2 := castE_WT hb2 wb1
      obtain ⟨ta2, _, _⟩ := castE_ok ha2
      obtain ⟨tb2, _, _⟩ := castE_ok hb2
      refine ⟨d, hd, rfl, wa2, wb2, sub_trans (castE_sub ha2).2 (castE_sub ha1).1,
        sub_trans (castE_sub hb2).2 (castE_sub hb1).1, fun _ => ?_⟩
      rw [tb2, ta2, Nat.and_comm b1.ty, Nat.and_assoc, Nat.and_self]
    · rename_i hov
      cases h
      exact ⟨d, hd, rfl, wa1, wb1, (castE_sub ha1).1, (castE_sub hb1).1, fun h' => absurd h' hov⟩

/-! ### overload resolution is unambiguous (table obligation G3) -/

/-- can both signatures take the same number of arguments? -/
def arityOverlap (s1 s2 : Sig) : Bool :=
  match s1.variadic.isSome, s2.variadic.isSome with
  | false, false => s1.params.length == s2.params.length
  | true, false => s1.params.length ≤ s2.params.length
  | false, true => s2.params.length ≤ s1.params.length
  | true, true => true

theorem G3_overloads_unambiguous : ∀ d ∈ Gen.funs, d.overloads.Pairwise (fun s1 s2 => arityOverlap s1 s2 = false) := by decide

theorem accepts_arity {s : Sig} {tys : List DataType} (h : s.accepts tys = true) :
    s.params.length ≤ tys.length ∧ (tys.length ≤ s.params.length ∨ s.variadic.isSome = true) := by
  unfold Sig.accepts at h
  simp only at h
  split at h
  · cases h
  · rename_i h1
    split at h
    · cases h
    · rename_i h2
      refine ⟨by omega, ?_⟩
      simp only [Bool.and_eq_true, decide_eq_true_eq, Option.isNone_iff_eq_none, not_and] at h2
      by_cases hl : s.params.length < tys.length
      · right; cases hv : s.variadic with
        | none => exact absurd hv (h2 hl)
        | some _ => rfl
      · left; omega

theorem accepts_overlap {s1 s2 : Sig} {tys : List DataType} (h1 : s1.accepts tys = true) (h2 : s2.accepts tys = true) :
    arityOverlap s1 s2 = true := by
  obtain ⟨a1, b1⟩ := accepts_arity h1
  obtain ⟨a2, b2⟩ := accepts_arity h2
  unfold arityOverlap
  cases hv1 : s1.variadic.isSome <;> cases hv2 : s2.variadic.isSome <;> simp_all <;> omega

theorem filter_pairwise_le_one {α : Type} (R : α → α → Prop) (P : α → Bool) :
    ∀ (l : List α), l.Pairwise R → (∀ a b, P a = true → P b = true → ¬ R a b) → (l.filter P).length ≤ 1 := by
  intro l
  induction l with
  | nil => intro _ _; simp
  | cons x xs ih =>
    intro hp hR
    rw [List.pairwise_cons] at hp
    by_cases hx : P x = true
    · have : xs.filter P = [] := by
        rw [List.filter_eq_nil_iff]
        intro y hy hPy
        exact hR x y hx hPy (hp.1 y hy)
      simp [hx, this]
    · simp only [Bool.not_eq_true] at hx
      simp only [List.filter_cons, hx, Bool.false_eq_true, ↓reduceIte]
      exact ih hp.2 hR

theorem unique_overload {f : String} {d : FunDef} (hd : findFun f = some d) (tys : List DataType) :
    (d.overloads.filter (·.accepts tys)).length ≤ 1 := by
  apply filter_pairwise_le_one _ _ _ (G3_overloads_unambiguous d (List.mem_of_find?_eq_some hd))
  intro a b ha hb hR
  rw [accepts_overlap ha hb] at hR
  cases hR

/-- narrowing the arguments to the offered parameter types: well-typed, same length, each inside its parameter -/
theorem castArgs_spec : ∀ (args : ExprList) (ts : List DataType) (args' : ExprList),
    castArgs args ts = .ok args' → args.length ≤ ts.length → WTList args →
    WTList args' ∧ args'.tys.length = args.tys.length ∧
    (∀ p ∈ List.zip args'.tys ts, sub p.1 p.2) ∧ (∀ p ∈ List.zip args'.tys (List.zip args.tys ts), p.1 = p.2.1 &&& p.2.2 ∧ p.1 ≠ 0)
  | .nil, ts, args', h, _, _ => by
      cases ts <;> (simp only [castArgs] at h; cases h; simp [WTList, ExprList.tys])
  | .cons e es, [], args', h, hl, _ => by simp [ExprList.length] at hl
  | .cons e es, t :: ts, args', h, hl, hw => by
      simp only [castArgs] at h
      obtain ⟨e', he', h⟩ := bind_ok h
      obtain ⟨es', hes', h⟩ := bind_ok h
      cases h
      have ih := castArgs_spec es ts es' hes' (by simp [ExprList.length] at hl; omega) hw.2
      obtain ⟨hty, hne, _⟩ := castE_ok he'
      refine ⟨⟨castE_WT he' hw.1, ih.1⟩, by simp [ExprList.tys, ih.2.1], ?_, ?_⟩
      · intro p hp
        simp only [ExprList.tys, List.zip_cons_cons, List.mem_cons] at hp
        rcases hp with rfl | hp
        · exact (castE_sub he').1
        · exact ih.2.2.1 p hp
      · intro p hp
        simp only [ExprList.tys, List.zip_cons_cons, List.mem_cons] at hp
        rcases hp with rfl | hp
        · exact ⟨hty, hne⟩
        · exact ih.2.2.2 p hp

theorem ExprList.tys_length : ∀ es : ExprList, es.tys.length = es.length
  | .nil => rfl
  | .cons _ es => by simp [ExprList.tys, ExprList.length, ExprList.tys_length es]

theorem paramsFor_length (s : Sig) (n : Nat) (h : s.params.length ≤ n) : (s.paramsFor n).length = n := by
  simp [Sig.paramsFor]; omega

theorem mkCall_WT {f : String} {args : ExprList} {e : Expr} (h : mkCall f args = .ok e) (ha : WTList args) : WT e := by
  unfold mkCall at h
  split at h
  · cases h
  · rename_i d hd
    have huniq := unique_overload hd args.tys
    split at h
    · cases h
    · rename_i s hs
      obtain ⟨args', hargs', h⟩ := bind_ok h
      cases h
      have hmem : s ∈ d.overloads.filter (·.accepts args.tys) := by rw [hs]; simp
      obtain ⟨hs1, hs2⟩ := List.mem_filter.1 hmem
      obtain ⟨har1, har2⟩ := accepts_arity hs2
      rw [ExprList.tys_length] at har1 har2
      have hlen : (s.paramsFor args.length).length = args.length := paramsFor_length s _ har1
      obtain ⟨w, hl, hin, _⟩ := castArgs_spec args _ args' hargs' (by omega) ha
      rw [ExprList.tys_length, ExprList.tys_length] at hl
      refine ⟨d, hd, rfl, w, s, hs1, ?_, ?_⟩
      · rw [ExprList.tys_length, hl]; exact ⟨har1, har2⟩
      · unfold ArgsInside; rw [ExprList.tys_length, hl]; exact hin
    · rename_i hne1 hne2
      exfalso
      -- two or more accepting overloads contradict G3_overloads_unambiguous
      match hf : d.overloads.filter (·.accepts args.tys) with
      | [] => exact hne1 hf
      | [s] => exact hne2 s hf
      | _ :: _ :: _ => rw [hf] at huniq; simp at huniq

theorem access_ne : T.ACCESS ≠ 0 := by decide

theorem mkFieldT_WT {t : DataType} {m e : Expr} {n : String} (h : mkFieldT t m n = .ok e) (hm : WT m)
    (ht : t ≠ 0 ∧ sub t T.ACCESS) : WT e := by
  unfold mkFieldT at h
  split at h
  · cases h
  · obtain ⟨m', hm', h⟩ := bind_ok h
    cases h
    exact ⟨ht.1, ht.2, castE_WT hm' hm, (castE_sub hm').1⟩

theorem mkField_WT {m e : Expr} {n : String} (h : mkField m n = .ok e) (hm : WT m) : WT e :=
  mkFieldT_WT h hm ⟨access_ne, sub_refl _⟩

theorem mkIndexT_WT {t : DataType} {a i e : Expr} (h : mkIndexT t a i = .ok e) (ha : WT a) (hi : WT i)
    (ht : t ≠ 0 ∧ sub t T.ACCESS) : WT e := by
  unfold mkIndexT at h
  split at h
  · cases h
  · obtain ⟨a', ha', h⟩ := bind_ok h
    obtain ⟨i', hi', h⟩ := bind_ok h
    cases h
    exact ⟨ht.1, ht.2, castE_WT ha' ha, castE_WT hi' hi, (castE_sub ha').1, (castE_sub hi').1⟩

theorem mkIndex_WT {a i e : Expr} (h : mkIndex a i = .ok e) (ha : WT a) (hi : WT i) : WT e :=
  mkIndexT_WT h ha hi ⟨access_ne, sub_refl _⟩

theorem castList_WT : ∀ {vs vs' : ExprList}, castList T.PRIMITIVE vs = .ok vs' → WTList vs → WTSet vs'
  | .nil, vs', h, _ => by simp only [castList] at h; cases h; trivial
  | .cons e es, vs', h, hw => by
      simp only [castList] at h
      obtain ⟨e', he', h⟩ := bind_ok h
      obtain ⟨es', hes', h⟩ := bind_ok h
      cases h
      exact ⟨castE_WT he' hw.1, (castE_sub he').1, castList_WT hes' hw.2⟩

theorem WTSet_WTList : ∀ {vs : ExprList}, WTSet vs → WTList vs
  | .nil, _ => trivial
  | .cons _ _, h => ⟨h.1, WTSet_WTList h.2.2⟩

theorem mkSet_WT {vs : ExprList} {e : Expr} (h : mkSet vs = .ok e) (hw : WTList vs) : WT e := by
  unfold mkSet at h
  obtain ⟨vs', hvs', h⟩ := bind_ok h
  cases h
  exact ⟨rfl, castList_WT hvs' hw⟩

theorem mkRange_WT {lo hi e : Expr} {a b : Bool} (h : mkRange lo hi a b = .ok e) (hlo : WT lo) (hhi : WT hi) : WT e := by
  unfold mkRange at h
  obtain ⟨lo', hlo', h⟩ := bind_ok h
  obtain ⟨hi', hhi', h⟩ := bind_ok h
  cases h
  exact ⟨rfl, castE_WT hlo' hlo, castE_WT hhi' hhi, (castE_sub hlo').1, (castE_sub hhi').1⟩

/-- a successful pass of the quantifier body loop certifies every use of the variable as compatible -/
theorem quantBodyCheck_ok (x : String) (t : DataType) : ∀ (l : List Expr) (used n : Nat),
    quantBodyCheck x t l used = .ok n → ∀ v ∈ l, isVarNamed x v = true → v.ty &&& t ≠ 0 := by
  intro l
  induction l with
  | nil => intro _ _ _ v hv; cases hv
  | cons e rest ih =>
    intro used n h v hv hx
    rcases List.mem_cons.1 hv with rfl | hv'
    · cases v with
      | var ty y =>
        simp only [isVarNamed, beq_iff_eq] at hx
        subst hx
        simp only [quantBodyCheck, beq_self_eq_true, ↓reduceIte] at h
        split at h
        · cases h
        · rename_i hne; exact hne
      | _ => simp [isVarNamed] at hx
    · cases e with
      | quant _ _ y _ _ =>
        simp only [quantBodyCheck] at h
        split at h
        · cases h
        · exact ih _ _ h v hv' hx
      | var ty y =>
        simp only [quantBodyCheck] at h
        split at h
        · split at h
          · cases h
          · exact ih _ _ h v hv' hx
        · exact ih _ _ h v hv' hx
      | _ =>
        simp only [quantBodyCheck] at h
        exact ih _ _ h v hv' hx

theorem mkQuant_WT {q : Quant} {x : String} {dom body e : Expr} (h : mkQuant q x dom body = .ok e)
    (hd : WT dom) (hb : WT body) : WT e := by
  unfold mkQuant at h
  obtain ⟨d, hd', h⟩ := bind_ok h
  obtain ⟨b, hb', h⟩ := bind_ok h
  split at h
  · cases h
  · obtain ⟨used, hused, h⟩ := bind_ok h
    split at h
    · cases h
    · cases h
      refine ⟨rfl, castE_WT hd' hd, castE_WT hb' hb, (castE_sub hd').1, (castE_sub hb').1, ?_⟩
      exact quantBodyCheck_ok x _ _ _ _ hused

mutual
/-- **C03 (expression level)**: whatever `build` returns is well-typed -/
theorem build_WT : ∀ (r : Raw) (e : Expr), build r = .ok e → WT e
  | .lit tok v, e, h => by simp only [build] at h; cases h; rfl
  | .this, e, h => by simp only [build] at h; cases h; rfl
  | .var x, e, h => by simp only [build] at h; cases h; exact ⟨by decide, sub_refl _⟩
  | .set vs, e, h => by
      simp only [build] at h
      obtain ⟨es, hes, h⟩ := bind_ok h
      exact mkSet_WT h (buildList_WT vs es hes)
  | .range lo hi a b, e, h => by
      simp only [build] at h
      obtain ⟨lo', hlo, h⟩ := bind_ok h
      obtain ⟨hi', hhi, h⟩ := bind_ok h
      exact mkRange_WT h (build_WT lo lo' hlo) (build_WT hi hi' hhi)
  | .quant q x d b, e, h => by
      simp only [build] at h
      obtain ⟨d', hd, h⟩ := bind_ok h
      obtain ⟨b', hb, h⟩ := bind_ok h
      exact mkQuant_WT h (build_WT d d' hd) (build_WT b b' hb)
  | .un op a, e, h => by
      simp only [build] at h
      obtain ⟨a', ha, h⟩ := bind_ok h
      exact mkUn_WT h (build_WT a a' ha)
  | .bin op a b, e, h => by
      simp only [build] at h
      obtain ⟨a', ha, h⟩ := bind_ok h
      obtain ⟨b', hb, h⟩ := bind_ok h
      exact mkBin_WT h (build_WT a a' ha) (build_WT b b' hb)
  | .call f args, e, h => by
      simp only [build] at h
      obtain ⟨as, has, h⟩ := bind_ok h
      exact mkCall_WT h (buildList_WT args as has)
  | .field m n, e, h => by
      simp only [build] at h
      obtain ⟨m', hm, h⟩ := bind_ok h
      exact mkField_WT h (build_WT m m' hm)
  | .index a i, e, h => by
      simp only [build] at h
      obtain ⟨a', ha, h⟩ := bind_ok h
      obtain ⟨i', hi, h⟩ := bind_ok h
      exact mkIndex_WT h (build_WT a a' ha) (build_WT i i' hi)
theorem buildList_WT : ∀ (rs : RawList) (es : ExprList), buildList rs = .ok es → WTList es
  | .nil, es, h => by simp only [buildList] at h; cases h; trivial
  | .cons r rs, es, h => by
      simp only [buildList] at h
      obtain ⟨e', he, h⟩ := bind_ok h
      obtain ⟨es', hes, h⟩ := bind_ok h
      cases h
      exact ⟨build_WT r e' he, buildList_WT rs es' hes⟩
end

theorem isBase_sub_any {t : DataType} (h : isBase t = true) : sub t T.ANY := by
  simp only [isBase, Bool.or_eq_true, beq_iff_eq] at h
  rcases h with (((((h | h) | h) | h) | h) | h) | h <;> subst h <;> decide

/-- **C03**: every node of a well-typed tree carries a non-empty type set within what its kind allows -/
theorem WT_within_kind (e : Expr) (h : WT e) : e.ty ≠ 0 ∧ sub e.ty (kindDefault e) := by
  refine ⟨WT_ne e h, ?_⟩
  cases e with
  | lit t _ v =>
      have : t = v.ty := h
      subst this; cases v <;> simp only [Expr.ty, kindDefault, LitVal.ty] <;> decide
  | this t => have : t = T.MESSAGE := h; subst this; exact sub_refl _
  | var t _ => exact h.2
  | set t _ => have : t = T.SET := h.1; subst this; exact sub_refl _
  | range t _ _ _ _ => have : t = T.RANGE := h.1; subst this; exact sub_refl _
  | quant t _ _ _ _ => have : t = T.BOOL := h.1; subst this; exact sub_refl _
  | un t op a =>
      obtain ⟨d, hd, rfl, _⟩ := h
      exact isBase_sub_any (G2_un_results d (List.mem_of_find?_eq_some hd)).1
  | bin t op a b =>
      obtain ⟨d, hd, rfl, _⟩ := h
      exact isBase_sub_any (G2_bin_results d (List.mem_of_find?_eq_some hd)).1
  | call t f args =>
      obtain ⟨d, hd, rfl, _⟩ := h
      exact isBase_sub_any (G3_fun_results d (List.mem_of_find?_eq_some hd))
  | field t _ _ => exact h.2.1
  | index t _ _ => exact h.2.1

/-! ## predicate level -/

theorem mkPred_WT {e : Expr} {p : Pred} (h : mkPred e = .ok p) (hw : WT e) : WTPred p := by
  unfold mkPred at h
  obtain ⟨e', he', h⟩ := bind_ok h
  split at h
  · rename_i hr
    cases h
    refine ⟨castE_WT he' hw, ?_, hr⟩
    -- the root is exactly BOOL: a non-empty subset of the atom BOOL
    obtain ⟨hty, hne, _⟩ := castE_ok he'
    rcases G1_atoms.1.2 e.ty with h0 | h1
    · rw [Nat.and_comm] at h0; exact absurd (hty ▸ h0) hne
    · rw [hty, Nat.and_comm]; exact h1
  · cases h

/-- **C03 (predicate level)**: a predicate's root is exactly boolean and same-printed references share a type -/
theorem predFromExpr_WT {e : Expr} {p : Pred} (h : predFromExpr e = .ok p) (hw : WT e) : WTPred p := by
  unfold predFromExpr at h
  split at h
  · cases h
  · split at h
    · cases h; split <;> trivial
    · cases h
    · exact mkPred_WT h hw

/-- **C03**: the parser's predicate entry point (`build` then `predicate_from_expression`) hands out well-typed predicates -/
theorem parse_predicate_WT (r : Raw) (p : Pred) (h : (build r >>= predFromExpr) = .ok p) : WTPred p := by
  obtain ⟨e, he, h⟩ := bind_ok h
  exact predFromExpr_WT h (build_WT r e he)


/-! ## the executable decider used to judge the implementation's ASTs agrees with the invariant -/
theorem subB_iff (a b : DataType) : subB a b = true ↔ sub a b := by simp [subB, sub]
theorem argsInsideB_iff (tys : List DataType) (s : Sig) : argsInsideB tys s = true ↔ ArgsInside tys s := by
  simp [argsInsideB, ArgsInside, subB_iff]

mutual
theorem wtB_iff : ∀ e : Expr, wtB e = true ↔ WT e
  | .lit t _ v => by simp [wtB, WT]
  | .this t => by simp [wtB, WT]
  | .var t _ => by simp [wtB, WT, subB_iff]
  | .set t vs => by simp [wtB, WT, wtSetB_iff vs]
  | .range t lo hi _ _ => by simp [wtB, WT, wtB_iff lo, wtB_iff hi, subB_iff, and_assoc]
  | .quant t _ x d b => by
      simp only [wtB, WT, Bool.and_eq_true, beq_iff_eq, wtB_iff d, wtB_iff b, subB_iff, List.all_eq_true,
        Bool.or_eq_true, Bool.not_eq_true', bne_iff_ne, ne_eq, and_assoc]
      constructor
      · rintro ⟨h1, h2, h3, h4, h5, h6⟩
        refine ⟨h1, h2, h3, h4, h5, fun v hv hx => ?_⟩
        rcases h6 v hv with h | h
        · rw [hx] at h; cases h
        · exact h
      · rintro ⟨h1, h2, h3, h4, h5, h6⟩
        refine ⟨h1, h2, h3, h4, h5, fun v hv => ?_⟩
        cases hx : isVarNamed x v with
        | false => left; rfl
        | true => right; exact h6 v hv hx
  | .un t op a => by
      simp only [wtB, WT]
      cases hd : findUn op with
      | some d =>
        simp only [Bool.and_eq_true, beq_iff_eq, wtB_iff a, subB_iff, and_assoc]
        constructor
        · rintro ⟨h1, h2, h3⟩; exact ⟨d, rfl, h1, h2, h3⟩
        · rintro ⟨d', hd', h1, h2, h3⟩; cases hd'; exact ⟨h1, h2, h3⟩
      | none =>
        simp only [Bool.false_eq_true, false_iff]
        rintro ⟨d', hd', _⟩; cases hd'
  | .bin t op a b => by
      simp only [wtB, WT]
      cases hd : findBin op with
      | some d =>
        simp only [Bool.and_eq_true, beq_iff_eq, wtB_iff a, wtB_iff b, subB_iff, Bool.or_eq_true, and_assoc]
        constructor
        · rintro ⟨h1, h2, h3, h4, h5, h6⟩
          refine ⟨d, rfl, h1, h2, h3, h4, h5, fun hne => ?_⟩
          rcases h6 with h | h
          · exact absurd h hne
          · exact h
        · rintro ⟨d', hd', h1, h2, h3, h4, h5, h6⟩
          cases hd'
          refine ⟨h1, h2, h3, h4, h5, ?_⟩
          by_cases hz : d.p1 &&& d.p2 = 0
          · left; exact hz
          · right; exact h6 hz
      | none =>
        simp only [Bool.false_eq_true, false_iff]
        rintro ⟨d', hd', _⟩; cases hd'
  | .call t f args => by
      simp only [wtB, WT]
      cases hd : findFun f with
      | some d =>
        simp only [Bool.and_eq_true, beq_iff_eq, wtListB_iff args, and_assoc, List.any_eq_true, decide_eq_true_eq, argsInsideB_iff]
        constructor
        · rintro ⟨h1, h2, s, hs, h3, h4⟩; exact ⟨d, rfl, h1, h2, s, hs, h3, h4⟩
        · rintro ⟨d', hd', h1, h2, s, hs, h3, h4⟩; cases hd'; exact ⟨h1, h2, s, hs, h3, h4⟩
      | none =>
        simp only [Bool.false_eq_true, false_iff]
        rintro ⟨d', hd', _⟩; cases hd'
  | .field t m _ => by simp [wtB, WT, wtB_iff m, subB_iff, and_assoc]
  | .index t a i => by simp [wtB, WT, wtB_iff a, wtB_iff i, subB_iff, and_assoc]
theorem wtSetB_iff : ∀ es : ExprList, wtSetB es = true ↔ WTSet es
  | .nil => by simp [wtSetB, WTSet]
  | .cons e es => by simp [wtSetB, WTSet, wtB_iff e, wtSetB_iff es, subB_iff, and_assoc]
theorem wtListB_iff : ∀ es : ExprList, wtListB es = true ↔ WTList es
  | .nil => by simp [wtListB, WTList]
  | .cons e es => by simp [wtListB, WTList, wtB_iff e, wtListB_iff es]
end

theorem wtPredB_iff (p : Pred) : wtPredB p = true ↔ WTPred p := by
  cases p <;> simp [wtPredB, WTPred, wtB_iff, and_assoc]

/-! ## the call clause, spelled out (the statement's "operand inside the parameter type" for function calls) -/

/-- **C03**: in a well-typed tree every argument of every call lies inside the parameter type of an overload of
    matching arity -/
theorem WT_call_args_inside {t : DataType} {f : String} {args : ExprList} (h : WT (.call t f args)) :
    ∃ d, findFun f = some d ∧ ∃ s ∈ d.overloads, ArityOk s args.tys.length ∧ ArgsInside args.tys s := by
  obtain ⟨d, hd, _, _, s, hs, h1, h2⟩ := h
  exact ⟨d, hd, s, hs, h1, h2⟩

/-- regression witness for the repaired defect: `abs(x)` now narrows `x` to NUMBER -/
def absX : Raw := .call "abs" (.cons (.field .this "x") .nil)
theorem call_args_narrowed : build absX = .ok (.call T.NUMBER "abs" (.cons (.field T.NUMBER (.this T.MESSAGE) "x") .nil)) := by rfl

-- non-vacuity: a predicate with a quantifier, an alias and a call is built and satisfies the invariant
def sampleC03 : Raw :=
  .bin "and" (.quant .all "i" (.field .this "xs") (.bin ">" (.var "i") (.field (.var "A") "y")))
             (.bin "=" (.call "len" (.cons (.field .this "xs") .nil)) (.lit "3" (.int 3)))
example : ∃ p, (build sampleC03 >>= predFromExpr) = .ok p ∧ WTPred p := by
  have h : ∃ p, (build sampleC03 >>= predFromExpr) = .ok p := by
    exact ⟨_, by rfl⟩
  obtain ⟨p, hp⟩ := h
  exact ⟨p, hp, parse_predicate_WT _ _ hp⟩

end Hpl
