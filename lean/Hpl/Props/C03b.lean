import Hpl.Props.C03
import Hpl.Model.Rewrite.Simplify
import Hpl.Lemmas.Dedup
import Hpl.Props.C08c
/-!
# C03 — the simplifier hands out well-typed trees

`simplify_WT`: every result of the model of `hpl.rewrite.simplify` on a well-typed tree (`WT`, the invariant of
`Props/C03`) is well-typed, by induction on the fuel of the mutually recursive model functions; every new node goes
through a smart constructor (`mk*_WT`), every other result is a sub-tree of the input or a literal of the right type.
-/
namespace Hpl

/-! ## sub-trees of well-typed trees -/

theorem WT_un_inv {t : DataType} {op : String} {a : Expr} (h : WT (.un t op a)) : WT a := by
  obtain ⟨d, _, _, ha, _⟩ := h; exact ha
theorem WT_bin_inv {t : DataType} {op : String} {a b : Expr} (h : WT (.bin t op a b)) : WT a ∧ WT b := by
  obtain ⟨d, _, _, ha, hb, _⟩ := h; exact ⟨ha, hb⟩
theorem WT_call_inv {t : DataType} {f : String} {args : ExprList} (h : WT (.call t f args)) : WTList args := by
  obtain ⟨d, _, _, ha, _⟩ := h; exact ha
theorem WT_range_inv {t : DataType} {lo hi : Expr} {a b : Bool} (h : WT (.range t lo hi a b)) : WT lo ∧ WT hi := ⟨h.2.1, h.2.2.1⟩
theorem WT_set_inv {t : DataType} {vs : ExprList} (h : WT (.set t vs)) : WTList vs := WTSet_WTList h.2

theorem WTList_mem : ∀ {es : ExprList}, WTList es → ∀ e ∈ es.toList, WT e
  | .nil, _, e, he => by simp [ExprList.toList] at he
  | .cons e' es, h, e, he => by
      simp only [ExprList.toList, List.mem_cons] at he
      rcases he with rfl | he
      · exact h.1
      · exact WTList_mem h.2 e he

theorem WTList_ofList : ∀ {l : List Expr}, (∀ e ∈ l, WT e) → WTList (ExprList.ofList l)
  | [], _ => trivial
  | e :: l, h => ⟨h e (by simp), WTList_ofList (fun e' he' => h e' (List.mem_cons_of_mem _ he'))⟩

/-! ## literals -/

theorem litNumber_WT {v : LitVal} {e : Expr} (h : litNumber v = .ok e) (hv : v.ty = T.NUMBER) : WT e := by
  cases v with
  | bool b => exact absurd hv (by simp only [LitVal.ty]; decide)
  | str s => exact absurd hv (by simp only [LitVal.ty]; decide)
  | int n => simp only [litNumber, LitVal.isNumber, Bool.not_true, Bool.false_and, Bool.false_eq_true, ↓reduceIte] at h; obtain ⟨s, _, h⟩ := bind_ok h; cases h; rfl
  | flt q => simp only [litNumber, LitVal.isNumber, Bool.not_true, Bool.false_and, Bool.false_eq_true, ↓reduceIte] at h; obtain ⟨s, _, h⟩ := bind_ok h; cases h; rfl
  | inf => simp only [litNumber, LitVal.isNumber, Bool.not_true, Bool.false_and, Bool.false_eq_true, ↓reduceIte] at h; obtain ⟨s, _, h⟩ := bind_ok h; cases h; rfl
  | ninf => simp only [litNumber, LitVal.isNumber, Bool.not_true, Bool.false_and, Bool.false_eq_true, ↓reduceIte] at h; obtain ⟨s, _, h⟩ := bind_ok h; cases h; rfl
  | nan => simp only [litNumber, LitVal.isNumber, Bool.not_true, Bool.false_and, Bool.false_eq_true, ↓reduceIte] at h; obtain ⟨s, _, h⟩ := bind_ok h; cases h; rfl

theorem litBool_WT (b : Bool) : WT (litBool b) := rfl
theorem trueLit_WT : WT trueLit := rfl
theorem falseLit_WT : WT falseLit := rfl
theorem litString_WT (s : String) : WT (litString s) := rfl

theorem mkNumVal_ty (b : Bool) (q : Rat) : (mkNumVal b q).ty = T.NUMBER := by
  unfold mkNumVal; split <;> rfl

theorem pyArith_ty {f : Rat → Rat → Rat} {a b z : LitVal} (h : pyArith f a b = .ok z) : z.ty = T.NUMBER := by
  unfold pyArith at h
  split at h
  · cases h; exact mkNumVal_ty _ _
  · cases h

theorem pyDiv_ty {a b z : LitVal} (h : pyDiv a b = .ok z) : z.ty = T.NUMBER := by
  unfold pyDiv at h
  split at h
  · split at h <;> cases h; rfl
  · cases h

theorem pyPow_ty {a b z : LitVal} (h : pyPow a b = .ok z) : z.ty = T.NUMBER := by
  unfold pyPow at h
  split at h
  · split at h
    · split at h
      · cases h
      · cases h; exact mkNumVal_ty _ _
    · split at h
      · cases h
      · split at h <;> cases h; rfl
  · cases h

theorem pyNeg_ty {a z : LitVal} (h : pyNeg a = .ok z) : z.ty = T.NUMBER := by
  cases a <;> simp [pyNeg] at h <;> subst h <;> rfl

theorem pyAbs_ty {a z : LitVal} (h : pyAbs a = .ok z) : z.ty = T.NUMBER := by
  cases a <;> simp [pyAbs] at h <;> subst h <;> rfl

/-- the value of a number literal of a well-typed tree is numeric -/
theorem numLit_ty {e : Expr} {v : LitVal} (h : numLit? e = some v) (hw : WT e) : v.ty = T.NUMBER := by
  cases e with
  | lit t k lv =>
    simp only [numLit?] at h
    split at h
    · rename_i hne
      cases h
      have ht : t = v.ty := hw
      subst ht
      cases v with
      | bool b => exact absurd (show (LitVal.bool b).ty &&& T.NUMBER = 0 by simp only [LitVal.ty]; decide) hne
      | str s => exact absurd (show (LitVal.str s).ty &&& T.NUMBER = 0 by simp only [LitVal.ty]; decide) hne
      | _ => rfl
    · cases h
  | _ => simp [numLit?] at h

/-! ## the rule functions -/

theorem mkNot_WT {a e : Expr} (h : mkNot a = .ok e) (ha : WT a) : WT e := mkUn_WT h ha
theorem mkMinus_WT {a e : Expr} (h : mkMinus a = .ok e) (ha : WT a) : WT e := mkUn_WT h ha
theorem mkAnd_WT {a b e : Expr} (h : mkAnd a b = .ok e) (ha : WT a) (hb : WT b) : WT e := mkBin_WT h ha hb
theorem mkOr_WT {a b e : Expr} (h : mkOr a b = .ok e) (ha : WT a) (hb : WT b) : WT e := mkBin_WT h ha hb
theorem mkImplies_WT {a b e : Expr} (h : mkImplies a b = .ok e) (ha : WT a) (hb : WT b) : WT e := mkBin_WT h ha hb
theorem mkAdd_WT {a b e : Expr} (h : mkAdd a b = .ok e) (ha : WT a) (hb : WT b) : WT e := mkBin_WT h ha hb

theorem flattenOp_WT (op : String) : ∀ (f : Nat) (stack acc : List Expr), (∀ e ∈ stack, WT e) → (∀ e ∈ acc, WT e) →
    ∀ e ∈ flattenOp op f stack acc, WT e
  | 0, _, acc, _, ha => by simpa [flattenOp] using ha
  | f+1, [], acc, _, ha => by simpa [flattenOp] using ha
  | f+1, x :: stack, acc, hs, ha => by
      have hx := hs x (by simp)
      have hst : ∀ e ∈ stack, WT e := fun e he => hs e (List.mem_cons_of_mem _ he)
      have hacc : ∀ e ∈ acc ++ [x], WT e := by
        intro e he
        rcases List.mem_append.1 he with h | h
        · exact ha e h
        · simp only [List.mem_singleton] at h; subst h; exact hx
      cases x with
      | bin t o a b =>
        simp only [flattenOp]
        split
        · have := WT_bin_inv hx
          refine flattenOp_WT op f _ _ ?_ ha
          intro e he
          simp only [List.mem_cons] at he
          rcases he with rfl | rfl | he
          · exact this.2
          · exact this.1
          · exact hst e he
        · exact flattenOp_WT op f _ _ hst hacc
      | _ => simp only [flattenOp]; exact flattenOp_WT op f _ _ hst hacc

theorem getJuncts_WT {op : String} {e : Expr} (h : WT e) : ∀ x ∈ getJuncts op e, WT x :=
  flattenOp_WT op _ [e] [] (by simpa using h) (by simp)

theorem foldlM_WT {mk : Expr → Expr → M Expr} (hmk : ∀ a b r, mk a b = .ok r → WT a → WT b → WT r) :
    ∀ (rest : List Expr) (psi r : Expr), rest.foldlM (fun acc c => mk c acc) psi = .ok r → WT psi → (∀ e ∈ rest, WT e) → WT r
  | [], psi, r, h, hp, _ => by simp only [List.foldlM_nil, pure, Except.pure, Except.ok.injEq] at h; subst h; exact hp
  | c :: rest, psi, r, h, hp, hr => by
      simp only [List.foldlM_cons] at h
      obtain ⟨psi', h1, h⟩ := bind_ok h
      exact foldlM_WT hmk rest psi' r h (hmk _ _ _ h1 (hr c (by simp)) hp) (fun e he => hr e (List.mem_cons_of_mem _ he))

theorem chain_WT {mk : Expr → Expr → M Expr} (hmk : ∀ a b r, mk a b = .ok r → WT a → WT b → WT r) {l : List Expr} {r : Expr}
    (h : chain mk l = .ok r) (hl : ∀ e ∈ l, WT e) : WT r := by
  match l, h with
  | [c], h => simp only [chain, Except.ok.injEq] at h; subst h; exact hl c (by simp)
  | c0 :: c1 :: rest, h =>
    simp only [chain] at h
    obtain ⟨psi, h1, h⟩ := bind_ok h
    exact foldlM_WT hmk rest psi r h (hmk _ _ _ h1 (hl c0 (by simp)) (hl c1 (by simp))) (fun e he => hl e (by simp [he]))

theorem dedupeJuncts_WT {op : String} {mk : Expr → Expr → M Expr} (hmk : ∀ a b r, mk a b = .ok r → WT a → WT b → WT r)
    {phi p q r : Expr} (h : dedupeJuncts op mk phi p q = .ok r) (hphi : WT phi) (hp : WT p) (hq : WT q) : WT r := by
  have hjs : ∀ e ∈ getJuncts op p ++ getJuncts op q, WT e := by
    intro e he
    rcases List.mem_append.1 he with h | h
    · exact getJuncts_WT hp e h
    · exact getJuncts_WT hq e h
  unfold dedupeJuncts at h
  simp only at h
  split at h
  · split at h
    · cases h
      cases hj : getJuncts op p ++ getJuncts op q with
      | nil => simpa [List.headD] using hphi
      | cons x xs => simp only [List.headD]; exact hjs x (by rw [hj]; simp)
    · exact chain_WT hmk h (fun e he => hjs e (mem_eraseDups he))
  · exact hmk _ _ _ h hp hq

theorem simpConjunction_WT {phi p q r : Expr} (h : simpConjunction phi p q = .ok r) (hphi : WT phi) (hp : WT p) (hq : WT q) : WT r := by
  unfold simpConjunction at h
  split at h; · cases h; exact hp
  split at h; · cases h; exact hq
  split at h; · cases h; exact hq
  split at h; · cases h; exact hp
  split at h; · cases h; exact hp
  split at h; · cases h; exact falseLit_WT
  exact dedupeJuncts_WT (fun _ _ _ => mkAnd_WT) h hphi hp hq

theorem simpDisjunction_WT {phi p q r : Expr} (h : simpDisjunction phi p q = .ok r) (hphi : WT phi) (hp : WT p) (hq : WT q) : WT r := by
  unfold simpDisjunction at h
  split at h; · cases h; exact hp
  split at h; · cases h; exact hq
  split at h; · cases h; exact hq
  split at h; · cases h; exact hp
  split at h; · cases h; exact hp
  split at h; · cases h; exact trueLit_WT
  exact dedupeJuncts_WT (fun _ _ _ => mkOr_WT) h hphi hp hq

theorem simpComparison_WT {phi : Expr} {op : String} {a b r : Expr} (h : simpComparison phi op a b = .ok r) (hphi : WT phi) : WT r := by
  unfold simpComparison at h
  split at h
  · split at h; · cases h; exact litBool_WT _
    split at h; · obtain ⟨x, _, h⟩ := bind_ok h; cases h; exact litBool_WT _
    split at h; · obtain ⟨x, _, h⟩ := bind_ok h; cases h; exact litBool_WT _
    split at h; · obtain ⟨x, _, h⟩ := bind_ok h; cases h; exact litBool_WT _
    split at h; · obtain ⟨x, _, h⟩ := bind_ok h; cases h; exact litBool_WT _
    cases h; exact litBool_WT _
  · split at h
    · split at h; · cases h; exact falseLit_WT
      split at h; · cases h; exact trueLit_WT
      cases h; exact hphi
    · cases h; exact hphi

theorem int_ty (n : Int) : (LitVal.int n).ty = T.NUMBER := rfl

theorem simpAddition_WT {expr a b r : Expr} (h : simpAddition expr a b = .ok r) (he : WT expr) (ha : WT a) (hb : WT b) : WT r := by
  unfold simpAddition at h
  split at h
  · split at h; · cases h; exact ha
    split at h
    · split at h; · cases h; exact hb
      obtain ⟨v, hv, h⟩ := bind_ok h
      exact litNumber_WT h (pyArith_ty hv)
    · split at h
      · exact litNumber_WT h (int_ty 0)
      · cases h; exact he
  · split at h
    · exact litNumber_WT h (int_ty 0)
    · cases h; exact he

theorem simpSubtraction_WT {expr a b r : Expr} (h : simpSubtraction expr a b = .ok r) (he : WT expr) (ha : WT a) (hb : WT b) : WT r := by
  have rest : ∀ r, (if (a == b) = true then litNumber (.int 0)
      else match b with
        | .un _ op x => if (op == "-") = true then do let e ← mkAdd a x; (match e with | .bin _ _ a' b' => simpAddition e a' b' | _ => .ok e) else .ok expr
        | _ => .ok expr) = .ok r → WT r := by
    intro r hr
    split at hr
    · exact litNumber_WT hr (int_ty 0)
    · split at hr
      · rename_i t op x
        split at hr
        · obtain ⟨e, hmk, hr⟩ := bind_ok hr
          have hwe := mkAdd_WT hmk ha (WT_un_inv hb)
          split at hr
          · have := WT_bin_inv hwe
            exact simpAddition_WT hr hwe this.1 this.2
          · cases hr; exact hwe
        · cases hr; exact he
      · cases hr; exact he
  unfold simpSubtraction at h
  simp only at h
  split at h
  · split at h; · cases h; exact ha
    split at h
    · obtain ⟨v, hv, h⟩ := bind_ok h
      exact litNumber_WT h (pyArith_ty hv)
    · exact rest r h
  · exact rest r h

theorem simpDivision_WT {expr a b r : Expr} (h : simpDivision expr a b = .ok r) (he : WT expr) (ha : WT a) : WT r := by
  have rest : ∀ r, (if (a == b) = true then litNumber (.int 1) else if obviousNegatives a b = true then litNumber (.int (-1)) else .ok expr) = .ok r → WT r := by
    intro r hr
    split at hr; · exact litNumber_WT hr (int_ty 1)
    split at hr; · exact litNumber_WT hr (int_ty (-1))
    cases hr; exact he
  unfold simpDivision at h
  simp only at h
  split at h
  · split at h; · cases h
    split at h; · cases h; exact ha
    split at h
    · split at h; · cases h; exact ha
      obtain ⟨v, hv, h⟩ := bind_ok h
      exact litNumber_WT h (pyDiv_ty hv)
    · exact rest r h
  · exact rest r h

theorem simpExponentiation_WT {expr a b r : Expr} (h : simpExponentiation expr a b = .ok r) (he : WT expr) (ha : WT a) : WT r := by
  unfold simpExponentiation at h
  split at h
  · split at h; · cases h; exact ha
    split at h; · exact litNumber_WT h (int_ty 1)
    split at h
    · split at h; · cases h; exact ha
      obtain ⟨v, hv, h⟩ := bind_ok h
      exact litNumber_WT h (pyPow_ty hv)
    · cases h; exact he
  · cases h; exact he

/-- `_simplify_negation` on the simplified operand -/
theorem negationRule_WT {p r : Expr}
    (h : (if isTrueLit p then pure falseLit
      else if isFalseLit p then pure trueLit
      else match p with
        | .un _ op2 x => if op2 == Gen.NOT_OPERATOR then pure x else mkNot p
        | _ => mkNot p : M Expr) = .ok r) (hp : WT p) : WT r := by
  split at h; · cases h; exact falseLit_WT
  split at h; · cases h; exact trueLit_WT
  split at h
  · split at h
    · cases h; exact WT_un_inv hp
    · exact mkNot_WT h hp
  · exact mkNot_WT h hp

/-- `_simplify_negative_number` on the simplified operand -/
theorem negNumberRule_WT {a' r : Expr}
    (h : (match numLit? a' with
      | some v => do let n ← pyNeg v; litNumber n
      | none =>
        match a' with
        | .un _ op x => if op == "-" then pure x else mkMinus a'
        | _ => mkMinus a' : M Expr) = .ok r) (hp : WT a') : WT r := by
  split at h
  · obtain ⟨n, hn, h⟩ := bind_ok h
    exact litNumber_WT h (pyNeg_ty hn)
  · split at h
    · split at h
      · cases h; exact WT_un_inv hp
      · exact mkMinus_WT h hp
    · exact mkMinus_WT h hp

/-! ## re-association, multiplication, equivalence -/

theorem reassoc_WT {op : String} {sb : Expr → M Expr} (hsb : ∀ e r, sb e = .ok r → WT e → WT r) {a b r : Expr}
    (h : reassoc op sb a b = .ok r) (ha : WT a) (hb : WT b) : WT r := by
  unfold reassoc at h
  split at h
  · rename_i a1 a2 b1 b2 hsa hsb'
    obtain ⟨ta, rfl⟩ := sameOp_some hsa
    obtain ⟨tb, rfl⟩ := sameOp_some hsb'
    have wa := WT_bin_inv ha
    have wb := WT_bin_inv hb
    obtain ⟨⟨a1', a2', b1', b2', a', b'⟩, htup, h⟩ := bind_ok h
    have good : WT a1' ∧ WT a2' ∧ WT b1' ∧ WT b2' ∧ WT a' ∧ WT b' := by
      split at htup
      · obtain ⟨na, hna, htup⟩ := bind_ok htup
        obtain ⟨ra, hra, htup⟩ := bind_ok htup
        obtain ⟨nb, hnb, htup⟩ := bind_ok htup
        obtain ⟨rb, hrb, htup⟩ := bind_ok htup
        simp only [pure, Except.pure, Except.ok.injEq, Prod.mk.injEq] at htup
        obtain ⟨rfl, rfl, rfl, rfl, rfl, rfl⟩ := htup
        exact ⟨wa.1, wb.1, wb.2, wa.2, hsb _ _ hra (mkBin_WT hna wa.1 wb.1), hsb _ _ hrb (mkBin_WT hnb wb.2 wa.2)⟩
      · simp only [pure, Except.pure, Except.ok.injEq, Prod.mk.injEq] at htup
        obtain ⟨rfl, rfl, rfl, rfl, rfl, rfl⟩ := htup
        exact ⟨wa.1, wa.2, wb.1, wb.2, ha, hb⟩
    obtain ⟨g1, g2, g3, g4, g5, g6⟩ := good
    simp only at h
    split at h
    · obtain ⟨na, hna, h⟩ := bind_ok h
      obtain ⟨ra, hra, h⟩ := bind_ok h
      obtain ⟨nb, hnb, h⟩ := bind_ok h
      obtain ⟨rb, hrb, h⟩ := bind_ok h
      exact mkBin_WT h (hsb _ _ hra (mkBin_WT hna g3 g1)) (hsb _ _ hrb (mkBin_WT hnb g2 g4))
    · exact mkBin_WT h g5 g6
  · rename_i a1 a2 hsa _
    obtain ⟨ta, rfl⟩ := sameOp_some hsa
    have wa := WT_bin_inv ha
    split at h
    · obtain ⟨na, hna, h⟩ := bind_ok h
      obtain ⟨ra, hra, h⟩ := bind_ok h
      exact mkBin_WT h (hsb _ _ hra (mkBin_WT hna wa.1 hb)) wa.2
    · exact mkBin_WT h ha hb
  · rename_i b1 b2 _ hsb'
    obtain ⟨tb, rfl⟩ := sameOp_some hsb'
    have wb := WT_bin_inv hb
    split at h
    · obtain ⟨nb, hnb, h⟩ := bind_ok h
      obtain ⟨rb, hrb, h⟩ := bind_ok h
      exact mkBin_WT h wb.1 (hsb _ _ hrb (mkBin_WT hnb ha wb.2))
    · exact mkBin_WT h ha hb
  · exact mkBin_WT h ha hb

theorem simpMultiplication_WT (f : Nat) (ihN : ∀ e a r, simpNeg f e a = .ok r → WT a → WT r)
    {expr a b r : Expr} (h : simpMultiplication (f + 1) expr a b = .ok r) (he : WT expr) (ha : WT a) (hb : WT b) : WT r := by
  have tail : ∀ r, (match isDivision b with | some (x', y') => if (y' == a) = true then (.ok x' : M Expr) else .ok expr | none => .ok expr) = .ok r → WT r := by
    intro r hr
    split at hr
    · rename_i x' y' hd
      obtain ⟨tb, rfl⟩ := isDivision_some hd
      split at hr
      · have hr' := Except.ok.inj hr; subst hr'; exact (WT_bin_inv hb).1
      · cases hr; exact he
    · cases hr; exact he
  have divRules : ∀ r, (match isDivision a with
      | some (x, y) => if (y == b) = true then (.ok x : M Expr) else
          (match isDivision b with | some (x', y') => if (y' == a) = true then .ok x' else .ok expr | none => .ok expr)
      | none => match isDivision b with | some (x', y') => if (y' == a) = true then .ok x' else .ok expr | none => .ok expr) = .ok r → WT r := by
    intro r hr
    split at hr
    · rename_i x' y' hd
      obtain ⟨ta, rfl⟩ := isDivision_some hd
      split at hr
      · have hr' := Except.ok.inj hr; subst hr'; exact (WT_bin_inv ha).1
      · exact tail r hr
    · exact tail r hr
  unfold simpMultiplication at h
  simp only at h
  split at h
  · split at h; · cases h; exact ha
    split at h; · cases h; exact hb
    split at h
    · split at h; · cases h; exact hb
      split at h; · cases h; exact ha
      obtain ⟨v, hv, h⟩ := bind_ok h
      exact litNumber_WT h (pyArith_ty hv)
    · split at h
      · obtain ⟨m, hm, h⟩ := bind_ok h
        have hwm := mkMinus_WT hm ha
        obtain ⟨tm, a', rfl⟩ := mkUn_shape hm
        simp only at h
        exact ihN _ _ _ h (WT_un_inv hwm)
      · exact divRules r h
  · exact divRules r h

theorem iffRule_WT {simpf : Expr → M Expr} (hS : ∀ e r, simpf e = .ok r → WT e → WT r) {a b r : Expr}
    (h : (if (a == b) = true then pure trueLit
          else if obviouslyDifferent a b = true then pure falseLit
          else do
            let i1 ← mkImplies a b; let i2 ← mkImplies b a
            let c ← mkAnd i1 i2
            simpf c : M Expr) = .ok r) (ha : WT a) (hb : WT b) : WT r := by
  split at h; · cases h; exact trueLit_WT
  split at h; · cases h; exact falseLit_WT
  obtain ⟨i1, h1, h⟩ := bind_ok h
  obtain ⟨i2, h2, h⟩ := bind_ok h
  obtain ⟨c, hc, h⟩ := bind_ok h
  exact hS _ _ h (mkAnd_WT hc (mkImplies_WT h1 ha hb) (mkImplies_WT h2 hb ha))

/-! ## function calls -/

theorem foldlM_pyArith_ty {f : Rat → Rat → Rat} : ∀ (l : List LitVal) (init v : LitVal),
    l.foldlM (pyArith f) init = .ok v → init.ty = T.NUMBER → v.ty = T.NUMBER
  | [], init, v, h, hi => by simp only [List.foldlM_nil, pure, Except.pure, Except.ok.injEq] at h; subst h; exact hi
  | x :: l, init, v, h, _ => by
      simp only [List.foldlM_cons] at h
      obtain ⟨acc, hacc, h⟩ := bind_ok h
      exact foldlM_pyArith_ty l acc v h (pyArith_ty hacc)

theorem foldlM_choose_mem {P : LitVal → Prop} (c : LitVal → LitVal → M Bool) (flip : Bool) : ∀ (l : List LitVal) (init v : LitVal),
    l.foldlM (fun acc x => do let lt ← (if flip then c x acc else c acc x); pure (if lt then x else acc)) init = .ok v →
    P init → (∀ x ∈ l, P x) → P v
  | [], init, v, h, hi, _ => by simp only [List.foldlM_nil, pure, Except.pure, Except.ok.injEq] at h; subst h; exact hi
  | x :: l, init, v, h, hi, hl => by
      simp only [List.foldlM_cons] at h
      obtain ⟨acc, hacc, h⟩ := bind_ok h
      obtain ⟨lt, _, hacc⟩ := bind_ok hacc
      simp only [pure, Except.pure, Except.ok.injEq] at hacc
      refine foldlM_choose_mem c flip l acc v h ?_ (fun y hy => hl y (List.mem_cons_of_mem _ hy))
      subst hacc
      split
      · exact hl x (by simp)
      · exact hi

theorem maxVal_mem {P : LitVal → Prop} {l : List LitVal} {v : LitVal} (h : maxVal l = .ok v) (hl : ∀ x ∈ l, P x) : P v := by
  cases l with
  | nil => simp [maxVal] at h
  | cons x xs =>
    simp only [maxVal] at h
    exact foldlM_choose_mem (P := P) pyLt false xs x v (by simpa using h) (hl x (by simp)) (fun y hy => hl y (List.mem_cons_of_mem _ hy))

theorem minVal_mem {P : LitVal → Prop} {l : List LitVal} {v : LitVal} (h : minVal l = .ok v) (hl : ∀ x ∈ l, P x) : P v := by
  cases l with
  | nil => simp [minVal] at h
  | cons x xs =>
    simp only [minVal] at h
    exact foldlM_choose_mem (P := P) pyLt true xs x v (by simpa using h) (hl x (by simp)) (fun y hy => hl y (List.mem_cons_of_mem _ hy))

theorem splitLits_spec : ∀ (l : List Expr), (∀ e ∈ l, WT e) →
    (∀ e ∈ (splitLits l).1, WT e) ∧ (∀ v ∈ (splitLits l).2, v.ty = T.NUMBER)
  | [], _ => by simp [splitLits]
  | e :: es, h => by
      obtain ⟨ih1, ih2⟩ := splitLits_spec es (fun e' he' => h e' (List.mem_cons_of_mem _ he'))
      simp only [splitLits]
      cases hn : numLit? e with
      | some v =>
        simp only
        refine ⟨ih1, ?_⟩
        intro x hx
        simp only [List.mem_cons] at hx
        rcases hx with rfl | hx
        · exact numLit_ty hn (h e (by simp))
        · exact ih2 x hx
      | none =>
        simp only
        refine ⟨?_, ih2⟩
        intro x hx
        simp only [List.mem_cons] at hx
        rcases hx with rfl | hx
        · exact h _ (by simp)
        · exact ih1 x hx

theorem foldMinMax_WT {call : Expr} {fn : String} {isMax : Bool} {values : List Expr} {r : Expr}
    (h : foldMinMax call fn isMax values = .ok r) (hc : WT call) (hv : ∀ e ∈ values, WT e) : WT r := by
  obtain ⟨hvars, hlits⟩ := splitLits_spec values hv
  unfold foldMinMax at h
  simp only at h
  split at h
  · cases h; exact hc
  · obtain ⟨m, hm, h⟩ := bind_ok h
    obtain ⟨n, hn, h⟩ := bind_ok h
    have hmt : m.ty = T.NUMBER := by
      split at hm
      · exact maxVal_mem (P := fun v => v.ty = T.NUMBER) hm hlits
      · exact minVal_mem (P := fun v => v.ty = T.NUMBER) hm hlits
    have hwn := litNumber_WT hn hmt
    split at h
    · cases h; exact hwn
    · refine mkCall_WT h (WTList_ofList ?_)
      intro e he
      rcases List.mem_append.1 he with he | he
      · exact hvars e he
      · simp only [List.mem_singleton] at he; subst he; exact hwn

theorem pyFloatOfStr_ty {s : String} {v : LitVal} (h : pyFloatOfStr s = .ok v) : v.ty = T.NUMBER := by
  unfold pyFloatOfStr at h
  split at h; · cases h; rfl
  split at h; · cases h; rfl
  split at h; · cases h; rfl
  simp only at h
  repeat' (split at h)
  all_goals first | (simp only [Except.ok.injEq] at h; subst h; rfl) | (simp [unmodelled] at h) | cases h

theorem sumVals_ty {l : List LitVal} {v : LitVal} (h : sumVals l = .ok v) : v.ty = T.NUMBER :=
  foldlM_pyArith_ty l _ v h rfl
theorem prodVals_ty {l : List LitVal} {v : LitVal} (h : prodVals l = .ok v) : v.ty = T.NUMBER :=
  foldlM_pyArith_ty l _ v h rfl

/-- every result of `_simplify_function_call` is the call itself, a literal of the right type, or a re-built call -/
theorem simpCall_WT (f : Nat) (ihS : ∀ e r, simp f e = .ok r → WT e → WT r) {t : DataType} {fn : String} {args : ExprList} {r : Expr}
    (h : simpCall (f + 1) (.call t fn args) fn args = .ok r) (hc : WT (.call t fn args)) : WT r := by
  have hargs := WT_call_inv hc
  have harg0 : ∀ a, (match args with | .cons a _ => simp f a | .nil => (.error .index : M Expr)) = .ok a → WT a := by
    intro a ha
    cases args with
    | nil => cases ha
    | cons a0 rest => exact ihS _ _ ha hargs.1
  unfold simpCall at h
  extract_lets arg0 at h
  by_cases c0 : (fn == "abs") = true
  · -- abs
    simp only [c0, ↓reduceIte] at h
    obtain ⟨a, ha, h⟩ := bind_ok h
    split at h
    · obtain ⟨v, hv, h⟩ := bind_ok h; exact litNumber_WT h (pyAbs_ty hv)
    · cases h; exact hc
  simp only [c0, Bool.false_eq_true, ↓reduceIte] at h
  by_cases c1 : (fn == "bool") = true
  · -- bool
    simp only [c1, ↓reduceIte] at h
    obtain ⟨a, ha, h⟩ := bind_ok h
    split at h
    · cases h; exact litBool_WT _
    · cases h; exact hc
  simp only [c1, Bool.false_eq_true, ↓reduceIte] at h
  by_cases c2 : (fn == "int") = true
  · -- int
    simp only [c2, ↓reduceIte] at h
    obtain ⟨a, ha, h⟩ := bind_ok h
    split at h
    · obtain ⟨n, hn, h⟩ := bind_ok h; exact litNumber_WT h (int_ty n)
    · cases h; exact hc
  simp only [c2, Bool.false_eq_true, ↓reduceIte] at h
  by_cases c3 : (fn == "float") = true
  · -- float
    simp only [c3, ↓reduceIte] at h
    obtain ⟨a, ha, h⟩ := bind_ok h
    split at h
    · obtain ⟨v, hv, h⟩ := bind_ok h; exact litNumber_WT h (pyFloatOfStr_ty hv)
    · rename_i v hnstr hlv
      split at h
      · exact litNumber_WT h rfl
      · rename_i hnone
        refine litNumber_WT h ?_
        cases v with
        | str sv => exact (hnstr sv rfl).elim
        | int n => simp [LitVal.toRat?] at hnone
        | flt q => simp [LitVal.toRat?] at hnone
        | bool b => simp [LitVal.toRat?] at hnone
        | inf => rfl
        | ninf => rfl
        | nan => rfl
    · cases h; exact hc
  simp only [c3, Bool.false_eq_true, ↓reduceIte] at h
  by_cases c4 : (fn == "str") = true
  · -- str
    simp only [c4, ↓reduceIte] at h
    obtain ⟨a, ha, h⟩ := bind_ok h
    split at h
    · obtain ⟨sv, hs, h⟩ := bind_ok h
      split at h
      · cases h
      · cases h; exact litString_WT _
    · cases h; exact hc
  simp only [c4, Bool.false_eq_true, ↓reduceIte] at h
  by_cases c5 : (fn == "len") = true
  · -- len
    simp only [c5, ↓reduceIte] at h
    obtain ⟨a, ha, h⟩ := bind_ok h
    split at h
    · split at h
      · exact litNumber_WT h (int_ty _)
      · cases h; exact hc
    · split at h
      · obtain ⟨⟨lb, ub⟩, _, h⟩ := bind_ok h; exact litNumber_WT h (int_ty _)
      · cases h; exact hc
    · exact litNumber_WT h (int_ty _)
    · cases h; exact hc
  simp only [c5, Bool.false_eq_true, ↓reduceIte] at h
  by_cases c6 : (fn == "sum") = true
  · -- sum
    simp only [c6, ↓reduceIte] at h
    obtain ⟨a, ha, h⟩ := bind_ok h
    split at h
    · split at h
      · obtain ⟨v, hv, h⟩ := bind_ok h; exact litNumber_WT h (sumVals_ty hv)
      · cases h; exact hc
    · split at h
      · obtain ⟨⟨lb, ub⟩, _, h⟩ := bind_ok h; exact litNumber_WT h (int_ty _)
      · cases h; exact hc
    · cases h; exact hc
  simp only [c6, Bool.false_eq_true, ↓reduceIte] at h
  by_cases c7 : (fn == "prod") = true
  · -- prod
    simp only [c7, ↓reduceIte] at h
    obtain ⟨a, ha, h⟩ := bind_ok h
    split at h
    · split at h
      · exact litNumber_WT h (int_ty 0)
      · split at h
        · obtain ⟨v, hv, h⟩ := bind_ok h; exact litNumber_WT h (prodVals_ty hv)
        · cases h; exact hc
    · split at h
      · obtain ⟨⟨lb, ub⟩, _, h⟩ := bind_ok h
        split at h
        · cases h
        · exact litNumber_WT h (int_ty _)
      · cases h; exact hc
    · cases h; exact hc
  simp only [c7, Bool.false_eq_true, ↓reduceIte] at h
  by_cases c8 : (fn == "max" || fn == "min") = true
  · -- max / min
    simp only [c8, ↓reduceIte] at h
    split at h
    · rename_i a0
      obtain ⟨a, ha, h⟩ := bind_ok h
      have hwa : WT a := ihS _ _ ha hargs.1
      split at h
      · split at h
        · obtain ⟨li, _, h⟩ := bind_ok h
          obtain ⟨hi', _, h⟩ := bind_ok h
          repeat' (split at h)
          all_goals first | exact litNumber_WT h (int_ty _) | (cases h; exact hc)
        · cases h; exact hc
      · exact foldMinMax_WT h hc (WTList_mem (WT_set_inv hwa))
      · cases h; exact hc
    · exact foldMinMax_WT h hc (WTList_mem hargs)
  simp only [c8, Bool.false_eq_true, ↓reduceIte] at h
  by_cases c9 : (fn == "gcd") = true
  · -- gcd
    simp only [c9, ↓reduceIte] at h
    split at h
    · obtain ⟨x, hx, h⟩ := bind_ok h
      obtain ⟨y, hy, h⟩ := bind_ok h
      split at h
      · exact litNumber_WT h (int_ty _)
      · cases h
      · cases h; exact hc
    · cases h; exact hc
  simp only [c9, Bool.false_eq_true, ↓reduceIte] at h
  by_cases c10 : (fn == "ceil") = true
  · -- ceil
    simp only [c10, ↓reduceIte] at h
    obtain ⟨a, ha, h⟩ := bind_ok h
    split at h
    · split at h
      · exact litNumber_WT h (int_ty _)
      · cases h
    · cases h; exact hc
  simp only [c10, Bool.false_eq_true, ↓reduceIte] at h
  by_cases c11 : (fn == "floor") = true
  · -- floor
    simp only [c11, ↓reduceIte] at h
    obtain ⟨a, ha, h⟩ := bind_ok h
    split at h
    · split at h
      · exact litNumber_WT h (int_ty _)
      · cases h
    · cases h; exact hc
  simp only [c11, Bool.false_eq_true, ↓reduceIte] at h
  by_cases c12 : (opaqueFuns.contains fn) = true
  · -- uninterpreted unary functions
    simp only [c12, ↓reduceIte] at h
    obtain ⟨a, ha, h⟩ := bind_ok h
    split at h
    · cases h
    · cases h; exact hc
  simp only [c12, Bool.false_eq_true, ↓reduceIte] at h
  by_cases c13 : (fn == "atan2" || fn == "log") = true
  · -- atan2 / log
    simp only [c13, ↓reduceIte] at h
    split at h
    · obtain ⟨x, hx, h⟩ := bind_ok h
      obtain ⟨y, hy, h⟩ := bind_ok h
      split at h
      · cases h
      · cases h; exact hc
    · cases h
  simp only [c13, Bool.false_eq_true, ↓reduceIte] at h
  cases h; exact hc

/-! ## the recursion -/

structure TypedAt (f : Nat) : Prop where
  tS : ∀ e r, simp f e = .ok r → WT e → WT r
  tL : ∀ es rs, simpList f es = .ok rs → WTList es → WTList rs
  tN : ∀ e a r, simpNeg f e a = .ok r → WT a → WT r
  tB : ∀ e r, simpBinop f e = .ok r → WT e → WT r
  tM : ∀ expr a b r, simpMultiplication f expr a b = .ok r → WT expr → WT a → WT b → WT r
  tP : ∀ e r, preBinop f e = .ok r → WT e → WT r
  tC : ∀ t fn args r, simpCall f (.call t fn args) fn args = .ok r → WT (.call t fn args) → WT r

theorem typedAt_zero : TypedAt 0 := by
  refine ⟨?_, ?_, ?_, ?_, ?_, ?_, ?_⟩
  · intro e r h; simp [simp] at h
  · intro es rs h; simp [simpList] at h
  · intro e a r h; simp [simpNeg] at h
  · intro e r h; simp [simpBinop] at h
  · intro expr a b r h; simp [simpMultiplication] at h
  · intro e r h; simp [preBinop] at h
  · intro t fn args r h; simp [simpCall] at h

theorem tstep_list {f : Nat} (ih : TypedAt f) : ∀ es rs, simpList (f + 1) es = .ok rs → WTList es → WTList rs := by
  intro es rs h hw
  cases es with
  | nil => simp only [simpList] at h; cases h; trivial
  | cons e es =>
    simp only [simpList] at h
    obtain ⟨e', he', h⟩ := bind_ok h
    obtain ⟨es', hes', h⟩ := bind_ok h
    cases h
    exact ⟨ih.tS _ _ he' hw.1, ih.tL _ _ hes' hw.2⟩

theorem tstep_neg {f : Nat} (ih : TypedAt f) : ∀ e a r, simpNeg (f + 1) e a = .ok r → WT a → WT r := by
  intro e a r h hw
  simp only [simpNeg] at h
  obtain ⟨a', ha', h⟩ := bind_ok h
  exact negNumberRule_WT h (ih.tS _ _ ha' hw)

theorem tstep_pre {f : Nat} (ih : TypedAt f) : ∀ e r, preBinop (f + 1) e = .ok r → WT e → WT r := by
  intro e r h hw
  cases e with
  | bin t op x y =>
    simp only [preBinop] at h
    obtain ⟨a, ha, h⟩ := bind_ok h
    obtain ⟨b, hb, h⟩ := bind_ok h
    have wxy := WT_bin_inv hw
    have pa := ih.tS _ _ ha wxy.1
    have pb := ih.tS _ _ hb wxy.2
    split at h
    · exact mkBin_WT h pa pb
    · split at h
      · exact mkBin_WT h pa pb
      · split at h
        · split at h
          · cases h
          · split at h
            · exact mkBin_WT h pb pa
            · split at h
              · exact mkBin_WT h pa pb
              · exact mkBin_WT h pb pa
        · split at h
          · cases h
          · split at h
            · exact reassoc_WT ih.tB h pa pb
            · exact mkBin_WT h pa pb
  | _ => simp [preBinop] at h

theorem tstep_binop {f : Nat} (ih : TypedAt f) : ∀ e r, simpBinop (f + 1) e = .ok r → WT e → WT r := by
  intro e r h hw
  simp only [simpBinop] at h
  obtain ⟨e', he', h⟩ := bind_ok h
  have hw' := ih.tP _ _ he' hw
  cases e' with
  | bin t op a b =>
    have wab := WT_bin_inv hw'
    simp only at h
    split at h; · exact simpConjunction_WT h hw' wab.1 wab.2
    split at h; · exact simpDisjunction_WT h hw' wab.1 wab.2
    split at h
    · split at h
      · cases h; exact trueLit_WT
      · obtain ⟨na, hna, h⟩ := bind_ok h
        obtain ⟨d, hd, h⟩ := bind_ok h
        exact ih.tS _ _ h (mkOr_WT hd (mkNot_WT hna wab.1) wab.2)
    split at h; · exact iffRule_WT ih.tS h wab.1 wab.2
    split at h; · exact simpComparison_WT h hw'
    split at h; · exact simpAddition_WT h hw' wab.1 wab.2
    split at h; · exact simpSubtraction_WT h hw' wab.1 wab.2
    split at h; · exact ih.tM _ _ _ _ h hw' wab.1 wab.2
    split at h; · exact simpDivision_WT h hw' wab.1
    split at h; · exact simpExponentiation_WT h hw' wab.1
    cases h; exact hw'
  | _ => simp at h

theorem tstep_simp {f : Nat} (ih : TypedAt f) : ∀ e r, simp (f + 1) e = .ok r → WT e → WT r := by
  intro e r h hw
  cases e with
  | un t op a =>
    simp only [simp] at h
    split at h
    · obtain ⟨p, hp, h⟩ := bind_ok h
      exact negationRule_WT h (ih.tS _ _ hp (WT_un_inv hw))
    · split at h
      · exact ih.tN _ _ _ h (WT_un_inv hw)
      · cases h; exact hw
  | bin t op a b => simp only [simp] at h; exact ih.tB _ _ h hw
  | call t fn args => simp only [simp] at h; exact ih.tC _ _ _ _ h hw
  | set t vs =>
    simp only [simp] at h
    obtain ⟨vs', hvs, h⟩ := bind_ok h
    have hl := ih.tL _ _ hvs (WT_set_inv hw)
    split at h
    · exact mkSet_WT h (WTList_ofList (fun e he => WTList_mem hl e (mem_eraseDups he)))
    · exact mkSet_WT h hl
  | range t lo hi a b =>
    simp only [simp] at h
    obtain ⟨lo', hlo, h⟩ := bind_ok h
    obtain ⟨hi', hhi, h⟩ := bind_ok h
    have w := WT_range_inv hw
    exact mkRange_WT h (ih.tS _ _ hlo w.1) (ih.tS _ _ hhi w.2)
  | lit _ _ _ | this _ | var _ _ | quant _ _ _ _ _ | field _ _ _ | index _ _ _ =>
    simp only [simp] at h; cases h; exact hw

theorem typedAt : ∀ f, TypedAt f
  | 0 => typedAt_zero
  | f + 1 =>
    have ih := typedAt f
    ⟨tstep_simp ih, tstep_list ih, tstep_neg ih, tstep_binop ih,
     fun _ _ _ _ h he ha hb => simpMultiplication_WT f ih.tN h he ha hb, tstep_pre ih,
     fun _ _ _ _ h hc => simpCall_WT f ih.tS h hc⟩

/-- **C03 for the simplifier**: `simplify` maps well-typed expressions to well-typed expressions -/
theorem simplify_WT (e r : Expr) (h : simplifyExpr e = .ok r) (hw : WT e) : WT r := (typedAt _).tS _ _ h hw

/-- … and well-typed predicates to well-typed predicates -/
theorem simplifyPred_WT (p q : Pred) (h : simplifyPred p = .ok q) (hw : WTPred p) : WTPred q := by
  cases p with
  | expr e =>
    simp only [simplifyPred] at h
    obtain ⟨e', he', h⟩ := bind_ok h
    have hwe' := (typedAt _).tS _ _ he' hw.1
    split at h
    · cases h; trivial
    · split at h
      · cases h; trivial
      · exact mkPred_WT h hwe'
  | vtrue => simp only [simplifyPred] at h; cases h; trivial
  | vfalse => simp only [simplifyPred] at h; cases h; trivial

end Hpl
