import Hpl.Props.C03b
/-!
# C03 — `split_and`, `refactor_reference`, `negate` and `join` hand out well-typed trees

Every result of the models of `hpl.rewrite.split_and` / `refactor_reference` and of `HplPredicate.negate` / `join` on
well-typed input is well-typed: each is a sub-tree of the input, a literal, or built by a smart constructor.
-/
namespace Hpl

theorem WT_quant_inv {t : DataType} {q : Quant} {x : String} {d b : Expr} (h : WT (.quant t q x d b)) : WT d ∧ WT b := ⟨h.2.1, h.2.2.1⟩

theorem mkForall_WT {x : String} {d p e : Expr} (h : mkForall x d p = .ok e) (hd : WT d) (hp : WT p) : WT e := mkQuant_WT h hd hp

theorem emptyTest_WT {d e : Expr} (h : emptyTest d = .ok e) (hd : WT d) : WT e := by
  unfold emptyTest at h
  obtain ⟨a, ha, h⟩ := bind_ok h
  exact mkBin_WT h (mkCall_WT ha ⟨hd, trivial⟩) rfl

theorem splitHalf_WT {x : String} {d a e : Expr} (h : splitHalf x d a = .ok e) (hd : WT d) (ha : WT a) : WT e := by
  unfold splitHalf at h
  split at h
  · exact mkForall_WT h hd ha
  · obtain ⟨t, ht, h⟩ := bind_ok h
    exact mkOr_WT h (emptyTest_WT ht hd) ha

structure SplitTyped (f : Nat) : Prop where
  pre : ∀ e r, presplit f e = .ok r → WT e → WT r
  nt : ∀ neg phi r, splitNot f neg phi = .ok r → WT neg → WT phi → WT r
  qt : ∀ quant q x d phi r, splitQuant f quant q x d phi = .ok r → WT quant → WT d → WT phi → WT r

theorem splitTyped : ∀ f, SplitTyped f
  | 0 => ⟨fun e r h => by simp [presplit] at h, fun _ _ r h => by simp [splitNot] at h, fun _ _ _ _ _ r h => by simp [splitQuant] at h⟩
  | f + 1 => by
    have ih := splitTyped f
    refine ⟨?_, ?_, ?_⟩
    · intro e r h hw
      cases e with
      | un t op phi =>
        simp only [presplit] at h
        split at h
        · exact ih.nt _ _ _ h hw (WT_un_inv hw)
        · cases h; exact hw
      | quant t q x d phi =>
        simp only [presplit] at h
        have := WT_quant_inv hw
        exact ih.qt _ _ _ _ _ _ h hw this.1 this.2
      | lit _ _ _ | this _ | var _ _ | set _ _ | range _ _ _ _ _ | bin _ _ _ _ | call _ _ _ | field _ _ _ | index _ _ _ =>
        simp only [presplit] at h; cases h; exact hw
    · intro neg phi r h hn hp
      cases phi with
      | un t op p =>
        simp only [splitNot] at h
        split at h
        · exact ih.pre _ _ h (WT_un_inv hp)
        · cases h; exact hn
      | bin t op a b =>
        have wab := WT_bin_inv hp
        simp only [splitNot] at h
        split at h
        · obtain ⟨na, hna, h⟩ := bind_ok h
          obtain ⟨nb, hnb, h⟩ := bind_ok h
          exact mkAnd_WT h (mkNot_WT hna wab.1) (mkNot_WT hnb wab.2)
        · split at h
          · obtain ⟨nb, hnb, h⟩ := bind_ok h
            exact mkAnd_WT h wab.1 (mkNot_WT hnb wab.2)
          · cases h; exact hn
      | quant t q x d p =>
        have wdp := WT_quant_inv hp
        cases q with
        | some =>
          simp only [splitNot] at h
          obtain ⟨np, hnp, h⟩ := bind_ok h
          split at h
          · obtain ⟨qq, hq, h⟩ := bind_ok h
            have hwq := mkForall_WT hq wdp.1 (mkNot_WT hnp wdp.2)
            split at h
            · have := WT_quant_inv hwq
              exact ih.qt _ _ _ _ _ _ h hwq this.1 this.2
            · cases h
          · cases h
        | all => simp only [splitNot] at h; cases h; exact hn
      | lit _ _ _ | this _ | var _ _ | set _ _ | range _ _ _ _ _ | call _ _ _ | field _ _ _ | index _ _ _ =>
        simp only [splitNot] at h; cases h; exact hn
    · intro quant q x d phi r h hq hd hp
      cases q with
      | all =>
        simp only [splitQuant] at h
        obtain ⟨phi', hphi, h⟩ := bind_ok h
        have hw' := ih.pre _ _ hphi hp
        split at h
        · have wab := WT_bin_inv hw'
          split at h
          · obtain ⟨qa, hqa, h⟩ := bind_ok h
            obtain ⟨qb, hqb, h⟩ := bind_ok h
            exact mkAnd_WT h (splitHalf_WT hqa hd wab.1) (splitHalf_WT hqb hd wab.2)
          · cases h; exact hq
        · cases h; exact hq
      | some => simp only [splitQuant] at h; cases h; exact hq

theorem splitLoop_WT : ∀ (f : Nat) (stack acc : List Expr) (l : List Expr), splitLoop f stack acc = .ok l →
    (∀ e ∈ stack, WT e) → (∀ e ∈ acc, WT e) → ∀ e ∈ l, WT e
  | 0, _, _, l, h, _, _ => by simp [splitLoop] at h
  | f + 1, [], acc, l, h, _, ha => by simp only [splitLoop, Except.ok.injEq] at h; subst h; exact ha
  | f + 1, e :: stack, acc, l, h, hs, ha => by
      have he := hs e (by simp)
      have hst : ∀ x ∈ stack, WT x := fun x hx => hs x (List.mem_cons_of_mem _ hx)
      simp only [splitLoop] at h
      split at h
      · exact splitLoop_WT f stack acc l h hst ha
      · split at h
        · cases h
        · obtain ⟨e', he', h⟩ := bind_ok h
          have hw' := (splitTyped _).pre _ _ he' he
          have hacc : ∀ x ∈ acc ++ [e'], WT x := by
            intro x hx
            rcases List.mem_append.1 hx with hx | hx
            · exact ha x hx
            · simp only [List.mem_singleton] at hx; subst hx; exact hw'
          split at h
          · have wab := WT_bin_inv hw'
            split at h
            · refine splitLoop_WT f _ acc l h ?_ ha
              intro x hx
              simp only [List.mem_cons] at hx
              rcases hx with rfl | rfl | hx
              · exact wab.2
              · exact wab.1
              · exact hst x hx
            · exact splitLoop_WT f stack _ l h hst hacc
          · exact splitLoop_WT f stack _ l h hst hacc

/-- **C03 for `split_and`**: every returned conjunct is well-typed -/
theorem splitAnd_WT (e : Expr) (l : List Expr) (h : splitAnd e = .ok l) (hw : WT e) : ∀ x ∈ l, WT x :=
  splitLoop_WT _ [e] [] l h (by simpa using hw) (by simp)

/-! ## `refactor_reference` -/

theorem refQuantAnd_WT {alias x : String} {quant d a b : Expr} {r : Expr × Expr} (h : refQuantAnd alias x quant d a b = .ok r)
    (hq : WT quant) (hd : WT d) (ha : WT a) (hb : WT b) : WT r.1 ∧ WT r.2 := by
  unfold refQuantAnd at h
  simp only [bind, Except.bind, pure, Except.pure] at h
  split at h
  · cases hqa : splitHalf x d a with
    | error e => simp [hqa] at h
    | ok qa =>
      cases hqb : splitHalf x d b with
      | error e => simp [hqa, hqb] at h
      | ok qb =>
        simp only [hqa, hqb, Except.ok.injEq] at h; subst h
        exact ⟨splitHalf_WT hqb hd hb, splitHalf_WT hqa hd ha⟩
  · split at h
    · cases hqa : splitHalf x d a with
      | error e => simp [hqa] at h
      | ok qa =>
        cases hqb : splitHalf x d b with
        | error e => simp [hqa, hqb] at h
        | ok qb =>
          simp only [hqa, hqb, Except.ok.injEq] at h; subst h
          exact ⟨splitHalf_WT hqa hd ha, splitHalf_WT hqb hd hb⟩
    · split at h
      · simp only [Except.ok.injEq] at h; subst h; exact ⟨trueLit_WT, hq⟩
      · cases h

theorem refAnd_WT {alias : String} {op a b : Expr} {r : Expr × Expr} (h : refAnd alias op a b = .ok r)
    (ho : WT op) (ha : WT a) (hb : WT b) : WT r.1 ∧ WT r.2 := by
  unfold refAnd at h
  simp only at h
  split at h; · cases h; exact ⟨hb, ha⟩
  split at h; · cases h; exact ⟨ha, hb⟩
  split at h; · cases h; exact ⟨trueLit_WT, ho⟩
  cases h

theorem refQuant_WT {alias : String} {quant : Expr} {r : Expr × Expr} (h : refQuant alias quant = .ok r) (hq : WT quant) :
    WT r.1 ∧ WT r.2 := by
  have keep : ∀ r : Expr × Expr, (.ok (trueLit, quant) : M (Expr × Expr)) = .ok r → WT r.1 ∧ WT r.2 := by
    intro r hr; cases hr; exact ⟨trueLit_WT, hq⟩
  unfold refQuant at h
  split at h
  · rename_i t q x d body
    have wdb := WT_quant_inv hq
    split at h; · exact keep r h
    split at h; · cases h
    split at h
    · split at h
      · rename_i t1 op t2 op2 a b
        have wab := WT_bin_inv (WT_un_inv wdb.2)
        split at h
        · obtain ⟨na, hna, h⟩ := bind_ok h
          obtain ⟨nb, hnb, h⟩ := bind_ok h
          obtain ⟨e, he, h⟩ := bind_ok h
          have hwe := mkAnd_WT he (mkNot_WT hna wab.1) (mkNot_WT hnb wab.2)
          split at h
          · have := WT_bin_inv hwe
            exact refQuantAnd_WT h hq wdb.1 this.1 this.2
          · cases h
        · exact keep r h
      · have wab := WT_bin_inv wdb.2
        split at h
        · exact refQuantAnd_WT h hq wdb.1 wab.1 wab.2
        · exact keep r h
      · exact keep r h
    · exact keep r h
  · cases h

structure RefTyped (alias : String) (f : Nat) : Prop where
  ex : ∀ e r, refExpr alias f e = .ok r → WT e → WT r.1 ∧ WT r.2
  ng : ∀ neg e r, refNeg alias f neg e = .ok r → WT neg → WT e → WT r.1 ∧ WT r.2

theorem refTyped (alias : String) : ∀ f, RefTyped alias f
  | 0 => ⟨fun e r h => by simp [refExpr] at h, fun _ _ r h => by simp [refNeg] at h⟩
  | f + 1 => by
    have ih := refTyped alias f
    refine ⟨?_, ?_⟩
    · intro e r h hw
      simp only [refExpr] at h
      split at h; · cases h; exact ⟨hw, trueLit_WT⟩
      split at h; · cases h; exact ⟨trueLit_WT, hw⟩
      split at h; · cases h; exact ⟨trueLit_WT, hw⟩
      split at h
      · exact refQuant_WT h hw
      · split at h
        · exact ih.ng _ _ _ h hw (WT_un_inv hw)
        · cases h
      · have wab := WT_bin_inv hw
        split at h
        · exact refAnd_WT h hw wab.1 wab.2
        · cases h; exact ⟨trueLit_WT, hw⟩
      · cases h
    · intro neg e r h hn he
      simp only [refNeg] at h
      split at h; · cases h
      split at h; · cases h; exact ⟨trueLit_WT, hn⟩
      split at h
      · have wdp := WT_quant_inv he
        obtain ⟨np, hnp, h⟩ := bind_ok h
        split at h
        · obtain ⟨q, hq, h⟩ := bind_ok h
          exact refQuant_WT h (mkForall_WT hq wdp.1 (mkNot_WT hnp wdp.2))
        · cases h
      · cases h; exact ⟨trueLit_WT, hn⟩
      · split at h
        · exact ih.ex _ _ h (WT_un_inv he)
        · cases h; exact ⟨trueLit_WT, hn⟩
      · have wab := WT_bin_inv he
        split at h
        · obtain ⟨nb, hnb, h⟩ := bind_ok h
          obtain ⟨c, hc, h⟩ := bind_ok h
          have hwc := mkAnd_WT hc wab.1 (mkNot_WT hnb wab.2)
          split at h
          · have := WT_bin_inv hwc; exact refAnd_WT h hwc this.1 this.2
          · cases h
        · split at h
          · obtain ⟨na, hna, h⟩ := bind_ok h
            obtain ⟨nb, hnb, h⟩ := bind_ok h
            obtain ⟨c, hc, h⟩ := bind_ok h
            have hwc := mkAnd_WT hc (mkNot_WT hna wab.1) (mkNot_WT hnb wab.2)
            split at h
            · have := WT_bin_inv hwc; exact refAnd_WT h hwc this.1 this.2
            · cases h
          · cases h; exact ⟨trueLit_WT, hn⟩
      · cases h

/-- **C03 for `refactor_reference`** (expressions): both parts are well-typed -/
theorem refactorExpr_WT (e : Expr) (alias : String) (r : Expr × Expr) (h : refactorExpr e alias = .ok r) (hw : WT e) :
    WT r.1 ∧ WT r.2 := (refTyped alias _).ex _ _ h hw

/-- … and predicates -/
theorem refactorPred_WT (p : Pred) (alias : String) (r : Pred × Pred) (h : refactorPred p alias = .ok r) (hw : WTPred p) :
    WTPred r.1 ∧ WTPred r.2 := by
  cases p with
  | expr e =>
    simp only [refactorPred] at h
    obtain ⟨⟨e1, e2⟩, he, h⟩ := bind_ok h
    obtain ⟨p1, hp1, h⟩ := bind_ok h
    obtain ⟨p2, hp2, h⟩ := bind_ok h
    cases h
    have := refactorExpr_WT e alias _ he hw.1
    exact ⟨predFromExpr_WT hp1 this.1, predFromExpr_WT hp2 this.2⟩
  | vtrue => simp only [refactorPred] at h; cases h; exact ⟨trivial, trivial⟩
  | vfalse => simp only [refactorPred] at h; cases h; exact ⟨trivial, trivial⟩

/-! ## `negate`, `join` -/

theorem negate_WT (p q : Pred) (h : p.negate = .ok q) (hw : WTPred p) : WTPred q := by
  cases p with
  | expr e =>
    cases e with
    | un t op a =>
      simp only [Pred.negate] at h
      split at h
      · exact mkPred_WT h (WT_un_inv hw.1)
      · obtain ⟨n, hn, h⟩ := bind_ok h; exact mkPred_WT h (mkNot_WT hn hw.1)
    | lit _ _ _ | this _ | var _ _ | set _ _ | range _ _ _ _ _ | quant _ _ _ _ _ | bin _ _ _ _ | call _ _ _ | field _ _ _ | index _ _ _ =>
      simp only [Pred.negate] at h
      obtain ⟨n, hn, h⟩ := bind_ok h; exact mkPred_WT h (mkNot_WT hn hw.1)
  | vtrue => simp only [Pred.negate] at h; cases h; trivial
  | vfalse => simp only [Pred.negate] at h; cases h; trivial

theorem join_WT (p p' q : Pred) (h : p.join p' = .ok q) (hw : WTPred p) (hw' : WTPred p') : WTPred q := by
  cases p with
  | expr e =>
    cases p' with
    | expr e' =>
      simp only [Pred.join] at h
      obtain ⟨c, hc, h⟩ := bind_ok h
      exact mkPred_WT h (mkAnd_WT hc hw.1 hw'.1)
    | vtrue => simp only [Pred.join] at h; cases h; exact hw
    | vfalse => simp only [Pred.join] at h; cases h; trivial
  | vtrue => simp only [Pred.join] at h; cases h; exact hw'
  | vfalse => simp only [Pred.join] at h; cases h; trivial

/-! ## substitutions (`replace_this_with_var`, `replace_var_with_this`, event alias normalisation) -/

mutual
theorem substE_WT (test : Expr → Bool) (other : Expr) (ho : WT other) : ∀ (e r : Expr), substE test other e = .ok r → WT e → WT r
  | .lit t k v, r, h, hw => by simp only [substE, Except.ok.injEq] at h; subst h; split <;> assumption
  | .this t, r, h, hw => by simp only [substE, Except.ok.injEq] at h; subst h; split <;> assumption
  | .var t x, r, h, hw => by simp only [substE, Except.ok.injEq] at h; subst h; split <;> assumption
  | .set t vs, r, h, hw => by
      simp only [substE] at h
      split at h
      · cases h; exact ho
      · obtain ⟨vs', hvs, h⟩ := bind_ok h
        split at h
        · cases h; exact hw
        · obtain ⟨vs'', hc, h⟩ := bind_ok h
          cases h
          exact ⟨hw.1, castList_WT hc (substL_WT test other ho vs vs' hvs (WT_set_inv hw))⟩
  | .range t lo hi a b, r, h, hw => by
      simp only [substE] at h
      split at h
      · cases h; exact ho
      · obtain ⟨lo', hlo, h⟩ := bind_ok h
        obtain ⟨hi', hhi, h⟩ := bind_ok h
        split at h
        · cases h; exact hw
        · obtain ⟨lo'', hcl, h⟩ := bind_ok h
          obtain ⟨hi'', hch, h⟩ := bind_ok h
          cases h
          have w := WT_range_inv hw
          exact ⟨hw.1, castE_WT hcl (substE_WT test other ho lo lo' hlo w.1), castE_WT hch (substE_WT test other ho hi hi' hhi w.2),
            (castE_sub hcl).1, (castE_sub hch).1⟩
  | .quant t q x d b, r, h, hw => by
      simp only [substE] at h
      split at h
      · cases h; exact ho
      · obtain ⟨d', hd, h⟩ := bind_ok h
        obtain ⟨b', hb, h⟩ := bind_ok h
        split at h
        · cases h; exact hw
        · have w := WT_quant_inv hw
          exact mkQuant_WT h (substE_WT test other ho d d' hd w.1) (substE_WT test other ho b b' hb w.2)
  | .un t op a, r, h, hw => by
      simp only [substE] at h
      split at h
      · cases h; exact ho
      · obtain ⟨a', ha, h⟩ := bind_ok h
        split at h
        · cases h; exact hw
        · exact mkUn_WT h (substE_WT test other ho a a' ha (WT_un_inv hw))
  | .bin t op a b, r, h, hw => by
      simp only [substE] at h
      split at h
      · cases h; exact ho
      · obtain ⟨a', ha, h⟩ := bind_ok h
        obtain ⟨b', hb, h⟩ := bind_ok h
        split at h
        · cases h; exact hw
        · have w := WT_bin_inv hw
          exact mkBin_WT h (substE_WT test other ho a a' ha w.1) (substE_WT test other ho b b' hb w.2)
  | .call t f as, r, h, hw => by
      simp only [substE] at h
      split at h
      · cases h; exact ho
      · obtain ⟨as', has, h⟩ := bind_ok h
        split at h
        · cases h; exact hw
        · exact mkCall_WT h (substL_WT test other ho as as' has (WT_call_inv hw))
  | .field t m n, r, h, hw => by
      simp only [substE] at h
      split at h
      · cases h; exact ho
      · obtain ⟨m', hm, h⟩ := bind_ok h
        split at h
        · cases h; exact hw
        · exact mkFieldT_WT h (substE_WT test other ho m m' hm hw.2.2.1) ⟨hw.1, hw.2.1⟩
  | .index t a i, r, h, hw => by
      simp only [substE] at h
      split at h
      · cases h; exact ho
      · obtain ⟨a', ha, h⟩ := bind_ok h
        obtain ⟨i', hi, h⟩ := bind_ok h
        split at h
        · cases h; exact hw
        · exact mkIndexT_WT h (substE_WT test other ho a a' ha hw.2.2.1) (substE_WT test other ho i i' hi hw.2.2.2.1) ⟨hw.1, hw.2.1⟩
theorem substL_WT (test : Expr → Bool) (other : Expr) (ho : WT other) : ∀ (es rs : ExprList), substL test other es = .ok rs → WTList es → WTList rs
  | .nil, rs, h, _ => by simp only [substL, Except.ok.injEq] at h; subst h; trivial
  | .cons e es, rs, h, hw => by
      simp only [substL] at h
      obtain ⟨e', he, h⟩ := bind_ok h
      obtain ⟨es', hes, h⟩ := bind_ok h
      cases h
      exact ⟨substE_WT test other ho e e' he hw.1, substL_WT test other ho es es' hes hw.2⟩
end

mutual
theorem substV_WT (nm : String) (other : Expr) (ho : WT other) : ∀ (e r : Expr), substV nm other e = .ok r → WT e → WT r
  | .lit t k v, r, h, hw => by simp only [substV, Except.ok.injEq] at h; subst h; exact hw
  | .this t, r, h, hw => by simp only [substV, Except.ok.injEq] at h; subst h; exact hw
  | .var t x, r, h, hw => by simp only [substV, Except.ok.injEq] at h; subst h; split <;> assumption
  | .set t vs, r, h, hw => by
      simp only [substV] at h
      obtain ⟨vs', hvs, h⟩ := bind_ok h
      split at h
      · cases h; exact hw
      · obtain ⟨vs'', hc, h⟩ := bind_ok h
        cases h
        exact ⟨hw.1, castList_WT hc (substVL_WT nm other ho vs vs' hvs (WT_set_inv hw))⟩
  | .range t lo hi a b, r, h, hw => by
      simp only [substV] at h
      obtain ⟨lo', hlo, h⟩ := bind_ok h
      obtain ⟨hi', hhi, h⟩ := bind_ok h
      split at h
      · cases h; exact hw
      · obtain ⟨lo'', hcl, h⟩ := bind_ok h
        obtain ⟨hi'', hch, h⟩ := bind_ok h
        cases h
        have w := WT_range_inv hw
        exact ⟨hw.1, castE_WT hcl (substV_WT nm other ho lo lo' hlo w.1), castE_WT hch (substV_WT nm other ho hi hi' hhi w.2),
          (castE_sub hcl).1, (castE_sub hch).1⟩
  | .quant t q x d b, r, h, hw => by
      simp only [substV] at h
      split at h
      · cases h; exact hw
      obtain ⟨d', hd, h⟩ := bind_ok h
      obtain ⟨b', hb, h⟩ := bind_ok h
      split at h
      · cases h; exact hw
      · have w := WT_quant_inv hw
        exact mkQuant_WT h (substV_WT nm other ho d d' hd w.1) (substV_WT nm other ho b b' hb w.2)
  | .un t op a, r, h, hw => by
      simp only [substV] at h
      obtain ⟨a', ha, h⟩ := bind_ok h
      split at h
      · cases h; exact hw
      · exact mkUn_WT h (substV_WT nm other ho a a' ha (WT_un_inv hw))
  | .bin t op a b, r, h, hw => by
      simp only [substV] at h
      obtain ⟨a', ha, h⟩ := bind_ok h
      obtain ⟨b', hb, h⟩ := bind_ok h
      split at h
      · cases h; exact hw
      · have w := WT_bin_inv hw
        exact mkBin_WT h (substV_WT nm other ho a a' ha w.1) (substV_WT nm other ho b b' hb w.2)
  | .call t f as, r, h, hw => by
      simp only [substV] at h
      obtain ⟨as', has, h⟩ := bind_ok h
      split at h
      · cases h; exact hw
      · exact mkCall_WT h (substVL_WT nm other ho as as' has (WT_call_inv hw))
  | .field t m n, r, h, hw => by
      simp only [substV] at h
      obtain ⟨m', hm, h⟩ := bind_ok h
      split at h
      · cases h; exact hw
      · exact mkFieldT_WT h (substV_WT nm other ho m m' hm hw.2.2.1) ⟨hw.1, hw.2.1⟩
  | .index t a i, r, h, hw => by
      simp only [substV] at h
      obtain ⟨a', ha, h⟩ := bind_ok h
      obtain ⟨i', hi, h⟩ := bind_ok h
      split at h
      · cases h; exact hw
      · exact mkIndexT_WT h (substV_WT nm other ho a a' ha hw.2.2.1) (substV_WT nm other ho i i' hi hw.2.2.2.1) ⟨hw.1, hw.2.1⟩
theorem substVL_WT (nm : String) (other : Expr) (ho : WT other) : ∀ (es rs : ExprList), substVL nm other es = .ok rs → WTList es → WTList rs
  | .nil, rs, h, _ => by simp only [substVL, Except.ok.injEq] at h; subst h; trivial
  | .cons e es, rs, h, hw => by
      simp only [substVL] at h
      obtain ⟨e', he, h⟩ := bind_ok h
      obtain ⟨es', hes, h⟩ := bind_ok h
      cases h
      exact ⟨substV_WT nm other ho e e' he hw.1, substVL_WT nm other ho es es' hes hw.2⟩
end


theorem var_item_WT (a : String) : WT (.var T.ITEM a) := ⟨by decide, sub_refl _⟩
theorem this_WT : WT (.this T.MESSAGE) := rfl

/-- **C03 for the this/var replacements** -/
theorem replaceThisWithVarE_WT (e r : Expr) (a : String) (h : replaceThisWithVarE e a = .ok r) (hw : WT e) : WT r :=
  substE_WT _ _ (var_item_WT a) e r h hw
theorem replaceVarWithThisE_WT (e r : Expr) (a : String) (h : replaceVarWithThisE e a = .ok r) (hw : WT e) : WT r :=
  substV_WT _ _ this_WT e r h hw

theorem replaceThisWithVarP_WT (p q : Pred) (a : String) (h : replaceThisWithVarP p a = .ok q) (hw : WTPred p) : WTPred q := by
  cases p with
  | expr e =>
    simp only [replaceThisWithVarP, Pred.replaceSelf] at h
    obtain ⟨e', he, h⟩ := bind_ok h
    split at h
    · cases h; exact hw
    · exact mkPred_WT h (substE_WT _ _ (var_item_WT a) e e' he hw.1)
  | vtrue => simp only [replaceThisWithVarP, Pred.replaceSelf] at h; cases h; trivial
  | vfalse => simp only [replaceThisWithVarP, Pred.replaceSelf] at h; cases h; trivial

theorem replaceVarWithThisP_WT (p q : Pred) (a : String) (h : replaceVarWithThisP p a = .ok q) (hw : WTPred p) : WTPred q := by
  cases p with
  | expr e =>
    simp only [replaceVarWithThisP, Pred.replaceVar] at h
    obtain ⟨e', he, h⟩ := bind_ok h
    split at h
    · cases h; exact hw
    · exact mkPred_WT h (substV_WT _ _ this_WT e e' he hw.1)
  | vtrue => simp only [replaceVarWithThisP, Pred.replaceVar] at h; cases h; trivial
  | vfalse => simp only [replaceVarWithThisP, Pred.replaceVar] at h; cases h; trivial

end Hpl
