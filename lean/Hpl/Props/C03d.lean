import Hpl.Props.C03c
/-!
# C03 / C08 / C14 — the simplifier keeps the type of what it simplifies

`simplify_ty`: on a well-typed expression the result of the model of `hpl.rewrite.simplify` has exactly the type set
of the input (operators and calls: the single result type of the table; everything else is returned as it is or re-built
by the same constructor).
-/
namespace Hpl

theorem atomic_eq {a t : DataType} (ht : Atomic t) (hs : sub a t) (hne : a ≠ 0) : a = t := by
  unfold sub at hs
  rcases ht.2 a with h | h
  · rw [Nat.and_comm] at h; rw [h] at hs; exact absurd hs.symm hne
  · rw [Nat.and_comm] at h; rw [h] at hs; exact hs.symm

theorem litNumber_ty {v : LitVal} {e : Expr} (h : litNumber v = .ok e) : e.ty = T.NUMBER := by
  cases v <;> simp only [litNumber, LitVal.isNumber, Bool.not_true, Bool.not_false, Bool.and_self, Bool.and_false, Bool.false_and,
    Bool.false_eq_true, ↓reduceIte] at h
  all_goals first
    | (obtain ⟨s, _, h⟩ := bind_ok h; cases h; rfl)
    | (cases h; rfl)
    | cases h

theorem mkBin_ty {op : String} {a b r : Expr} (h : mkBin op a b = .ok r) : ∃ d, findBin op = some d ∧ r.ty = d.res := by
  unfold mkBin at h
  split at h
  · cases h
  · rename_i d hd
    obtain ⟨a1, _, h⟩ := bind_ok h
    obtain ⟨b1, _, h⟩ := bind_ok h
    split at h
    · obtain ⟨a2, _, h⟩ := bind_ok h
      obtain ⟨b2, _, h⟩ := bind_ok h
      cases h; exact ⟨d, hd, rfl⟩
    · cases h; exact ⟨d, hd, rfl⟩

theorem mkUn_ty {op : String} {a r : Expr} (h : mkUn op a = .ok r) : ∃ d, findUn op = some d ∧ r.ty = d.res := by
  unfold mkUn at h
  split at h
  · cases h
  · rename_i d hd
    obtain ⟨a1, _, h⟩ := bind_ok h
    cases h; exact ⟨d, hd, rfl⟩

def isArith (op : String) : Bool := op == "+" || op == "-" || op == "*" || op == "/" || op == "**"
def isLogic (op : String) : Bool := op == "and" || op == "or" || op == "implies" || op == "iff"
def isCmp (op : String) : Bool := op == "=" || op == "!=" || op == "<" || op == "<=" || op == ">" || op == ">="

theorem findBin_arith {op : String} {d : BinDef} (ho : isArith op = true) (hd : findBin op = some d) :
    d.res = T.NUMBER ∧ d.p1 = T.NUMBER ∧ d.p2 = T.NUMBER := by
  simp only [isArith, Bool.or_eq_true, beq_iff_eq] at ho
  rcases ho with (((rfl | rfl) | rfl) | rfl) | rfl <;>
    (have : findBin _ = some _ := hd; revert this; simp only [findBin, Gen.binOps]; intro this; simp at this; subst this; decide)

theorem findBin_logic {op : String} {d : BinDef} (ho : isLogic op = true) (hd : findBin op = some d) :
    d.res = T.BOOL ∧ d.p1 = T.BOOL ∧ d.p2 = T.BOOL := by
  simp only [isLogic, Bool.or_eq_true, beq_iff_eq] at ho
  rcases ho with ((rfl | rfl) | rfl) | rfl <;>
    (have : findBin _ = some _ := hd; revert this; simp only [findBin, Gen.binOps]; intro this; simp at this; subst this; decide)

theorem findBin_cmp {op : String} {d : BinDef} (ho : isCmp op = true) (hd : findBin op = some d) : d.res = T.BOOL := by
  simp only [isCmp, Bool.or_eq_true, beq_iff_eq] at ho
  rcases ho with ((((rfl | rfl) | rfl) | rfl) | rfl) | rfl <;>
    (have : findBin _ = some _ := hd; revert this; simp only [findBin, Gen.binOps]; intro this; simp at this; subst this; decide)

theorem bool_atomic : Atomic T.BOOL := G1_atoms.1
theorem number_atomic : Atomic T.NUMBER := G1_atoms.2.1

/-- operands and result of a well-typed arithmetic operator are numbers -/
theorem arith_tys {t : DataType} {op : String} {a b : Expr} (ho : isArith op = true) (hw : WT (.bin t op a b)) :
    t = T.NUMBER ∧ a.ty = T.NUMBER ∧ b.ty = T.NUMBER := by
  obtain ⟨d, hd, ht, ha, hb, hsa, hsb, _⟩ := hw
  obtain ⟨h1, h2, h3⟩ := findBin_arith ho hd
  rw [h2] at hsa; rw [h3] at hsb
  exact ⟨ht.trans h1, atomic_eq number_atomic hsa (WT_ne _ ha), atomic_eq number_atomic hsb (WT_ne _ hb)⟩

/-- … of a well-typed boolean connective are booleans -/
theorem logic_tys {t : DataType} {op : String} {a b : Expr} (ho : isLogic op = true) (hw : WT (.bin t op a b)) :
    t = T.BOOL ∧ a.ty = T.BOOL ∧ b.ty = T.BOOL := by
  obtain ⟨d, hd, ht, ha, hb, hsa, hsb, _⟩ := hw
  obtain ⟨h1, h2, h3⟩ := findBin_logic ho hd
  rw [h2] at hsa; rw [h3] at hsb
  exact ⟨ht.trans h1, atomic_eq bool_atomic hsa (WT_ne _ ha), atomic_eq bool_atomic hsb (WT_ne _ hb)⟩

theorem cmp_ty {t : DataType} {op : String} {a b : Expr} (ho : isCmp op = true) (hw : WT (.bin t op a b)) : t = T.BOOL := by
  obtain ⟨d, hd, ht, _⟩ := hw
  exact ht.trans (findBin_cmp ho hd)

theorem not_tys {t : DataType} {a : Expr} (hw : WT (.un t Gen.NOT_OPERATOR a)) : t = T.BOOL ∧ a.ty = T.BOOL := by
  obtain ⟨d, hd, ht, ha, hs⟩ := hw
  have : d = ⟨"not", T.BOOL, T.BOOL⟩ := by
    have h2 : findUn "not" = some d := hd
    revert h2; simp only [findUn, Gen.unOps]; intro h2; simp at h2; exact h2.symm
  subst this
  exact ⟨ht, atomic_eq bool_atomic hs (WT_ne _ ha)⟩

theorem neg_tys {t : DataType} {a : Expr} (hw : WT (.un t "-" a)) : t = T.NUMBER ∧ a.ty = T.NUMBER := by
  obtain ⟨d, hd, ht, ha, hs⟩ := hw
  have : d = ⟨"-", T.NUMBER, T.NUMBER⟩ := by
    revert hd; simp only [findUn, Gen.unOps]; intro h2; simp at h2; exact h2.symm
  subst this
  exact ⟨ht, atomic_eq number_atomic hs (WT_ne _ ha)⟩

theorem mkBin_ty_arith {op : String} {a b r : Expr} (ho : isArith op = true) (h : mkBin op a b = .ok r) : r.ty = T.NUMBER := by
  obtain ⟨d, hd, hr⟩ := mkBin_ty h; rw [hr]; exact (findBin_arith ho hd).1
theorem mkBin_ty_logic {op : String} {a b r : Expr} (ho : isLogic op = true) (h : mkBin op a b = .ok r) : r.ty = T.BOOL := by
  obtain ⟨d, hd, hr⟩ := mkBin_ty h; rw [hr]; exact (findBin_logic ho hd).1
theorem mkNot_ty {a r : Expr} (h : mkNot a = .ok r) : r.ty = T.BOOL := by
  obtain ⟨d, hd, hr⟩ := mkUn_ty h
  have : d = ⟨"not", T.BOOL, T.BOOL⟩ := by
    have h2 : findUn "not" = some d := hd
    revert h2; simp only [findUn, Gen.unOps]; intro h2; simp at h2; exact h2.symm
  subst this; exact hr
theorem mkMinus_ty {a r : Expr} (h : mkMinus a = .ok r) : r.ty = T.NUMBER := by
  obtain ⟨d, hd, hr⟩ := mkUn_ty h
  have : d = ⟨"-", T.NUMBER, T.NUMBER⟩ := by
    have h2 : findUn "-" = some d := hd
    revert h2; simp only [findUn, Gen.unOps]; intro h2; simp at h2; exact h2.symm
  subst this; exact hr

/-! ## the rule functions -/

def BoolT (e : Expr) : Prop := WT e ∧ e.ty = T.BOOL
def NumT (e : Expr) : Prop := WT e ∧ e.ty = T.NUMBER

theorem flattenOp_ty {op : String} (ho : isLogic op = true) : ∀ (f : Nat) (stack acc : List Expr), (∀ e ∈ stack, BoolT e) → (∀ e ∈ acc, BoolT e) →
    ∀ e ∈ flattenOp op f stack acc, BoolT e
  | 0, _, acc, _, ha => by simpa [flattenOp] using ha
  | f+1, [], acc, _, ha => by simpa [flattenOp] using ha
  | f+1, x :: stack, acc, hs, ha => by
      have hx := hs x (by simp)
      have hst : ∀ e ∈ stack, BoolT e := fun e he => hs e (List.mem_cons_of_mem _ he)
      have hacc : ∀ e ∈ acc ++ [x], BoolT e := by
        intro e he
        rcases List.mem_append.1 he with h | h
        · exact ha e h
        · simp only [List.mem_singleton] at h; subst h; exact hx
      cases x with
      | bin t o a b =>
        simp only [flattenOp]
        split
        · rename_i heq
          have : o = op := eq_of_beq heq
          subst this
          have w := WT_bin_inv hx.1
          have tys := logic_tys ho hx.1
          refine flattenOp_ty ho f _ _ ?_ ha
          intro e he
          simp only [List.mem_cons] at he
          rcases he with rfl | rfl | he
          · exact ⟨w.2, tys.2.2⟩
          · exact ⟨w.1, tys.2.1⟩
          · exact hst e he
        · exact flattenOp_ty ho f _ _ hst hacc
      | _ => simp only [flattenOp]; exact flattenOp_ty ho f _ _ hst hacc

theorem getJuncts_ty {op : String} (ho : isLogic op = true) {e : Expr} (h : BoolT e) : ∀ x ∈ getJuncts op e, BoolT x :=
  flattenOp_ty ho _ [e] [] (by simpa using h) (by simp)

theorem foldlM_ty {mk : Expr → Expr → M Expr} (hmk : ∀ a b r, mk a b = .ok r → r.ty = T.BOOL) :
    ∀ (rest : List Expr) (psi r : Expr), rest.foldlM (fun acc c => mk c acc) psi = .ok r → psi.ty = T.BOOL → r.ty = T.BOOL
  | [], psi, r, h, hp => by simp only [List.foldlM_nil, pure, Except.pure, Except.ok.injEq] at h; subst h; exact hp
  | c :: rest, psi, r, h, _ => by
      simp only [List.foldlM_cons] at h
      obtain ⟨psi', h1, h⟩ := bind_ok h
      exact foldlM_ty hmk rest psi' r h (hmk _ _ _ h1)

theorem chain_ty {mk : Expr → Expr → M Expr} (hmk : ∀ a b r, mk a b = .ok r → r.ty = T.BOOL) {l : List Expr} {r : Expr}
    (h : chain mk l = .ok r) (hl : ∀ e ∈ l, e.ty = T.BOOL) : r.ty = T.BOOL := by
  match l, h with
  | [c], h => simp only [chain, Except.ok.injEq] at h; subst h; exact hl c (by simp)
  | c0 :: c1 :: rest, h =>
    simp only [chain] at h
    obtain ⟨psi, h1, h⟩ := bind_ok h
    exact foldlM_ty hmk rest psi r h (hmk _ _ _ h1)

theorem dedupeJuncts_ty {op : String} (ho : isLogic op = true) {mk : Expr → Expr → M Expr} (hmk : ∀ a b r, mk a b = .ok r → r.ty = T.BOOL)
    {phi p q r : Expr} (h : dedupeJuncts op mk phi p q = .ok r) (hphi : phi.ty = T.BOOL) (hp : BoolT p) (hq : BoolT q) : r.ty = T.BOOL := by
  have hjs : ∀ e ∈ getJuncts op p ++ getJuncts op q, e.ty = T.BOOL := by
    intro e he
    rcases List.mem_append.1 he with h | h
    · exact (getJuncts_ty ho hp e h).2
    · exact (getJuncts_ty ho hq e h).2
  unfold dedupeJuncts at h
  simp only at h
  split at h
  · split at h
    · cases h
      cases hj : getJuncts op p ++ getJuncts op q with
      | nil => simpa [List.headD] using hphi
      | cons x xs => simp only [List.headD]; exact hjs x (by rw [hj]; simp)
    · exact chain_ty hmk h (fun e he => hjs e (mem_eraseDups he))
  · exact hmk _ _ _ h

theorem simpConjunction_ty {phi p q r : Expr} (h : simpConjunction phi p q = .ok r) (hphi : phi.ty = T.BOOL) (hp : BoolT p) (hq : BoolT q) :
    r.ty = T.BOOL := by
  unfold simpConjunction at h
  split at h; · cases h; exact hp.2
  split at h; · cases h; exact hq.2
  split at h; · cases h; exact hq.2
  split at h; · cases h; exact hp.2
  split at h; · cases h; exact hp.2
  split at h; · cases h; rfl
  exact dedupeJuncts_ty (op := Gen.AND_OPERATOR) (by decide) (fun _ _ _ hm => mkBin_ty_logic (op := "and") (by decide) hm) h hphi hp hq

theorem simpDisjunction_ty {phi p q r : Expr} (h : simpDisjunction phi p q = .ok r) (hphi : phi.ty = T.BOOL) (hp : BoolT p) (hq : BoolT q) :
    r.ty = T.BOOL := by
  unfold simpDisjunction at h
  split at h; · cases h; exact hp.2
  split at h; · cases h; exact hq.2
  split at h; · cases h; exact hq.2
  split at h; · cases h; exact hp.2
  split at h; · cases h; exact hp.2
  split at h; · cases h; rfl
  exact dedupeJuncts_ty (op := Gen.OR_OPERATOR) (by decide) (fun _ _ _ hm => mkBin_ty_logic (op := "or") (by decide) hm) h hphi hp hq

theorem simpComparison_ty {phi : Expr} {op : String} {a b r : Expr} (h : simpComparison phi op a b = .ok r) (hphi : phi.ty = T.BOOL) : r.ty = T.BOOL := by
  unfold simpComparison at h
  split at h
  · split at h; · cases h; rfl
    split at h; · obtain ⟨x, _, h⟩ := bind_ok h; cases h; rfl
    split at h; · obtain ⟨x, _, h⟩ := bind_ok h; cases h; rfl
    split at h; · obtain ⟨x, _, h⟩ := bind_ok h; cases h; rfl
    split at h; · obtain ⟨x, _, h⟩ := bind_ok h; cases h; rfl
    cases h; rfl
  · split at h
    · split at h; · cases h; rfl
      split at h; · cases h; rfl
      cases h; exact hphi
    · cases h; exact hphi

theorem simpAddition_ty {expr a b r : Expr} (h : simpAddition expr a b = .ok r) (he : expr.ty = T.NUMBER) (ha : a.ty = T.NUMBER) (hb : b.ty = T.NUMBER) :
    r.ty = T.NUMBER := by
  unfold simpAddition at h
  split at h
  · split at h; · cases h; exact ha
    split at h
    · split at h; · cases h; exact hb
      obtain ⟨v, hv, h⟩ := bind_ok h
      exact litNumber_ty h
    · split at h
      · exact litNumber_ty h
      · cases h; exact he
  · split at h
    · exact litNumber_ty h
    · cases h; exact he

theorem simpSubtraction_ty {expr a b r : Expr} (h : simpSubtraction expr a b = .ok r) (he : expr.ty = T.NUMBER) (ha : NumT a)
    (hb : NumT b) : r.ty = T.NUMBER := by
  have rest : ∀ r, (if (a == b) = true then litNumber (.int 0)
      else match b with
        | .un _ op x => if (op == "-") = true then do let e ← mkAdd a x; (match e with | .bin _ _ a' b' => simpAddition e a' b' | _ => .ok e) else .ok expr
        | _ => .ok expr) = .ok r → r.ty = T.NUMBER := by
    intro r hr
    split at hr
    · exact litNumber_ty hr
    · split at hr
      · rename_i op x hne
        split at hr
        · obtain ⟨e, hmk, hr⟩ := bind_ok hr
          have hte : e.ty = T.NUMBER := mkBin_ty_arith (op := "+") (by decide) hmk
          have hwe := mkAdd_WT hmk ha.1 (WT_un_inv hb.1)
          obtain ⟨t', a'', b'', hshape⟩ := mkBin_shape hmk
          subst hshape
          simp only at hr
          have tys := arith_tys (op := "+") (by decide) hwe
          exact simpAddition_ty hr hte tys.2.1 tys.2.2
        · cases hr; exact he
      · cases hr; exact he
  unfold simpSubtraction at h
  simp only at h
  split at h
  · split at h; · cases h; exact ha.2
    split at h
    · obtain ⟨v, hv, h⟩ := bind_ok h
      exact litNumber_ty h
    · exact rest r h
  · exact rest r h

theorem simpDivision_ty {expr a b r : Expr} (h : simpDivision expr a b = .ok r) (he : expr.ty = T.NUMBER) (ha : a.ty = T.NUMBER) : r.ty = T.NUMBER := by
  have rest : ∀ r, (if (a == b) = true then litNumber (.int 1) else if obviousNegatives a b = true then litNumber (.int (-1)) else .ok expr) = .ok r → r.ty = T.NUMBER := by
    intro r hr
    split at hr; · exact litNumber_ty hr
    split at hr; · exact litNumber_ty hr
    cases hr; exact he
  unfold simpDivision at h
  simp only at h
  split at h
  · split at h; · cases h
    split at h; · cases h; exact ha
    split at h
    · split at h; · cases h; exact ha
      obtain ⟨v, hv, h⟩ := bind_ok h
      exact litNumber_ty h
    · exact rest r h
  · exact rest r h

theorem simpExponentiation_ty {expr a b r : Expr} (h : simpExponentiation expr a b = .ok r) (he : expr.ty = T.NUMBER) (ha : a.ty = T.NUMBER) :
    r.ty = T.NUMBER := by
  unfold simpExponentiation at h
  split at h
  · split at h; · cases h; exact ha
    split at h; · exact litNumber_ty h
    split at h
    · split at h; · cases h; exact ha
      obtain ⟨v, hv, h⟩ := bind_ok h
      exact litNumber_ty h
    · cases h; exact he
  · cases h; exact he

theorem negationRule_ty {p r : Expr}
    (h : (if isTrueLit p then pure falseLit
      else if isFalseLit p then pure trueLit
      else match p with
        | .un _ op2 x => if op2 == Gen.NOT_OPERATOR then pure x else mkNot p
        | _ => mkNot p : M Expr) = .ok r) (hp : WT p) : r.ty = T.BOOL := by
  split at h; · cases h; rfl
  split at h; · cases h; rfl
  split at h
  · split at h
    · rename_i hop
      have := eq_of_beq hop; subst this
      cases h; exact (not_tys hp).2
    · exact mkNot_ty h
  · exact mkNot_ty h

theorem negNumberRule_ty {a' r : Expr}
    (h : (match numLit? a' with
      | some v => do let n ← pyNeg v; litNumber n
      | none =>
        match a' with
        | .un _ op x => if op == "-" then pure x else mkMinus a'
        | _ => mkMinus a' : M Expr) = .ok r) (hp : WT a') : r.ty = T.NUMBER := by
  split at h
  · obtain ⟨n, hn, h⟩ := bind_ok h
    exact litNumber_ty h
  · split at h
    · split at h
      · rename_i hop
        have := eq_of_beq hop; subst this
        cases h; exact (neg_tys hp).2
      · exact mkMinus_ty h
    · exact mkMinus_ty h

/-! ## re-association, multiplication, equivalence, calls -/

theorem reassoc_ty {op : String} {sb : Expr → M Expr} {a b r : Expr} (h : reassoc op sb a b = .ok r) :
    ∃ d, findBin op = some d ∧ r.ty = d.res := by
  unfold reassoc at h
  split at h
  · obtain ⟨⟨a1', a2', b1', b2', a', b'⟩, _, h⟩ := bind_ok h
    simp only at h
    split at h
    · obtain ⟨na, _, h⟩ := bind_ok h
      obtain ⟨ra, _, h⟩ := bind_ok h
      obtain ⟨nb, _, h⟩ := bind_ok h
      obtain ⟨rb, _, h⟩ := bind_ok h
      exact mkBin_ty h
    · exact mkBin_ty h
  · split at h
    · obtain ⟨na, _, h⟩ := bind_ok h
      obtain ⟨ra, _, h⟩ := bind_ok h
      exact mkBin_ty h
    · exact mkBin_ty h
  · split at h
    · obtain ⟨nb, _, h⟩ := bind_ok h
      obtain ⟨rb, _, h⟩ := bind_ok h
      exact mkBin_ty h
    · exact mkBin_ty h
  · exact mkBin_ty h

theorem simpMultiplication_ty (f : Nat) (ihN : ∀ e a r, simpNeg f e a = .ok r → WT a → r.ty = T.NUMBER)
    {expr a b r : Expr} (h : simpMultiplication (f + 1) expr a b = .ok r) (he : expr.ty = T.NUMBER) (ha : NumT a) (hb : NumT b) :
    r.ty = T.NUMBER := by
  have tail : ∀ r, (match isDivision b with | some (x', y') => if (y' == a) = true then (.ok x' : M Expr) else .ok expr | none => .ok expr) = .ok r →
      r.ty = T.NUMBER := by
    intro r hr
    split at hr
    · rename_i x' y' hd
      obtain ⟨tb, rfl⟩ := isDivision_some hd
      split at hr
      · have hr' := Except.ok.inj hr; subst hr'; exact (arith_tys (op := "/") (by decide) hb.1).2.1
      · cases hr; exact he
    · cases hr; exact he
  have divRules : ∀ r, (match isDivision a with
      | some (x, y) => if (y == b) = true then (.ok x : M Expr) else
          (match isDivision b with | some (x', y') => if (y' == a) = true then .ok x' else .ok expr | none => .ok expr)
      | none => match isDivision b with | some (x', y') => if (y' == a) = true then .ok x' else .ok expr | none => .ok expr) = .ok r →
      r.ty = T.NUMBER := by
    intro r hr
    split at hr
    · rename_i x' y' hd
      obtain ⟨ta, rfl⟩ := isDivision_some hd
      split at hr
      · have hr' := Except.ok.inj hr; subst hr'; exact (arith_tys (op := "/") (by decide) ha.1).2.1
      · exact tail r hr
    · exact tail r hr
  unfold simpMultiplication at h
  simp only at h
  split at h
  · split at h; · cases h; exact ha.2
    split at h; · cases h; exact hb.2
    split at h
    · split at h; · cases h; exact hb.2
      split at h; · cases h; exact ha.2
      obtain ⟨v, hv, h⟩ := bind_ok h
      exact litNumber_ty h
    · split at h
      · obtain ⟨m, hm, h⟩ := bind_ok h
        have hwm := mkMinus_WT hm ha.1
        obtain ⟨tm, a', rfl⟩ := mkUn_shape hm
        simp only at h
        exact ihN _ _ _ h (WT_un_inv hwm)
      · exact divRules r h
  · exact divRules r h

theorem findFun_result {fn : String} {d : FunDef} (hd : findFun fn = some d) :
    (fn = "abs" ∨ fn = "int" ∨ fn = "float" ∨ fn = "len" ∨ fn = "sum" ∨ fn = "prod" ∨ fn = "max" ∨ fn = "min" ∨ fn = "gcd" ∨ fn = "ceil" ∨ fn = "floor" →
      d.result = T.NUMBER) ∧ (fn = "bool" → d.result = T.BOOL) ∧ (fn = "str" → d.result = T.STRING) := by
  refine ⟨?_, ?_, ?_⟩
  · intro h
    rcases h with rfl | rfl | rfl | rfl | rfl | rfl | rfl | rfl | rfl | rfl | rfl <;>
      (revert hd; simp only [findFun, Gen.funs]; intro h2; simp at h2; subst h2; rfl)
  · rintro rfl; revert hd; simp only [findFun, Gen.funs]; intro h2; simp at h2; subst h2; rfl
  · rintro rfl; revert hd; simp only [findFun, Gen.funs]; intro h2; simp at h2; subst h2; rfl

theorem mkCall_ty {fn : String} {args : ExprList} {r : Expr} (h : mkCall fn args = .ok r) : ∃ d, findFun fn = some d ∧ r.ty = d.result := by
  unfold mkCall at h
  split at h
  · cases h
  · rename_i d hd
    split at h
    · cases h
    · obtain ⟨args', _, h⟩ := bind_ok h; cases h; exact ⟨d, hd, rfl⟩
    · cases h; exact ⟨d, hd, rfl⟩

theorem foldMinMax_ty {call : Expr} {fn : String} {isMax : Bool} {values : List Expr} {r : Expr} {d : FunDef}
    (h : foldMinMax call fn isMax values = .ok r) (hd : findFun fn = some d) (hc : call.ty = d.result) (hn : d.result = T.NUMBER) :
    r.ty = d.result := by
  unfold foldMinMax at h
  simp only at h
  split at h
  · cases h; exact hc
  · obtain ⟨m, hm, h⟩ := bind_ok h
    obtain ⟨n, hn', h⟩ := bind_ok h
    split at h
    · cases h; rw [hn]; exact litNumber_ty hn'
    · obtain ⟨d', hd', hr⟩ := mkCall_ty h
      rw [hd] at hd'; cases hd'; exact hr

theorem simpCall_ty (f : Nat) (ihS : ∀ e r, simp f e = .ok r → WT e → WT r) {t : DataType} {fn : String} {args : ExprList} {r : Expr}
    (h : simpCall (f + 1) (.call t fn args) fn args = .ok r) (hc : WT (.call t fn args)) : r.ty = t := by
  obtain ⟨d, hd, ht, _⟩ := hc
  obtain ⟨hnum, hbool, hstr⟩ := findFun_result hd
  have keep : (Expr.call t fn args).ty = t := rfl
  unfold simpCall at h
  extract_lets arg0 at h
  by_cases c0 : (fn == "abs") = true
  · simp only [c0, ↓reduceIte] at h
    have hfn := eq_of_beq c0
    obtain ⟨a, ha, h⟩ := bind_ok h
    split at h
    · obtain ⟨v, hv, h⟩ := bind_ok h; rw [ht, hnum (by simp [hfn])]; exact litNumber_ty h
    · cases h; exact keep
  simp only [c0, Bool.false_eq_true, ↓reduceIte] at h
  by_cases c1 : (fn == "bool") = true
  · simp only [c1, ↓reduceIte] at h
    have hfn := eq_of_beq c1
    obtain ⟨a, ha, h⟩ := bind_ok h
    split at h
    · cases h; rw [ht, hbool hfn]; rfl
    · cases h; exact keep
  simp only [c1, Bool.false_eq_true, ↓reduceIte] at h
  by_cases c2 : (fn == "int") = true
  · simp only [c2, ↓reduceIte] at h
    have hfn := eq_of_beq c2
    obtain ⟨a, ha, h⟩ := bind_ok h
    split at h
    · obtain ⟨n, hn, h⟩ := bind_ok h; rw [ht, hnum (by simp [hfn])]; exact litNumber_ty h
    · cases h; exact keep
  simp only [c2, Bool.false_eq_true, ↓reduceIte] at h
  by_cases c3 : (fn == "float") = true
  · simp only [c3, ↓reduceIte] at h
    have hfn := eq_of_beq c3
    have hres : t = T.NUMBER := by rw [ht, hnum (by simp [hfn])]
    obtain ⟨a, ha, h⟩ := bind_ok h
    split at h
    · obtain ⟨v, hv, h⟩ := bind_ok h; rw [hres]; exact litNumber_ty h
    · split at h
      · rw [hres]; exact litNumber_ty h
      · rw [hres]; exact litNumber_ty h
    · cases h; exact keep
  simp only [c3, Bool.false_eq_true, ↓reduceIte] at h
  by_cases c4 : (fn == "str") = true
  · simp only [c4, ↓reduceIte] at h
    have hfn := eq_of_beq c4
    obtain ⟨a, ha, h⟩ := bind_ok h
    split at h
    · obtain ⟨sv, hs, h⟩ := bind_ok h
      split at h
      · cases h
      · cases h; rw [ht, hstr hfn]; rfl
    · cases h; exact keep
  simp only [c4, Bool.false_eq_true, ↓reduceIte] at h
  by_cases c5 : (fn == "len") = true
  · simp only [c5, ↓reduceIte] at h
    have hfn := eq_of_beq c5
    have hres : t = T.NUMBER := by rw [ht, hnum (by simp [hfn])]
    obtain ⟨a, ha, h⟩ := bind_ok h
    split at h
    · split at h
      · rw [hres]; exact litNumber_ty h
      · cases h; exact keep
    · split at h
      · obtain ⟨⟨lb, ub⟩, _, h⟩ := bind_ok h; rw [hres]; exact litNumber_ty h
      · cases h; exact keep
    · rw [hres]; exact litNumber_ty h
    · cases h; exact keep
  simp only [c5, Bool.false_eq_true, ↓reduceIte] at h
  by_cases c6 : (fn == "sum") = true
  · simp only [c6, ↓reduceIte] at h
    have hfn := eq_of_beq c6
    have hres : t = T.NUMBER := by rw [ht, hnum (by simp [hfn])]
    obtain ⟨a, ha, h⟩ := bind_ok h
    split at h
    · split at h
      · obtain ⟨v, hv, h⟩ := bind_ok h; rw [hres]; exact litNumber_ty h
      · cases h; exact keep
    · split at h
      · obtain ⟨⟨lb, ub⟩, _, h⟩ := bind_ok h; rw [hres]; exact litNumber_ty h
      · cases h; exact keep
    · cases h; exact keep
  simp only [c6, Bool.false_eq_true, ↓reduceIte] at h
  by_cases c7 : (fn == "prod") = true
  · simp only [c7, ↓reduceIte] at h
    have hfn := eq_of_beq c7
    have hres : t = T.NUMBER := by rw [ht, hnum (by simp [hfn])]
    obtain ⟨a, ha, h⟩ := bind_ok h
    split at h
    · split at h
      · rw [hres]; exact litNumber_ty h
      · split at h
        · obtain ⟨v, hv, h⟩ := bind_ok h; rw [hres]; exact litNumber_ty h
        · cases h; exact keep
    · split at h
      · obtain ⟨⟨lb, ub⟩, _, h⟩ := bind_ok h
        split at h
        · cases h
        · rw [hres]; exact litNumber_ty h
      · cases h; exact keep
    · cases h; exact keep
  simp only [c7, Bool.false_eq_true, ↓reduceIte] at h
  by_cases c8 : (fn == "max" || fn == "min") = true
  · simp only [c8, ↓reduceIte] at h
    have hfn : fn = "max" ∨ fn = "min" := by simpa [Bool.or_eq_true, beq_iff_eq] using c8
    have hdn : d.result = T.NUMBER := hnum (by rcases hfn with h | h <;> simp [h])
    have hres : t = T.NUMBER := by rw [ht, hdn]
    have hcall : (Expr.call t fn args).ty = d.result := ht
    split at h
    · obtain ⟨a, ha, h⟩ := bind_ok h
      split at h
      · split at h
        · obtain ⟨li, _, h⟩ := bind_ok h
          obtain ⟨hi', _, h⟩ := bind_ok h
          repeat' (split at h)
          all_goals first | (rw [hres]; exact litNumber_ty h) | (cases h; exact keep)
        · cases h; exact keep
      · rw [ht]; exact foldMinMax_ty h hd hcall hdn
      · cases h; exact keep
    · rw [ht]; exact foldMinMax_ty h hd hcall hdn
  simp only [c8, Bool.false_eq_true, ↓reduceIte] at h
  by_cases c9 : (fn == "gcd") = true
  · simp only [c9, ↓reduceIte] at h
    have hfn := eq_of_beq c9
    have hres : t = T.NUMBER := by rw [ht, hnum (by simp [hfn])]
    split at h
    · obtain ⟨x, hx, h⟩ := bind_ok h
      obtain ⟨y, hy, h⟩ := bind_ok h
      split at h
      · rw [hres]; exact litNumber_ty h
      · cases h
      · cases h; exact keep
    · cases h; exact keep
  simp only [c9, Bool.false_eq_true, ↓reduceIte] at h
  by_cases c10 : (fn == "ceil") = true
  · simp only [c10, ↓reduceIte] at h
    have hfn := eq_of_beq c10
    have hres : t = T.NUMBER := by rw [ht, hnum (by simp [hfn])]
    obtain ⟨a, ha, h⟩ := bind_ok h
    split at h
    · split at h
      · rw [hres]; exact litNumber_ty h
      · cases h
    · cases h; exact keep
  simp only [c10, Bool.false_eq_true, ↓reduceIte] at h
  by_cases c11 : (fn == "floor") = true
  · simp only [c11, ↓reduceIte] at h
    have hfn := eq_of_beq c11
    have hres : t = T.NUMBER := by rw [ht, hnum (by simp [hfn])]
    obtain ⟨a, ha, h⟩ := bind_ok h
    split at h
    · split at h
      · rw [hres]; exact litNumber_ty h
      · cases h
    · cases h; exact keep
  simp only [c11, Bool.false_eq_true, ↓reduceIte] at h
  by_cases c12 : (opaqueFuns.contains fn) = true
  · simp only [c12, ↓reduceIte] at h
    obtain ⟨a, ha, h⟩ := bind_ok h
    split at h
    · cases h
    · cases h; exact keep
  simp only [c12, Bool.false_eq_true, ↓reduceIte] at h
  by_cases c13 : (fn == "atan2" || fn == "log") = true
  · simp only [c13, ↓reduceIte] at h
    split at h
    · obtain ⟨x, hx, h⟩ := bind_ok h
      obtain ⟨y, hy, h⟩ := bind_ok h
      split at h
      · cases h
      · cases h; exact keep
    · cases h
  simp only [c13, Bool.false_eq_true, ↓reduceIte] at h
  cases h; exact keep

theorem simpCall_ty_any (f : Nat) {t : DataType} {fn : String} {args : ExprList} {r : Expr}
    (h : simpCall f (.call t fn args) fn args = .ok r) (hc : WT (.call t fn args)) : r.ty = t := by
  cases f with
  | zero => simp [simpCall] at h
  | succ f => exact simpCall_ty f (typedAt f).tS h hc

/-! ## the recursion -/

structure TyAt (f : Nat) : Prop where
  yS : ∀ e r, simp f e = .ok r → WT e → r.ty = e.ty
  yN : ∀ e a r, simpNeg f e a = .ok r → WT a → r.ty = T.NUMBER
  yB : ∀ e r, simpBinop f e = .ok r → WT e → r.ty = e.ty
  yM : ∀ expr a b r, simpMultiplication f expr a b = .ok r → expr.ty = T.NUMBER → NumT a → NumT b → r.ty = T.NUMBER
  yP : ∀ e r, preBinop f e = .ok r → WT e → r.ty = e.ty

theorem tyAt_zero : TyAt 0 := by
  refine ⟨?_, ?_, ?_, ?_, ?_⟩
  · intro e r h; simp [simp] at h
  · intro e a r h; simp [simpNeg] at h
  · intro e r h; simp [simpBinop] at h
  · intro expr a b r h; simp [simpMultiplication] at h
  · intro e r h; simp [preBinop] at h

theorem ystep_pre {f : Nat} : ∀ e r, preBinop (f + 1) e = .ok r → WT e → r.ty = e.ty := by
  intro e r h hw
  cases e with
  | bin t op x y =>
    obtain ⟨d, hd, ht, _⟩ := hw
    have same : ∀ {a b r : Expr}, mkBin op a b = .ok r → r.ty = (Expr.bin t op x y).ty := by
      intro a b r hm
      obtain ⟨d', hd', hr⟩ := mkBin_ty hm
      rw [hd] at hd'; cases hd'; rw [hr]; exact ht.symm
    simp only [preBinop] at h
    obtain ⟨a, ha, h⟩ := bind_ok h
    obtain ⟨b, hb, h⟩ := bind_ok h
    split at h
    · exact same h
    · split at h
      · exact same h
      · split at h
        · split at h
          · cases h
          · rename_i d2 hd2
            rw [hd] at hd2; cases hd2
            split at h
            · exact same h
            · rename_i hc
              split at h
              · exact same h
              · rename_i inv hinv
                have hpair := findBin_inverse hd (by simpa using hc) hinv
                obtain ⟨d', hd', hr⟩ := mkBin_ty h
                have hcmp_op : isCmp op = true := by
                  rcases hpair with hp | hp | hp | hp <;> (simp only [Prod.mk.injEq] at hp; obtain ⟨rfl, rfl⟩ := hp; decide)
                have hcmp_inv : isCmp inv = true := by
                  rcases hpair with hp | hp | hp | hp <;> (simp only [Prod.mk.injEq] at hp; obtain ⟨rfl, rfl⟩ := hp; decide)
                rw [hr, findBin_cmp hcmp_inv hd']
                show T.BOOL = t
                rw [ht, findBin_cmp hcmp_op hd]
        · split at h
          · cases h
          · rename_i d2 hd2
            rw [hd] at hd2; cases hd2
            split at h
            · obtain ⟨d', hd', hr⟩ := reassoc_ty h
              rw [hd] at hd'; cases hd'; rw [hr]; exact ht.symm
            · exact same h
  | _ => simp [preBinop] at h

theorem opEq {op : String} {s : String} (h : (op == s) = true) : op = s := eq_of_beq h

theorem ystep_binop {f : Nat} (ih : TyAt f) : ∀ e r, simpBinop (f + 1) e = .ok r → WT e → r.ty = e.ty := by
  intro e r h hw
  simp only [simpBinop] at h
  obtain ⟨e', he', h⟩ := bind_ok h
  have hw' := (typedAt f).tP _ _ he' hw
  have hty' := ih.yP _ _ he' hw
  rw [← hty']
  cases e' with
  | bin t op a b =>
    have wab := WT_bin_inv hw'
    show r.ty = t
    simp only at h
    split at h
    · rename_i ho; have := opEq ho; subst this
      have tys := logic_tys (op := "and") (by decide) hw'
      rw [tys.1]; exact simpConjunction_ty h tys.1 ⟨wab.1, tys.2.1⟩ ⟨wab.2, tys.2.2⟩
    split at h
    · rename_i ho; have := opEq ho; subst this
      have tys := logic_tys (op := "or") (by decide) hw'
      rw [tys.1]; exact simpDisjunction_ty h tys.1 ⟨wab.1, tys.2.1⟩ ⟨wab.2, tys.2.2⟩
    split at h
    · rename_i ho; have := opEq ho; subst this
      have tys := logic_tys (op := "implies") (by decide) hw'
      rw [tys.1]
      split at h
      · cases h; rfl
      · obtain ⟨na, hna, h⟩ := bind_ok h
        obtain ⟨dd, hdd, h⟩ := bind_ok h
        rw [ih.yS _ _ h (mkOr_WT hdd (mkNot_WT hna wab.1) wab.2)]
        exact mkBin_ty_logic (op := "or") (by decide) hdd
    split at h
    · rename_i ho; have := opEq ho; subst this
      have tys := logic_tys (op := "iff") (by decide) hw'
      rw [tys.1]
      split at h; · cases h; rfl
      split at h; · cases h; rfl
      obtain ⟨i1, h1, h⟩ := bind_ok h
      obtain ⟨i2, h2, h⟩ := bind_ok h
      obtain ⟨c, hc, h⟩ := bind_ok h
      rw [ih.yS _ _ h (mkAnd_WT hc (mkImplies_WT h1 wab.1 wab.2) (mkImplies_WT h2 wab.2 wab.1))]
      exact mkBin_ty_logic (op := "and") (by decide) hc
    split at h
    · rename_i ho
      have hcmp : isCmp op = true := by simpa [isCmp] using ho
      have := cmp_ty hcmp hw'
      rw [this]; exact simpComparison_ty h this
    split at h
    · rename_i ho; have := opEq ho; subst this
      have tys := arith_tys (op := "+") (by decide) hw'
      rw [tys.1]; exact simpAddition_ty h tys.1 tys.2.1 tys.2.2
    split at h
    · rename_i ho; have := opEq ho; subst this
      have tys := arith_tys (op := "-") (by decide) hw'
      rw [tys.1]; exact simpSubtraction_ty h tys.1 ⟨wab.1, tys.2.1⟩ ⟨wab.2, tys.2.2⟩
    split at h
    · rename_i ho; have := opEq ho; subst this
      have tys := arith_tys (op := "*") (by decide) hw'
      rw [tys.1]; exact ih.yM _ _ _ _ h tys.1 ⟨wab.1, tys.2.1⟩ ⟨wab.2, tys.2.2⟩
    split at h
    · rename_i ho; have := opEq ho; subst this
      have tys := arith_tys (op := "/") (by decide) hw'
      rw [tys.1]; exact simpDivision_ty h tys.1 tys.2.1
    split at h
    · rename_i ho; have := opEq ho; subst this
      have tys := arith_tys (op := "**") (by decide) hw'
      rw [tys.1]; exact simpExponentiation_ty h tys.1 tys.2.1
    cases h; rfl
  | _ => simp at h

theorem ystep_simp {f : Nat} (ih : TyAt f) : ∀ e r, simp (f + 1) e = .ok r → WT e → r.ty = e.ty := by
  intro e r h hw
  cases e with
  | un t op a =>
    simp only [simp] at h
    split at h
    · rename_i ho; have := opEq ho; subst this
      obtain ⟨p, hp, h⟩ := bind_ok h
      rw [negationRule_ty h ((typedAt f).tS _ _ hp (WT_un_inv hw))]
      exact (not_tys hw).1.symm
    · split at h
      · rename_i ho; have := opEq ho; subst this
        rw [ih.yN _ _ _ h (WT_un_inv hw)]
        exact (neg_tys hw).1.symm
      · cases h; rfl
  | bin t op a b => simp only [simp] at h; exact ih.yB _ _ h hw
  | call t fn args => simp only [simp] at h; exact simpCall_ty_any f h hw
  | set t vs =>
    simp only [simp] at h
    obtain ⟨vs', hvs, h⟩ := bind_ok h
    have ht : t = T.SET := hw.1
    have key : ∀ ws r, mkSet ws = .ok r → r.ty = T.SET := by
      intro ws r hm; unfold mkSet at hm; obtain ⟨ws', _, hm⟩ := bind_ok hm; cases hm; rfl
    split at h
    · rw [key _ _ h]; exact ht.symm
    · rw [key _ _ h]; exact ht.symm
  | range t lo hi a b =>
    simp only [simp] at h
    obtain ⟨lo', hlo, h⟩ := bind_ok h
    obtain ⟨hi', hhi, h⟩ := bind_ok h
    have ht : t = T.RANGE := hw.1
    unfold mkRange at h
    obtain ⟨l2, _, h⟩ := bind_ok h
    obtain ⟨h2, _, h⟩ := bind_ok h
    cases h; exact ht.symm
  | lit _ _ _ | this _ | var _ _ | quant _ _ _ _ _ | field _ _ _ | index _ _ _ =>
    simp only [simp] at h; cases h; rfl

theorem tyAt : ∀ f, TyAt f
  | 0 => tyAt_zero
  | f + 1 =>
    have ih := tyAt f
    ⟨ystep_simp ih,
     fun e a r h hw => by
       simp only [simpNeg] at h
       obtain ⟨a', ha', h⟩ := bind_ok h
       exact negNumberRule_ty h ((typedAt f).tS _ _ ha' hw),
     ystep_binop ih,
     fun _ _ _ _ h he ha hb => simpMultiplication_ty f ih.yN h he ha hb,
     ystep_pre⟩

/-- **the simplifier keeps the type**: on a well-typed expression, the result has exactly the input's type set -/
theorem simplify_ty (e r : Expr) (h : simplifyExpr e = .ok r) (hw : WT e) : r.ty = e.ty := (tyAt _).yS _ _ h hw

end Hpl
