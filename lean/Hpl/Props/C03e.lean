import Hpl.Props.C03c
import Hpl.Model.Parser
import Hpl.Model.Canon
/-!
# C03 at property level: every property and specification the parser returns, and every output of `canonical_form`, is well typed

`Event.WT` / `Property.WT`: every predicate of every simple event is `WTPred` (well-typed tree, boolean root, occurrences of one
reference share a type). The event constructor's alias normalisation (`@A` ↦ the message itself) preserves it (`substE_WT`), the
scope / pattern / property constructors only pass events through, and `canonical_form` only recombines alternatives.
-/
namespace Hpl

def Event.WT : Event → Prop
  | .simple _ _ p => WTPred p
  | .disj a b => a.WT ∧ b.WT

def OptEventWT : Option Event → Prop
  | none => True
  | some e => e.WT

def Property.WT (p : Property) : Prop :=
  OptEventWT p.scope.activator ∧ OptEventWT p.scope.terminator ∧ p.pattern.behaviour.WT ∧ OptEventWT p.pattern.trigger

theorem Pred.replaceVar_this_WT {p q : Pred} {a : String} (h : p.replaceVar a (.this T.MESSAGE) = .ok q) (hw : WTPred p) : WTPred q :=
  replaceVarWithThisP_WT p q a (by unfold replaceVarWithThisP; exact h) hw

theorem mkSimpleEvent_WT {n : String} {a : Option String} {p : Pred} {e : Event} (h : mkSimpleEvent n a p = .ok e) (hw : WTPred p) : e.WT := by
  unfold mkSimpleEvent at h
  split at h
  · split at h
    · obtain ⟨p', hp', h⟩ := bind_ok h
      cases h
      exact Pred.replaceVar_this_WT hp' hw
    · cases h; exact hw
  · cases h; exact hw

theorem buildSimple_WT {s : RawSimple} {e : Event} (h : buildSimple s = .ok e) : e.WT := by
  unfold buildSimple at h
  obtain ⟨p, hp, h⟩ := bind_ok h
  refine mkSimpleEvent_WT h ?_
  split at hp
  · cases hp; trivial
  · exact parse_predicate_WT _ p hp

theorem mkDisj_WT {a b e : Event} (h : mkDisj a b = .ok e) (ha : a.WT) (hb : b.WT) : e.WT := by
  unfold mkDisj at h
  simp only at h
  split at h
  · cases h; exact ⟨ha, hb⟩
  · cases h

theorem nestDisj_WT : ∀ {evs : List Event} {e : Event}, nestDisj evs = .ok e → (∀ x ∈ evs, x.WT) → e.WT
  | [], e, h, _ => by simp [nestDisj] at h
  | [a], e, h, hw => by simp only [nestDisj] at h; cases h; exact hw a (by simp)
  | [a, b], e, h, hw => by simp only [nestDisj] at h; exact mkDisj_WT h (hw a (by simp)) (hw b (by simp))
  | a :: b :: c :: rest, e, h, hw => by
      simp only [nestDisj] at h
      obtain ⟨r, hr, h⟩ := bind_ok h
      exact mkDisj_WT h (hw a (by simp)) (nestDisj_WT hr (fun x hx => hw x (by simp at hx ⊢; exact Or.inr hx)))

theorem mapM_buildSimple_WT : ∀ {alts : List RawSimple} {evs : List Event}, alts.mapM buildSimple = .ok evs → ∀ x ∈ evs, x.WT
  | [], evs, h, x, hx => by simp [List.mapM_nil, pure, Except.pure] at h; subst h; simp at hx
  | s :: alts, evs, h, x, hx => by
      rw [List.mapM_cons] at h
      obtain ⟨e, he, h⟩ := bind_ok h
      obtain ⟨es, hes, h⟩ := bind_ok h
      cases h
      simp only [List.mem_cons] at hx
      rcases hx with rfl | hx
      · exact buildSimple_WT he
      · exact mapM_buildSimple_WT hes x hx

theorem buildEvent_WT {ev : RawEvent} {e : Event} (h : buildEvent ev = .ok e) : e.WT := by
  cases ev with
  | simple s => exact buildSimple_WT h
  | disj alts =>
    simp only [buildEvent] at h
    obtain ⟨evs, hevs, h⟩ := bind_ok h
    split at h
    · cases h
    · exact nestDisj_WT h (mapM_buildSimple_WT hevs)

theorem buildOptEvent_WT {ev : Option RawEvent} {e : Option Event} (h : buildOptEvent ev = .ok e) : OptEventWT e := by
  cases ev with
  | none => simp only [buildOptEvent] at h; cases h; trivial
  | some r =>
    simp only [buildOptEvent] at h
    obtain ⟨e', he', h⟩ := bind_ok h
    cases h
    exact buildEvent_WT he'

theorem mkScope_fields {k : ScopeKind} {a t : Option Event} {s : Scope} (h : mkScope k a t = .ok s) : s.activator = a ∧ s.terminator = t := by
  unfold mkScope at h
  split at h
  · cases h
  · split at h
    · cases h
    · cases h; exact ⟨rfl, rfl⟩

theorem mkPattern_fields {k : PatternKind} {b : Event} {t : Option Event} {mn : Rat} {mx : Option Rat} {p : Pattern}
    (h : mkPattern k b t mn mx = .ok p) : p.behaviour = b ∧ p.trigger = t := by
  unfold mkPattern at h
  split at h
  · cases h
  · split at h
    · cases h
    · split at h
      · split at h
        · cases h
        · cases h; exact ⟨rfl, rfl⟩
      · cases h; exact ⟨rfl, rfl⟩

/-- **C03, properties**: every property the constructors build from a parsed property tree is well typed -/
theorem buildProperty_WT (r : RawProperty) (p : Property) (h : buildProperty r = .ok p) : p.WT := by
  unfold buildProperty at h
  obtain ⟨_, _, h⟩ := bind_ok h
  obtain ⟨act, hact, h⟩ := bind_ok h
  obtain ⟨term, hterm, h⟩ := bind_ok h
  obtain ⟨scope, hscope, h⟩ := bind_ok h
  obtain ⟨⟨beh, trig⟩, hbt, h⟩ := bind_ok h
  obtain ⟨pat, hpat, h⟩ := bind_ok h
  unfold mkProperty at h
  obtain ⟨_, _, h⟩ := bind_ok h
  cases h
  obtain ⟨hs1, hs2⟩ := mkScope_fields hscope
  obtain ⟨hp1, hp2⟩ := mkPattern_fields hpat
  have hbw : beh.WT ∧ OptEventWT trig := by
    split at hbt
    · obtain ⟨t, ht, hbt⟩ := bind_ok hbt
      obtain ⟨b, hb, hbt⟩ := bind_ok hbt
      cases hbt; exact ⟨buildEvent_WT hb, buildOptEvent_WT ht⟩
    · obtain ⟨t, ht, hbt⟩ := bind_ok hbt
      obtain ⟨b, hb, hbt⟩ := bind_ok hbt
      cases hbt; exact ⟨buildEvent_WT hb, buildOptEvent_WT ht⟩
    · obtain ⟨b, hb, hbt⟩ := bind_ok hbt
      obtain ⟨t, ht, hbt⟩ := bind_ok hbt
      cases hbt; exact ⟨buildEvent_WT hb, buildOptEvent_WT ht⟩
  refine ⟨?_, ?_, ?_, ?_⟩
  · show OptEventWT scope.activator; rw [hs1]; exact buildOptEvent_WT hact
  · show OptEventWT scope.terminator; rw [hs2]; exact buildOptEvent_WT hterm
  · show pat.behaviour.WT; rw [hp1]; exact hbw.1
  · show OptEventWT pat.trigger; rw [hp2]; exact hbw.2

theorem mapM_buildProperty_WT : ∀ {rs : List RawProperty} {ps : List Property}, rs.mapM buildProperty = .ok ps → ∀ p ∈ ps, p.WT
  | [], ps, h, p, hp => by simp [List.mapM_nil, pure, Except.pure] at h; subst h; simp at hp
  | r :: rs, ps, h, p, hp => by
      rw [List.mapM_cons] at h
      obtain ⟨q, hq, h⟩ := bind_ok h
      obtain ⟨qs, hqs, h⟩ := bind_ok h
      cases h
      simp only [List.mem_cons] at hp
      rcases hp with rfl | hp
      · exact buildProperty_WT r _ hq
      · exact mapM_buildProperty_WT hqs p hp

/-- **C03, entry points**: `parse_property` and `parse_specification` only return well-typed properties, for every text -/
theorem parseProperty_WT (s : String) (p : Property) (h : parseProperty s = .ok p) : p.WT := by
  unfold parseProperty at h
  split at h
  · cases h
  · split at h
    · cases h
    · exact buildProperty_WT _ p h

theorem parseSpecification_WT (s : String) (ps : List Property) (h : parseSpecification s = .ok ps) : ∀ p ∈ ps, p.WT := by
  unfold parseSpecification at h
  split at h
  · cases h
  · split at h
    · cases h
    · unfold buildSpec at h
      split at h
      · cases h
      · exact mapM_buildProperty_WT h

/-! ## `canonical_form` -/

theorem simpleEvents_WT : ∀ (e : Event), e.WT → ∀ a ∈ e.simpleEvents, a.WT
  | .simple n al p, hw, a, ha => by simp only [Event.simpleEvents, List.mem_singleton] at ha; subst ha; exact hw
  | .disj x y, hw, a, ha => by
      simp only [Event.simpleEvents, List.mem_append] at ha
      rcases ha with ha | ha
      · exact simpleEvents_WT x hw.1 a ha
      · exact simpleEvents_WT y hw.2 a ha

theorem canonicalScopes_WT (s : Scope) (ha : OptEventWT s.activator) (ht : OptEventWT s.terminator) :
    ∀ s' ∈ canonicalScopes s, OptEventWT s'.activator ∧ OptEventWT s'.terminator := by
  intro s' hs'
  unfold canonicalScopes at hs'
  split at hs'
  · rename_i a hk hact
    simp only [List.mem_map] at hs'
    obtain ⟨e, he, rfl⟩ := hs'
    rw [hact] at ha
    exact ⟨simpleEvents_WT a ha e he, ht⟩
  · rename_i a hk hact
    simp only [List.mem_map] at hs'
    obtain ⟨e, he, rfl⟩ := hs'
    rw [hact] at ha
    exact ⟨simpleEvents_WT a ha e he, ht⟩
  · simp only [List.mem_singleton] at hs'; subst hs'; exact ⟨ha, ht⟩

theorem canonicalPatterns_WT (p : Pattern) (hb : p.behaviour.WT) (ht : OptEventWT p.trigger) :
    ∀ p' ∈ canonicalPatterns p, p'.behaviour.WT ∧ OptEventWT p'.trigger := by
  intro p' hp'
  unfold canonicalPatterns at hp'
  split at hp'
  · simp only [List.mem_map] at hp'
    obtain ⟨e, he, rfl⟩ := hp'
    exact ⟨simpleEvents_WT _ hb e he, ht⟩
  · split at hp'
    · rename_i t hk htr
      simp only [List.mem_map] at hp'
      obtain ⟨e, he, rfl⟩ := hp'
      rw [htr] at ht
      exact ⟨hb, simpleEvents_WT t ht e he⟩
    · simp only [List.mem_singleton] at hp'; subst hp'; exact ⟨hb, ht⟩

theorem mapM_mem {α β : Type} {f : α → M β} : ∀ {l : List α} {r : List β}, l.mapM f = .ok r → ∀ b ∈ r, ∃ a ∈ l, f a = .ok b
  | [], r, h, b, hb => by simp [List.mapM_nil, pure, Except.pure] at h; subst h; simp at hb
  | x :: l, r, h, b, hb => by
      rw [List.mapM_cons] at h
      obtain ⟨y, hy, h⟩ := bind_ok h
      obtain ⟨ys, hys, h⟩ := bind_ok h
      cases h
      simp only [List.mem_cons] at hb
      rcases hb with rfl | hb
      · exact ⟨x, by simp, hy⟩
      · obtain ⟨a, ha, hfa⟩ := mapM_mem hys b hb
        exact ⟨a, by simp [ha], hfa⟩

/-- **C03, `canonical_form`**: every property it returns is well typed when the input is -/
theorem canonical_WT (p : Property) (qs : List Property) (h : canonical p = .ok qs) (hw : p.WT) : ∀ q ∈ qs, q.WT := by
  intro q hq
  unfold canonical at h
  simp only at h
  split at h
  · cases h; simp only [List.mem_singleton] at hq; subst hq; exact hw
  · obtain ⟨sq, hsq, hb⟩ := mapM_mem h q hq
    simp only [List.mem_flatMap, List.mem_map] at hsq
    obtain ⟨s, hs, pt, hpt, rfl⟩ := hsq
    unfold butProp at hb
    obtain ⟨_, _, hb⟩ := bind_ok hb
    cases hb
    obtain ⟨h1, h2⟩ := canonicalScopes_WT p.scope hw.1 hw.2.1 s hs
    obtain ⟨h3, h4⟩ := canonicalPatterns_WT p.pattern hw.2.2.1 hw.2.2.2 pt hpt
    exact ⟨h1, h2, h3, h4⟩

end Hpl
