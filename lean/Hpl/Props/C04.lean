import Hpl.Props.C03
import Hpl.Props.C05
import Hpl.Spec.WellTyped
import Hpl.Props.C17
/-!
# C04 — well-typed specifications are never rejected

`build_complete`: a term that is well typed under a concrete typing `ρ` of its references is accepted by the constructor
model, and the tree returned is the term decorated with type sets containing the concrete types (`Rel`) — in particular
every reference node's type set contains the declared type. `predicate_complete`: with a boolean root, the predicate
constructor accepts it too (every reference group shares its concrete type).

Partial with respect to the full statement: `ρ` assigns one type per *printed* reference, so sibling quantifiers that reuse
a variable name at different element types are outside the hypothesis (they are covered by the C04 stream, and were a
defect fixed in /repo).
-/
namespace Hpl

/-! ## basic facts about `sub` -/

theorem sub_and_of {a b c : DataType} (h1 : sub a b) (h2 : sub a c) : sub a (b &&& c) := by
  unfold sub at *
  rw [← Nat.and_assoc, h1, h2]

theorem ne_zero_of_sub {a b : DataType} (h : sub a b) (ha : a ≠ 0) : b ≠ 0 := by
  intro hb; apply ha; unfold sub at h; rw [← h, hb]; simp

theorem and_ne_zero_of_subs {a b c : DataType} (h1 : sub a b) (h2 : sub a c) (ha : a ≠ 0) : b &&& c ≠ 0 :=
  ne_zero_of_sub (sub_and_of h1 h2) ha

theorem sub_or_left (a b : DataType) : sub a (a ||| b) := by
  unfold sub; apply Nat.eq_of_testBit_eq; intro i; simp [Nat.testBit_and, Nat.testBit_or]
  cases Nat.testBit a i <;> simp

theorem sub_or_right (a b : DataType) : sub b (a ||| b) := by
  unfold sub; apply Nat.eq_of_testBit_eq; intro i; simp [Nat.testBit_and, Nat.testBit_or]
  cases Nat.testBit b i <;> simp

theorem foldl_or_mono (ts : List DataType) : ∀ (acc : DataType), sub acc (ts.foldl (· ||| ·) acc) := by
  induction ts with
  | nil => intro acc; exact sub_refl _
  | cons t ts ih => intro acc; exact sub_trans (sub_or_left acc t) (ih _)

theorem mem_sub_unionTy {t : DataType} : ∀ {ts : List DataType}, t ∈ ts → sub t (unionTy ts) := by
  unfold unionTy
  suffices h : ∀ (ts : List DataType) (acc : DataType), t ∈ ts → sub t (ts.foldl (· ||| ·) acc) from fun {ts} hm => h ts _ hm
  intro ts
  induction ts with
  | nil => intro _ h; cases h
  | cons u us ih =>
    intro acc h
    simp only [List.foldl_cons]
    rcases List.mem_cons.1 h with rfl | h
    · exact sub_trans (sub_or_right acc t) (foldl_or_mono us _)
    · exact ih _ h

/-! ## `Rel`: types and printing -/

variable (ρ : Typing)

theorem rel_intrinsic : ∀ (r : Raw) (e : Expr) (τ : DataType), Rel ρ r e → intrinsic r = some τ → e.ty = τ
  | .lit _ v, e, τ, h, hi => by simp only [Rel] at h; subst h; simpa [intrinsic, Expr.ty] using hi
  | .this, e, τ, h, hi => by simp only [Rel] at h; subst h; simpa [intrinsic, Expr.ty] using hi
  | .var _, e, τ, h, hi => by simp [intrinsic] at hi
  | .set _, e, τ, h, hi => by simp only [Rel] at h; obtain ⟨es, rfl, _⟩ := h; simpa [intrinsic, Expr.ty] using hi
  | .range .., e, τ, h, hi => by simp only [Rel] at h; obtain ⟨_, _, rfl, _⟩ := h; simpa [intrinsic, Expr.ty] using hi
  | .quant .., e, τ, h, hi => by simp only [Rel] at h; obtain ⟨_, _, rfl, _⟩ := h; simpa [intrinsic, Expr.ty] using hi
  | .un op a, e, τ, h, hi => by
      simp only [Rel] at h; obtain ⟨dd, _, hd, rfl, _⟩ := h
      simpa [intrinsic, hd, Expr.ty] using hi
  | .bin op a b, e, τ, h, hi => by
      simp only [Rel] at h; obtain ⟨dd, _, _, hd, rfl, _⟩ := h
      simpa [intrinsic, hd, Expr.ty] using hi
  | .call f args, e, τ, h, hi => by
      simp only [Rel] at h; obtain ⟨dd, _, hd, rfl, _⟩ := h
      simpa [intrinsic, hd, Expr.ty] using hi
  | .field .., e, τ, h, hi => by simp [intrinsic] at hi
  | .index .., e, τ, h, hi => by simp [intrinsic] at hi

/-- the type set of the decorated tree contains the concrete type of the term -/
theorem rel_ty (r : Raw) (e : Expr) (h : Rel ρ r e) : sub (ctype ρ r) e.ty := by
  unfold ctype
  cases hi : intrinsic r with
  | some τ => simp only [Option.getD_some]; rw [rel_intrinsic ρ r e τ h hi]; exact sub_refl _
  | none =>
    simp only [Option.getD_none]
    cases r with
    | var x => simp only [Rel] at h; obtain ⟨ty, rfl, hs⟩ := h; simpa [Raw.print, Expr.ty] using hs
    | field m n => simp only [Rel] at h; obtain ⟨ty, m', rfl, hs, _⟩ := h; simpa [Expr.ty] using hs
    | index a i => simp only [Rel] at h; obtain ⟨ty, a', i', rfl, hs, _⟩ := h; simpa [Expr.ty] using hs
    | lit _ _ => simp [intrinsic] at hi
    | this => simp [intrinsic] at hi
    | set _ => simp [intrinsic] at hi
    | range _ _ _ _ => simp [intrinsic] at hi
    | quant _ _ _ _ => simp [intrinsic] at hi
    | un op a => simp only [Rel] at h; obtain ⟨dd, _, hd, _, _⟩ := h; simp [intrinsic, hd] at hi
    | bin op a b => simp only [Rel] at h; obtain ⟨dd, _, _, hd, _, _⟩ := h; simp [intrinsic, hd] at hi
    | call f args => simp only [Rel] at h; obtain ⟨dd, _, hd, _, _⟩ := h; simp [intrinsic, hd] at hi

/-- narrowing to a type that contains the concrete type succeeds and keeps the decoration -/
theorem castE_rel (r : Raw) (e : Expr) (t : DataType) (h : Rel ρ r e) (hs : sub (ctype ρ r) t) (hne : ctype ρ r ≠ 0) :
    ∃ e', castE e t = .ok e' ∧ Rel ρ r e' := by
  have hty := rel_ty ρ r e h
  have hnz : e.ty &&& t ≠ 0 := and_ne_zero_of_subs hty hs hne
  unfold castE
  simp only [hnz, ↓reduceIte]
  split
  · exact ⟨e, rfl, h⟩
  · rename_i hneq
    refine ⟨_, rfl, ?_⟩
    -- only reference nodes can change their type
    cases hi : intrinsic r with
    | some τ =>
      exfalso; apply hneq
      have he : e.ty = τ := rel_intrinsic ρ r e τ h hi
      have : ctype ρ r = τ := by simp [ctype, hi]
      rw [this] at hs; rw [he]; exact hs
    | none =>
      have hc : ctype ρ r = ρ r.print := by simp [ctype, hi]
      have hsub : sub (ρ r.print) (e.ty &&& t) := by rw [← hc]; exact sub_and_of hty hs
      cases r with
      | var x =>
        simp only [Rel] at h ⊢; obtain ⟨ty, rfl, _⟩ := h
        exact ⟨_, rfl, by simpa [Raw.print, Expr.ty] using hsub⟩
      | field m n =>
        simp only [Rel] at h ⊢; obtain ⟨ty, m', rfl, _, hm⟩ := h
        exact ⟨_, m', rfl, by simpa [Expr.ty] using hsub, hm⟩
      | index a i =>
        simp only [Rel] at h ⊢; obtain ⟨ty, a', i', rfl, _, ha, hi'⟩ := h
        exact ⟨_, a', i', rfl, by simpa [Expr.ty] using hsub, ha, hi'⟩
      | lit _ _ => simp [intrinsic] at hi
      | this => simp [intrinsic] at hi
      | set _ => simp [intrinsic] at hi
      | range _ _ _ _ => simp [intrinsic] at hi
      | quant _ _ _ _ => simp [intrinsic] at hi
      | un op a => simp only [Rel] at h; obtain ⟨dd, _, hd, _, _⟩ := h; simp [intrinsic, hd] at hi
      | bin op a b => simp only [Rel] at h; obtain ⟨dd, _, _, hd, _, _⟩ := h; simp [intrinsic, hd] at hi
      | call f args => simp only [Rel] at h; obtain ⟨dd, _, hd, _, _⟩ := h; simp [intrinsic, hd] at hi


/-! ## concrete types are never empty -/

theorem litTy_ne_zero (v : LitVal) : v.ty ≠ 0 := by cases v <;> simp only [LitVal.ty] <;> decide

theorem isBase_ne_zero {t : DataType} (h : isBase t = true) : t ≠ 0 := (atomic_of_isBase h).1

theorem wellTyped_ctype_ne : ∀ (r : Raw), WellTyped ρ r → ctype ρ r ≠ 0
  | .lit _ v, _ => by simp only [ctype, intrinsic, Option.getD_some]; exact litTy_ne_zero v
  | .this, _ => by simp only [ctype, intrinsic, Option.getD_some]; decide
  | .var x, h => by simp only [WellTyped] at h; simpa [ctype, intrinsic, Raw.print] using h.1
  | .set _, _ => by simp only [ctype, intrinsic, Option.getD_some]; decide
  | .range .., _ => by simp only [ctype, intrinsic, Option.getD_some]; decide
  | .quant .., _ => by simp only [ctype, intrinsic, Option.getD_some]; decide
  | .un op a, h => by
      simp only [WellTyped] at h; obtain ⟨d, hd, _⟩ := h
      simp only [ctype, intrinsic, hd, Option.map_some, Option.getD_some]
      exact (un_res_atomic hd).1
  | .bin op a b, h => by
      simp only [WellTyped] at h; obtain ⟨d, hd, _⟩ := h
      simp only [ctype, intrinsic, hd, Option.map_some, Option.getD_some]
      exact (bin_res_atomic hd).1
  | .call f args, h => by
      simp only [WellTyped] at h; obtain ⟨d, hd, _⟩ := h
      simp only [ctype, intrinsic, hd, Option.map_some, Option.getD_some]
      exact (fun_res_atomic hd).1
  | .field m n, h => by simp only [WellTyped] at h; simpa [ctype, intrinsic] using h.2.2.1
  | .index a i, h => by simp only [WellTyped] at h; simpa [ctype, intrinsic] using h.2.2.2.2.1

/-! ## lists -/

theorem castList_rel (t : DataType) : ∀ (rs : RawList) (es : ExprList), RelL ρ rs es → WellTypedL ρ rs →
    (∀ τ ∈ ctypes ρ rs, sub τ t) → ∃ es', castList t es = .ok es' ∧ RelL ρ rs es'
  | .nil, es, h, _, _ => by simp only [RelL] at h; subst h; exact ⟨.nil, rfl, by simp [RelL]⟩
  | .cons r rs, es, h, hw, hs => by
      simp only [RelL] at h; obtain ⟨e, es0, rfl, he, hes⟩ := h
      simp only [WellTypedL] at hw
      obtain ⟨e', hc, he'⟩ := castE_rel ρ r e t he (hs _ (by simp [ctypes])) (wellTyped_ctype_ne ρ r hw.1)
      obtain ⟨es', hcs, hes'⟩ := castList_rel t rs es0 hes hw.2 (fun τ hτ => hs τ (by simp [ctypes, hτ]))
      exact ⟨.cons e' es', by simp [castList, hc, hcs, bind, Except.bind, pure, Except.pure], by simp only [RelL]; exact ⟨e', es', rfl, he', hes'⟩⟩

theorem castArgs_rel : ∀ (rs : RawList) (es : ExprList) (ps : List DataType), RelL ρ rs es → WellTypedL ρ rs →
    argsInside (ctypes ρ rs) ps → ∃ es', castArgs es ps = .ok es' ∧ RelL ρ rs es'
  | .nil, es, ps, h, _, _ => by
      simp only [RelL] at h; subst h
      exact ⟨.nil, by cases ps <;> simp [castArgs], by simp [RelL]⟩
  | .cons r rs, es, [], h, _, hs => by simp [ctypes, argsInside] at hs
  | .cons r rs, es, p :: ps, h, hw, hs => by
      simp only [RelL] at h; obtain ⟨e, es0, rfl, he, hes⟩ := h
      simp only [WellTypedL] at hw
      simp only [ctypes, argsInside] at hs
      obtain ⟨e', hc, he'⟩ := castE_rel ρ r e p he hs.1 (wellTyped_ctype_ne ρ r hw.1)
      obtain ⟨es', hcs, hes'⟩ := castArgs_rel rs es0 ps hes hw.2 hs.2
      exact ⟨.cons e' es', by simp [castArgs, hc, hcs, bind, Except.bind, pure, Except.pure], by simp only [RelL]; exact ⟨e', es', rfl, he', hes'⟩⟩

theorem relL_tys : ∀ (rs : RawList) (es : ExprList), RelL ρ rs es → subs (ctypes ρ rs) es.tys
  | .nil, es, h => by simp only [RelL] at h; subst h; simp [ctypes, ExprList.tys, subs]
  | .cons r rs, es, h => by
      simp only [RelL] at h; obtain ⟨e, es0, rfl, he, hes⟩ := h
      exact ⟨rel_ty ρ r e he, relL_tys rs es0 hes⟩

theorem relL_length : ∀ (rs : RawList) (es : ExprList), RelL ρ rs es → es.length = rs.length
  | .nil, es, h => by simp only [RelL] at h; subst h; rfl
  | .cons r rs, es, h => by
      simp only [RelL] at h; obtain ⟨e, es0, rfl, _, hes⟩ := h
      simp [ExprList.length, RawList.length, relL_length rs es0 hes]


/-! ## variables and binders of the decorated tree are those of the term -/

/-- what a list of nodes says about variable occurrences and binders -/
def Pre (l : List Expr) (vs bs : List String) : Prop :=
  (∀ n ∈ l, (∀ ty y, n = .var ty y → y ∈ vs ∧ sub (ρ ("@" ++ y)) ty) ∧ (∀ y, bindsName y n = true → y ∈ bs)) ∧
  (∀ y ∈ vs, ∃ ty, Expr.var ty y ∈ l)

theorem pre_nil : Pre ρ [] [] [] := ⟨by simp, by simp⟩

theorem pre_append {l1 l2 : List Expr} {v1 v2 b1 b2 : List String} (h1 : Pre ρ l1 v1 b1) (h2 : Pre ρ l2 v2 b2) :
    Pre ρ (l1 ++ l2) (v1 ++ v2) (b1 ++ b2) := by
  refine ⟨?_, ?_⟩
  · intro n hn
    rcases List.mem_append.1 hn with hn | hn
    · obtain ⟨ha, hb⟩ := h1.1 n hn
      exact ⟨fun ty y hy => ⟨List.mem_append.2 (Or.inl (ha ty y hy).1), (ha ty y hy).2⟩, fun y hy => List.mem_append.2 (Or.inl (hb y hy))⟩
    · obtain ⟨ha, hb⟩ := h2.1 n hn
      exact ⟨fun ty y hy => ⟨List.mem_append.2 (Or.inr (ha ty y hy).1), (ha ty y hy).2⟩, fun y hy => List.mem_append.2 (Or.inr (hb y hy))⟩
  · intro y hy
    rcases List.mem_append.1 hy with hy | hy
    · obtain ⟨ty, h⟩ := h1.2 y hy; exact ⟨ty, List.mem_append.2 (Or.inl h)⟩
    · obtain ⟨ty, h⟩ := h2.2 y hy; exact ⟨ty, List.mem_append.2 (Or.inr h)⟩

theorem pre_cons_other {n : Expr} {l : List Expr} {vs bs : List String} (hv : ∀ ty y, n ≠ .var ty y)
    (hq : ∀ y, bindsName y n = false) (h : Pre ρ l vs bs) : Pre ρ (n :: l) vs bs := by
  refine ⟨?_, ?_⟩
  · intro m hm
    rcases List.mem_cons.1 hm with rfl | hm
    · exact ⟨fun ty y hy => absurd hy (hv ty y), fun y hy => by rw [hq y] at hy; cases hy⟩
    · exact h.1 m hm
  · intro y hy; obtain ⟨ty, h'⟩ := h.2 y hy; exact ⟨ty, List.mem_cons_of_mem _ h'⟩

theorem pre_cons_quant {t : DataType} {q : Quant} {x : String} {d b : Expr} {l : List Expr} {vs bs : List String}
    (h : Pre ρ l vs bs) : Pre ρ (.quant t q x d b :: l) vs (x :: bs) := by
  refine ⟨?_, ?_⟩
  · intro m hm
    rcases List.mem_cons.1 hm with rfl | hm
    · refine ⟨fun ty y hy => Expr.noConfusion hy, fun y hy => ?_⟩
      simp only [bindsName, beq_iff_eq] at hy; subst hy; exact List.mem_cons_self
    · obtain ⟨ha, hb⟩ := h.1 m hm
      exact ⟨ha, fun y hy => List.mem_cons_of_mem _ (hb y hy)⟩
  · intro y hy; obtain ⟨ty, h'⟩ := h.2 y hy; exact ⟨ty, List.mem_cons_of_mem _ h'⟩

mutual
theorem rel_pre : ∀ (r : Raw) (e : Expr), Rel ρ r e → Pre ρ e.preorder r.vars r.binders
  | .lit _ v, e, h => by
      simp only [Rel] at h; subst h
      simp only [Expr.preorder, Raw.vars, Raw.binders]
      exact pre_cons_other ρ (by intro _ _ hh; cases hh) (by intro _; rfl) (pre_nil ρ)
  | .this, e, h => by
      simp only [Rel] at h; subst h
      simp only [Expr.preorder, Raw.vars, Raw.binders]
      exact pre_cons_other ρ (by intro _ _ hh; cases hh) (by intro _; rfl) (pre_nil ρ)
  | .var x, e, h => by
      simp only [Rel] at h; obtain ⟨ty, rfl, hs⟩ := h
      simp only [Expr.preorder, Raw.vars, Raw.binders]
      refine ⟨?_, ?_⟩
      · intro n hn
        simp only [List.mem_singleton] at hn; subst hn
        exact ⟨fun ty' y hy => by cases hy; exact ⟨by simp, hs⟩, fun y hy => by simp [bindsName] at hy⟩
      · intro y hy; simp only [List.mem_singleton] at hy; subst hy; exact ⟨ty, by simp⟩
  | .set vs, e, h => by
      simp only [Rel] at h; obtain ⟨es, rfl, hes⟩ := h
      simp only [Expr.preorder, Raw.vars, Raw.binders]
      exact pre_cons_other ρ (by intro _ _ hh; cases hh) (by intro _; rfl) (relL_pre vs es hes)
  | .range lo hi a b, e, h => by
      simp only [Rel] at h; obtain ⟨lo', hi', rfl, h1, h2⟩ := h
      simp only [Expr.preorder, Raw.vars, Raw.binders]
      exact pre_cons_other ρ (by intro _ _ hh; cases hh) (by intro _; rfl) (pre_append ρ (rel_pre lo lo' h1) (rel_pre hi hi' h2))
  | .quant q x d b, e, h => by
      simp only [Rel] at h; obtain ⟨d', b', rfl, h1, h2⟩ := h
      simp only [Expr.preorder, Raw.vars, Raw.binders]
      exact pre_cons_quant ρ (pre_append ρ (rel_pre d d' h1) (rel_pre b b' h2))
  | .un op a, e, h => by
      simp only [Rel] at h; obtain ⟨dd, a', _, rfl, h1⟩ := h
      simp only [Expr.preorder, Raw.vars, Raw.binders]
      exact pre_cons_other ρ (by intro _ _ hh; cases hh) (by intro _; rfl) (rel_pre a a' h1)
  | .bin op a b, e, h => by
      simp only [Rel] at h; obtain ⟨dd, a', b', _, rfl, h1, h2⟩ := h
      simp only [Expr.preorder, Raw.vars, Raw.binders]
      exact pre_cons_other ρ (by intro _ _ hh; cases hh) (by intro _; rfl) (pre_append ρ (rel_pre a a' h1) (rel_pre b b' h2))
  | .call f args, e, h => by
      simp only [Rel] at h; obtain ⟨dd, as, _, rfl, h1⟩ := h
      simp only [Expr.preorder, Raw.vars, Raw.binders]
      exact pre_cons_other ρ (by intro _ _ hh; cases hh) (by intro _; rfl) (relL_pre args as h1)
  | .field m n, e, h => by
      simp only [Rel] at h; obtain ⟨ty, m', rfl, _, h1⟩ := h
      simp only [Expr.preorder, Raw.vars, Raw.binders]
      exact pre_cons_other ρ (by intro _ _ hh; cases hh) (by intro _; rfl) (rel_pre m m' h1)
  | .index a i, e, h => by
      simp only [Rel] at h; obtain ⟨ty, a', i', rfl, _, h1, h2⟩ := h
      simp only [Expr.preorder, Raw.vars, Raw.binders]
      exact pre_cons_other ρ (by intro _ _ hh; cases hh) (by intro _; rfl) (pre_append ρ (rel_pre a a' h1) (rel_pre i i' h2))
theorem relL_pre : ∀ (rs : RawList) (es : ExprList), RelL ρ rs es → Pre ρ es.preorder rs.vars rs.binders
  | .nil, es, h => by simp only [RelL] at h; subst h; simpa [ExprList.preorder, RawList.vars, RawList.binders] using pre_nil ρ
  | .cons r rs, es, h => by
      simp only [RelL] at h; obtain ⟨e, es0, rfl, he, hes⟩ := h
      simp only [ExprList.preorder, RawList.vars, RawList.binders]
      exact pre_append ρ (rel_pre r e he) (relL_pre rs es0 hes)
end

/-! ## the quantifier's own checks -/

theorem quantBodyCheck_complete (x : String) (t : DataType) : ∀ (l : List Expr) (k : Nat),
    (∀ n ∈ l, bindsName x n = false) → (∀ ty, Expr.var ty x ∈ l → ty &&& t ≠ 0) →
    ∃ k', quantBodyCheck x t l k = .ok k' ∧ k ≤ k' ∧ ((∃ ty, Expr.var ty x ∈ l) → k < k')
  | [], k, _, _ => ⟨k, rfl, Nat.le_refl _, by rintro ⟨_, h⟩; cases h⟩
  | n :: rest, k, hb, hv => by
      have hb' : ∀ m ∈ rest, bindsName x m = false := fun m hm => hb m (List.mem_cons_of_mem _ hm)
      have hv' : ∀ ty, Expr.var ty x ∈ rest → ty &&& t ≠ 0 := fun ty hm => hv ty (List.mem_cons_of_mem _ hm)
      cases n with
      | quant ty q y d b =>
        have hne : (y == x) = false := by
          have := hb _ List.mem_cons_self
          simp only [bindsName] at this
          cases hyx : y == x with
          | false => rfl
          | true => rw [eq_of_beq hyx] at this; simp at this
        obtain ⟨k', hk, hle, hlt⟩ := quantBodyCheck_complete x t rest k hb' hv'
        refine ⟨k', by simp [quantBodyCheck, hne, hk], hle, ?_⟩
        rintro ⟨ty', hm⟩
        rcases List.mem_cons.1 hm with hh | hh
        · cases hh
        · exact hlt ⟨ty', hh⟩
      | var ty y =>
        by_cases hyx : (y == x) = true
        · have hy : y = x := eq_of_beq hyx
          subst hy
          have hc : ty &&& t ≠ 0 := hv ty List.mem_cons_self
          obtain ⟨k', hk, hle, _⟩ := quantBodyCheck_complete y t rest (k + 1) hb' hv'
          exact ⟨k', by simp [quantBodyCheck, hc, hk], by omega, fun _ => by omega⟩
        · obtain ⟨k', hk, hle, hlt⟩ := quantBodyCheck_complete x t rest k hb' hv'
          refine ⟨k', by simp [quantBodyCheck, hyx, hk], hle, ?_⟩
          rintro ⟨ty', hm⟩
          rcases List.mem_cons.1 hm with hh | hh
          · cases hh; simp at hyx
          · exact hlt ⟨ty', hh⟩
      | _ =>
        obtain ⟨k', hk, hle, hlt⟩ := quantBodyCheck_complete x t rest k hb' hv'
        refine ⟨k', by simp [quantBodyCheck, hk], hle, ?_⟩
        rintro ⟨ty', hm⟩
        rcases List.mem_cons.1 hm with hh | hh
        · cases hh
        · exact hlt ⟨ty', hh⟩


/-! ## the domain of a quantifier offers the variable's type -/

theorem relL_tys_mem : ∀ (rs : RawList) (es : ExprList), RelL ρ rs es → ∀ τx, (∀ τ ∈ ctypes ρ rs, τ = τx) →
    ∀ t ∈ es.tys, sub τx t
  | .nil, es, h, _, _, t, ht => by simp only [RelL] at h; subst h; simp [ExprList.tys] at ht
  | .cons r rs, es, h, τx, hall, t, ht => by
      simp only [RelL] at h; obtain ⟨e, es0, rfl, he, hes⟩ := h
      simp only [ExprList.tys, List.mem_cons] at ht
      rcases ht with rfl | ht
      · have := rel_ty ρ r e he
        rwa [hall (ctype ρ r) (by simp [ctypes])] at this
      · exact relL_tys_mem rs es0 hes τx (fun τ hτ => hall τ (by simp [ctypes, hτ])) t ht

theorem tys_nonempty_of_rel : ∀ (rs : RawList) (es : ExprList), RelL ρ rs es → rs ≠ .nil → ∃ t, t ∈ es.tys
  | .nil, _, _, h => absurd rfl h
  | .cons r rs, es, h, _ => by
      simp only [RelL] at h; obtain ⟨e, es0, rfl, _, _⟩ := h
      exact ⟨e.ty, by simp [ExprList.tys]⟩

/-- the element type the model computes for the (narrowed) domain contains the variable's concrete type -/
theorem domain_offers (d : Raw) (d' : Expr) (τx : DataType) (hrel : Rel ρ d d') (hdom : DomainOK ρ τx d)
    (hprim : isPrimBase τx = true) : sub τx (domainElemType d') := by
  have hp : sub τx T.PRIMITIVE := by
    simp only [isPrimBase, Bool.or_eq_true, beq_iff_eq] at hprim
    rcases hprim with (h | h) | h <;> subst h <;> decide
  cases d with
  | set vs =>
    simp only [Rel] at hrel; obtain ⟨es, rfl, hes⟩ := hrel
    simp only [domainElemType]
    obtain ⟨t, ht⟩ := tys_nonempty_of_rel ρ vs es hes hdom.1
    exact sub_trans (relL_tys_mem ρ vs es hes τx hdom.2 t ht) (mem_sub_unionTy ht)
  | range lo hi a b =>
    simp only [Rel] at hrel; obtain ⟨_, _, rfl, _, _⟩ := hrel
    simp only [DomainOK] at hdom; subst hdom
    simp only [domainElemType]; exact sub_refl _
  | lit _ v => simp only [Rel] at hrel; subst hrel; simpa [domainElemType] using hp
  | this => simp only [Rel] at hrel; subst hrel; simpa [domainElemType] using hp
  | var x => simp only [Rel] at hrel; obtain ⟨_, rfl, _⟩ := hrel; simpa [domainElemType] using hp
  | quant _ _ _ _ => simp only [Rel] at hrel; obtain ⟨_, _, rfl, _, _⟩ := hrel; simpa [domainElemType] using hp
  | un _ _ => simp only [Rel] at hrel; obtain ⟨_, _, _, rfl, _⟩ := hrel; simpa [domainElemType] using hp
  | bin _ _ _ => simp only [Rel] at hrel; obtain ⟨_, _, _, _, rfl, _⟩ := hrel; simpa [domainElemType] using hp
  | call _ _ => simp only [Rel] at hrel; obtain ⟨_, _, _, rfl, _⟩ := hrel; simpa [domainElemType] using hp
  | field _ _ => simp only [Rel] at hrel; obtain ⟨_, _, rfl, _, _⟩ := hrel; simpa [domainElemType] using hp
  | index _ _ => simp only [Rel] at hrel; obtain ⟨_, _, _, rfl, _, _, _⟩ := hrel; simpa [domainElemType] using hp


/-! ## completeness of the constructors -/

theorem filter_singleton_mem {α : Type} {p : α → Bool} {l : List α} {s s0 : α} (h : l.filter p = [s]) (hm : s0 ∈ l) (hp : p s0 = true) :
    s = s0 := by
  have : s0 ∈ l.filter p := List.mem_filter.2 ⟨hm, hp⟩
  rw [h] at this; exact (List.mem_singleton.1 this).symm

theorem mkField_eq (m : Expr) (n : String) : mkField m n = (castE m T.MESSAGE >>= fun m' => pure (.field T.ACCESS m' n)) := by
  unfold mkField mkFieldT; rw [if_neg (by decide)]

theorem mkIndex_eq (a i : Expr) :
    mkIndex a i = (castE a T.ARRAY >>= fun a' => castE i T.NUMBER >>= fun i' => pure (.index T.ACCESS a' i')) := by
  unfold mkIndex mkIndexT; rw [if_neg (by decide)]

mutual
/-- **C04**: a term that is well typed under `ρ` is accepted, and what is returned is the term decorated with type sets
    that contain the concrete types -/
theorem build_complete : ∀ (r : Raw), WellTyped ρ r → ∃ e, build r = .ok e ∧ Rel ρ r e
  | .lit tok v, _ => ⟨_, rfl, by simp [Rel]⟩
  | .this, _ => ⟨_, rfl, by simp [Rel]⟩
  | .var x, h => by
      simp only [WellTyped] at h
      exact ⟨.var T.ITEM x, rfl, by simp only [Rel]; exact ⟨_, rfl, h.2⟩⟩
  | .set vs, h => by
      simp only [WellTyped] at h
      obtain ⟨es, hb, hrel⟩ := buildList_complete vs h.1
      obtain ⟨es', hc, hrel'⟩ := castList_rel ρ T.PRIMITIVE vs es hrel h.1 h.2
      exact ⟨.set T.SET es', by simp [build, hb, mkSet, hc, bind, Except.bind, pure, Except.pure], by simp only [Rel]; exact ⟨es', rfl, hrel'⟩⟩
  | .range lo hi a b, h => by
      simp only [WellTyped] at h
      obtain ⟨hwl, hwh, hcl, hch⟩ := h
      obtain ⟨lo', hbl, hrl⟩ := build_complete lo hwl
      obtain ⟨hi', hbh, hrh⟩ := build_complete hi hwh
      obtain ⟨lo1, hc1, hr1⟩ := castE_rel ρ lo lo' T.NUMBER hrl (by rw [hcl]; exact sub_refl _) (wellTyped_ctype_ne ρ lo hwl)
      obtain ⟨hi1, hc2, hr2⟩ := castE_rel ρ hi hi' T.NUMBER hrh (by rw [hch]; exact sub_refl _) (wellTyped_ctype_ne ρ hi hwh)
      exact ⟨.range T.RANGE lo1 hi1 a b, by simp [build, hbl, hbh, mkRange, hc1, hc2, bind, Except.bind, pure, Except.pure],
        by simp only [Rel]; exact ⟨lo1, hi1, rfl, hr1, hr2⟩⟩
  | .quant q x d b, h => by
      simp only [WellTyped] at h
      obtain ⟨hwd, hwb, hcb, hcd, hdom, hprim, hxd, hxb, hxq⟩ := h
      obtain ⟨d', hbd, hrd⟩ := build_complete d hwd
      obtain ⟨b', hbb, hrb⟩ := build_complete b hwb
      obtain ⟨d1, hc1, hr1⟩ := castE_rel ρ d d' T.COMPOUND hrd hcd (wellTyped_ctype_ne ρ d hwd)
      obtain ⟨b1, hc2, hr2⟩ := castE_rel ρ b b' T.BOOL hrb (by rw [hcb]; exact sub_refl _) (wellTyped_ctype_ne ρ b hwb)
      have hpd := rel_pre ρ d d1 hr1
      have hpb := rel_pre ρ b b1 hr2
      -- the variable does not occur in the domain
      have hnod : d1.preorder.any (isVarNamed x) = false := by
        rw [Bool.eq_false_iff]; intro hany
        obtain ⟨n, hn, hx⟩ := List.any_eq_true.1 hany
        cases n with
        | var ty y =>
          simp only [isVarNamed, beq_iff_eq] at hx; subst hx
          exact hxd ((hpd.1 _ hn).1 ty x rfl).1
        | _ => simp [isVarNamed] at hx
      have hτne : ρ ("@" ++ x) ≠ 0 := by
        simp only [isPrimBase, Bool.or_eq_true, beq_iff_eq] at hprim
        rcases hprim with (h | h) | h <;> rw [h] <;> decide
      have hoff := domain_offers ρ d d1 _ hr1 hdom hprim
      obtain ⟨k', hk, _, hlt⟩ := quantBodyCheck_complete x (domainElemType d1) b1.preorder 0
        (by
          intro n hn
          cases hbn : bindsName x n with
          | false => rfl
          | true => exact absurd ((hpb.1 n hn).2 x hbn) hxq)
        (by
          intro ty hm
          exact and_ne_zero_of_subs ((hpb.1 _ hm).1 ty x rfl).2 hoff hτne)
      have hpos : 0 < k' := hlt (hpb.2 x hxb)
      refine ⟨.quant T.BOOL q x d1 b1, ?_, by simp only [Rel]; exact ⟨d1, b1, rfl, hr1, hr2⟩⟩
      have hk0 : (k' = 0) = False := by simp; omega
      simp [build, hbd, hbb, mkQuant, hc1, hc2, hnod, hk, hk0, bind, Except.bind, pure, Except.pure]
  | .un op a, h => by
      simp only [WellTyped] at h
      obtain ⟨dd, hd, hwa, hsa⟩ := h
      obtain ⟨a', hba, hra⟩ := build_complete a hwa
      obtain ⟨a1, hc, hr1⟩ := castE_rel ρ a a' dd.param hra hsa (wellTyped_ctype_ne ρ a hwa)
      exact ⟨.un dd.res op a1, by simp [build, hba, mkUn, hd, hc, bind, Except.bind, pure, Except.pure],
        by simp only [Rel]; exact ⟨dd, a1, hd, rfl, hr1⟩⟩
  | .bin op a b, h => by
      simp only [WellTyped] at h
      obtain ⟨dd, hd, hwa, hwb, hsa, hsb, heq⟩ := h
      obtain ⟨a', hba, hra⟩ := build_complete a hwa
      obtain ⟨b', hbb, hrb⟩ := build_complete b hwb
      have hna := wellTyped_ctype_ne ρ a hwa
      have hnb := wellTyped_ctype_ne ρ b hwb
      obtain ⟨a1, hc1, hr1⟩ := castE_rel ρ a a' dd.p1 hra hsa hna
      obtain ⟨b1, hc2, hr2⟩ := castE_rel ρ b b' dd.p2 hrb hsb hnb
      by_cases hov : dd.p1 &&& dd.p2 ≠ 0
      · have hab := heq hov
        obtain ⟨a2, hc3, hr3⟩ := castE_rel ρ a a1 b1.ty hr1 (by rw [hab]; exact rel_ty ρ b b1 hr2) hna
        obtain ⟨b2, hc4, hr4⟩ := castE_rel ρ b b1 a2.ty hr2 (by rw [← hab]; exact rel_ty ρ a a2 hr3) hnb
        exact ⟨.bin dd.res op a2 b2, by simp [build, hba, hbb, mkBin, hd, hc1, hc2, hov, hc3, hc4, bind, Except.bind, pure, Except.pure],
          by simp only [Rel]; exact ⟨dd, a2, b2, hd, rfl, hr3, hr4⟩⟩
      · exact ⟨.bin dd.res op a1 b1, by simp [build, hba, hbb, mkBin, hd, hc1, hc2, hov, bind, Except.bind, pure, Except.pure],
          by simp only [Rel]; exact ⟨dd, a1, b1, hd, rfl, hr1, hr2⟩⟩
  | .call f args, h => by
      simp only [WellTyped] at h
      obtain ⟨dd, hd, hwa, s0, hs0, hacc, hins⟩ := h
      obtain ⟨as, hba, hra⟩ := buildList_complete args hwa
      have hacc' : s0.accepts as.tys = true := accepts_mono s0 (relL_tys ρ args as hra) hacc
      have hlen := relL_length ρ args as hra
      cases hf : dd.overloads.filter (·.accepts as.tys) with
      | nil =>
        have : s0 ∈ dd.overloads.filter (·.accepts as.tys) := List.mem_filter.2 ⟨hs0, hacc'⟩
        rw [hf] at this; cases this
      | cons s rest =>
        cases rest with
        | nil =>
          have hs : s = s0 := filter_singleton_mem hf hs0 hacc'
          subst hs
          obtain ⟨as', hc, hr'⟩ := castArgs_rel ρ args as (s.paramsFor as.length) hra hwa (by rw [hlen]; exact hins)
          exact ⟨.call dd.result f as', by simp [build, hba, mkCall, hd, hf, hc, bind, Except.bind, pure, Except.pure],
            by simp only [Rel]; exact ⟨dd, as', hd, rfl, hr'⟩⟩
        | cons s2 rest2 =>
          exact ⟨.call dd.result f as, by simp [build, hba, mkCall, hd, hf, bind, Except.bind],
            by simp only [Rel]; exact ⟨dd, as, hd, rfl, hra⟩⟩
  | .field m n, h => by
      simp only [WellTyped] at h
      obtain ⟨hwm, hcm, _, hsub⟩ := h
      obtain ⟨m', hbm, hrm⟩ := build_complete m hwm
      obtain ⟨m1, hc, hr1⟩ := castE_rel ρ m m' T.MESSAGE hrm (by rw [hcm]; exact sub_refl _) (wellTyped_ctype_ne ρ m hwm)
      exact ⟨.field T.ACCESS m1 n, by simp [build, hbm, mkField_eq, hc, bind, Except.bind, pure, Except.pure],
        by simp only [Rel]; exact ⟨_, m1, rfl, hsub, hr1⟩⟩
  | .index a i, h => by
      simp only [WellTyped] at h
      obtain ⟨hwa, hwi, hca, hci, _, hsub⟩ := h
      obtain ⟨a', hba, hra⟩ := build_complete a hwa
      obtain ⟨i', hbi, hri⟩ := build_complete i hwi
      obtain ⟨a1, hc1, hr1⟩ := castE_rel ρ a a' T.ARRAY hra (by rw [hca]; exact sub_refl _) (wellTyped_ctype_ne ρ a hwa)
      obtain ⟨i1, hc2, hr2⟩ := castE_rel ρ i i' T.NUMBER hri (by rw [hci]; exact sub_refl _) (wellTyped_ctype_ne ρ i hwi)
      exact ⟨.index T.ACCESS a1 i1, by simp [build, hba, hbi, mkIndex_eq, hc1, hc2, bind, Except.bind, pure, Except.pure],
        by simp only [Rel]; exact ⟨_, a1, i1, rfl, hsub, hr1, hr2⟩⟩
theorem buildList_complete : ∀ (rs : RawList), WellTypedL ρ rs → ∃ es, buildList rs = .ok es ∧ RelL ρ rs es
  | .nil, _ => ⟨.nil, rfl, by simp [RelL]⟩
  | .cons r rs, h => by
      simp only [WellTypedL] at h
      obtain ⟨e, hb, hr⟩ := build_complete r h.1
      obtain ⟨es, hbs, hrs⟩ := buildList_complete rs h.2
      exact ⟨.cons e es, by simp [buildList, hb, hbs, bind, Except.bind, pure, Except.pure], by simp only [RelL]; exact ⟨e, es, rfl, hr, hrs⟩⟩
end


/-! ## printing, reference groups, predicates -/

mutual
theorem rel_print : ∀ (r : Raw) (e : Expr), Rel ρ r e → e.print = r.print
  | .lit _ v, e, h => by simp only [Rel] at h; subst h; simp [Expr.print, Raw.print]
  | .this, e, h => by simp only [Rel] at h; subst h; simp [Expr.print, Raw.print]
  | .var x, e, h => by simp only [Rel] at h; obtain ⟨ty, rfl, _⟩ := h; simp [Expr.print, Raw.print]
  | .set vs, e, h => by
      simp only [Rel] at h; obtain ⟨es, rfl, hes⟩ := h
      simp only [Expr.print, Raw.print, relL_print vs es hes]
  | .range lo hi a b, e, h => by
      simp only [Rel] at h; obtain ⟨lo', hi', rfl, h1, h2⟩ := h
      simp only [Expr.print, Raw.print, rel_print lo lo' h1, rel_print hi hi' h2]
  | .quant q x d b, e, h => by
      simp only [Rel] at h; obtain ⟨d', b', rfl, h1, h2⟩ := h
      cases q <;> simp only [Expr.print, Raw.print, rel_print d d' h1, rel_print b b' h2]
  | .un op a, e, h => by
      simp only [Rel] at h; obtain ⟨dd, a', _, rfl, h1⟩ := h
      simp only [Expr.print, Raw.print, rel_print a a' h1]
  | .bin op a b, e, h => by
      simp only [Rel] at h; obtain ⟨dd, a', b', _, rfl, h1, h2⟩ := h
      simp only [Expr.print, Raw.print, rel_print a a' h1, rel_print b b' h2]
  | .call f args, e, h => by
      simp only [Rel] at h; obtain ⟨dd, as, _, rfl, h1⟩ := h
      simp only [Expr.print, Raw.print, relL_print args as h1]
  | .field m n, e, h => by
      simp only [Rel] at h; obtain ⟨ty, m', rfl, _, h1⟩ := h
      simp only [Expr.print, Raw.print, rel_print m m' h1]
  | .index a i, e, h => by
      simp only [Rel] at h; obtain ⟨ty, a', i', rfl, _, h1, h2⟩ := h
      simp only [Expr.print, Raw.print, rel_print a a' h1, rel_print i i' h2]
theorem relL_print : ∀ (rs : RawList) (es : ExprList), RelL ρ rs es → ExprList.printSep es = RawList.printSep rs
  | .nil, es, h => by simp only [RelL] at h; subst h; simp [ExprList.printSep, RawList.printSep]
  | .cons r .nil, es, h => by
      simp only [RelL] at h; obtain ⟨e, es0, rfl, he, hes⟩ := h
      subst hes
      simp only [ExprList.printSep, RawList.printSep, rel_print r e he]
  | .cons r (.cons r2 rs), es, h => by
      simp only [RelL] at h; obtain ⟨e, es0, rfl, he, hes⟩ := h
      have ih := relL_print (.cons r2 rs) es0 (by simp only [RelL]; exact hes)
      obtain ⟨e2, es1, rfl, _, _⟩ := hes
      simp only [ExprList.printSep, RawList.printSep] at ih ⊢
      rw [rel_print r e he, ih]
end

/-- what every reference occurrence of the decorated tree satisfies: its type set contains the (non-empty) concrete
    type that `ρ` gives to its printed form -/
def OccOK (o : Option Expr × Expr) : Prop := ρ o.2.print ≠ 0 ∧ sub (ρ o.2.print) o.2.ty ∧ sub (ρ o.2.print) T.ANY

theorem item_sub_any : sub T.ITEM T.ANY ∧ sub T.ACCESS T.ANY := by decide

mutual
theorem rel_occs : ∀ (r : Raw) (e : Expr) (scope : List (String × Expr)), WellTyped ρ r → Rel ρ r e →
    ∀ o ∈ e.refOccs scope, OccOK ρ o
  | .lit _ v, e, sc, _, h => by simp only [Rel] at h; subst h; simp [Expr.refOccs]
  | .this, e, sc, _, h => by simp only [Rel] at h; subst h; simp [Expr.refOccs]
  | .var x, e, sc, hw, h => by
      simp only [Rel] at h; obtain ⟨ty, rfl, hs⟩ := h
      simp only [WellTyped] at hw
      intro o ho
      simp only [Expr.refOccs, List.mem_singleton] at ho; subst ho
      exact ⟨by simpa [Expr.print] using hw.1, by simpa [Expr.print, Expr.ty] using hs,
        by simpa [Expr.print] using sub_trans hw.2 item_sub_any.1⟩
  | .set vs, e, sc, hw, h => by
      simp only [Rel] at h; obtain ⟨es, rfl, hes⟩ := h
      simp only [WellTyped] at hw
      simpa [Expr.refOccs] using relL_occs vs es sc hw.1 hes
  | .range lo hi a b, e, sc, hw, h => by
      simp only [Rel] at h; obtain ⟨lo', hi', rfl, h1, h2⟩ := h
      simp only [WellTyped] at hw
      intro o ho
      simp only [Expr.refOccs, List.mem_append] at ho
      rcases ho with ho | ho
      · exact rel_occs lo lo' sc hw.1 h1 o ho
      · exact rel_occs hi hi' sc hw.2.1 h2 o ho
  | .quant q x d b, e, sc, hw, h => by
      simp only [Rel] at h; obtain ⟨d', b', rfl, h1, h2⟩ := h
      simp only [WellTyped] at hw
      intro o ho
      simp only [Expr.refOccs, List.mem_append] at ho
      rcases ho with ho | ho
      · exact rel_occs d d' sc hw.1 h1 o ho
      · exact rel_occs b b' _ hw.2.1 h2 o ho
  | .un op a, e, sc, hw, h => by
      simp only [Rel] at h; obtain ⟨dd, a', _, rfl, h1⟩ := h
      simp only [WellTyped] at hw; obtain ⟨_, _, hwa, _⟩ := hw
      simpa [Expr.refOccs] using rel_occs a a' sc hwa h1
  | .bin op a b, e, sc, hw, h => by
      simp only [Rel] at h; obtain ⟨dd, a', b', _, rfl, h1, h2⟩ := h
      simp only [WellTyped] at hw; obtain ⟨_, _, hwa, hwb, _⟩ := hw
      intro o ho
      simp only [Expr.refOccs, List.mem_append] at ho
      rcases ho with ho | ho
      · exact rel_occs a a' sc hwa h1 o ho
      · exact rel_occs b b' sc hwb h2 o ho
  | .call f args, e, sc, hw, h => by
      simp only [Rel] at h; obtain ⟨dd, as, _, rfl, h1⟩ := h
      simp only [WellTyped] at hw; obtain ⟨_, _, hwa, _⟩ := hw
      simpa [Expr.refOccs] using relL_occs args as sc hwa h1
  | .field m n, e, sc, hw, h => by
      have hp := rel_print ρ _ e h
      simp only [Rel] at h; obtain ⟨ty, m', rfl, hs, h1⟩ := h
      simp only [WellTyped] at hw
      intro o ho
      simp only [Expr.refOccs, List.mem_cons] at ho
      rcases ho with rfl | ho
      · exact ⟨by rw [hp]; exact hw.2.2.1, by rw [hp]; simpa [Expr.ty] using hs, by rw [hp]; exact sub_trans hw.2.2.2 item_sub_any.2⟩
      · exact rel_occs m m' sc hw.1 h1 o ho
  | .index a i, e, sc, hw, h => by
      have hp := rel_print ρ _ e h
      simp only [Rel] at h; obtain ⟨ty, a', i', rfl, hs, h1, h2⟩ := h
      simp only [WellTyped] at hw
      intro o ho
      simp only [Expr.refOccs, List.mem_cons, List.mem_append] at ho
      rcases ho with rfl | ho | ho
      · exact ⟨by rw [hp]; exact hw.2.2.2.2.1, by rw [hp]; simpa [Expr.ty] using hs, by rw [hp]; exact sub_trans hw.2.2.2.2.2 item_sub_any.2⟩
      · exact rel_occs a a' sc hw.1 h1 o ho
      · exact rel_occs i i' sc hw.2.1 h2 o ho
theorem relL_occs : ∀ (rs : RawList) (es : ExprList) (scope : List (String × Expr)), WellTypedL ρ rs → RelL ρ rs es →
    ∀ o ∈ es.refOccs scope, OccOK ρ o
  | .nil, es, sc, _, h => by simp only [RelL] at h; subst h; simp [ExprList.refOccs]
  | .cons r rs, es, sc, hw, h => by
      simp only [RelL] at h; obtain ⟨e, es0, rfl, he, hes⟩ := h
      simp only [WellTypedL] at hw
      intro o ho
      simp only [ExprList.refOccs, List.mem_append] at ho
      rcases ho with ho | ho
      · exact rel_occs r e sc hw.1 he o ho
      · exact relL_occs rs es0 sc hw.2 hes o ho
end

theorem foldl_and_contains (τ : DataType) : ∀ (l : List (Option Expr × Expr)) (acc : DataType),
    sub τ acc → (∀ s ∈ l, sub τ s.2.ty) → sub τ (l.foldl (fun acc s => acc &&& s.2.ty) acc)
  | [], acc, h, _ => h
  | s :: rest, acc, h, hall => by
      simp only [List.foldl_cons]
      exact foldl_and_contains τ rest _ (sub_and_of h (hall s List.mem_cons_self)) (fun s' hs' => hall s' (List.mem_cons_of_mem _ hs'))

/-- every reference group of a decorated well-typed tree shares its concrete type -/
theorem refsOk_of_rel (r : Raw) (e : Expr) (hw : WellTyped ρ r) (h : Rel ρ r e) : refsOk e = true := by
  unfold refsOk
  simp only [List.all_eq_true, bne_iff_ne, ne_eq]
  intro o ho
  obtain ⟨hne, _, hany⟩ := rel_occs ρ r e [] hw h o ho
  refine ne_zero_of_sub (foldl_and_contains (ρ o.2.print) _ T.ANY hany ?_) hne
  intro s hs
  obtain ⟨hs1, hs2⟩ := List.mem_filter.1 hs
  have hp : s.2.print = o.2.print := by
    simp only [sameRef, Bool.and_eq_true, beq_iff_eq] at hs2; exact hs2.2.symm
  rw [← hp]; exact (rel_occs ρ r e [] hw h s hs1).2.1

/-- **C04**: a well-typed term with a boolean root is accepted as a predicate -/
theorem predicate_complete (r : Raw) (hw : WellTyped ρ r) (hb : ctype ρ r = T.BOOL) :
    ∃ p, (build r >>= predFromExpr) = .ok p := by
  obtain ⟨e, hbuild, hrel⟩ := build_complete ρ r hw
  have hty := rel_ty ρ r e hrel
  rw [hb] at hty
  have hcan : ¬ (e.ty &&& T.BOOL = 0) := by
    intro hz
    have : sub T.BOOL (e.ty &&& T.BOOL) := sub_and_of hty (sub_refl _)
    rw [hz] at this; revert this; decide
  simp only [hbuild, bind, Except.bind]
  unfold predFromExpr
  simp only [hcan, ↓reduceIte]
  have mk : ∀ e, Rel ρ r e → ∃ p, mkPred e = .ok p := by
    intro e hrel
    obtain ⟨e1, hc, hr1⟩ := castE_rel ρ r e T.BOOL hrel (by rw [hb]; exact sub_refl _) (by rw [hb]; decide)
    exact ⟨.expr e1, by simp [mkPred, hc, refsOk_of_rel ρ r e1 hw hr1, bind, Except.bind, pure, Except.pure]⟩
  cases e with
  | lit ty tok v =>
    cases r with
    | lit tok' v' =>
      simp only [Rel] at hrel
      injection hrel with h1 h2 h3
      subst h3
      cases v with
      | bool b => exact ⟨_, rfl⟩
      | _ => simp only [ctype, intrinsic, LitVal.ty, Option.getD_some] at hb <;> exact absurd hb (by decide)
    | this => simp only [Rel] at hrel; cases hrel
    | var x => simp only [Rel] at hrel; obtain ⟨_, h, _⟩ := hrel; cases h
    | set vs => simp only [Rel] at hrel; obtain ⟨_, h, _⟩ := hrel; cases h
    | range _ _ _ _ => simp only [Rel] at hrel; obtain ⟨_, _, h, _⟩ := hrel; cases h
    | quant _ _ _ _ => simp only [Rel] at hrel; obtain ⟨_, _, h, _⟩ := hrel; cases h
    | un _ _ => simp only [Rel] at hrel; obtain ⟨_, _, _, h, _⟩ := hrel; cases h
    | bin _ _ _ => simp only [Rel] at hrel; obtain ⟨_, _, _, _, h, _⟩ := hrel; cases h
    | call _ _ => simp only [Rel] at hrel; obtain ⟨_, _, _, h, _⟩ := hrel; cases h
    | field _ _ => simp only [Rel] at hrel; obtain ⟨_, _, h, _⟩ := hrel; cases h
    | index _ _ => simp only [Rel] at hrel; obtain ⟨_, _, _, h, _⟩ := hrel; cases h
  | _ => exact mk _ hrel


/-! ## the schema check succeeds -/

/-- every accessor node of the decorated tree carries a type set containing the type `ρ` gives its path -/
def AccOK (n : Expr) : Prop := isAccessor n = true → ρ n.print ≠ 0 ∧ sub (ρ n.print) n.ty

mutual
theorem rel_accessors : ∀ (r : Raw) (e : Expr), WellTyped ρ r → Rel ρ r e → ∀ n ∈ e.preorder, AccOK ρ n
  | .lit _ v, e, _, h => by simp only [Rel] at h; subst h; intro n hn; simp [Expr.preorder] at hn; subst hn; intro hh; cases hh
  | .this, e, _, h => by simp only [Rel] at h; subst h; intro n hn; simp [Expr.preorder] at hn; subst hn; intro hh; cases hh
  | .var x, e, _, h => by
      simp only [Rel] at h; obtain ⟨ty, rfl, _⟩ := h
      intro n hn; simp [Expr.preorder] at hn; subst hn; intro hh; cases hh
  | .set vs, e, hw, h => by
      simp only [Rel] at h; obtain ⟨es, rfl, hes⟩ := h
      simp only [WellTyped] at hw
      intro n hn
      simp only [Expr.preorder, List.mem_cons] at hn
      rcases hn with rfl | hn
      · intro hh; cases hh
      · exact relL_accessors vs es hw.1 hes n hn
  | .range lo hi a b, e, hw, h => by
      simp only [Rel] at h; obtain ⟨lo', hi', rfl, h1, h2⟩ := h
      simp only [WellTyped] at hw
      intro n hn
      simp only [Expr.preorder, List.mem_cons, List.mem_append] at hn
      rcases hn with rfl | hn | hn
      · intro hh; cases hh
      · exact rel_accessors lo lo' hw.1 h1 n hn
      · exact rel_accessors hi hi' hw.2.1 h2 n hn
  | .quant q x d b, e, hw, h => by
      simp only [Rel] at h; obtain ⟨d', b', rfl, h1, h2⟩ := h
      simp only [WellTyped] at hw
      intro n hn
      simp only [Expr.preorder, List.mem_cons, List.mem_append] at hn
      rcases hn with rfl | hn | hn
      · intro hh; cases hh
      · exact rel_accessors d d' hw.1 h1 n hn
      · exact rel_accessors b b' hw.2.1 h2 n hn
  | .un op a, e, hw, h => by
      simp only [Rel] at h; obtain ⟨dd, a', _, rfl, h1⟩ := h
      simp only [WellTyped] at hw; obtain ⟨_, _, hwa, _⟩ := hw
      intro n hn
      simp only [Expr.preorder, List.mem_cons] at hn
      rcases hn with rfl | hn
      · intro hh; cases hh
      · exact rel_accessors a a' hwa h1 n hn
  | .bin op a b, e, hw, h => by
      simp only [Rel] at h; obtain ⟨dd, a', b', _, rfl, h1, h2⟩ := h
      simp only [WellTyped] at hw; obtain ⟨_, _, hwa, hwb, _⟩ := hw
      intro n hn
      simp only [Expr.preorder, List.mem_cons, List.mem_append] at hn
      rcases hn with rfl | hn | hn
      · intro hh; cases hh
      · exact rel_accessors a a' hwa h1 n hn
      · exact rel_accessors b b' hwb h2 n hn
  | .call f args, e, hw, h => by
      simp only [Rel] at h; obtain ⟨dd, as, _, rfl, h1⟩ := h
      simp only [WellTyped] at hw; obtain ⟨_, _, hwa, _⟩ := hw
      intro n hn
      simp only [Expr.preorder, List.mem_cons] at hn
      rcases hn with rfl | hn
      · intro hh; cases hh
      · exact relL_accessors args as hwa h1 n hn
  | .field m nm, e, hw, h => by
      have hp := rel_print ρ _ e h
      simp only [Rel] at h; obtain ⟨ty, m', rfl, hs, h1⟩ := h
      simp only [WellTyped] at hw
      intro n hn
      simp only [Expr.preorder, List.mem_cons] at hn
      rcases hn with rfl | hn
      · intro _; exact ⟨by rw [hp]; exact hw.2.2.1, by rw [hp]; simpa [Expr.ty] using hs⟩
      · exact rel_accessors m m' hw.1 h1 n hn
  | .index a i, e, hw, h => by
      have hp := rel_print ρ _ e h
      simp only [Rel] at h; obtain ⟨ty, a', i', rfl, hs, h1, h2⟩ := h
      simp only [WellTyped] at hw
      intro n hn
      simp only [Expr.preorder, List.mem_cons, List.mem_append] at hn
      rcases hn with rfl | hn | hn
      · intro _; exact ⟨by rw [hp]; exact hw.2.2.2.2.1, by rw [hp]; simpa [Expr.ty] using hs⟩
      · exact rel_accessors a a' hw.1 h1 n hn
      · exact rel_accessors i i' hw.2.1 h2 n hn
theorem relL_accessors : ∀ (rs : RawList) (es : ExprList), WellTypedL ρ rs → RelL ρ rs es → ∀ n ∈ es.preorder, AccOK ρ n
  | .nil, es, _, h => by simp only [RelL] at h; subst h; intro n hn; simp [ExprList.preorder] at hn
  | .cons r rs, es, hw, h => by
      simp only [RelL] at h; obtain ⟨e, es0, rfl, he, hes⟩ := h
      simp only [WellTypedL] at hw
      intro n hn
      simp only [ExprList.preorder, List.mem_append] at hn
      rcases hn with hn | hn
      · exact rel_accessors r e hw.1 he n hn
      · exact relL_accessors rs es0 hw.2 hes n hn
end

/-- `ρ` is the typing the schema induces on the tree: every accessor path resolves in the schema of its root, `ρ` gives
    it the declared type, and literal indices of fixed-length arrays are in bounds -/
def SchemaTyping (this : TyTok) (vars : VarTypes) (e : Expr) : Prop :=
  ∀ a ∈ e.preorder, isAccessor a = true → (∃ t, denote this vars a = some t ∧ t.ty = ρ a.print) ∧ InBounds this vars a

/-- **C04**: what `build` returns for a term that is well typed under the typing induced by a schema passes the schema
    check (`type_check_references`) -/
theorem schema_check_complete (this : TyTok) (vars : VarTypes) (hb : BaseMsgs this vars) (r : Raw) (hw : WellTyped ρ r) :
    ∃ e, build r = .ok e ∧ Rel ρ r e ∧ (SchemaTyping ρ this vars e → checkRefs this vars e = .ok ()) := by
  obtain ⟨e, hbuild, hrel⟩ := build_complete ρ r hw
  refine ⟨e, hbuild, hrel, fun hs => ?_⟩
  rw [checkRefs_ok_iff this vars hb e]
  intro a ha hacc
  obtain ⟨⟨t, hd, ht⟩, hbounds⟩ := hs a ha hacc
  obtain ⟨hne, hsub⟩ := rel_accessors ρ r e hw hrel a ha hacc
  refine ⟨⟨t, hd, ?_⟩, hbounds⟩
  rw [ht]
  exact and_ne_zero_of_subs hsub (sub_refl _) hne

-- non-vacuity: `x + 1 > @A.y and b` under x, @A.y : NUMBER, b : BOOL, @A : MESSAGE
example : ∃ ρ : Typing, WellTyped ρ
    (.bin "and" (.bin ">" (.bin "+" (.field .this "x") (.lit "1" (.int 1))) (.field (.var "A") "y")) (.field .this "b")) := by
  refine ⟨fun s => if s == "b" then T.BOOL else if s == "@A" then T.MESSAGE else T.NUMBER, ?_⟩
  simp only [WellTyped]
  refine ⟨⟨"and", T.BOOL, T.BOOL, T.BOOL, true, true, true⟩, by decide, ?_, ?_, by decide, by decide, by decide⟩
  · refine ⟨⟨">", T.NUMBER, T.NUMBER, T.BOOL, true, false, false⟩, by decide, ?_, ?_, by decide, by decide, by decide⟩
    · exact ⟨⟨"+", T.NUMBER, T.NUMBER, T.NUMBER, true, true, true⟩, by decide, by decide, trivial, by decide, by decide, by decide⟩
    · decide
  · decide


/-! ## the executable check of the hypothesis is sound -/

theorem subB_sound {a b : DataType} (h : subB a b = true) : sub a b := by
  simpa [subB, sub] using h

theorem argsInsideB_sound : ∀ (as ps : List DataType), argsWithinB as ps = true → argsInside as ps
  | [], _, _ => by simp [argsInside]
  | a :: as, p :: ps, h => by
      simp only [argsWithinB, Bool.and_eq_true] at h
      exact ⟨subB_sound h.1, argsInsideB_sound as ps h.2⟩
  | _ :: _, [], h => by simp [argsWithinB] at h

theorem domainOKB_sound (τx : DataType) : ∀ (d : Raw), domainOKB ρ τx d = true → DomainOK ρ τx d
  | .set vs, h => by
      simp only [domainOKB, Bool.and_eq_true, List.all_eq_true, beq_iff_eq] at h
      refine ⟨?_, h.2⟩
      intro hn; subst hn; simp at h
  | .range .., h => by simpa [domainOKB, DomainOK] using h
  | .lit .., h => by simpa [domainOKB, DomainOK] using h
  | .this, h => by simpa [domainOKB, DomainOK] using h
  | .var _, h => by simpa [domainOKB, DomainOK] using h
  | .quant .., h => by simpa [domainOKB, DomainOK] using h
  | .un .., h => by simpa [domainOKB, DomainOK] using h
  | .bin .., h => by simpa [domainOKB, DomainOK] using h
  | .call .., h => by simpa [domainOKB, DomainOK] using h
  | .field .., h => by simpa [domainOKB, DomainOK] using h
  | .index .., h => by simpa [domainOKB, DomainOK] using h

mutual
/-- whatever the executable check accepts satisfies the hypothesis of `build_complete` -/
theorem wellTypedB_sound : ∀ (r : Raw), wellTypedB ρ r = true → WellTyped ρ r
  | .lit .., _ => by simp [WellTyped]
  | .this, _ => by simp [WellTyped]
  | .var x, h => by
      simp only [wellTypedB, Bool.and_eq_true, bne_iff_ne, ne_eq] at h
      exact ⟨h.1, subB_sound h.2⟩
  | .set vs, h => by
      simp only [wellTypedB, Bool.and_eq_true, List.all_eq_true] at h
      exact ⟨wellTypedLB_sound vs h.1, fun τ hτ => subB_sound (h.2 τ hτ)⟩
  | .range lo hi _ _, h => by
      simp only [wellTypedB, Bool.and_eq_true, beq_iff_eq] at h
      exact ⟨wellTypedB_sound lo h.1.1.1, wellTypedB_sound hi h.1.1.2, h.1.2, h.2⟩
  | .quant _ x d b, h => by
      simp only [wellTypedB, Bool.and_eq_true, beq_iff_eq, Bool.not_eq_true', List.contains_iff_mem] at h
      obtain ⟨⟨⟨⟨⟨⟨⟨⟨h1, h2⟩, h3⟩, h4⟩, h5⟩, h6⟩, h7⟩, h8⟩, h9⟩ := h
      have h7' : x ∉ d.vars := by intro hm; rw [← List.contains_iff_mem] at hm; rw [hm] at h7; cases h7
      have h9' : x ∉ b.binders := by intro hm; rw [← List.contains_iff_mem] at hm; rw [hm] at h9; cases h9
      exact ⟨wellTypedB_sound d h1, wellTypedB_sound b h2, h3, subB_sound h4, domainOKB_sound ρ _ d h5, h6, h7', h8, h9'⟩
  | .un op a, h => by
      simp only [wellTypedB] at h
      split at h
      · rename_i dd hd
        simp only [Bool.and_eq_true] at h
        exact ⟨dd, hd, wellTypedB_sound a h.1, subB_sound h.2⟩
      · cases h
  | .bin op a b, h => by
      simp only [wellTypedB] at h
      split at h
      · rename_i dd hd
        simp only [Bool.and_eq_true, Bool.or_eq_true, beq_iff_eq] at h
        obtain ⟨⟨⟨⟨h1, h2⟩, h3⟩, h4⟩, h5⟩ := h
        refine ⟨dd, hd, wellTypedB_sound a h1, wellTypedB_sound b h2, subB_sound h3, subB_sound h4, ?_⟩
        intro hov
        rcases h5 with h5 | h5
        · exact absurd h5 hov
        · exact h5
      · cases h
  | .call f args, h => by
      simp only [wellTypedB] at h
      split at h
      · rename_i dd hd
        simp only [Bool.and_eq_true, List.any_eq_true] at h
        obtain ⟨h1, s, hs, h2, h3⟩ := h
        exact ⟨dd, hd, wellTypedLB_sound args h1, s, hs, h2, argsInsideB_sound _ _ h3⟩
      · cases h
  | .field m n, h => by
      simp only [wellTypedB, Bool.and_eq_true, beq_iff_eq, bne_iff_ne, ne_eq] at h
      exact ⟨wellTypedB_sound m h.1.1.1, h.1.1.2, h.1.2, subB_sound h.2⟩
  | .index a i, h => by
      simp only [wellTypedB, Bool.and_eq_true, beq_iff_eq, bne_iff_ne, ne_eq] at h
      obtain ⟨⟨⟨⟨⟨h1, h2⟩, h3⟩, h4⟩, h5⟩, h6⟩ := h
      exact ⟨wellTypedB_sound a h1, wellTypedB_sound i h2, h3, h4, h5, subB_sound h6⟩
theorem wellTypedLB_sound : ∀ (rs : RawList), wellTypedLB ρ rs = true → WellTypedL ρ rs
  | .nil, _ => by simp [WellTypedL]
  | .cons r rs, h => by
      simp only [wellTypedLB, Bool.and_eq_true] at h
      exact ⟨wellTypedB_sound r h.1, wellTypedLB_sound rs h.2⟩
end

/-- **C04** in executable form: what the check accepts with a boolean root is accepted as a predicate -/
theorem checked_predicate_accepted (r : Raw) (h : wellTypedB ρ r = true) (hb : ctype ρ r = T.BOOL) :
    ∃ p, (build r >>= predFromExpr) = .ok p :=
  predicate_complete ρ r (wellTypedB_sound ρ r h) hb

end Hpl
