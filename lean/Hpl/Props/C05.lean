import Hpl.Props.C07
import Hpl.Props.C02
import Hpl.Spec.Clash
/-!
# C05 — definite type errors are always rejected

Model: `build`, `predFromExpr` (`Hpl/Model/Build.lean`). Spec: the *intrinsic* type of a literal or of the result of an
operator / function / set / range / quantifier (references have none), and `HasClash`: somewhere in the term an argument
position demands a type that is disjoint from the intrinsic type found there.
-/
namespace Hpl

theorem castE_ty_of_atomic {e e' : Expr} {t : DataType} (h : castE e t = .ok e') (ha : Atomic e.ty) : e'.ty = e.ty := by
  obtain ⟨hty, hne, _⟩ := castE_ok h
  rcases ha.2 t with h0 | h1
  · rw [hty] at hne; exact absurd h0 hne
  · rw [hty, h1]

/-- what `build` returns carries exactly the intrinsic type -/
theorem build_intrinsic : ∀ (r : Raw) (e : Expr) (τ : DataType), build r = .ok e → intrinsic r = some τ → e.ty = τ
  | .lit k v, e, τ, h, hi => by simp only [build] at h; cases h; simpa [intrinsic, Expr.ty] using hi
  | .this, e, τ, h, hi => by simp only [build] at h; cases h; simpa [intrinsic, Expr.ty] using hi
  | .var _, e, τ, h, hi => by simp [intrinsic] at hi
  | .set vs, e, τ, h, hi => by
      simp only [build] at h
      obtain ⟨es, _, h⟩ := bind_ok h
      unfold mkSet at h
      obtain ⟨vs', _, h⟩ := bind_ok h
      cases h; simpa [intrinsic, Expr.ty] using hi
  | .range lo hi a b, e, τ, h, hi' => by
      simp only [build] at h
      obtain ⟨lo', _, h⟩ := bind_ok h
      obtain ⟨hi2, _, h⟩ := bind_ok h
      unfold mkRange at h
      obtain ⟨lo'', _, h⟩ := bind_ok h
      obtain ⟨hi'', _, h⟩ := bind_ok h
      cases h; simpa [intrinsic, Expr.ty] using hi'
  | .quant q x d b, e, τ, h, hi => by
      simp only [build] at h
      obtain ⟨d', _, h⟩ := bind_ok h
      obtain ⟨b', _, h⟩ := bind_ok h
      obtain ⟨d2, b2, rfl, _⟩ := mkQuant_hygiene h
      simpa [intrinsic, Expr.ty] using hi
  | .un op a, e, τ, h, hi => by
      simp only [build] at h
      obtain ⟨a', _, h⟩ := bind_ok h
      unfold mkUn at h
      split at h
      · cases h
      · rename_i d hd
        obtain ⟨a'', _, h⟩ := bind_ok h
        cases h
        simp only [intrinsic, hd, Option.map_some, Option.some.injEq] at hi
        simpa [Expr.ty] using hi
  | .bin op a b, e, τ, h, hi => by
      simp only [build] at h
      obtain ⟨a', _, h⟩ := bind_ok h
      obtain ⟨b', _, h⟩ := bind_ok h
      unfold mkBin at h
      split at h
      · cases h
      · rename_i d hd
        simp only [intrinsic, hd, Option.map_some, Option.some.injEq] at hi
        obtain ⟨a1, _, h⟩ := bind_ok h
        obtain ⟨b1, _, h⟩ := bind_ok h
        split at h
        · obtain ⟨a2, _, h⟩ := bind_ok h
          obtain ⟨b2, _, h⟩ := bind_ok h
          cases h; simpa [Expr.ty] using hi
        · cases h; simpa [Expr.ty] using hi
  | .call f args, e, τ, h, hi => by
      simp only [build] at h
      obtain ⟨as, _, h⟩ := bind_ok h
      unfold mkCall at h
      split at h
      · cases h
      · rename_i d hd
        simp only [intrinsic, hd, Option.map_some, Option.some.injEq] at hi
        split at h
        · cases h
        · obtain ⟨args', _, h⟩ := bind_ok h
          cases h; simpa [Expr.ty] using hi
        · cases h; simpa [Expr.ty] using hi
  | .field .., e, τ, h, hi => by simp [intrinsic] at hi
  | .index .., e, τ, h, hi => by simp [intrinsic] at hi

/-- the type a successful narrowing to `t` starts from meets `t` -/
theorem castE_compat {e e' : Expr} {t : DataType} (h : castE e t = .ok e') : e.ty &&& t ≠ 0 := by
  obtain ⟨hty, hne, _⟩ := castE_ok h
  rw [← hty]; exact hne

/-- some member has an intrinsic type disjoint from `t` -/
def AnyDisjoint : RawList → DataType → Prop
  | .nil, _ => False
  | .cons r rs, t => (∃ τ, intrinsic r = some τ ∧ τ &&& t = 0) ∨ AnyDisjoint rs t

theorem anyDisjoint_rejected : ∀ (rs : RawList) (t : DataType) (es es' : ExprList), AnyDisjoint rs t →
    buildList rs = .ok es → castList t es ≠ .ok es'
  | .nil, _, _, _, hc, _, _ => hc.elim
  | .cons r rs, t, es, es', hc, hb, h => by
      simp only [buildList] at hb
      obtain ⟨e1, he1, hb⟩ := bind_ok hb
      obtain ⟨es1, hes1, hb⟩ := bind_ok hb
      cases hb
      simp only [castList] at h
      obtain ⟨e2, c1, h⟩ := bind_ok h
      obtain ⟨es2, c2, h⟩ := bind_ok h
      rcases hc with ⟨τ, hi, hz⟩ | hc
      · have := castE_compat c1; rw [build_intrinsic r e1 τ he1 hi] at this; exact this hz
      · exact anyDisjoint_rejected rs t es1 es2 hc hes1 c2

/-- a definite clash at the root: the head demands of some argument a type disjoint from that argument's intrinsic type -/
def RootClash : Raw → Prop
  | .un op a => ∃ d τ, findUn op = some d ∧ intrinsic a = some τ ∧ τ &&& d.param = 0
  | .bin op a b => ∃ d, findBin op = some d ∧
      ((∃ τ, intrinsic a = some τ ∧ τ &&& d.p1 = 0) ∨ (∃ τ, intrinsic b = some τ ∧ τ &&& d.p2 = 0) ∨
       (d.p1 &&& d.p2 ≠ 0 ∧ ∃ τa τb, intrinsic a = some τa ∧ intrinsic b = some τb ∧ Atomic τa ∧ τa &&& τb = 0))
  | .range lo hi _ _ => (∃ τ, intrinsic lo = some τ ∧ τ &&& T.NUMBER = 0) ∨ (∃ τ, intrinsic hi = some τ ∧ τ &&& T.NUMBER = 0)
  | .quant _ _ d b => (∃ τ, intrinsic d = some τ ∧ τ &&& T.COMPOUND = 0) ∨ (∃ τ, intrinsic b = some τ ∧ τ &&& T.BOOL = 0)
  | .field m _ => ∃ τ, intrinsic m = some τ ∧ τ &&& T.MESSAGE = 0
  | .index a i => (∃ τ, intrinsic a = some τ ∧ τ &&& T.ARRAY = 0) ∨ (∃ τ, intrinsic i = some τ ∧ τ &&& T.NUMBER = 0)
  | .set vs => AnyDisjoint vs T.PRIMITIVE
  | .call f args => ∃ d, findFun f = some d ∧ ∀ s ∈ d.overloads, s.accepts (uppers args) = false
  | _ => False

/-- pointwise inclusion of two type lists of the same length -/
def subs : List DataType → List DataType → Prop
  | [], [] => True
  | a :: as, b :: bs => sub a b ∧ subs as bs
  | _, _ => False

theorem subs_length : ∀ {as bs : List DataType}, subs as bs → as.length = bs.length
  | [], [], _ => rfl
  | _ :: as, _ :: bs, h => by simp [subs_length h.2]
  | [], _ :: _, h => h.elim
  | _ :: _, [], h => h.elim

theorem and_ne_zero_mono {a b t : DataType} (h : sub a b) (hne : a &&& t ≠ 0) : b &&& t ≠ 0 := by
  intro hz
  apply hne
  unfold sub at h
  rw [← h, Nat.and_assoc, hz]; simp

theorem zip_all_mono : ∀ {as bs : List DataType} (ps : List DataType), subs as bs →
    (List.zip as ps).all (fun p => p.1 &&& p.2 != 0) = true → (List.zip bs ps).all (fun p => p.1 &&& p.2 != 0) = true
  | [], [], _, _, _ => by simp
  | a :: as, b :: bs, [], _, _ => by simp
  | a :: as, b :: bs, p :: ps, h, hall => by
      simp only [List.zip_cons_cons, List.all_cons, Bool.and_eq_true, bne_iff_ne, ne_eq] at hall ⊢
      exact ⟨and_ne_zero_mono h.1 hall.1, zip_all_mono ps h.2 hall.2⟩
  | [], _ :: _, _, h, _ => h.elim
  | _ :: _, [], _, h, _ => h.elim

theorem all_mono (v : DataType) : ∀ {as bs : List DataType}, subs as bs →
    as.all (fun a => a &&& v != 0) = true → bs.all (fun a => a &&& v != 0) = true
  | [], [], _, _ => by simp
  | a :: as, b :: bs, h, hall => by
      simp only [List.all_cons, Bool.and_eq_true, bne_iff_ne, ne_eq] at hall ⊢
      exact ⟨and_ne_zero_mono h.1 hall.1, all_mono v h.2 hall.2⟩
  | [], _ :: _, h, _ => h.elim
  | _ :: _, [], h, _ => h.elim

theorem subs_drop : ∀ (n : Nat) {as bs : List DataType}, subs as bs → subs (as.drop n) (bs.drop n)
  | 0, _, _, h => by simpa using h
  | n + 1, [], [], _ => by simp [subs]
  | n + 1, _ :: as, _ :: bs, h => by simpa using subs_drop n h.2
  | _ + 1, [], _ :: _, h => h.elim
  | _ + 1, _ :: _, [], h => h.elim

/-- overload acceptance is monotone in the argument types -/
theorem accepts_mono (s : Sig) {as bs : List DataType} (h : subs as bs) (ha : s.accepts as = true) : s.accepts bs = true := by
  unfold Sig.accepts at ha ⊢
  rw [← subs_length h]
  simp only at ha ⊢
  split at ha
  · cases ha
  · rename_i h1
    simp only [h1, ↓reduceIte]
    split at ha
    · cases ha
    · rename_i h2
      simp only [h2, Bool.false_eq_true, ↓reduceIte]
      simp only [Bool.and_eq_true] at ha ⊢
      refine ⟨zip_all_mono _ h ha.1, ?_⟩
      have := ha.2
      cases hv : s.variadic with
      | none => rfl
      | some v =>
        rw [hv] at this
        exact all_mono v (subs_drop _ h) this

theorem any_within : sub T.PRIMITIVE T.ANY ∧ sub T.MESSAGE T.ANY ∧ sub T.ITEM T.ANY ∧ sub T.SET T.ANY ∧ sub T.RANGE T.ANY ∧
    sub T.BOOL T.ANY ∧ sub T.ACCESS T.ANY := by decide

theorem build_sub_upper (r : Raw) (e : Expr) (h : build r = .ok e) : sub e.ty (upper r) := by
  unfold upper
  cases hi : intrinsic r with
  | some τ => rw [build_intrinsic r e τ h hi]; exact sub_refl _
  | none =>
    have hk := (WT_within_kind e (build_WT r e h)).2
    refine sub_trans hk ?_
    obtain ⟨h1, h2, h3, h4, h5, h6, h7⟩ := any_within
    cases e <;> simp only [kindDefault, Option.getD] <;> first | assumption | exact sub_refl _

theorem buildList_subs_uppers : ∀ (rs : RawList) (es : ExprList), buildList rs = .ok es → subs es.tys (uppers rs)
  | .nil, es, h => by simp only [buildList] at h; cases h; simp [ExprList.tys, uppers, subs]
  | .cons r rs, es, h => by
      simp only [buildList] at h
      obtain ⟨e', he, h⟩ := bind_ok h
      obtain ⟨es', hes, h⟩ := bind_ok h
      cases h
      exact ⟨build_sub_upper r e' he, buildList_subs_uppers rs es' hes⟩

theorem rootClash_rejected : ∀ (r : Raw), RootClash r → ∀ e, build r ≠ .ok e
  | .un op a, hc, e, h => by
      obtain ⟨d, τ, hd, hi, hz⟩ := hc
      simp only [build] at h
      obtain ⟨a', ha', h⟩ := bind_ok h
      unfold mkUn at h
      rw [hd] at h
      simp only at h
      obtain ⟨a'', hc', _⟩ := bind_ok h
      have := castE_compat hc'
      rw [build_intrinsic a a' τ ha' hi] at this
      exact this hz
  | .bin op a b, hc, e, h => by
      obtain ⟨d, hd, hcase⟩ := hc
      simp only [build] at h
      obtain ⟨a', ha', h⟩ := bind_ok h
      obtain ⟨b', hb', h⟩ := bind_ok h
      unfold mkBin at h
      rw [hd] at h
      simp only at h
      obtain ⟨a1, hc1, h⟩ := bind_ok h
      obtain ⟨b1, hc2, h⟩ := bind_ok h
      rcases hcase with ⟨τ, hi, hz⟩ | ⟨τ, hi, hz⟩ | ⟨hov, τa, τb, hia, hib, hat, hz⟩
      · have := castE_compat hc1
        rw [build_intrinsic a a' τ ha' hi] at this
        exact this hz
      · have := castE_compat hc2
        rw [build_intrinsic b b' τ hb' hi] at this
        exact this hz
      · simp only [hov, ne_eq, not_false_eq_true, ↓reduceIte] at h
        obtain ⟨a2, hc3, h⟩ := bind_ok h
        have hta' : a'.ty = τa := build_intrinsic a a' τa ha' hia
        have htb' : b'.ty = τb := build_intrinsic b b' τb hb' hib
        -- narrowing an atomic type keeps it; the second operand keeps a subset of its type
        have hta1 : a1.ty = τa := by rw [castE_ty_of_atomic hc1 (hta' ▸ hat), hta']
        have hb1 : b1.ty &&& τb = b1.ty := by
          have := (castE_sub hc2).2
          unfold sub at this; rw [htb'] at this; exact this
        have := castE_compat hc3
        rw [hta1] at this
        apply this
        -- τa ∩ b1.ty ⊆ τa ∩ τb = ∅
        rw [← hb1, ← Nat.and_assoc, Nat.and_comm τa b1.ty, Nat.and_assoc, hz]; simp
  | .range lo hi a b, hc, e, h => by
      simp only [build] at h
      obtain ⟨lo', hlo, h⟩ := bind_ok h
      obtain ⟨hi', hhi, h⟩ := bind_ok h
      unfold mkRange at h
      obtain ⟨lo'', c1, h⟩ := bind_ok h
      obtain ⟨hi'', c2, h⟩ := bind_ok h
      rcases hc with ⟨τ, hi1, hz⟩ | ⟨τ, hi1, hz⟩
      · have := castE_compat c1; rw [build_intrinsic lo lo' τ hlo hi1] at this; exact this hz
      · have := castE_compat c2; rw [build_intrinsic hi hi' τ hhi hi1] at this; exact this hz
  | .quant q x d b, hc, e, h => by
      simp only [build] at h
      obtain ⟨d', hd, h⟩ := bind_ok h
      obtain ⟨b', hb, h⟩ := bind_ok h
      unfold mkQuant at h
      obtain ⟨d'', c1, h⟩ := bind_ok h
      obtain ⟨b'', c2, h⟩ := bind_ok h
      rcases hc with ⟨τ, hi1, hz⟩ | ⟨τ, hi1, hz⟩
      · have := castE_compat c1; rw [build_intrinsic d d' τ hd hi1] at this; exact this hz
      · have := castE_compat c2; rw [build_intrinsic b b' τ hb hi1] at this; exact this hz
  | .field m n, hc, e, h => by
      obtain ⟨τ, hi1, hz⟩ := hc
      simp only [build] at h
      obtain ⟨m', hm, h⟩ := bind_ok h
      unfold mkField mkFieldT at h
      split at h
      · cases h
      · obtain ⟨m'', c1, h⟩ := bind_ok h
        have := castE_compat c1; rw [build_intrinsic m m' τ hm hi1] at this; exact this hz
  | .index a i, hc, e, h => by
      simp only [build] at h
      obtain ⟨a', ha, h⟩ := bind_ok h
      obtain ⟨i', hi, h⟩ := bind_ok h
      unfold mkIndex mkIndexT at h
      split at h
      · cases h
      · obtain ⟨a'', c1, h⟩ := bind_ok h
        obtain ⟨i'', c2, h⟩ := bind_ok h
        rcases hc with ⟨τ, hi1, hz⟩ | ⟨τ, hi1, hz⟩
        · have := castE_compat c1; rw [build_intrinsic a a' τ ha hi1] at this; exact this hz
        · have := castE_compat c2; rw [build_intrinsic i i' τ hi hi1] at this; exact this hz
  | .set vs, hc, e, h => by
      simp only [build] at h
      obtain ⟨es, hes, h⟩ := bind_ok h
      unfold mkSet at h
      obtain ⟨es', hc', _⟩ := bind_ok h
      exact anyDisjoint_rejected vs _ es es' hc hes hc'
  | .lit .., hc, _, _ => hc.elim
  | .this, hc, _, _ => hc.elim
  | .var _, hc, _, _ => hc.elim
  | .call f args, hc, e, h => by
      obtain ⟨d, hd, hall⟩ := hc
      simp only [build] at h
      obtain ⟨as, has, h⟩ := bind_ok h
      unfold mkCall at h
      rw [hd] at h
      simp only at h
      have hsub := buildList_subs_uppers args as has
      have key : ∀ s ∈ d.overloads.filter (·.accepts as.tys), False := by
        intro s hs
        rw [List.mem_filter] at hs
        have := accepts_mono s hsub hs.2
        rw [hall s hs.1] at this; cases this
      split at h
      · cases h
      · rename_i s hf; exact key s (by rw [hf]; simp)
      · rename_i hne _
        cases hf : d.overloads.filter (·.accepts as.tys) with
        | nil => exact hne hf
        | cons s _ => exact key s (by rw [hf]; simp)

mutual
/-- a definite clash somewhere in the term -/
def HasClash : Raw → Prop
  | r@(.set vs) => RootClash r ∨ HasClashL vs
  | r@(.range lo hi _ _) => RootClash r ∨ HasClash lo ∨ HasClash hi
  | r@(.quant _ _ d b) => RootClash r ∨ HasClash d ∨ HasClash b
  | r@(.un _ a) => RootClash r ∨ HasClash a
  | r@(.bin _ a b) => RootClash r ∨ HasClash a ∨ HasClash b
  | r@(.call _ args) => RootClash r ∨ HasClashL args
  | r@(.field m _) => RootClash r ∨ HasClash m
  | r@(.index a i) => RootClash r ∨ HasClash a ∨ HasClash i
  | _ => False
def HasClashL : RawList → Prop
  | .nil => False
  | .cons e es => HasClash e ∨ HasClashL es
end

mutual
/-- **C05**: a term with a definite clash at any position never yields an AST -/
theorem clash_rejected : ∀ (r : Raw), HasClash r → ∀ e, build r ≠ .ok e
  | .set vs, hc, e, h => by
      simp only [HasClash] at hc
      rcases hc with hc | hc
      · exact rootClash_rejected _ hc e h
      · simp only [build] at h
        obtain ⟨es, hes, _⟩ := bind_ok h
        exact clashL_rejected vs hc es hes
  | .range lo hi a b, hc, e, h => by
      simp only [HasClash] at hc
      rcases hc with hc | hc | hc
      · exact rootClash_rejected _ hc e h
      · simp only [build] at h
        obtain ⟨lo', hlo, _⟩ := bind_ok h
        exact clash_rejected lo hc lo' hlo
      · simp only [build] at h
        obtain ⟨lo', _, h⟩ := bind_ok h
        obtain ⟨hi', hhi, _⟩ := bind_ok h
        exact clash_rejected hi hc hi' hhi
  | .quant q x d b, hc, e, h => by
      simp only [HasClash] at hc
      rcases hc with hc | hc | hc
      · exact rootClash_rejected _ hc e h
      · simp only [build] at h
        obtain ⟨d', hd, _⟩ := bind_ok h
        exact clash_rejected d hc d' hd
      · simp only [build] at h
        obtain ⟨d', _, h⟩ := bind_ok h
        obtain ⟨b', hb, _⟩ := bind_ok h
        exact clash_rejected b hc b' hb
  | .un op a, hc, e, h => by
      simp only [HasClash] at hc
      rcases hc with hc | hc
      · exact rootClash_rejected _ hc e h
      · simp only [build] at h
        obtain ⟨a', ha, _⟩ := bind_ok h
        exact clash_rejected a hc a' ha
  | .bin op a b, hc, e, h => by
      simp only [HasClash] at hc
      rcases hc with hc | hc | hc
      · exact rootClash_rejected _ hc e h
      · simp only [build] at h
        obtain ⟨a', ha, _⟩ := bind_ok h
        exact clash_rejected a hc a' ha
      · simp only [build] at h
        obtain ⟨a', _, h⟩ := bind_ok h
        obtain ⟨b', hb, _⟩ := bind_ok h
        exact clash_rejected b hc b' hb
  | .call f args, hc, e, h => by
      simp only [HasClash] at hc
      rcases hc with hc | hc
      · exact rootClash_rejected _ hc e h
      · simp only [build] at h
        obtain ⟨as, has, _⟩ := bind_ok h
        exact clashL_rejected args hc as has
  | .field m n, hc, e, h => by
      simp only [HasClash] at hc
      rcases hc with hc | hc
      · exact rootClash_rejected _ hc e h
      · simp only [build] at h
        obtain ⟨m', hm, _⟩ := bind_ok h
        exact clash_rejected m hc m' hm
  | .index a i, hc, e, h => by
      simp only [HasClash] at hc
      rcases hc with hc | hc | hc
      · exact rootClash_rejected _ hc e h
      · simp only [build] at h
        obtain ⟨a', ha, _⟩ := bind_ok h
        exact clash_rejected a hc a' ha
      · simp only [build] at h
        obtain ⟨a', _, h⟩ := bind_ok h
        obtain ⟨i', hi, _⟩ := bind_ok h
        exact clash_rejected i hc i' hi
  | .lit .., hc, _, _ => by simp [HasClash] at hc
  | .this, hc, _, _ => by simp [HasClash] at hc
  | .var _, hc, _, _ => by simp [HasClash] at hc
theorem clashL_rejected : ∀ (rs : RawList), HasClashL rs → ∀ es, buildList rs ≠ .ok es
  | .nil, hc, _, _ => by simp [HasClashL] at hc
  | .cons r rs, hc, es, h => by
      simp only [HasClashL] at hc
      simp only [buildList] at h
      obtain ⟨e', he, h⟩ := bind_ok h
      obtain ⟨es', hes, _⟩ := bind_ok h
      rcases hc with hc | hc
      · exact clash_rejected r hc e' he
      · exact clashL_rejected rs hc es' hes
end

theorem disjointFrom_iff {r : Raw} {t : DataType} (h : disjointFrom r t = true) : ∃ τ, intrinsic r = some τ ∧ τ &&& t = 0 := by
  unfold disjointFrom at h
  split at h
  · rename_i τ hτ; exact ⟨τ, hτ, by simpa using h⟩
  · cases h

theorem disjointFromL_sound : ∀ (rs : RawList) (t : DataType), disjointFromL rs t = true → AnyDisjoint rs t
  | .nil, _, h => by simp [disjointFromL] at h
  | .cons r rs, t, h => by
      simp only [disjointFromL, Bool.or_eq_true] at h
      exact h.imp disjointFrom_iff (disjointFromL_sound rs t)

/-- the executable detector is sound for `RootClash` -/
theorem rootClashB_sound : ∀ (r : Raw), rootClashB r = true → RootClash r
  | .un op a, h => by
      simp only [rootClashB] at h
      split at h
      · rename_i d hd
        obtain ⟨τ, h1, h2⟩ := disjointFrom_iff h
        exact ⟨d, τ, hd, h1, h2⟩
      · cases h
  | .bin op a b, h => by
      simp only [rootClashB] at h
      split at h
      · rename_i d hd
        refine ⟨d, hd, ?_⟩
        simp only [Bool.or_eq_true, Bool.and_eq_true] at h
        rcases h with (h | h) | ⟨hov, h⟩
        · exact Or.inl (disjointFrom_iff h)
        · exact Or.inr (Or.inl (disjointFrom_iff h))
        · right; right
          split at h
          · rename_i τa τb ha hb
            simp only [Bool.and_eq_true, beq_iff_eq] at h
            exact ⟨by simpa using hov, τa, τb, ha, hb, atomic_of_isBase h.1, h.2⟩
          · cases h
      · cases h
  | .range lo hi _ _, h => by
      simp only [rootClashB, Bool.or_eq_true] at h
      rcases h with h | h
      · exact Or.inl (disjointFrom_iff h)
      · exact Or.inr (disjointFrom_iff h)
  | .quant _ _ d b, h => by
      simp only [rootClashB, Bool.or_eq_true] at h
      rcases h with h | h
      · exact Or.inl (disjointFrom_iff h)
      · exact Or.inr (disjointFrom_iff h)
  | .field m _, h => by
      simp only [rootClashB] at h
      exact disjointFrom_iff h
  | .index a i, h => by
      simp only [rootClashB, Bool.or_eq_true] at h
      rcases h with h | h
      · exact Or.inl (disjointFrom_iff h)
      · exact Or.inr (disjointFrom_iff h)
  | .set vs, h => by
      simp only [rootClashB] at h
      exact disjointFromL_sound vs _ h
  | .lit .., h => by simp [rootClashB] at h
  | .this, h => by simp [rootClashB] at h
  | .var _, h => by simp [rootClashB] at h
  | .call f args, h => by
      simp only [rootClashB] at h
      split at h
      · rename_i d hd
        refine ⟨d, hd, fun s hs => ?_⟩
        rw [List.all_eq_true] at h
        simpa using h s hs
      · cases h

mutual
theorem hasClashB_sound : ∀ (r : Raw), hasClashB r = true → HasClash r
  | .set vs, h => by
      simp only [hasClashB, Bool.or_eq_true] at h; simp only [HasClash]
      exact h.imp (rootClashB_sound _) (hasClashLB_sound vs)
  | .range lo hi _ _, h => by
      simp only [hasClashB, Bool.or_eq_true] at h; simp only [HasClash]
      rcases h with (h | h) | h
      · exact Or.inl (rootClashB_sound _ h)
      · exact Or.inr (Or.inl (hasClashB_sound lo h))
      · exact Or.inr (Or.inr (hasClashB_sound hi h))
  | .quant _ _ d b, h => by
      simp only [hasClashB, Bool.or_eq_true] at h; simp only [HasClash]
      rcases h with (h | h) | h
      · exact Or.inl (rootClashB_sound _ h)
      · exact Or.inr (Or.inl (hasClashB_sound d h))
      · exact Or.inr (Or.inr (hasClashB_sound b h))
  | .un _ a, h => by
      simp only [hasClashB, Bool.or_eq_true] at h; simp only [HasClash]
      exact h.imp (rootClashB_sound _) (hasClashB_sound a)
  | .bin _ a b, h => by
      simp only [hasClashB, Bool.or_eq_true] at h; simp only [HasClash]
      rcases h with (h | h) | h
      · exact Or.inl (rootClashB_sound _ h)
      · exact Or.inr (Or.inl (hasClashB_sound a h))
      · exact Or.inr (Or.inr (hasClashB_sound b h))
  | .call _ args, h => by
      simp only [hasClashB, Bool.or_eq_true] at h; simp only [HasClash]
      exact h.imp (rootClashB_sound _) (hasClashLB_sound args)
  | .field m _, h => by
      simp only [hasClashB, Bool.or_eq_true] at h; simp only [HasClash]
      exact h.imp (rootClashB_sound _) (hasClashB_sound m)
  | .index a i, h => by
      simp only [hasClashB, Bool.or_eq_true] at h; simp only [HasClash]
      rcases h with (h | h) | h
      · exact Or.inl (rootClashB_sound _ h)
      · exact Or.inr (Or.inl (hasClashB_sound a h))
      · exact Or.inr (Or.inr (hasClashB_sound i h))
  | .lit .., h => by simp [hasClashB] at h
  | .this, h => by simp [hasClashB] at h
  | .var _, h => by simp [hasClashB] at h
theorem hasClashLB_sound : ∀ (rs : RawList), hasClashLB rs = true → HasClashL rs
  | .nil, h => by simp [hasClashLB] at h
  | .cons r rs, h => by
      simp only [hasClashLB, Bool.or_eq_true] at h; simp only [HasClashL]
      exact h.imp (hasClashB_sound r) (hasClashLB_sound rs)
end

/-- **C05** in executable form: whatever the detector flags never yields an AST -/
theorem detected_clash_rejected (r : Raw) (h : hasClashB r = true) : ∀ e, build r ≠ .ok e :=
  clash_rejected r (hasClashB_sound r h)

/-- **C05**, generically: whatever `build` accepts is well typed (C03 `build_WT`); in particular every occurrence of a
    quantified variable is compatible with the element type of its domain, so a variable used at a type disjoint from
    its domain's elements never yields an AST -/
theorem quant_var_clash_rejected (q : Quant) (x : String) (d b : Raw) (e : Expr) (h : build (.quant q x d b) = .ok e) :
    ∃ d' b', e = .quant T.BOOL q x d' b' ∧ ∀ v ∈ b'.preorder, isVarNamed x v = true → v.ty &&& domainElemType d' ≠ 0 := by
  have hwt := build_WT _ e h
  simp only [build] at h
  obtain ⟨d1, _, h⟩ := bind_ok h
  obtain ⟨b1, _, h⟩ := bind_ok h
  obtain ⟨d', b', rfl, _⟩ := mkQuant_hygiene h
  exact ⟨d', b', rfl, hwt.2.2.2.2.2⟩

/-- **C05**: a predicate whose top level cannot be boolean is rejected with a type error -/
theorem nonbool_root_rejected (e : Expr) (h : e.ty &&& T.BOOL = 0) : predFromExpr e = .error .type := by
  unfold predFromExpr; simp [h]

/-- **C05**: two occurrences of one reference (same printed form) at disjoint types are rejected with a type error -/
theorem ref_clash_rejected (e : Expr) (he : e.ty &&& T.BOOL ≠ 0) (hl : isBoolLit e = none) (hlit : ∀ t k v, e ≠ .lit t k v)
    (h : refsOk (match castE e T.BOOL with | .ok e' => e' | .error _ => e) = false) :
    ∃ x, predFromExpr e = .error x ∧ x = .type := by
  unfold predFromExpr
  simp only [he, ↓reduceIte]
  cases e with
  | lit t k v => exact absurd rfl (hlit t k v)
  | _ =>
    simp only [mkPred]
    all_goals
      (cases hc : castE _ T.BOOL with
       | error x => exact ⟨x, by simp [bind, Except.bind], castE_err hc⟩
       | ok e' =>
         rw [hc] at h
         simp only at h
         exact ⟨.type, by simp [bind, Except.bind, h], rfl⟩)

/-- **C05**: the rejection is always a documented error, never an internal failure (from C07) -/
theorem clash_error_class (r : Raw) (x : Err) (h : build r = .error x) : x = .type ∨ x = .sanity ∨ x = .value :=
  build_err_documented r x h

-- non-vacuity: `x + "a"`, `not 1`, `1 = "a"`, `[True to 2]`
example : HasClash (.bin "+" (.field .this "x") (.lit "\"a\"" (.str "\"a\""))) := by
  simp only [HasClash, RootClash]
  left; exact ⟨⟨"+", T.NUMBER, T.NUMBER, T.NUMBER, true, true, true⟩, by decide, Or.inr (Or.inl ⟨T.STRING, rfl, by decide⟩)⟩
example : build (.bin "+" (.field .this "x") (.lit "\"a\"" (.str "\"a\""))) = .error .type := by rfl
example : build (.bin "=" (.lit "1" (.int 1)) (.lit "\"a\"" (.str "\"a\""))) = .error .type := by rfl

end Hpl
