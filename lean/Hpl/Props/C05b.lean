import Hpl.Props.C05
import Hpl.Props.C09b
/-!
# C05 — the rejection of a definite type clash is a *type error*

`clash_type_error`: a quantifier-free term whose operators and functions all exist (`Raw.plain`) and that contains a definite clash is
rejected with exactly the type-error class — the constructors of such a term cannot fail in any other way (`build_err_type`): unknown
names are the only source of the ValueError class and quantifier hygiene the only source of sanity errors.
-/
namespace Hpl

mutual
/-- no quantifier, and every operator and function name is in the tables -/
def Raw.plain : Raw → Bool
  | .lit .. | .this | .var _ => true
  | .set vs => RawList.plainL vs
  | .range lo hi _ _ => lo.plain && hi.plain
  | .quant .. => false
  | .un op a => (findUn op).isSome && a.plain
  | .bin op a b => (findBin op).isSome && a.plain && b.plain
  | .call f as => (findFun f).isSome && RawList.plainL as
  | .field m _ => m.plain
  | .index a i => a.plain && i.plain
def RawList.plainL : RawList → Bool
  | .nil => true
  | .cons e es => e.plain && RawList.plainL es
end

theorem mkUn_known_err {op : String} {a : Expr} {x : Err} (hk : (findUn op).isSome = true) (h : mkUn op a = .error x) : x = .type := by
  unfold mkUn at h
  split at h
  · rename_i hn; rw [hn] at hk; cases hk
  · rcases bind_err' h with h1 | ⟨_, _, h⟩
    · exact castE_err h1
    · cases h

theorem mkCall_known_err {f : String} {args : ExprList} {x : Err} (hk : (findFun f).isSome = true) (h : mkCall f args = .error x) : x = .type := by
  unfold mkCall at h
  split at h
  · rename_i hn; rw [hn] at hk; cases hk
  · split at h
    · cases h; rfl
    · rcases bind_err' h with h1 | ⟨_, _, h⟩
      · exact castArgs_err h1
      · cases h
    · cases h

mutual
theorem build_err_type : ∀ (r : Raw) (x : Err), r.plain = true → build r = .error x → x = .type
  | .lit .., x, _, h => by simp [build] at h
  | .this, x, _, h => by simp [build] at h
  | .var _, x, _, h => by simp [build] at h
  | .set vs, x, hp, h => by
      simp only [Raw.plain] at hp
      simp only [build] at h
      rcases bind_err h with h1 | ⟨_, _, h⟩
      · exact buildList_err_type vs x hp h1
      · unfold mkSet at h
        rcases bind_err h with h2 | ⟨_, _, h⟩
        · exact castList_err h2
        · cases h
  | .range lo hi a b, x, hp, h => by
      simp only [Raw.plain, Bool.and_eq_true] at hp
      simp only [build] at h
      rcases bind_err h with h1 | ⟨_, _, h⟩
      · exact build_err_type lo x hp.1 h1
      · rcases bind_err h with h2 | ⟨_, _, h⟩
        · exact build_err_type hi x hp.2 h2
        · unfold mkRange at h
          rcases bind_err h with h3 | ⟨_, _, h⟩
          · exact castE_err h3
          · rcases bind_err h with h4 | ⟨_, _, h⟩
            · exact castE_err h4
            · cases h
  | .quant .., x, hp, _ => by simp [Raw.plain] at hp
  | .un op a, x, hp, h => by
      simp only [Raw.plain, Bool.and_eq_true] at hp
      simp only [build] at h
      rcases bind_err h with h1 | ⟨_, _, h⟩
      · exact build_err_type a x hp.2 h1
      · exact mkUn_known_err hp.1 h
  | .bin op a b, x, hp, h => by
      simp only [Raw.plain, Bool.and_eq_true] at hp
      simp only [build] at h
      rcases bind_err h with h1 | ⟨_, _, h⟩
      · exact build_err_type a x hp.1.2 h1
      · rcases bind_err h with h2 | ⟨_, _, h⟩
        · exact build_err_type b x hp.2 h2
        · exact mkBin_known_err hp.1.1 h
  | .call f args, x, hp, h => by
      simp only [Raw.plain, Bool.and_eq_true] at hp
      simp only [build] at h
      rcases bind_err h with h1 | ⟨_, _, h⟩
      · exact buildList_err_type args x hp.2 h1
      · exact mkCall_known_err hp.1 h
  | .field m n, x, hp, h => by
      simp only [Raw.plain] at hp
      simp only [build] at h
      rcases bind_err h with h1 | ⟨_, _, h⟩
      · exact build_err_type m x hp h1
      · exact mkFieldT_err h
  | .index a i, x, hp, h => by
      simp only [Raw.plain, Bool.and_eq_true] at hp
      simp only [build] at h
      rcases bind_err h with h1 | ⟨_, _, h⟩
      · exact build_err_type a x hp.1 h1
      · rcases bind_err h with h2 | ⟨_, _, h⟩
        · exact build_err_type i x hp.2 h2
        · exact mkIndexT_err h
theorem buildList_err_type : ∀ (rs : RawList) (x : Err), RawList.plainL rs = true → buildList rs = .error x → x = .type
  | .nil, x, _, h => by simp [buildList] at h
  | .cons r rs, x, hp, h => by
      simp only [RawList.plainL, Bool.and_eq_true] at hp
      simp only [buildList] at h
      rcases bind_err h with h1 | ⟨_, _, h⟩
      · exact build_err_type r x hp.1 h1
      · rcases bind_err h with h2 | ⟨_, _, h⟩
        · exact buildList_err_type rs x hp.2 h2
        · cases h
end

/-- **C05**: a quantifier-free term over known operators and functions that contains a definite clash is rejected with a type error -/
theorem clash_type_error (r : Raw) (hp : r.plain = true) (hc : HasClash r) : build r = .error .type := by
  cases h : build r with
  | ok e => exact absurd h (clash_rejected r hc e)
  | error x => rw [build_err_type r x hp h]

end Hpl
