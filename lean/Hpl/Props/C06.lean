import Hpl.Model.Printer
import Hpl.Model.Parser
/-! # C06 — printing a parsed AST and parsing it again gives the same AST (model printer; theorems in progress) -/
namespace Hpl

/-- an event disjunction prints the flat list of its alternatives, whatever its nesting (the grammar only accepts the
    flat form) -/
theorem print_disj_flat (a b c : Event) :
    (Event.disj a (.disj b c)).simpleEvents = (Event.disj (.disj a b) c).simpleEvents := by
  simp [Event.simpleEvents, List.append_assoc]

theorem print_disj_nesting_irrelevant (a b c : Event) :
    (Event.disj a (.disj b c)).print = (Event.disj (.disj a b) c).print := by
  simp [Event.print, print_disj_flat]

/-- a field of the current message prints as the bare field name, a field of anything else with a dot -/
theorem print_own_field (t t' : DataType) (n : String) : (Expr.field t (.this t') n).print = n := by
  simp [Expr.print]

end Hpl
